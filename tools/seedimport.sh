#!/bin/bash
# seedimport.sh <PROP>: copies the sub-agent output /tmp/mutout-<PROP>/{1,2,3} into /verif/seeded/<PROP>-k with a meta.json stub
P=$1
for k in 1 2 3; do
  src=/tmp/mutout-$P/$k; dst=/verif/seeded/$P-$k
  [ -f $src/patch.diff ] || continue
  mkdir -p $dst; cp $src/patch.diff $src/demo_test.go $src/notes.md $dst/
  python3 - "$dst" "$P-$k" "$P" <<'PY'
import json,sys,os
dst,i,p=sys.argv[1:4]
notes=open(os.path.join(dst,'notes.md')).read().split('\n')
body=' '.join(l for l in notes[2:] if l.strip())[:300]
m={"id":i,"property":p,"change":body,"confirmed":"tools/seedeval.sh: demo passes on the clean tree, fails with the patch (scratch worktree)"}
json.dump(m,open(os.path.join(dst,'meta.json'),'w'),indent=1)
PY
done
