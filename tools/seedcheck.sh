#!/bin/bash
# seedcheck.sh <seed-dir> <demo-pkg-dir> <prop> : confirm a seeded change in a scratch worktree, then run the property's check on /repo with it.
# 1. scratch worktree: demo passes on clean tree, existing tests of the touched packages pass with the patch, demo fails with the patch
# 2. /repo: git apply, ./vcheck <prop>, git checkout
set -u
SEED=$1; PKG=$2; PROP=$3; shift 3
export GOFLAGS=-mod=mod GOPROXY=off GOSUMDB=off GOTOOLCHAIN=local
WT=/tmp/seedwt_$$
git -C /repo worktree add -q --detach $WT HEAD || exit 2
trap 'git -C /repo worktree remove --force $WT >/dev/null 2>&1' EXIT
cp $SEED/demo_test.go $WT/$PKG/zz_seed_demo_test.go
(cd $WT && go test -count=1 -run 'Demo|Seed' ./$PKG/ > /tmp/seed_clean_$$.log 2>&1); CLEAN=$?
(cd $WT && git apply $SEED/patch.diff) || { echo "PATCH DOES NOT APPLY"; exit 2; }
(cd $WT && go build ./... > /tmp/seed_build_$$.log 2>&1); BUILD=$?
(cd $WT && go test -count=1 -run 'Demo|Seed' ./$PKG/ > /tmp/seed_mut_$$.log 2>&1); MUT=$?
rm $WT/$PKG/zz_seed_demo_test.go
TESTPKGS=${TESTPKGS:-./$PKG/...}
(cd $WT && go test -count=1 $TESTPKGS > /tmp/seed_suite_$$.log 2>&1); SUITE=$?
echo "demo on clean tree: exit $CLEAN (want 0); build with patch: $BUILD (want 0); demo with patch: exit $MUT (want !=0); existing tests ($TESTPKGS) with patch: exit $SUITE (want 0)"
tail -3 /tmp/seed_mut_$$.log
git -C /repo apply $SEED/patch.diff || { echo "cannot apply to /repo"; exit 2; }
(cd /verif && timeout 1500 ./vcheck $PROP "$@" > /tmp/seed_check_$$.log 2>&1); CHK=$?
git -C /repo checkout -- .
echo "check $PROP with the change: exit $CHK"
grep -m3 "^VIOLATION" /tmp/seed_check_$$.log
tail -1 /tmp/seed_check_$$.log
rm -f /tmp/seed_*_$$.log
