#!/bin/bash
# runs the quick check of every claimed property and prints the summary lines
cd /verif
for p in $(python3 -c "import json;print(' '.join(c['property_id'] for c in json.load(open('MANIFEST.json'))['checks']))") "$@"; do
  /usr/bin/time -f "$p wall %es" ./vcheck $p --tier ${TIER:-quick} 2>&1 | grep -E "^\[symgo\] C|KNOWN-FINDING|^VIOLATION|wall [0-9]|ERROR" | cut -c1-160
done
