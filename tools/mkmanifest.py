#!/usr/bin/env python3
"""Regenerates /verif/MANIFEST.json from the table below (claimed checks) and properties.jsonl (everything else n/a)."""
import json
V = "/verif"
props = [json.loads(l) for l in open(V + "/properties.jsonl")]

NOTE = ("trusted base: go/ssa (x/tools v0.29.0) lowering of /repo's current tree; the symgo engine's semantics of SSA instructions, "
        "intrinsics (math/bits, encoding/binary, math/big as exact integers) and listed stubs; z3 4.8.12 / z3 5.1.0 (any `(error` line = "
        "inconclusive); bounds and moduli sets as written in /verif/harness; a solver counterexample is reported only after it "
        "reproduces natively against the real build")

claimed = {
 "C01": dict(
   text="Bounded symbolic model checking of the real ring kernels from go/ssa: scalar reductions (MRed/BRed/MForm/IMForm/CRed + lazy forms) for all 64-bit inputs per modulus of a stated set; all 37 unrolled vector kernels (lane discipline on 16 lanes + lane semantics); forward/inverse NTT of the standard ring (N=16,32; thorough to 128) and of the conjugate-invariant ring (N=8,16,32; thorough to 128) by stage-cut lemmas whose concrete stage matrices compose to the definition matrix, with the documented output ranges; a refuted stage lemma is turned into a reproducible native witness by a registered deterministic search; every obligation is an SMT query (unsat for all values inside the bound).",
   ref="DESIGN.md §6-C01", technique="SSA symbolic execution + SMT (LIA with wrap elimination / BV), stage-cut inductive lemmas for the NTT"),
 "C02": dict(
   text="Word-level bounded symbolic model checking of the real RNS code with a CRT ghost: one coefficient carries an arbitrary mathematical integer (symbolic Int), the code sees its residues. Ring.DivFloor/DivRoundByLastModulus{,Many}{,NTT}: every output limb equals the exact floored / rounded-half-up quotient (all levels, 0..L rescalings). BasisExtender.ModUpQtoP/PtoQ: output ≡ x + e·Q for one e in {-1,0,1}, e=0 below Q/4; ModDownQPtoQ{,NTT}/QPtoP: rounded quotient up to 1; Decomposer.DecomposeAndSplit: digit ≡ x mod its group, same value (up to one group modulus, bounded by it) on all other Q and P limbs; ring.MaskVec power-of-two digits recombine. The float64 correction term is modelled with a sound rounding-error bound; MRed and multSum enter through exact contracts discharged on the real functions for the same moduli; CRT is the single arithmetic axiom (vCRTLift, premises discharged). NTT-domain variants run with the transforms replaced by identity-up-to-documented-lazy-range stand-ins.",
   ref="DESIGN.md §6-C02", technique="SSA symbolic execution + SMT (LIA/LRA with exact mod-q normalisation of specification terms, CRT ghost integer)"),
 "C03": dict(
   text="Algebraic slot model: the real key generator, encryptor (secret-key / public-key, with and without P, NTT and coefficient-domain parameter sets, every level) and decryptor are executed from SSA with every plaintext, key, mask and error coefficient a free element of Z_q (atom); Dec(Enc(pt))-pt must reduce to error/rounding atoms only, every coefficient must carry a fresh error atom, the two components must not share an error sample, metadata must be copied, decryption under an independent key must keep the uniform mask. The final polynomial identities are decided by the SMT solver over free monomial variables. Numeric noise bounds / empirical sigma are outside (statistical).",
   ref="DESIGN.md §6-C03, §4.3", technique="SSA symbolic execution in the algebraic slot model (field elements over atoms, kernel contracts from C01) + SMT (LIA) on the normalised identities"),
 "C04": dict(
   text="Algebraic slot model: real genEvaluationKey / AddPolyTimesGadgetVector, GadgetProduct (RNS digits with 0, 1 or several auxiliary primes; power-of-two digits of several widths incl. primes just above a power of two), ModDown and ApplyEvaluationKey executed from SSA with all ciphertext, key, mask and error coefficients free atoms; Dec_{s_out}(out) - Dec_{s_in}(in) must reduce to error/rounding terms for every key parameterisation of the harness (key LevelQ/LevelP below maximum, ciphertext level below key level, NTT and coefficient domain). Digits enter through contracts (RNS digit = input on its own limbs; power-of-two digits recombine over all digits needed to cover the bit length). A parameter set with 8x61-bit Q primes and 2x59-bit P primes exercises the lazy accumulation of the gadget product: the tracked ranges of everything handed to the inverse NTT, ModDown and Montgomery products must stay inside what that code tolerates (range obligations; confirmed by a native run on N=256). Ring-degree switching / ring packing and numeric noise bounds are outside.",
   ref="DESIGN.md §6-C04, §4.3", technique="SSA symbolic execution in the algebraic slot model + SMT (LIA) on the normalised identities; native replay on realistic-size primes"),
 "C05": dict(
   text="Algebraic slot model of the real bgv.Evaluator: Add/Sub (equal and different scales, through the real matchScalesBinary), Mul, MulRelin, Relinearize, Rescale on ciphertexts whose coefficients, keys and key-switch errors are atoms; the phase identities phi_out = phi_0 +- phi_1, T*phi_0*phi_1 (up to key-switch noise), q_L*phi_out = phi_in - delta, the scale bookkeeping modulo t, level/degree and the documented failure conditions are decided per limb. Scalar (*big.Int, uint64, int64, int) and vector operands go through the real encoder; the scale recorded by the scale-invariant product is checked against s0*s1*(-Q_level)^-1 mod t for every level. The data path of the scale-invariant (BFV) tensoring is outside (not a polynomial identity modulo the primes).",
   ref="DESIGN.md §6-C05", technique="SSA symbolic execution in the algebraic slot model + SMT (LIA) on the normalised identities"),
 "C06": dict(
   text="Ring-level algebraic slot model of the real ckks.Evaluator (Add, Sub, Mul, MulRelin, Rescale): phase identities per limb with atoms for all coefficients and exact scale/level bookkeeping (big.Float as exact reals). Numeric precision, vector/complex scalar operands and the floating-point encoder are outside (not encodable).",
   ref="DESIGN.md §6-C06", technique="SSA symbolic execution in the algebraic slot model + SMT (LIA) on the normalised identities"),
 "C07": dict(
   text="Integer (BGV/BFV) encoder from go/ssa. Plaintext-ring level in the algebraic slot model: DecodeRingT(EncodeRingT(v)) = v for all vector lengths and scales with every slot a free element of Z_t, unspecified slots decode to zero, encodings multiply slot-wise (real index permutation, real NTT over t as definition matrix). Word level: the scalar pipeline of Encode/Decode (reduction of arbitrary 64-bit and signed inputs, lifting t->Q with t^-1, basis extension back with the float correction under the rounding-error model, unscaling) returns the input modulo t, signed results centred, for every 64-bit input, every level, batched and coefficient domain (transforms replaced by identity stand-ins). Vector-length handling on concrete boundary vectors. The approximate (CKKS) encoder is outside: floating-point FFT. CKKS side, integer part only: SingleFloat64ToFixedPointCRT writes the residue of the rounded scaled value on every limb for every integer-valued input of either sign below 2^52 (float64 model in which these steps are exact); the floating-point embedding is not claimed.",
   ref="DESIGN.md §6-C07", technique="SSA symbolic execution: algebraic slot model for the ring-T part, word-level LIA/LRA with CRT ghost for the scalar pipeline + SMT"),
 "C08": dict(
   text="Stream-level symbolic execution of the real (de)serialisation code (ring.Poly through structs.Matrix/Vector and utils/buffer): round trip with all payload words symbolic through WriteTo/ReadFrom and MarshalBinary/UnmarshalBinary into fresh and reused receivers, announced size, every truncation point, corrupted length fields (classes small / negative / huge) with the allocation obligation on every symbolic make.",
   ref="DESIGN.md §6-C08", technique="SSA symbolic execution of the codecs over symbolic byte streams + SMT (BV); path forking on stream-dependent branches; native replay"),
 "C09": dict(
   text="For the bgv evaluator's binary operations (Add, Sub, Mul, MulRelin, MulRelinThenAdd; equal and different scales): every operand is compared coefficient-wise (atoms) before and after the call, the operation is repeated with the output aliased to the first and to the second operand and into an output object that previously held a larger-degree ciphertext, and the results must be identical polynomials / decrypt identically; big.Int scalar operands must be unchanged. The same for the ckks evaluator at ring level (Add, Sub, Mul, MulRelin at two levels, Rescale in and out of place, integer scalar operations into larger used outputs) and for the bgv unary/scalar operations.",
   ref="DESIGN.md §6-C09", technique="SSA symbolic execution in the algebraic slot model (exact polynomial identity of outputs across aliasing patterns) + SMT (LIA)"),
 "C10": dict(
   text="Differential + heap-model checking of the copy constructors from go/ssa (rlwe Evaluator/Encryptor/Decryptor ShallowCopy/WithKey/WithPRNG, bgv/ckks evaluators, deep copies of ciphertexts, plaintexts, keys, metadata): the same operation on the same symbolic inputs (every coefficient a free field element) through the original and through the copy must give identical results; an operation on the copy must leave every object reachable from the original unchanged (engine heap snapshot), a mutation of a deep copy must not reach the original, and no object written during an operation on a copy documented as concurrently usable may be reachable from the original (write-set separation: sufficient for race freedom of one-copy-per-goroutine, for all data values). Goroutine schedules and the race detector's view are outside: a sequential symbolic executor does not explore interleavings.",
   ref="DESIGN.md §6-C10", technique="SSA symbolic execution in the algebraic slot model with heap snapshots / write sets + SMT on the result identities"),
 "C11": dict(
   text="Word level (BV): Galois-element arithmetic of rlwe.Parameters (GaloisElement group law, periodicity in the generator order, ModInvGaloisElement, SolveDiscreteLogGaloisElement) for all 64-bit rotation indices, through the real ModExp/ModExpPow2 loops (if-converted). Algebraic level (in the C04 automorphism harness, shared code): Automorphism / AutomorphismHoisted / AutomorphismHoistedLazy decrypt to sigma_g of the plaintext with the slot permutation computed from the definition. Inner sums, replication and the scheme-level rotation wrappers are not yet covered.",
   ref="DESIGN.md §6-C11", technique="SSA symbolic execution + SMT (BV) on the Galois arithmetic; algebraic slot model for the induced ciphertext automorphisms"),
 "C12": dict(
   text="Integer-scheme linear transformations in the algebraic slot model from go/ssa: the real lintrans.NewLinearTransformation/Encode/BSGSIndex/FindBestBSGSRatio/GaloisElements and Evaluator.Evaluate/EvaluateMany/EvaluateSequential (MultiplyByDiagMatrix and its BSGS variant, hoisted rotations, ModDown) on a ciphertext and keys whose every coefficient is a free field element, concrete diagonals: phase(out) = Σ_d Embed(diag_d) ⊙ σ_{5^d}(phase(in)) up to key-switch noise, for positive/negative diagonal sets, every BSGS ratio incl. disabled, encoding and ciphertext levels below the maximum; the Galois keys generated for exactly the advertised elements suffice; output level and scale as documented. Dimension 2 x 8. The step to 'matrix-vector product slot-wise' is encoder equivariance (C07/C11). CKKS numeric precision is outside (floating-point encoder).",
   ref="DESIGN.md §6-C12", technique="SSA symbolic execution in the algebraic slot model + SMT (LIA) on the normalised polynomial identities"),
 "C13": dict(
   text="Integer-scheme polynomial evaluation in the algebraic slot model from go/ssa: the real Paterson-Stockmeyer evaluator (power basis, baby/giant steps, the scale simulator, relinearisation) runs on a ciphertext (x, 0) whose slots are free field elements; every output slot must be a univariate polynomial in its input slot whose concrete coefficients gamma_k satisfy gamma_k*T^(1-k)*s^k = S*a_k (mod t) for input scale s, requested scale S and the polynomial's coefficients a_k (p applied slot-wise at the target scale), second component zero; levels consumed = ceil(log2(deg+1)), output scale = target scale, too few levels refused; degrees 0..7 with zero leading/trailing coefficients, several levels and scales, polynomial vectors with slot mappings (unmapped slots zero). Natively the same harness decrypts and compares with p(m) mod t. CKKS (Chebyshev basis, composite sign/step/inverse/mod1 circuits) and the scale-invariant tensoring are outside: floating-point coefficients and precision bounds.",
   ref="DESIGN.md §6-C13", technique="SSA symbolic execution in the algebraic slot model (coefficient extraction of the slot polynomials) + SMT on the residual identities"),
 "C14": dict(
   text="Algebraic slot model of the real collective key-generation protocols (public key, relinearization key both rounds, Galois key) for 1-3 parties with all secrets, errors and CRS polynomials atoms: every party reads the same reference polynomial from equally keyed CRS objects, the aggregate is independent of order/grouping (exact polynomial identity), and the resulting key is a key of the sum of the secrets (checked by using it: encryption+decryption, relinearisation, automorphism under the ideal secret, up to error atoms); mismatched Galois shares are rejected; parameter sets with and without P. The numeric N-times-single-party noise bound and serialization of shares are outside here (C08).",
   ref="DESIGN.md §6-C14", technique="SSA symbolic execution in the algebraic slot model + SMT (LIA) on the normalised identities"),
 "C15": dict(
   text="Algebraic slot model of the real Thresholdizer and Combiner: secrets and all Shamir polynomial coefficients are atoms, public points concrete (small, 2^32-sized, above the moduli, 2^63+5); for every t-subset of the parties in every listing order the additive shares sum to the ideal secret as an exact polynomial identity over R_QP, and fewer than t active parties are refused. Symbolic public points are outside (non-linear Lagrange arithmetic).",
   ref="DESIGN.md §6-C15", technique="SSA symbolic execution in the algebraic slot model (concrete evaluation points) + SMT (LIA) on the normalised identities"),
 "C16": dict(
   text="Algebraic slot model of the real KeySwitchProtocol (incl. zero target key = collective decryption) and PublicKeySwitchProtocol for 1-3 parties, maximum level and level 0, with and without P: Dec under the target key of the switched ciphertext equals Dec under the ideal secret of the input up to error atoms, the aggregate is independent of order, every share carries a smudging error atom drawn from the configured distribution. mpbgv: EncToShare / ShareToEnc / Refresh / MaskedTransform run from SSA with the plaintext ring in the model (values modulo t as atoms, RingT2Q / RingQ2T as integer lift / CRT reduction): shares sum to the message exactly modulo t, re-encryption gives a maximum-level ciphertext of it, refresh returns the message and the masked transform f(message) for a linear f under each decode/encode flag setting. mpckks: the mask rescaling defaultScale/inputScale of refresh / transform at word level for all mask values; its big-integer share arithmetic and FFT are outside.",
   ref="DESIGN.md §6-C16", technique="SSA symbolic execution in the algebraic slot model + SMT (LIA) on the normalised identities"),
 "C20": dict(
   text="Algebraic slot model of the real rgsw.Encryptor and rgsw.Evaluator.ExternalProduct (in place and out of place): RLWE(m) x RGSW(g) decrypts to m*g up to error atoms for the general path with one and several auxiliary primes, the power-of-two path without P and the single-modulus 32-bit fast path, whose un-reduced 64-bit accumulation is tracked as a range obligation; each harness is additionally executed once natively (validation run on realistic primes), which checks the magnitude of the noise that the algebraic model cannot see. Blind rotation (LUT scaling, mod-switch) is outside.",
   ref="DESIGN.md §6-C20", technique="SSA symbolic execution in the algebraic slot model + SMT (LIA) on the normalised identities; tracked lazy ranges; native validation run"),
 "C17": dict(
   text="Word-level bounded symbolic model checking of the real samplers as deterministic functions of their byte source (a harness PRNG returning arbitrary symbolic bytes). Uniform: every coefficient is the masked accepted candidate below q_i, rejected candidates are skipped, ReadAndAdd adds modulo q_i, level views write only their limbs and continue the shared stream. Gaussian (ziggurat replaced by an arbitrary norm/sign, float64 arithmetic under the rounding-error model): all limbs hold the residues of one integer within the bound, also for flooding noise larger than a modulus. Ternary (p = 1/2, fixed Hamming weight): one value of {-1,0,1} on every limb, Montgomery and plain, exact Hamming weight, read-and-add keeps the other coefficients. Same stream + same calls give identical polynomials. Statistical clauses (mean, sigma, density, sign balance), the ziggurat tables, the general-p Knuth-Yao path and the blake2 XOF itself are outside.",
   ref="DESIGN.md §6-C17", technique="SSA symbolic execution over symbolic byte streams + SMT (BV; LIA/LRA for the Gaussian rounding)"),
 "C19": dict(
   text="Symbolic execution of rlwe.CheckModuli with a symbolic candidate modulus and an arbitrary primality oracle (solver characterises every accepted size), plus boundary witnesses (real primes) checked against the 61-bit size the arithmetic layer supports (8q<=2^64, from the C01 stage invariants).",
   ref="DESIGN.md §6-C19", technique="SSA symbolic execution + SMT (BV) over the acceptance predicates; concrete boundary witnesses replayed natively"),
}
pending = "check not built yet (build in progress)"
na_reasons = {
 "C18": "bootstrapping correctness is floating-point circuits over rings of degree >= 2^10 (DFT, EvalMod, iterations): not encodable for an SMT solver within reach; only the key-confinement clause is symbolic and is exercised under C04",
}
m = {
 "version": 1,
 "setup_cmd": "cd /verif && ./build.sh",
 "hooks": {"guard": "verif",
           "enable": "no source hooks: harnesses, the v* prelude and the native registry are injected into /repo's packages with `go build -overlay` / go/packages Overlay by /verif/vcheck; /repo is never edited by a check",
           "baseline_off_cmd": "cd /repo && go test -vet=off -count=1 -timeout 25m ./...",
           "source_commits": [], "add_only": True},
 "engines": [{"name": "symgo", "path": "/verif/engine", "serves_properties": sorted(claimed),
              "kind_free_text": "own symbolic executor for Go SSA (go/ssa) -> SMT-LIB2 (z3 4.8.12, z3 5.1.0), native replay of counterexamples"}],
 "checks": [], "not_applicable": [],
 "notes": "exit 0 = all obligations discharged (known findings printed as KNOWN-FINDING); 1 = natively confirmed violation; 2 = inconclusive (never success)."
}
for p in props:
    pid = p["id"]
    if pid in claimed:
        c = claimed[pid]
        m["checks"].append({
            "property_id": pid,
            "quick_cmd": f"./vcheck {pid} --tier quick",
            "thorough_cmd": f"./vcheck {pid} --tier thorough",
            "evidence_file": f"/verif/evidence/{pid}.json",
            "replay_cmd_template": "./vcheck --replay {path}",
            "engine": "symgo",
            "level_claimed": {"category": "model_checking", "text": c["text"], "design_ref": c["ref"]},
            "level_note": NOTE,
            "technique": c["technique"]})
    else:
        m["not_applicable"].append({"property_id": pid, "reason": na_reasons.get(pid, pending)})
json.dump(m, open(V + "/MANIFEST.json", "w"), indent=1)
print("claimed:", sorted(claimed))
