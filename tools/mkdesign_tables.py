#!/usr/bin/env python3
"""Regenerates the generated tables of DESIGN.md §12 (between the BEGIN/END markers) from known_findings.json and
seeded/*/meta.json."""
import json, glob, os, re
V = os.path.dirname(os.path.dirname(os.path.abspath(__file__)))
kf = json.load(open(os.path.join(V, "known_findings.json")))
rows = ["| id | property | status | what |", "|---|---|---|---|"]
for e in kf:
    st = e["status"] + (" " + e.get("commit", "") if e["status"] == "fixed" else "")
    what = re.sub(r"^fixed: property=C\d+ [0-9a-f]+ ", "", e["what"]).replace("|", "\\|")
    rows.append("| %s | %s | %s | %s |" % (e["id"], e["property"], st, what))
findings = "\n".join(rows)
rows = ["| seed | change | first run of the property's check | now |", "|---|---|---|---|"]
for f in sorted(glob.glob(os.path.join(V, "seeded", "*", "meta.json"))):
    m = json.load(open(f))
    first = m.get("check_result_when_first_run", "")
    now = m.get("check_result_now", "")
    rows.append("| %s | %s | %s | %s |" % (m["id"], m.get("change", "").replace("|", "\\|")[:160], first.replace("|", "\\|")[:90], now.replace("|", "\\|")[:90]))
seeds = "\n".join(rows)
p = os.path.join(V, "DESIGN.md")
s = open(p).read()
for name, body in (("FINDINGS", findings), ("SEEDS", seeds)):
    s = re.sub(r"(<!-- BEGIN %s -->\n).*?(<!-- END %s -->)" % (name, name), lambda m: m.group(1) + body + "\n" + m.group(2), s, flags=re.S)
open(p, "w").write(s)
print("tables regenerated")
