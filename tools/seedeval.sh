#!/bin/bash
# seedeval.sh <seed-id> [vcheck args]: development aid.  Confirms a stored seeded change in a scratch worktree
# (demo passes clean / fails with the change, existing tests of the listed packages pass with it) and runs the
# property's check against that worktree (VERIF_REPO), so that /repo stays untouched while other work goes on.
# (The registered checks always run on /repo; tools/seedcheck.sh does the same evaluation on /repo itself.)
set -u
ID=$1; shift
SEED=/verif/seeded/$ID
PROP=${PROP:-${ID%%-*}}
PKG=$(grep -m1 '^pkgdir:' $SEED/notes.md | sed 's/pkgdir: *//')
TESTPKGS=$(grep -m1 '^testpkgs:' $SEED/notes.md | sed 's/testpkgs: *//')
[ -z "$PKG" ] && PKG=${PKGDIR:-ring}
[ -z "$TESTPKGS" ] && TESTPKGS="./$PKG/..."
export GOFLAGS=-mod=mod GOPROXY=off GOSUMDB=off GOTOOLCHAIN=local
WT=/tmp/seedwt_$ID
git -C /repo worktree remove --force $WT >/dev/null 2>&1
git -C /repo worktree add -q --detach $WT HEAD || exit 2
trap 'git -C /repo worktree remove --force $WT >/dev/null 2>&1' EXIT
L=/tmp/seedlog_$ID
cp $SEED/demo_test.go $WT/$PKG/zz_seed_demo_test.go
(cd $WT && go test -count=1 -run 'Demo|Seed' ./$PKG/ > $L.clean 2>&1); CLEAN=$?
(cd $WT && git apply $SEED/patch.diff) || { echo "$ID PATCH DOES NOT APPLY"; exit 2; }
(cd $WT && go build ./... > $L.build 2>&1); BUILD=$?
(cd $WT && go test -count=1 -run 'Demo|Seed' ./$PKG/ > $L.mut 2>&1); MUT=$?
rm $WT/$PKG/zz_seed_demo_test.go
SUITE=skipped
if [ -z "${NOSUITE:-}" ]; then (cd $WT && go test -count=1 $TESTPKGS > $L.suite 2>&1); SUITE=$?; fi
(cd /verif && VERIF_REPO=$WT timeout 1800 ./vcheck $PROP "$@" > $L.check 2>&1); CHK=$?
echo "$ID demo-clean=$CLEAN(want 0) build=$BUILD demo-mut=$MUT(want !=0) suite=$SUITE(want 0) check-exit=$CHK :: $(grep -m1 '^VIOLATION' $L.check | cut -c1-160) :: $(tail -1 $L.check | cut -c1-150)"
# record the result of the registered check as it is now
python3 - "$SEED/meta.json" "$CHK" "$(grep -m1 '^VIOLATION' $L.check | sed 's/.*replays\///; s/_[0-9a-f]*\.json//' | cut -c1-150)" <<'PY'
import json, sys
p, chk, viol = sys.argv[1:4]
try:
    m = json.load(open(p))
except Exception:
    m = {}
m["check_result_now"] = ("DETECTED exit 1: " + viol) if chk == "1" else ("MISSED exit " + chk)
json.dump(m, open(p, "w"), indent=1)
PY
