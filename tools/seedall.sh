#!/bin/bash
# re-evaluates every stored seeded change against the registered quick check of its property (scratch worktrees under
# /tmp, 4 at a time) and refreshes check_result_now in the seed metadata; prints one line per seed
cd /verif
ls seeded | xargs -P ${PAR:-4} -I{} sh -c 'NOSUITE=1 timeout 2400 tools/seedeval.sh {} --tier quick 2>/dev/null | cut -c1-200'
git -C /repo worktree prune
