#!/bin/bash
# builds the engine + harness overlay of every claimed property (no harness is run): catches harness compile errors
cd /verif
rc=0
for p in $(python3 -c "import json;print(' '.join(c['property_id'] for c in json.load(open('MANIFEST.json'))['checks']))"); do
  out=$(timeout 600 ./vcheck $p --tier quick --harness __none__ 2>&1 | grep -A6 "build failed")
  if [ -n "$out" ]; then echo "$p: BUILD FAILED"; echo "$out" | head -8; rc=1; else echo "$p: ok"; fi
done
exit $rc
