#!/bin/bash
# seedimport2.sh <PROP> <first-index>: imports /tmp/mutout-<PROP>/{1,2,3} as seeded/<PROP>-<first-index..>, removes the sub-agent's worktree
P=$1; N=$2; R=${3:-7}
for k in 1 2 3; do
  src=/tmp/mutout-$P/$k; dst=/verif/seeded/$P-$((N+k-1))
  [ -f $src/patch.diff ] || continue
  mkdir -p $dst; cp $src/patch.diff $src/demo_test.go $src/notes.md $dst/
  python3 - "$dst" "$P-$((N+k-1))" "$P" "$R" <<'PY'
import json,sys,os
dst,i,p,r=sys.argv[1:5]
notes=open(os.path.join(dst,'notes.md')).read().split('\n')
body=' '.join(l for l in notes[2:] if l.strip())[:300]
m={"id":i,"property":p,"round":int(r),"change":body,"confirmed":"tools/seedeval.sh: demo passes on the clean tree, fails with the patch (scratch worktree)"}
json.dump(m,open(os.path.join(dst,'meta.json'),'w'),indent=1)
PY
done
git -C /repo worktree remove --force /tmp/mut-$P 2>/dev/null; git -C /repo worktree prune; rm -rf /tmp/mutout-$P
