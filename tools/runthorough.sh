#!/bin/bash
# runs the thorough check of every claimed property (per-property cap 75 min) and prints the summary lines
cd /verif
for p in $(python3 -c "import json;print(' '.join(c['property_id'] for c in json.load(open('MANIFEST.json'))['checks']))") "$@"; do
  /usr/bin/time -f "$p wall %es" timeout 4500 ./vcheck $p --tier thorough 2>&1 | grep -E "^\[symgo\] C|^VIOLATION|INCONCLUSIVE|NOT-COVERED|wall [0-9]|ERROR" | cut -c1-220 | head -12
done
