#!/bin/bash
# Offline build of the verification driver. The symbolic engine itself is rebuilt by every check
# (it links /repo's current tree through a build overlay), so this only checks the toolchain.
set -e
cd /verif
export GOFLAGS=-mod=mod GOPROXY=off GOSUMDB=off GOTOOLCHAIN=local
mkdir -p bin evidence .work
echo "build ok"
