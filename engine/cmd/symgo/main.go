// symgo: runs the harnesses of one property symbolically against /repo's current tree and writes the evidence.
package main

import (
	"encoding/json"
	"flag"
	"fmt"
	"os"
	"path/filepath"
	"reflect"
	"regexp"
	"runtime"
	"runtime/debug"
	"runtime/pprof"
	"sort"
	"strings"
	"syscall"
	"time"

	"golang.org/x/tools/go/ssa"

	"verif/engine/symgo"
)

var natives = map[string]map[string]interface{}{}

// RegisterNatives is called from the generated natives_gen.go (one call per harness package).
func RegisterNatives(pkg string, m map[string]interface{}) { natives[pkg] = m }

type knownFinding struct {
	Property      string `json:"property"`
	ID            string `json:"id"`
	Status        string `json:"status"` // open | fixed
	Harness       string `json:"harness"`
	Obligation    string `json:"obligation"`
	WhereContains string `json:"where_contains,omitempty"`
	What          string `json:"what"`
	Commit        string `json:"commit,omitempty"`
	// MatchUnconfirmed: engine-only obligations (tracked-range overflow) of this harness that belong to the finding
	MatchUnconfirmed bool `json:"match_unconfirmed,omitempty"`
}

func main() {
	prop := flag.String("prop", "", "property id (C01...)")
	tier := flag.String("tier", "quick", "quick|thorough")
	overlayPath := flag.String("overlay", "", "go build overlay json")
	repo := flag.String("repo", "/repo", "repository root")
	out := flag.String("out", "", "evidence file")
	replayDir := flag.String("replaydir", "/verif/replays", "directory for counterexample replay files")
	workers := flag.Int("workers", runtime.NumCPU(), "parallel path workers")
	only := flag.String("harness", "", "regexp selecting harnesses")
	nativeReplay := flag.String("native-replay", "", "run a replay file natively and print the result")
	pkgsFlag := flag.String("pkgs", "", "comma separated package patterns to load")
	known := flag.String("known", "/verif/known_findings.json", "known findings file")
	verbose := flag.Bool("v", false, "verbose")
	maxPaths := flag.Int("maxpaths", 20000, "path limit per harness")
	seed := flag.Int64("seed", 1, "seed")
	budget := flag.Int("budget", 0, "per-obligation solver budget in ms (0 = tier default)")
	cpuprof := flag.String("cpuprofile", "", "write a CPU profile")
	flag.Parse()
	debug.SetGCPercent(400)
	if *cpuprof != "" {
		f, _ := os.Create(*cpuprof)
		pprof.StartCPUProfile(f)
		defer pprof.StopCPUProfile()
	}

	if *nativeReplay != "" {
		os.Exit(runNative(*nativeReplay, *tier))
	}
	t0 := time.Now()
	ov, err := symgo.ReadOverlay(*overlayPath)
	if err != nil {
		fmt.Println("ERROR reading overlay:", err)
		os.Exit(2)
	}
	patterns := strings.Split(*pkgsFlag, ",")
	eng, err := symgo.Load(*repo, ov, patterns)
	if err != nil {
		fmt.Println("ERROR loading packages:", err)
		os.Exit(2)
	}
	eng.Natives = natives
	eng.Tier = 0
	symgo.NativeReplayTier = *tier
	if *tier == "thorough" {
		eng.Tier = 1
	}
	eng.Seed = *seed
	fmt.Printf("[symgo] loaded %d packages, SSA built in %.1fs\n", len(eng.Pkgs), eng.LoadSecs)
	self, _ := os.Executable()
	hs := eng.Harnesses(*prop)
	var re *regexp.Regexp
	if *only != "" {
		re = regexp.MustCompile(*only)
	}
	opts := &symgo.RunOptions{Workers: *workers, MaxPaths: *maxPaths, ReplayDir: *replayDir, SelfExe: self, Verbose: *verbose}
	if *tier == "thorough" {
		opts.BudgetsMs = []int{300000}
	} else {
		opts.BudgetsMs = []int{60000}
	}
	if *budget > 0 {
		opts.BudgetsMs = []int{*budget}
	}
	nsolve := runtime.NumCPU() / 2
	if nsolve < 2 {
		nsolve = 2
	}
	opts.Pool = symgo.NewSolvePool(nsolve, symgo.DefaultConfigs)
	defer opts.Pool.Close()
	var kf []knownFinding
	if b, err := os.ReadFile(*known); err == nil {
		json.Unmarshal(b, &kf)
	}
	var results []*symgo.HarnessResult
	runOne := func(h *ssa.Function) *symgo.HarnessResult {
		name := h.Name()
		hr := eng.RunHarness(h, opts)
		counts := map[string]int{}
		for _, r := range hr.Results {
			counts[r.Verdict]++
		}
		fmt.Printf("[symgo] %-44s paths=%d obligations=%d %v steps=%d %.1fs\n", name, hr.Paths, len(hr.Results), counts, hr.Steps, hr.Seconds)
		for _, e := range hr.EngineErrs {
			fmt.Printf("[symgo]   NOT-COVERED %s: %s\n", name, e)
		}
		if hr.PathLimit {
			fmt.Printf("[symgo]   INCONCLUSIVE %s: path/time limit reached\n", name)
		}
		if *verbose {
			for _, r := range hr.Results {
				fmt.Printf("    path %d %-30s %-12s %-22s %.2fs %s\n", r.Path, r.ID, r.Verdict, r.Solver, r.Seconds, r.Note)
			}
		}
		return hr
	}
	lemmaFailed := false
	for _, h := range hs {
		name := h.Name()
		if re != nil && !re.MatchString(name) {
			continue
		}
		if strings.Contains(name, "_T_") && *tier != "thorough" {
			continue
		}
		if strings.Contains(name, "_FB_") {
			continue
		}
		hr := runOne(h)
		results = append(results, hr)
		for _, r := range hr.Results {
			if r.Kind == "lemma" && r.Verdict == "unconfirmed" {
				lemmaFailed = true
			}
		}
		nativeValidation(h, hr, *replayDir, self, *seed)
	}
	if lemmaFailed {
		// a stage lemma was refuted: look for an end-to-end, natively replayable counterexample
		fmt.Println("[symgo] stage lemma refuted: running the end-to-end fallback harnesses to obtain a replayable counterexample")
		save := opts.BudgetsMs
		opts.BudgetsMs = []int{15000}
		opts.HarnessTimeS = 120
		for _, h := range hs {
			if !strings.Contains(h.Name(), "_FB_") {
				continue
			}
			hr := runOne(h)
			// only confirmed violations of a fallback harness count
			var keep []symgo.OblResult
			for _, r := range hr.Results {
				if r.Verdict == "violated" {
					keep = append(keep, r)
				}
			}
			hr.Results = keep
			hr.EngineErrs = nil
			hr.PathLimit = false
			results = append(results, hr)
		}
		opts.BudgetsMs = save
		opts.HarnessTimeS = 0
	}
	code := report(*prop, *tier, *seed, results, kf, *out, time.Since(t0).Seconds(), eng)
	pprof.StopCPUProfile()
	os.Exit(code)
}

// nativeValidation runs the harness once natively (pseudo-random atoms / zero inputs) and compares with the engine's
// verdicts: an assertion the engine discharged but that fails on the real build with real numbers (e.g. an error
// term of the wrong magnitude, which the algebraic model cannot see) is reported as a violation found by the
// validation run, with its replay file.
func nativeValidation(h *ssa.Function, hr *symgo.HarnessResult, replayDir, self string, seed int64) {
	rf := symgo.ReplayFile{Tier: symgo.NativeReplayTier, Package: h.Pkg.Pkg.Path(), Harness: h.Name(), Obligation: "native-validation", Kind: "validation",
		Inputs: map[string]string{"@seed": fmt.Sprint(seed*2654435761 + 12345)}}
	os.MkdirAll(replayDir, 0o755)
	path := filepath.Join(replayDir, h.Name()+"_native-validation.json")
	b, _ := json.MarshalIndent(rf, "", " ")
	os.WriteFile(path, b, 0o644)
	nr := symgo.RunNativeReplay(self, path, 120*time.Second)
	hr.NativeValidated = true
	if nr.AssumeFailed {
		return
	}
	engineSaw := map[string]string{}
	for _, r := range hr.Results {
		if r.Verdict == "violated" || r.Verdict == "unconfirmed" {
			engineSaw[r.ID] = r.Verdict
		}
	}
	for _, id := range nr.Failed {
		if _, ok := engineSaw[id]; ok {
			continue
		}
		hr.Results = append(hr.Results, symgo.OblResult{Harness: h.Name(), ID: id, Kind: "validation", Verdict: "violated", Replay: path,
			Note: "assertion fails in the native validation run of the harness (real build, concrete numbers) although the symbolic run discharged it"})
	}
	if (nr.Panic != "" || nr.Crashed) && len(nr.Failed) == 0 {
		hr.Results = append(hr.Results, symgo.OblResult{Harness: h.Name(), ID: "native-validation-no-panic", Kind: "validation", Verdict: "violated", Replay: path,
			Note: "native validation run panicked: " + nr.Panic + nr.Output})
	}
}

func matchKnown(kf []knownFinding, prop string, r *symgo.OblResult) *knownFinding {
	for i := range kf {
		k := &kf[i]
		if k.Property != prop || k.Status != "open" {
			continue
		}
		if k.Harness != "" && k.Harness != r.Harness {
			continue
		}
		if k.Obligation != "" && k.Obligation != r.ID {
			continue
		}
		if k.WhereContains != "" && !strings.Contains(r.Where+" "+r.Note, k.WhereContains) {
			continue
		}
		return k
	}
	return nil
}

func report(prop, tier string, seed int64, results []*symgo.HarnessResult, kf []knownFinding, out string, wall float64, eng *symgo.Engine) int {
	type sample struct {
		Harness    string `json:"harness"`
		Obligation string `json:"obligation"`
		Verdict    string `json:"verdict"`
		Solver     string `json:"solver"`
		SMT        string `json:"smt_head,omitempty"`
	}
	var (
		total, discharged, violated, unknown, unconfirmed, witnessOK, vacuous, symbolicObl, paths int
		solverSecs                                                                                float64
		samples                                                                                   []sample
		funcs                                                                                     = map[string]int{}
		notCovered                                                                                []string
		harnessNames                                                                              []string
		stubs                                                                                     = map[string]string{}
		violations                                                                                []symgo.OblResult
		knownSeen                                                                                 = map[string]bool{}
		distinct                                                                                  = map[string]bool{}
		queriesBySolver                                                                           = map[string]int{}
		steps                                                                                     int64
	)
	exit := 0
	for _, hr := range results {
		harnessNames = append(harnessNames, hr.Name)
		paths += hr.Paths
		steps += hr.Steps
		for k, v := range hr.Funcs {
			funcs[k] += v
		}
		for k, v := range hr.Stubs {
			stubs[k] = v
		}
		for _, e := range hr.EngineErrs {
			notCovered = append(notCovered, hr.Name+": "+e)
		}
		if hr.PathLimit {
			notCovered = append(notCovered, hr.Name+": path/time limit reached")
		}
		hadWitness := false
		for i := range hr.Results {
			r := &hr.Results[i]
			total++
			solverSecs += r.Seconds
			if r.Solver != "" {
				queriesBySolver[r.Solver]++
			}
			if r.Symbolic {
				symbolicObl++
				distinct[r.Harness+"|"+r.ID+"|"+r.Where] = true
			}
			switch r.Verdict {
			case "discharged":
				discharged++
			case "witness-ok":
				witnessOK++
				hadWitness = true
			case "vacuous":
				vacuous++
				notCovered = append(notCovered, fmt.Sprintf("%s: reachability witness %s is unreachable (vacuous harness)", hr.Name, r.ID))
			case "violated":
				if k := matchKnown(kf, prop, r); k != nil {
					if !knownSeen[k.ID] {
						fmt.Printf("KNOWN-FINDING: property=%s %s (%s; harness %s obligation %s)\n", prop, k.What, k.ID, r.Harness, r.ID)
						knownSeen[k.ID] = true
					}
					discharged++ // accounted for
				} else {
					violated++
					violations = append(violations, *r)
				}
			case "unconfirmed":
				if k := matchKnown(kf, prop, r); k != nil && k.MatchUnconfirmed {
					if !knownSeen[k.ID] {
						fmt.Printf("KNOWN-FINDING: property=%s %s (%s; harness %s obligation %s)\n", prop, k.What, k.ID, r.Harness, r.ID)
						knownSeen[k.ID] = true
					}
					r.Verdict = "known-finding"
					discharged++
				} else {
					unconfirmed++
				}
			default:
				unknown++
			}
			if len(samples) < 6 && r.Symbolic && (r.Verdict == "discharged" || r.Verdict == "violated") && r.Sample != "" {
				head := r.Sample
				if len(head) > 1200 {
					head = head[:1200] + " ..."
				}
				samples = append(samples, sample{r.Harness, r.ID, r.Verdict, r.Solver, head})
			}
		}
		_ = hadWitness
	}
	seenReplay := map[string]bool{}
	for _, v := range violations {
		exit = 1
		if seenReplay[v.Replay] {
			continue
		}
		seenReplay[v.Replay] = true
		if len(v.Model) > 12 {
			v.Model = map[string]string{"...": fmt.Sprintf("%d inputs, see replay file", len(v.Model))}
		}
		fmt.Printf("VIOLATION property=%s replay=%s\n", prop, v.Replay)
		fmt.Printf("  harness=%s obligation=%s kind=%s where=%s model=%v %s\n", v.Harness, v.ID, v.Kind, v.Where, v.Model, v.Note)
		exit = 1
	}
	if exit == 0 && (unknown > 0 || unconfirmed > 0 || len(notCovered) > 0 || vacuous > 0) {
		exit = 2
	}
	if len(results) == 0 {
		fmt.Println("ERROR: no harness found for", prop)
		exit = 2
	}
	for _, hr := range results {
		for _, r := range hr.Results {
			if r.Verdict == "unknown" || r.Verdict == "unconfirmed" || r.Verdict == "error" {
				fmt.Printf("INCONCLUSIVE %s %s path=%d verdict=%s solver=%s %s replay=%s\n", r.Harness, r.ID, r.Path, r.Verdict, r.Solver, r.Note, r.Replay)
			}
		}
	}
	var fl []string
	for f, n := range funcs {
		if strings.Contains(f, "VerifH_") || strings.HasPrefix(filepath.Base(f), "v") && false {
			continue
		}
		fl = append(fl, fmt.Sprintf("%s x%d", f, n))
	}
	sort.Strings(fl)
	if len(fl) > 400 {
		fl = fl[:400]
	}
	solverStats := map[string]interface{}{}
	for name, s := range symgo.GlobalSolverStats {
		solverStats[name] = map[string]interface{}{"queries": s.Queries.Load(), "sat": s.Sat.Load(), "unsat": s.Unsat.Load(), "unknown": s.Unknown.Load(),
			"errors": s.Errors.Load(), "seconds": float64(s.Nanos.Load()) / 1e9}
	}
	if len(samples) == 0 {
		samples = append(samples, sample{Harness: "-", Obligation: "no symbolic obligation recorded"})
	}
	ev := map[string]interface{}{
		"property_id": prop,
		"tier":        tier,
		"seed":        seed,
		"level":       "model_checking",
		"coverage": map[string]interface{}{
			"evaluations":                total,
			"distinct_nontrivial":        len(distinct),
			"rule":                       "one evaluation = one solver-decided obligation (assertion, implicit run-time check, unwinding/allocation check or reachability witness) on one explored path of a harness; it is non-trivial when its formula contains at least one free symbolic variable; distinct = distinct (harness, obligation id, location)",
			"samples":                    samples,
			"obligations":                total,
			"discharged":                 discharged,
			"violated":                   violated,
			"unknown":                    unknown,
			"unconfirmed":                unconfirmed,
			"reachability_witnesses":     witnessOK,
			"vacuous":                    vacuous,
			"symbolic_obligations":       symbolicObl,
			"paths_explored":             paths,
			"ssa_instructions_stepped":   steps,
			"harnesses":                  harnessNames,
			"functions_encoded":          fl,
			"stubs":                      stubs,
			"not_covered":                notCovered,
			"solver_seconds":             solverSecs,
			"queries_by_deciding_solver": queriesBySolver,
			"solver_processes":           solverStats,
			"ssa_load_seconds":           eng.LoadSecs,
			"exhaustive":                 false,
			"explanation":                "bounded symbolic execution of the real functions from go/ssa; every obligation decided by an SMT solver for all values inside the bounds stated in the harness",
		},
		"assumptions": []string{
			"go/ssa lowering of /repo's current tree (x/tools v0.29.0) and the engine's semantics of SSA instructions and intrinsics",
			"SMT solvers z3 4.8.12 / z3 5.1.0 (any `(error` line makes an answer inconclusive)",
			"math/big.Int modelled as unbounded integers; big.Float as exact reals",
			"bounds: concrete ring degrees, moduli sets, slice lengths and loop bounds written in the harness sources under /verif/harness",
		},
		"wall_s":     wall,
		"violations": violated,
	}
	if out != "" {
		os.MkdirAll(filepath.Dir(out), 0o755)
		b, _ := json.MarshalIndent(ev, "", " ")
		os.WriteFile(out, b, 0o644)
	}
	fmt.Printf("[symgo] %s tier=%s: %d obligations, %d discharged, %d violated, %d unknown, %d unconfirmed, %d not-covered; %d paths; solver %.1fs; wall %.1fs; exit %d\n",
		prop, tier, total, discharged, violated, unknown, unconfirmed, len(notCovered), paths, solverSecs, wall, exit)
	return exit
}

// runNative executes a harness natively on the inputs of a replay file.
func runNative(path, tier string) int {
	// bound the address space so that an unbounded allocation fails fast instead of exhausting the sandbox
	lim := syscall.Rlimit{Cur: 8 << 30, Max: 8 << 30}
	syscall.Setrlimit(syscall.RLIMIT_AS, &lim)
	b, err := os.ReadFile(path)
	if err != nil {
		fmt.Println("cannot read replay:", err)
		return 2
	}
	var rf symgo.ReplayFile
	if err := json.Unmarshal(b, &rf); err != nil {
		fmt.Println("bad replay file:", err)
		return 2
	}
	reg, ok := natives[rf.Package]
	if !ok {
		fmt.Println("no natives for package", rf.Package)
		return 2
	}
	h, ok := reg[rf.Harness]
	if !ok {
		fmt.Println("no native harness", rf.Harness)
		return 2
	}
	t := 0
	if tier == "thorough" {
		t = 1
	}
	reflect.ValueOf(reg["@reset"]).Call([]reflect.Value{reflect.ValueOf(rf.Inputs), reflect.ValueOf(t)})
	var nr symgo.NativeResult
	func() {
		defer func() {
			if r := recover(); r != nil {
				if reflect.TypeOf(r).Name() == "vAssumeFailed" {
					nr.AssumeFailed = true
					return
				}
				nr.Panic = fmt.Sprint(r)
			}
		}()
		reflect.ValueOf(h).Call(nil)
	}()
	outs := reflect.ValueOf(reg["@result"]).Call(nil)
	nr.Failed, _ = outs[0].Interface().([]string)
	nr.Observed, _ = outs[1].Interface().(map[string]string)
	j, _ := json.Marshal(nr)
	fmt.Println("VERIF-NATIVE-RESULT " + string(j))
	if len(nr.Failed) > 0 || nr.Panic != "" {
		return 1
	}
	return 0
}
