module verif/engine

go 1.23

require (
	github.com/tuneinsight/lattigo/v6 v6.0.0
	golang.org/x/tools v0.29.0
)

require (
	github.com/ALTree/bigfloat v0.0.0-20220102081255-38c8b72a9924 // indirect
	github.com/davecgh/go-spew v1.1.1 // indirect
	github.com/google/go-cmp v0.6.0 // indirect
	github.com/pmezard/go-difflib v1.0.0 // indirect
	github.com/stretchr/testify v1.8.0 // indirect
	golang.org/x/crypto v0.31.0 // indirect
	golang.org/x/exp v0.0.0-20230321023759-10a507213a29 // indirect
	golang.org/x/mod v0.22.0 // indirect
	golang.org/x/sync v0.10.0 // indirect
	golang.org/x/sys v0.29.0 // indirect
	gopkg.in/yaml.v3 v3.0.1 // indirect
)

replace github.com/tuneinsight/lattigo/v6 => /repo
