package symgo

// cfg.go: per-function control-flow facts: immediate post-dominators (join points for if-conversion)
// and loop headers.

import (
	"sync"

	"golang.org/x/tools/go/ssa"
)

type fnInfo struct {
	ipdom      []int  // immediate post-dominator block index, -1 = function exit
	loopHeader []bool // block is the target of a back edge
	hasDefer   bool
	outerLoops []int // block indices of outermost loop headers, in block order
}

// outerLoopIndex returns the ordinal of an outermost loop header, or -1.
func (fi *fnInfo) outerLoopIndex(b int) int {
	for i, h := range fi.outerLoops {
		if h == b {
			return i
		}
	}
	return -1
}

var fnInfoCache sync.Map // *ssa.Function -> *fnInfo

func getFnInfo(fn *ssa.Function) *fnInfo {
	if v, ok := fnInfoCache.Load(fn); ok {
		return v.(*fnInfo)
	}
	fi := computeFnInfo(fn)
	fnInfoCache.Store(fn, fi)
	return fi
}

func computeFnInfo(fn *ssa.Function) *fnInfo {
	n := len(fn.Blocks)
	fi := &fnInfo{ipdom: make([]int, n), loopHeader: make([]bool, n)}
	for _, b := range fn.Blocks {
		for _, in := range b.Instrs {
			if _, ok := in.(*ssa.Defer); ok {
				fi.hasDefer = true
			}
		}
	}
	// post-dominator sets by iterative data flow on bitsets (functions are small).
	exit := n
	words := (n + 1 + 63) / 64
	full := make([]uint64, words)
	for i := 0; i <= n; i++ {
		full[i/64] |= 1 << (uint(i) % 64)
	}
	pd := make([][]uint64, n+1)
	for i := 0; i <= n; i++ {
		pd[i] = append([]uint64(nil), full...)
	}
	pd[exit] = make([]uint64, words)
	pd[exit][exit/64] |= 1 << (uint(exit) % 64)
	succs := func(b *ssa.BasicBlock) []int {
		if len(b.Succs) == 0 {
			return []int{exit}
		}
		r := make([]int, len(b.Succs))
		for i, s := range b.Succs {
			r[i] = s.Index
		}
		return r
	}
	changed := true
	for changed {
		changed = false
		for i := n - 1; i >= 0; i-- {
			b := fn.Blocks[i]
			nw := append([]uint64(nil), full...)
			for _, s := range succs(b) {
				for w := range nw {
					nw[w] &= pd[s][w]
				}
			}
			nw[i/64] |= 1 << (uint(i) % 64)
			for w := range nw {
				if nw[w] != pd[i][w] {
					changed = true
				}
			}
			pd[i] = nw
		}
	}
	count := func(s []uint64) int {
		c := 0
		for _, w := range s {
			for ; w != 0; w &= w - 1 {
				c++
			}
		}
		return c
	}
	for i := 0; i < n; i++ {
		// ipdom = the strict post-dominator with the largest post-dominator set (closest)
		best, bestc := -1, -1
		for j := 0; j <= n; j++ {
			if j == i || pd[i][j/64]&(1<<(uint(j)%64)) == 0 {
				continue
			}
			if c := count(pd[j]); c > bestc {
				best, bestc = j, c
			}
		}
		if best == exit {
			best = -1
		}
		fi.ipdom[i] = best
	}
	// natural loop bodies: for back edge b->h, all blocks that reach b without passing h
	inLoop := map[int]map[int]bool{}
	for _, b := range fn.Blocks {
		for _, s := range b.Succs {
			if s.Dominates(b) {
				fi.loopHeader[s.Index] = true
				body := inLoop[s.Index]
				if body == nil {
					body = map[int]bool{s.Index: true}
					inLoop[s.Index] = body
				}
				stack := []*ssa.BasicBlock{b}
				for len(stack) > 0 {
					x := stack[len(stack)-1]
					stack = stack[:len(stack)-1]
					if body[x.Index] {
						continue
					}
					body[x.Index] = true
					stack = append(stack, x.Preds...)
				}
			}
		}
	}
	for h := 0; h < n; h++ {
		if !fi.loopHeader[h] {
			continue
		}
		outer := true
		for h2, body := range inLoop {
			if h2 != h && body[h] {
				outer = false
			}
		}
		if outer {
			fi.outerLoops = append(fi.outerLoops, h)
		}
	}
	return fi
}
