package symgo

// intrinsics.go: functions the engine does not interpret from SSA: the harness prelude (v*), natively executed
// set-up functions, and leaf functions of the standard library with exact semantics on symbolic terms.

import (
	"fmt"
	"go/token"
	"go/types"
	"math"
	"math/bits"
	"reflect"
	"strings"

	"golang.org/x/tools/go/ssa"
)

type intrinsic func(x *Exec, fn *ssa.Function, args []Value) Value

var intrinsics map[string]intrinsic

func init() {
	intrinsics = map[string]intrinsic{}
	registerBits()
	registerBinary()
	registerFmtErrors()
	registerSync()
	registerMath()
	registerBig()
	registerMisc()
}

func fnKey(fn *ssa.Function) string {
	if o := fn.Origin(); o != nil {
		return o.String()
	}
	return fn.String()
}

func (x *Exec) intercept(fn *ssa.Function, args []Value, site ssa.Instruction) (Value, bool) {
	name := fn.Name()
	if name == "init" && fn.Pkg != nil && fn.Synthetic != "" && len(x.stack) > 0 {
		// a package initializer called from another initializer: run it under the init policy (once, tolerant)
		x.runInit(fn.Pkg)
		return nil, true
	}
	if fn.Pkg != nil && len(name) > 1 && name[0] == 'v' && name[1] >= 'A' && name[1] <= 'Z' && fn.Signature.Recv() == nil {
		if h, ok := preludeFns[name]; ok {
			return h(x, fn, args), true
		}
	}
	if strings.HasPrefix(name, "VerifSetup_") || strings.HasPrefix(name, "VerifNative_") {
		if fn.Pkg != nil {
			if reg, ok := x.eng.Natives[fn.Pkg.Pkg.Path()]; ok {
				if nf, ok := reg[name]; ok {
					r, ok := x.callNative(reflect.ValueOf(nf), args, fn.Signature, name)
					if !ok {
						panic(x.errf("native set-up function %s needs concrete basic arguments", name))
					}
					return r, true
				}
			}
		}
		panic(x.errf("native function %s is not registered (build the engine with the harness overlay)", name))
	}
	key := fnKey(fn)
	if hn, ok := x.eng.Natives["@host"][key]; ok {
		if r, ok := x.callNative(reflect.ValueOf(hn), args, fn.Signature, key); ok {
			return r, true
		}
	}
	if x.fe != nil && fn.Pkg != nil && fn.Signature.Recv() == nil && fn.Pkg.Pkg.Path() == x.eng.ModulePath+"/ring" {
		if r, ok := x.feKernel(name, args); ok {
			return r, true
		}
	}
	if x.fe != nil {
		if h, ok := feStubs[key]; ok {
			if r, ok := h(x, fn, args); ok {
				return r, true
			}
		}
	}
	if kind, ok := x.stubs[key]; ok {
		return x.applyStub(kind, fn, args), true
	}
	if kind, ok := x.stubs[name]; ok && fn.Pkg != nil && strings.HasPrefix(fn.Pkg.Pkg.Path(), x.eng.ModulePath) {
		return x.applyStub(kind, fn, args), true
	}
	if h, ok := intrinsics[key]; ok {
		return h(x, fn, args), true
	}
	if fn.Pkg != nil {
		switch fn.Pkg.Pkg.Path() {
		case "math", "math/cmplx", "strconv", "unicode/utf8", "unicode":
			if hf, ok := hostFuncs[key]; ok {
				if r, ok := x.callHost(hf, args, fn.Signature); ok {
					return r, true
				}
				return x.symHost(key, fn, args), true
			}
		}
	}
	if fn.Blocks == nil {
		if hf, ok := hostFuncs[key]; ok {
			if r, ok := x.callHost(hf, args, fn.Signature); ok {
				return r, true
			}
		}
	}
	return nil, false
}

func (x *Exec) interceptInvoke(recv Iface, m *types.Func, args []Value, site ssa.Instruction) (Value, bool) {
	if o, ok := recv.V.(Opaque); ok {
		_ = o
		panic(x.errf("method %s called on an opaque native value of interface type", m.Name()))
	}
	return nil, false
}

// callHost calls a native function on concrete basic arguments.
func (x *Exec) callHost(f interface{}, args []Value, sig *types.Signature) (Value, bool) {
	fv := reflect.ValueOf(f)
	ft := fv.Type()
	if ft.NumIn() != len(args) {
		return nil, false
	}
	in := make([]reflect.Value, len(args))
	for i, a := range args {
		v, ok := x.export(a, ft.In(i))
		if !ok {
			return nil, false
		}
		in[i] = v
	}
	outs := fv.Call(in)
	conv := func(o reflect.Value, t types.Type) Value {
		switch o.Kind() {
		case reflect.Float64, reflect.Float32:
			return FloatV{o.Float()}
		case reflect.Int, reflect.Int64, reflect.Int32, reflect.Int16, reflect.Int8:
			return x.ts.BV(uint64(o.Int()), intWidth(t))
		case reflect.Uint, reflect.Uint64, reflect.Uint32, reflect.Uint16, reflect.Uint8:
			return x.ts.BV(o.Uint(), intWidth(t))
		case reflect.Bool:
			return x.ts.Bool(o.Bool())
		case reflect.String:
			return o.String()
		case reflect.Complex128:
			return ComplexV{o.Complex()}
		}
		return x.imp().Import(o, t)
	}
	rs := sig.Results()
	switch len(outs) {
	case 0:
		return nil, true
	case 1:
		return conv(outs[0], rs.At(0).Type()), true
	}
	t := make(Tuple, len(outs))
	for i, o := range outs {
		t[i] = conv(o, rs.At(i).Type())
	}
	return t, true
}

func (x *Exec) symHost(key string, fn *ssa.Function, args []Value) Value {
	panic(x.errf("%s on symbolic/unsupported arguments", key))
}

var hostFuncs = map[string]interface{}{
	"math.Log2": math.Log2, "math.Log": math.Log, "math.Log10": math.Log10, "math.Exp": math.Exp, "math.Exp2": math.Exp2, "math.Pow": math.Pow,
	"math.Sqrt": math.Sqrt, "math.Round": math.Round, "math.Ceil": math.Ceil, "math.Floor": math.Floor, "math.Abs": math.Abs, "math.Max": math.Max,
	"math.Min": math.Min, "math.Trunc": math.Trunc, "math.Sin": math.Sin, "math.Cos": math.Cos, "math.Tan": math.Tan, "math.Atan": math.Atan,
	"math.Float64bits": math.Float64bits, "math.Float64frombits": math.Float64frombits, "math.IsNaN": math.IsNaN, "math.IsInf": math.IsInf,
	"math.Inf": math.Inf, "math.NaN": math.NaN, "math.Mod": math.Mod, "math.Ldexp": math.Ldexp, "math.Cbrt": math.Cbrt, "math.Asin": math.Asin, "math.Acos": math.Acos,
	"math.Sinh": math.Sinh, "math.Cosh": math.Cosh, "math.Tanh": math.Tanh, "math.Atan2": math.Atan2, "math.Hypot": math.Hypot, "math.Log1p": math.Log1p,
	"math.Signbit": math.Signbit, "math.Copysign": math.Copysign, "math.Float32bits": math.Float32bits, "math.Float32frombits": math.Float32frombits,
	"math.RoundToEven": math.RoundToEven, "math.Expm1": math.Expm1, "math.Erf": math.Erf,
}

// ---------------------------------------------------------------- helpers

func (x *Exec) term(v Value) *Term {
	t, ok := v.(*Term)
	if !ok {
		panic(x.errf("expected a machine integer, got %T", v))
	}
	return t
}

func (x *Exec) bvInt(v uint64) *Term { return x.ts.BV(v, 64) }

// ---------------------------------------------------------------- math/bits

func registerBits() {
	// cmp.Equal(x, y) on two pointers to (or values of) a named type with an Equal(T) bool method: go-cmp calls
	// that method (the only use in the library: rlwe.PlaintextMetaData.Equal on *rlwe.Scale)
	intrinsics["github.com/google/go-cmp/cmp.Equal"] = func(x *Exec, fn *ssa.Function, a []Value) Value {
		ia, oka := a[0].(Iface)
		ib, okb := a[1].(Iface)
		if !oka || !okb || ia.T == nil || ib.T == nil || !types.Identical(ia.T, ib.T) {
			panic(x.errf("cmp.Equal: unsupported operands %T %T", a[0], a[1]))
		}
		t := ia.T
		va, vb := ia.V, ib.V
		if pt, ok := t.Underlying().(*types.Pointer); ok {
			pa, pb := va.(Ptr), vb.(Ptr)
			if pa.Obj == nil || pb.Obj == nil {
				return x.ts.Bool(pa.Obj == nil && pb.Obj == nil)
			}
			t = pt.Elem()
			va, vb = x.Load(pa, t), x.Load(pb, t)
		}
		ms := x.eng.Prog.MethodSets.MethodSet(t)
		for j := 0; j < ms.Len(); j++ {
			if ms.At(j).Obj().Name() == "Equal" {
				f := x.eng.Prog.MethodValue(ms.At(j))
				if f != nil && f.Signature.Params().Len() == 1 && types.Identical(f.Signature.Params().At(0).Type(), t) {
					return x.call(f, []Value{va, vb}, nil)
				}
			}
		}
		panic(x.errf("cmp.Equal: type %s has no Equal(T) method (reflection-based comparison is not modelled)", t))
	}
	intrinsics["math/bits.Mul64"] = func(x *Exec, fn *ssa.Function, a []Value) Value {
		hi, lo := x.ts.Mul64(x.term(a[0]), x.term(a[1]))
		return Tuple{hi, lo}
	}
	intrinsics["math/bits.Add64"] = func(x *Exec, fn *ssa.Function, a []Value) Value {
		ts := x.ts
		p, q, c := x.term(a[0]), x.term(a[1]), x.term(a[2])
		if p.IsConst() && q.IsConst() && c.IsConst() {
			s, co := bits.Add64(p.C, q.C, c.C)
			return Tuple{ts.BV(s, 64), ts.BV(co, 64)}
		}
		sum := ts.Bin(OAdd, ts.Bin(OAdd, p, q), c)
		wide := ts.Bin(OAdd, ts.Bin(OAdd, ts.Resize(p, 66, false), ts.Resize(q, 66, false)), ts.Resize(c, 66, false))
		carry := ts.Ite(ts.Cmp(OUle, ts.BVBig(pow2(64), 66), wide), ts.BV(1, 64), ts.BV(0, 64))
		return Tuple{sum, carry}
	}
	intrinsics["math/bits.Sub64"] = func(x *Exec, fn *ssa.Function, a []Value) Value {
		ts := x.ts
		p, q, c := x.term(a[0]), x.term(a[1]), x.term(a[2])
		if p.IsConst() && q.IsConst() && c.IsConst() {
			s, bo := bits.Sub64(p.C, q.C, c.C)
			return Tuple{ts.BV(s, 64), ts.BV(bo, 64)}
		}
		diff := ts.Bin(OSub, ts.Bin(OSub, p, q), c)
		rhs := ts.Bin(OAdd, ts.Resize(q, 66, false), ts.Resize(c, 66, false))
		borrow := ts.Ite(ts.Cmp(OUlt, ts.Resize(p, 66, false), rhs), ts.BV(1, 64), ts.BV(0, 64))
		return Tuple{diff, borrow}
	}
	lenN := func(w uint8) intrinsic {
		return func(x *Exec, fn *ssa.Function, a []Value) Value {
			ts := x.ts
			v := x.term(a[0])
			if v.IsConst() {
				return ts.BV(uint64(v.ConstBig().BitLen()), 64)
			}
			r := ts.BV(0, 64)
			for k := uint(1); k <= uint(v.W); k++ {
				r = ts.Ite(ts.Cmp(OUle, ts.BVBig(pow2(k-1), v.W), v), ts.BV(uint64(k), 64), r)
			}
			return r
		}
	}
	intrinsics["math/bits.Len64"] = lenN(64)
	intrinsics["math/bits.Len"] = lenN(64)
	intrinsics["math/bits.Len32"] = lenN(32)
	intrinsics["math/bits.Len8"] = lenN(8)
	intrinsics["math/bits.Len16"] = lenN(16)
	intrinsics["math/bits.LeadingZeros64"] = func(x *Exec, fn *ssa.Function, a []Value) Value {
		l := lenN(64)(x, fn, a).(*Term)
		return x.ts.Bin(OSub, x.ts.BV(64, 64), l)
	}
	intrinsics["math/bits.TrailingZeros64"] = func(x *Exec, fn *ssa.Function, a []Value) Value {
		ts := x.ts
		v := x.term(a[0])
		if v.IsConst() {
			return ts.BV(uint64(bits.TrailingZeros64(v.C)), 64)
		}
		r := ts.BV(64, 64)
		for k := 63; k >= 0; k-- {
			bit := ts.Bin(OAnd, ts.Bin(OLshr, v, ts.BV(uint64(k), 64)), ts.BV(1, 64))
			r = ts.Ite(ts.Cmp(OEq, bit, ts.BV(1, 64)), ts.BV(uint64(k), 64), r)
		}
		return r
	}
	intrinsics["math/bits.Reverse64"] = func(x *Exec, fn *ssa.Function, a []Value) Value {
		ts := x.ts
		v := x.term(a[0])
		if v.IsConst() {
			return ts.BV(bits.Reverse64(v.C), 64)
		}
		var r *Term
		for k := uint8(0); k < 64; k++ {
			b := ts.Extract(v, k, k)
			if r == nil {
				r = b
			} else {
				r = ts.Concat(r, b)
			}
		}
		return r
	}
	intrinsics["math/bits.OnesCount64"] = func(x *Exec, fn *ssa.Function, a []Value) Value {
		ts := x.ts
		v := x.term(a[0])
		if v.IsConst() {
			return ts.BV(uint64(bits.OnesCount64(v.C)), 64)
		}
		r := ts.BV(0, 64)
		for k := uint8(0); k < 64; k++ {
			r = ts.Bin(OAdd, r, ts.Resize(ts.Extract(v, k, k), 64, false))
		}
		return r
	}
	intrinsics["math/bits.RotateLeft64"] = func(x *Exec, fn *ssa.Function, a []Value) Value {
		ts := x.ts
		v, k := x.term(a[0]), x.term(a[1])
		if !k.IsConst() {
			panic(x.errf("RotateLeft64 by symbolic amount"))
		}
		s := uint64(k.SignedBig().Int64()) & 63
		return ts.Bin(OOr, ts.Bin(OShl, v, ts.BV(s, 64)), ts.Bin(OLshr, v, ts.BV((64-s)&63, 64)))
	}
}

// ---------------------------------------------------------------- encoding/binary

func (x *Exec) loadBytes(s Slice, n int, little bool) *Term {
	if s.Len < n {
		x.goPanic(fmt.Sprintf("runtime error: index out of range [%d] with length %d", n-1, s.Len))
	}
	var r *Term
	for i := 0; i < n; i++ {
		j := i
		if little {
			j = n - 1 - i
		}
		b := x.term(s.Obj.Cells[s.Off+j])
		if r == nil {
			r = b
		} else {
			r = x.ts.Concat(r, b)
		}
	}
	return r
}

func (x *Exec) storeBytes(s Slice, v *Term, n int, little bool) {
	if s.Len < n {
		x.goPanic(fmt.Sprintf("runtime error: index out of range [%d] with length %d", n-1, s.Len))
	}
	for i := 0; i < n; i++ {
		j := i
		if !little {
			j = n - 1 - i
		}
		x.setCell(s.Obj, s.Off+j, x.ts.Extract(v, uint8(8*i+7), uint8(8*i)))
	}
}

func registerBinary() {
	for _, e := range []struct {
		name   string
		little bool
	}{{"littleEndian", true}, {"bigEndian", false}} {
		e := e
		for _, n := range []int{2, 4, 8} {
			n := n
			intrinsics[fmt.Sprintf("(encoding/binary.%s).Uint%d", e.name, n*8)] = func(x *Exec, fn *ssa.Function, a []Value) Value {
				return x.loadBytes(a[1].(Slice), n, e.little)
			}
			intrinsics[fmt.Sprintf("(encoding/binary.%s).PutUint%d", e.name, n*8)] = func(x *Exec, fn *ssa.Function, a []Value) Value {
				x.storeBytes(a[1].(Slice), x.term(a[2]), n, e.little)
				return nil
			}
		}
	}
}

// ---------------------------------------------------------------- fmt / errors

func (x *Exec) newError(msg string) Value {
	t := x.eng.errorStringType()
	o := x.NewObject(1, nil, "error")
	o.Cells[0] = msg
	return Iface{T: t, V: Ptr{o, 0}}
}

func (x *Exec) isErrorIface(v Value) bool {
	i, ok := v.(Iface)
	if !ok || i.T == nil {
		return false
	}
	ms := x.eng.Prog.MethodSets.MethodSet(i.T)
	for j := 0; j < ms.Len(); j++ {
		if ms.At(j).Obj().Name() == "Error" {
			return true
		}
	}
	return false
}

func (x *Exec) formatArgs(format string, va Value) (string, []Value) {
	s, _ := va.(Slice)
	var errs []Value
	var parts []string
	for i := 0; i < s.Len; i++ {
		a := s.Obj.Cells[s.Off+i]
		if x.isErrorIface(a) {
			errs = append(errs, a)
		}
		parts = append(parts, x.showValue(a))
	}
	return format + " [" + strings.Join(parts, ", ") + "]", errs
}

func (x *Exec) showValue(v Value) string {
	switch t := v.(type) {
	case Iface:
		if t.T == nil {
			return "<nil>"
		}
		if p, ok := t.V.(Ptr); ok && p.Obj != nil && len(p.Obj.Cells) > 0 {
			if s, ok := p.Obj.Cells[0].(string); ok {
				return s
			}
		}
		return x.showValue(t.V)
	case *Term:
		if t.IsConst() {
			return t.ConstBig().String()
		}
		return "<sym>"
	case string:
		return t
	case FloatV:
		return fmt.Sprint(t.F)
	}
	return fmt.Sprintf("<%T>", v)
}

func registerFmtErrors() {
	intrinsics["errors.New"] = func(x *Exec, fn *ssa.Function, a []Value) Value { return x.newError(a[0].(string)) }
	intrinsics["fmt.Errorf"] = func(x *Exec, fn *ssa.Function, a []Value) Value {
		msg, errs := x.formatArgs(a[0].(string), a[1])
		if strings.Contains(a[0].(string), "%w") && len(errs) > 0 {
			if p, ok := x.eng.TPkgs["fmt"]; ok {
				if o := p.Scope().Lookup("wrapError"); o != nil {
					obj := x.NewObject(2, o.Type(), "wrapError")
					obj.Cells[0] = msg
					obj.Cells[1] = errs[0]
					return Iface{T: types.NewPointer(o.Type()), V: Ptr{obj, 0}}
				}
			}
		}
		return x.newError(msg)
	}
	sprint := func(x *Exec, fn *ssa.Function, a []Value) Value {
		if len(a) == 2 {
			m, _ := x.formatArgs(a[0].(string), a[1])
			return m
		}
		m, _ := x.formatArgs("", a[0])
		return m
	}
	intrinsics["fmt.Sprintf"] = sprint
	intrinsics["fmt.Sprint"] = sprint
	intrinsics["fmt.Sprintln"] = sprint
	nop := func(x *Exec, fn *ssa.Function, a []Value) Value {
		rs := fn.Signature.Results()
		if rs.Len() == 0 {
			return nil
		}
		return x.zeroResults(fn)
	}
	for _, n := range []string{"fmt.Println", "fmt.Printf", "fmt.Print", "fmt.Fprintf", "fmt.Fprintln", "fmt.Fprint", "log.Printf", "log.Println"} {
		intrinsics[n] = nop
	}
	intrinsics["errors.Is"] = func(x *Exec, fn *ssa.Function, a []Value) Value {
		err, target := a[0], a[1]
		for depth := 0; depth < 16; depth++ {
			if eq := x.valuesEqual(err, target); eq.IsTrue() {
				return x.ts.True
			}
			i, ok := err.(Iface)
			if !ok || i.T == nil {
				return x.ts.False
			}
			ms := x.eng.Prog.MethodSets.MethodSet(i.T)
			var un *types.Selection
			for j := 0; j < ms.Len(); j++ {
				if ms.At(j).Obj().Name() == "Unwrap" {
					un = ms.At(j)
				}
			}
			if un == nil {
				return x.ts.False
			}
			f := x.eng.Prog.MethodValue(un)
			if f.Signature.Results().Len() != 1 {
				return x.ts.False
			}
			if _, isI := f.Signature.Results().At(0).Type().Underlying().(*types.Interface); !isI {
				return x.ts.False
			}
			err = x.call(f, []Value{i.V}, nil)
		}
		return x.ts.False
	}
}

// ---------------------------------------------------------------- sync

func registerSync() {
	nop := func(x *Exec, fn *ssa.Function, a []Value) Value { return nil }
	for _, n := range []string{"(*sync.Mutex).Lock", "(*sync.Mutex).Unlock", "(*sync.RWMutex).Lock", "(*sync.RWMutex).Unlock",
		"(*sync.RWMutex).RLock", "(*sync.RWMutex).RUnlock", "runtime.GC", "runtime.KeepAlive", "runtime.SetFinalizer"} {
		intrinsics[n] = nop
	}
	intrinsics["(*sync.Mutex).TryLock"] = func(x *Exec, fn *ssa.Function, a []Value) Value { return x.ts.True }
	intrinsics["(*sync.Once).Do"] = func(x *Exec, fn *ssa.Function, a []Value) Value {
		p := a[0].(Ptr)
		if _, done := p.Obj.Cells[p.Off].(onceDone); !done {
			x.setCell(p.Obj, p.Off, onceDone{})
			x.callValue(a[1], nil, nil)
		}
		return nil
	}
	intrinsics["(*sync.Pool).Get"] = func(x *Exec, fn *ssa.Function, a []Value) Value {
		p := a[0].(Ptr)
		st := fn.Signature.Recv().Type().Underlying().(*types.Pointer).Elem().Underlying().(*types.Struct)
		for i := 0; i < st.NumFields(); i++ {
			if st.Field(i).Name() == "New" {
				nf := p.Obj.Cells[p.Off+x.lay.FieldOff(st, i)]
				if c, ok := nf.(*Closure); ok && c != nil {
					return x.callValue(c, nil, nil)
				}
			}
		}
		return Iface{}
	}
	intrinsics["(*sync.Pool).Put"] = nop
	intrinsics["runtime.NumCPU"] = func(x *Exec, fn *ssa.Function, a []Value) Value { return x.ts.BV(1, 64) }
	intrinsics["runtime.GOMAXPROCS"] = func(x *Exec, fn *ssa.Function, a []Value) Value { return x.ts.BV(1, 64) }
}

type onceDone struct{}

// ---------------------------------------------------------------- math (symbolic-aware pieces)

func registerMath() {
}

// ---------------------------------------------------------------- misc

func registerMisc() {
	intrinsics["github.com/tuneinsight/lattigo/v6/utils.IsNil"] = func(x *Exec, fn *ssa.Function, a []Value) Value {
		i, ok := a[0].(Iface)
		if !ok || i.T == nil {
			return x.ts.True
		}
		switch v := i.V.(type) {
		case Ptr:
			return x.ts.Bool(v.Obj == nil)
		case Slice:
			return x.ts.Bool(v.IsNil())
		case *MapObj:
			return x.ts.Bool(v == nil)
		case *Closure:
			return x.ts.Bool(v == nil)
		case Iface:
			return x.ts.Bool(v.T == nil)
		}
		return x.ts.False
	}
	intrinsics["sort.Slice"] = func(x *Exec, fn *ssa.Function, a []Value) Value {
		s := a[0].(Iface).V.(Slice)
		less := a[1]
		// insertion sort with concrete comparison results; swaps whole elements
		esz := s.ESz
		if esz == 0 {
			esz = 1
		}
		swap := func(i, j int) {
			for k := 0; k < esz; k++ {
				ci, cj := s.Off+i*esz+k, s.Off+j*esz+k
				vi, vj := s.Obj.Cells[ci], s.Obj.Cells[cj]
				x.setCell(s.Obj, ci, vj)
				x.setCell(s.Obj, cj, vi)
			}
		}
		for i := 1; i < s.Len; i++ {
			for j := i; j > 0; j-- {
				r := x.term(x.callValue(less, []Value{x.bvInt(uint64(j)), x.bvInt(uint64(j - 1))}, nil))
				if !x.branch(r, "sort.Slice less") {
					break
				}
				swap(j, j-1)
			}
		}
		return nil
	}
	intrinsics["sort.SliceStable"] = intrinsics["sort.Slice"]
	intrinsics["time.Now"] = func(x *Exec, fn *ssa.Function, a []Value) Value { return x.Zero(fn.Signature.Results().At(0).Type()) }
	intrinsics["time.Since"] = func(x *Exec, fn *ssa.Function, a []Value) Value { return x.ts.BV(0, 64) }
}

var _ = token.ADD
