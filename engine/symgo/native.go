package symgo

// native.go: bridge between the engine's heap and natively compiled code of the same /repo tree.
//   - import: a native Go value (result of a natively executed set-up function) is copied into the
//     engine heap, guided by the static types.Type and reflection (unexported fields included);
//   - export: concrete engine values (basic types, slices of basic types, *big.Int) become native arguments;
//   - host calls of pure standard-library functions on concrete arguments.

import (
	"fmt"
	"go/types"
	"math/big"
	"reflect"
	"sort"
	"strconv"
	"strings"
	"unsafe"
)

type ptrKey struct {
	addr uintptr
	typ  string
}

type region struct {
	lo, hi uintptr // [lo,hi) bytes
	esize  uintptr
	typ    string
	obj    *Object
	ecells int
}

type importer struct {
	x       *Exec
	ptrs    map[ptrKey]*Object
	maps    map[uintptr]*MapObj
	regions []region
	keep    []interface{} // keeps native values alive
}

func (x *Exec) imp() *importer {
	if x.importer == nil {
		x.importer = &importer{x: x, ptrs: map[ptrKey]*Object{}, maps: map[uintptr]*MapObj{}}
	}
	return x.importer
}

func typeStr(t types.Type) string {
	return types.TypeString(t, func(p *types.Package) string { return p.Path() })
}

func launder(rv reflect.Value) reflect.Value {
	if rv.CanAddr() {
		return reflect.NewAt(rv.Type(), unsafe.Pointer(rv.UnsafeAddr())).Elem()
	}
	if rv.CanInterface() {
		c := reflect.New(rv.Type()).Elem()
		c.Set(rv)
		return c
	}
	panic("launder: value neither addressable nor exportable: " + rv.Type().String())
}

// Import converts a native value into an engine register value of static type t.
func (im *importer) Import(rv reflect.Value, t types.Type) Value {
	n := im.x.lay.Cells(t)
	cells := make([]Value, n)
	if n == 0 {
		return Agg{cells}
	}
	rv = launder(rv)
	im.into(cells, rv, t)
	if isAggT(t) {
		return Agg{cells}
	}
	return cells[0]
}

func (im *importer) into(cells []Value, rv reflect.Value, t types.Type) {
	x := im.x
	if isOpaqueNamed(t) {
		switch namedPath(t) {
		case "math/big.Int":
			b := rv.Addr().Interface().(*big.Int)
			cells[0] = x.ts.Int(b)
		case "math/big.Float":
			f := rv.Addr().Interface().(*big.Float)
			r, _ := f.Rat(nil)
			if r == nil {
				r = new(big.Rat)
			}
			cells[0] = x.ts.Real(r)
		case "math/big.Rat":
			r := rv.Addr().Interface().(*big.Rat)
			cells[0] = x.ts.Real(r)
		default:
			im.keep = append(im.keep, rv)
			cells[0] = Opaque{rv}
		}
		return
	}
	switch u := t.Underlying().(type) {
	case *types.Basic:
		switch {
		case u.Info()&types.IsBoolean != 0:
			cells[0] = x.ts.Bool(rv.Bool())
		case u.Info()&types.IsInteger != 0:
			if u.Info()&types.IsUnsigned != 0 {
				cells[0] = x.ts.BV(rv.Uint(), basicWidth(u))
			} else {
				cells[0] = x.ts.BV(uint64(rv.Int()), basicWidth(u))
			}
		case u.Info()&types.IsFloat != 0:
			cells[0] = FloatV{rv.Float()}
		case u.Info()&types.IsComplex != 0:
			cells[0] = ComplexV{rv.Complex()}
		case u.Info()&types.IsString != 0:
			cells[0] = rv.String()
		case u.Kind() == types.UnsafePointer:
			cells[0] = Opaque{rv}
		default:
			panic(x.errf("import basic %s", t))
		}
	case *types.Pointer:
		if rv.IsNil() {
			cells[0] = Ptr{}
			return
		}
		et := u.Elem()
		key := ptrKey{rv.Pointer(), typeStr(et)}
		if o, ok := im.ptrs[key]; ok {
			cells[0] = Ptr{o, 0}
			return
		}
		// pointer into an imported slice region?
		if p, ok := im.findRegion(rv.Pointer(), typeStr(et), im.x.lay.Cells(et)); ok {
			cells[0] = p
			return
		}
		o := x.NewObject(x.lay.Cells(et), et, "native:"+key.typ)
		im.ptrs[key] = o
		im.keep = append(im.keep, rv)
		im.into(o.Cells, launder(rv.Elem()), et)
		cells[0] = Ptr{o, 0}
	case *types.Slice:
		if rv.IsNil() {
			cells[0] = Slice{ESz: x.lay.Cells(u.Elem())}
			return
		}
		cells[0] = im.slice(rv, u.Elem())
	case *types.Array:
		esz := x.lay.Cells(u.Elem())
		for i := 0; i < int(u.Len()); i++ {
			im.into(cells[i*esz:(i+1)*esz], launder(rv.Index(i)), u.Elem())
		}
	case *types.Struct:
		off := 0
		for i := 0; i < u.NumFields(); i++ {
			ft := u.Field(i).Type()
			n := x.lay.Cells(ft)
			if n > 0 {
				im.into(cells[off:off+n], launder(rv.Field(i)), ft)
			}
			off += n
		}
	case *types.Map:
		if rv.IsNil() {
			cells[0] = (*MapObj)(nil)
			return
		}
		if m, ok := im.maps[rv.Pointer()]; ok {
			cells[0] = m
			return
		}
		m := x.NewMap(u.Key(), u.Elem())
		im.maps[rv.Pointer()] = m
		keys := rv.MapKeys()
		sort.Slice(keys, func(i, j int) bool { return fmt.Sprint(keys[i]) < fmt.Sprint(keys[j]) })
		for _, k := range keys {
			kv := im.Import(k, u.Key())
			vv := im.Import(rv.MapIndex(k), u.Elem())
			ks := x.mapKeyString(kv)
			m.idx[ks] = len(m.keys)
			m.keys = append(m.keys, kv)
			m.vals = append(m.vals, vv)
		}
		cells[0] = m
	case *types.Interface:
		if rv.IsNil() {
			cells[0] = Iface{}
			return
		}
		dyn := rv.Elem()
		dt := im.typeOf(dyn.Type())
		if dt == nil {
			im.keep = append(im.keep, rv)
			cells[0] = Iface{T: opaqueIfaceType, V: Opaque{dyn}}
			return
		}
		cells[0] = Iface{T: dt, V: im.Import(dyn, dt)}
	case *types.Signature:
		if rv.IsNil() {
			cells[0] = (*Closure)(nil)
			return
		}
		im.keep = append(im.keep, rv)
		cells[0] = &Closure{Native: rv}
	case *types.Chan:
		cells[0] = Opaque{rv}
	default:
		panic(x.errf("import: unsupported type %s", t))
	}
}

var opaqueIfaceType types.Type = types.NewNamed(types.NewTypeName(0, nil, "nativeOpaque", nil), types.NewStruct(nil, nil), nil)

func (im *importer) findRegion(addr uintptr, elemType string, ecells int) (Ptr, bool) {
	for _, r := range im.regions {
		if r.typ == elemType && addr >= r.lo && addr < r.hi && (addr-r.lo)%r.esize == 0 {
			return Ptr{r.obj, int((addr-r.lo)/r.esize) * r.ecells}, true
		}
	}
	return Ptr{}, false
}

func (im *importer) slice(rv reflect.Value, et types.Type) Slice {
	x := im.x
	esz := x.lay.Cells(et)
	ln, cp := rv.Len(), rv.Cap()
	if cp == 0 {
		return Slice{ESz: esz, NonNil: true}
	}
	es := rv.Type().Elem().Size()
	ets := typeStr(et)
	base := rv.Pointer()
	if es > 0 {
		for _, r := range im.regions {
			if r.typ == ets && base >= r.lo && base+uintptr(cp)*es <= r.hi && (base-r.lo)%es == 0 {
				return Slice{Obj: r.obj, Off: int((base-r.lo)/es) * esz, Len: ln, Cap: cp, ESz: esz, NonNil: true}
			}
		}
	}
	o := x.NewObject(cp*esz, et, "native:[]"+ets)
	if es > 0 {
		im.regions = append(im.regions, region{lo: base, hi: base + uintptr(cp)*es, esize: es, typ: ets, obj: o, ecells: esz})
	}
	im.keep = append(im.keep, rv)
	full := rv.Slice3(0, cp, cp)
	// fast path for []uint64 / []byte / []int
	switch rv.Type().Elem().Kind() {
	case reflect.Uint64, reflect.Uint32, reflect.Uint16, reflect.Uint8, reflect.Uint:
		if b, ok := et.Underlying().(*types.Basic); ok {
			w := basicWidth(b)
			for i := 0; i < cp; i++ {
				o.Cells[i] = x.ts.BV(full.Index(i).Uint(), w)
			}
			return Slice{Obj: o, Off: 0, Len: ln, Cap: cp, ESz: esz, NonNil: true}
		}
	}
	for i := 0; i < cp; i++ {
		im.into(o.Cells[i*esz:(i+1)*esz], launder(full.Index(i)), et)
	}
	return Slice{Obj: o, Off: 0, Len: ln, Cap: cp, ESz: esz, NonNil: true}
}

// typeOf maps a reflect type to the corresponding go/types type of the loaded program.
func (im *importer) typeOf(rt reflect.Type) types.Type {
	return im.x.eng.typeFromString(reflectTypeString(rt))
}

func reflectTypeString(rt reflect.Type) string {
	if rt.Name() != "" {
		if rt.PkgPath() == "" {
			return rt.Name()
		}
		return rt.PkgPath() + "." + rt.Name()
	}
	switch rt.Kind() {
	case reflect.Ptr:
		return "*" + reflectTypeString(rt.Elem())
	case reflect.Slice:
		return "[]" + reflectTypeString(rt.Elem())
	case reflect.Array:
		return "[" + strconv.Itoa(rt.Len()) + "]" + reflectTypeString(rt.Elem())
	case reflect.Map:
		return "map[" + reflectTypeString(rt.Key()) + "]" + reflectTypeString(rt.Elem())
	}
	return rt.String()
}

// typeFromString parses the small type grammar produced by reflectTypeString.
func (e *Engine) typeFromString(s string) types.Type {
	s = strings.TrimSpace(s)
	switch {
	case strings.HasPrefix(s, "*"):
		if t := e.typeFromString(s[1:]); t != nil {
			return types.NewPointer(t)
		}
		return nil
	case strings.HasPrefix(s, "[]"):
		if t := e.typeFromString(s[2:]); t != nil {
			return types.NewSlice(t)
		}
		return nil
	case strings.HasPrefix(s, "["):
		i := strings.IndexByte(s, ']')
		n, err := strconv.Atoi(s[1:i])
		if err != nil {
			return nil
		}
		if t := e.typeFromString(s[i+1:]); t != nil {
			return types.NewArray(t, int64(n))
		}
		return nil
	case strings.HasPrefix(s, "map["):
		depth, i := 0, 3
		for ; i < len(s); i++ {
			if s[i] == '[' {
				depth++
			} else if s[i] == ']' {
				depth--
				if depth == 0 {
					break
				}
			}
		}
		k, v := e.typeFromString(s[4:i]), e.typeFromString(s[i+1:])
		if k != nil && v != nil {
			return types.NewMap(k, v)
		}
		return nil
	}
	// named type, possibly generic instantiation: path.Name[args]
	name, targs := s, ""
	if i := strings.IndexByte(s, '['); i >= 0 && strings.HasSuffix(s, "]") {
		name, targs = s[:i], s[i+1:len(s)-1]
	}
	dot := strings.LastIndexByte(name, '.')
	if dot < 0 {
		if o := types.Universe.Lookup(name); o != nil {
			return o.Type()
		}
		return nil
	}
	pkg, ok := e.TPkgs[name[:dot]]
	if !ok {
		return nil
	}
	o := pkg.Scope().Lookup(name[dot+1:])
	if o == nil {
		return nil
	}
	tn, ok := o.(*types.TypeName)
	if !ok {
		return nil
	}
	if targs == "" {
		return tn.Type()
	}
	var args []types.Type
	depth, start := 0, 0
	for i := 0; i <= len(targs); i++ {
		if i == len(targs) || (targs[i] == ',' && depth == 0) {
			a := e.typeFromString(targs[start:i])
			if a == nil {
				return nil
			}
			args = append(args, a)
			start = i + 1
		} else if targs[i] == '[' {
			depth++
		} else if targs[i] == ']' {
			depth--
		}
	}
	inst, err := types.Instantiate(nil, tn.Type(), args, false)
	if err != nil {
		return nil
	}
	return inst
}

// ---------------------------------------------------------------- export / host calls

var bigIntPtrType = reflect.TypeOf((*big.Int)(nil))

// export converts a concrete engine value to a native value of type rt.
func (x *Exec) export(v Value, rt reflect.Type) (reflect.Value, bool) {
	switch rt.Kind() {
	case reflect.Bool:
		if t, ok := v.(*Term); ok && t.IsConst() {
			return reflect.ValueOf(t.C == 1).Convert(rt), true
		}
	case reflect.Int, reflect.Int8, reflect.Int16, reflect.Int32, reflect.Int64:
		if t, ok := v.(*Term); ok && t.IsConst() {
			return reflect.ValueOf(t.SignedBig().Int64()).Convert(rt), true
		}
	case reflect.Uint, reflect.Uint8, reflect.Uint16, reflect.Uint32, reflect.Uint64, reflect.Uintptr:
		if t, ok := v.(*Term); ok && t.IsConst() {
			return reflect.ValueOf(t.ConstBig().Uint64()).Convert(rt), true
		}
	case reflect.Float32, reflect.Float64:
		if f, ok := v.(FloatV); ok {
			return reflect.ValueOf(f.F).Convert(rt), true
		}
	case reflect.Complex128:
		if c, ok := v.(ComplexV); ok {
			return reflect.ValueOf(c.C).Convert(rt), true
		}
	case reflect.String:
		if s, ok := v.(string); ok {
			return reflect.ValueOf(s).Convert(rt), true
		}
	case reflect.Slice:
		s, ok := v.(Slice)
		if !ok {
			return reflect.Value{}, false
		}
		if s.IsNil() {
			return reflect.Zero(rt), true
		}
		out := reflect.MakeSlice(rt, s.Len, s.Len)
		esz := s.ESz
		if esz == 0 {
			esz = 1
		}
		for i := 0; i < s.Len; i++ {
			var ev Value
			if esz == 1 {
				ev = s.Obj.Cells[s.Off+i]
			} else {
				ev = Agg{s.Obj.Cells[s.Off+i*esz : s.Off+(i+1)*esz]}
			}
			e, ok := x.export(ev, rt.Elem())
			if !ok {
				return reflect.Value{}, false
			}
			out.Index(i).Set(e)
		}
		return out, true
	case reflect.Ptr:
		if rt == bigIntPtrType {
			p, ok := v.(Ptr)
			if !ok {
				return reflect.Value{}, false
			}
			if p.Obj == nil {
				return reflect.Zero(rt), true
			}
			if t, ok := p.Obj.Cells[p.Off].(*Term); ok && t.IsConst() && t.Sort == SInt {
				return reflect.ValueOf(new(big.Int).Set(t.Big)), true
			}
		}
	case reflect.Interface:
		switch t := v.(type) {
		case Iface:
			if t.T == nil {
				return reflect.Zero(rt), true
			}
			if o, ok := t.V.(Opaque); ok {
				if r, ok := o.V.(reflect.Value); ok {
					return r, true
				}
			}
			// basic dynamic types
			if b, ok := t.T.Underlying().(*types.Basic); ok {
				var k reflect.Type
				switch {
				case b.Info()&types.IsString != 0:
					k = reflect.TypeOf("")
				case b.Kind() == types.Int:
					k = reflect.TypeOf(int(0))
				case b.Kind() == types.Uint64:
					k = reflect.TypeOf(uint64(0))
				case b.Kind() == types.Int64:
					k = reflect.TypeOf(int64(0))
				case b.Kind() == types.Float64:
					k = reflect.TypeOf(float64(0))
				case b.Kind() == types.Bool:
					k = reflect.TypeOf(false)
				case b.Kind() == types.Uint8:
					k = reflect.TypeOf(uint8(0))
				case b.Kind() == types.Uint32:
					k = reflect.TypeOf(uint32(0))
				case b.Kind() == types.Int32:
					k = reflect.TypeOf(int32(0))
				case b.Kind() == types.Uint:
					k = reflect.TypeOf(uint(0))
				case b.Kind() == types.Uint16:
					k = reflect.TypeOf(uint16(0))
				}
				if k != nil {
					return x.export(t.V, k)
				}
			}
		}
	case reflect.Array:
		a, ok := v.(Agg)
		if !ok {
			return reflect.Value{}, false
		}
		out := reflect.New(rt).Elem()
		if len(a.Cells) != rt.Len() {
			return reflect.Value{}, false
		}
		for i := 0; i < rt.Len(); i++ {
			e, ok := x.export(a.Cells[i], rt.Elem())
			if !ok {
				return reflect.Value{}, false
			}
			out.Index(i).Set(e)
		}
		return out, true
	}
	return reflect.Value{}, false
}

// callNative calls a native function value with exported arguments and imports its results.
func (x *Exec) callNative(fv reflect.Value, args []Value, sig *types.Signature, name string) (Value, bool) {
	ft := fv.Type()
	in := make([]reflect.Value, len(args))
	nin := ft.NumIn()
	for i, a := range args {
		var pt reflect.Type
		if ft.IsVariadic() && i >= nin-1 {
			pt = ft.In(nin - 1)
			if i == nin-1 && len(args) == nin {
				// variadic slice passed as a slice (ssa always passes the slice)
			}
		} else {
			pt = ft.In(i)
		}
		v, ok := x.export(a, pt)
		if !ok {
			return nil, false
		}
		in[i] = v
	}
	var outs []reflect.Value
	func() {
		defer func() {
			if r := recover(); r != nil {
				panic(&GoPanic{Msg: fmt.Sprintf("panic in native %s: %v", name, r), Stack: x.stackTrace()})
			}
		}()
		if ft.IsVariadic() {
			outs = fv.CallSlice(in)
		} else {
			outs = fv.Call(in)
		}
	}()
	rs := sig.Results()
	switch rs.Len() {
	case 0:
		return nil, true
	case 1:
		return x.imp().Import(outs[0], rs.At(0).Type()), true
	}
	t := make(Tuple, rs.Len())
	for i := range t {
		t[i] = x.imp().Import(outs[i], rs.At(i).Type())
	}
	return t, true
}

func (x *Exec) callNativeClosure(f *Closure, args []Value) Value {
	panic(x.errf("call of an imported native function value is not supported"))
}
