package symgo

// fe_bgvt.go: the plaintext ring of the integer scheme in the algebraic model.  bgv.Encoder.RingT2Q / RingQ2T move a
// polynomial between Z_t and Z_Q.  A value modulo t is the integer v in [0,t) with v = P(atoms) - t·k for the integer
// lift P of its polynomial and an unknown small integer k (a rounding-class atom, the same in every limb); a value
// modulo Q whose limbs are all the same integer polynomial (coefficients recovered by CRT, centred) reduces modulo t
// coefficient by coefficient.  The latter assumes that the centred integer is the value the limbs represent, i.e.
// that the noise is inside the budget - the standing assumption of the algebraic model.

import (
	"fmt"
	"math/big"
	"sort"
	"strings"

	"golang.org/x/tools/go/ssa"
)

func (x *Exec) atomIDFor(name string, class int, q uint64) int {
	x.newAtom(name, class, q)
	return x.feS().byName[fmt.Sprintf("%s@%d", name, q)].id
}

// liftModT carries a value modulo t into modulus q (integer lift).
func (x *Exec) liftModT(v Value, t, q uint64) *FE {
	s := x.feS()
	var f *FE
	switch w := v.(type) {
	case *FE:
		f = w
	case *Term:
		if w.IsConst() {
			return x.feFromConst(q, w)
		}
	}
	if f == nil {
		panic(x.errf("RingT2Q: field element or constant expected, got %T", v))
	}
	if f.P.q != t {
		panic(&GoPanic{Msg: fmt.Sprintf("VERIF-MODULUS: value of modulus %d passed to RingT2Q of plaintext modulus %d", f.P.q, t), Stack: x.stackTrace()})
	}
	res := newFEPoly(q)
	plain := true
	for k, c := range f.P.terms {
		ids := monoIDs(monoStr(k))
		if !(len(ids) == 0 || (len(ids) == 1 && c == 1 && len(f.P.terms) == 1)) {
			plain = false
		}
		nids := make([]int, len(ids))
		for i, id := range ids {
			a := s.atoms[id]
			nids[i] = x.atomIDFor(a.name, a.class, q)
		}
		res.addTerm(monoID(monoKey(nids)), c%q)
	}
	if !plain {
		k := x.newAtom(fmt.Sprintf("lift[%x]", f.P.hash()), ClsRounding, q)
		res.addScaled(k.P, q-t%q)
	}
	return x.feReduced(res, q, 1)
}

func (x *Exec) monoNameKey(k uint32) (string, []*atomInfo) {
	s := x.feS()
	ids := monoIDs(monoStr(k))
	as := make([]*atomInfo, len(ids))
	names := make([]string, len(ids))
	for i, id := range ids {
		as[i] = s.atoms[id]
		names[i] = as[i].name
	}
	sort.Strings(names)
	return strings.Join(names, "\x00"), as
}

func init() {
	B := lat + "/schemes/bgv"
	encRings := func(x *Exec, fn *ssa.Function, recv Value, level int) (qs []uint64, t uint64) {
		rt := fn.Signature.Recv().Type()
		p, pt := x.fieldOf(recv, rt, "parameters")
		rT, rTt := x.fieldOf(p, pt, "ringT")
		rQ, rQt := x.fieldOf(p, pt, "ringQ")
		return x.ringInfoAll(rQ, rQt, level).moduli, x.ringInfoAll(rT, rTt, 0).moduli[0]
	}
	// (Encoder).RingT2Q(level, scaleUp, pT, pQ)
	feStubs["("+B+".Encoder).RingT2Q"] = func(x *Exec, fn *ssa.Function, args []Value) (Value, bool) {
		pT := x.polyLimbs(args[3])
		if len(pT) == 0 || !sliceHasFE(pT[0]) {
			return nil, false
		}
		level := x.constInt(args[1], "level")
		scaleUp := x.term(args[2]).C == 1
		pQ := x.polyLimbs(args[4])
		qs, t := encRings(x, fn, args[0], level)
		if pQ[0].Len != pT[0].Len {
			panic(x.errf("RingT2Q: plaintext ring smaller than the ciphertext ring is outside the algebraic model"))
		}
		for k := 0; k <= level; k++ {
			q := qs[k]
			tinv := invmod(t%q, q)
			for i := 0; i < pT[0].Len; i++ {
				f := x.liftModT(pT[0].Obj.Cells[pT[0].Off+i], t, q)
				if scaleUp {
					f = x.feReduced(f.P.scale(tinv), q, 1)
				}
				x.setCell(pQ[k].Obj, pQ[k].Off+i, f)
			}
		}
		return nil, true
	}
	// (Encoder).RingQ2T(level, scaleDown, pQ, pT)
	feStubs["("+B+".Encoder).RingQ2T"] = func(x *Exec, fn *ssa.Function, args []Value) (Value, bool) {
		pQ := x.polyLimbs(args[3])
		if len(pQ) == 0 || !sliceHasFE(pQ[0]) {
			return nil, false
		}
		level := x.constInt(args[1], "level")
		scaleDown := x.term(args[2]).C == 1
		pT := x.polyLimbs(args[4])
		qs, t := encRings(x, fn, args[0], level)
		if pQ[0].Len != pT[0].Len {
			panic(x.errf("RingQ2T: plaintext ring smaller than the ciphertext ring is outside the algebraic model"))
		}
		Q := big.NewInt(1)
		for k := 0; k <= level; k++ {
			Q.Mul(Q, new(big.Int).SetUint64(qs[k]))
		}
		crt := make([]*big.Int, level+1) // (Q/q_k)·((Q/q_k)^-1 mod q_k)
		for k := 0; k <= level; k++ {
			qk := new(big.Int).SetUint64(qs[k])
			m := new(big.Int).Div(Q, qk)
			inv := new(big.Int).ModInverse(new(big.Int).Mod(m, qk), qk)
			if inv == nil {
				panic(x.errf("RingQ2T: repeated modulus"))
			}
			crt[k] = m.Mul(m, inv)
		}
		half := new(big.Int).Rsh(Q, 1)
		bt := new(big.Int).SetUint64(t)
		for i := 0; i < pQ[0].Len; i++ {
			type ent struct {
				atoms []*atomInfo
				c     *big.Int
			}
			acc := map[string]*ent{}
			for k := 0; k <= level; k++ {
				f := x.feArg(pQ[k].Obj.Cells[pQ[k].Off+i], qs[k])
				for mk, c := range f.P.terms {
					if scaleDown {
						c = mulmod(c, t%qs[k], qs[k])
					}
					key, as := x.monoNameKey(mk)
					e := acc[key]
					if e == nil {
						e = &ent{atoms: as, c: new(big.Int)}
						acc[key] = e
					}
					e.c.Add(e.c, new(big.Int).Mul(crt[k], new(big.Int).SetUint64(c)))
				}
			}
			res := newFEPoly(t)
			for _, e := range acc {
				c := e.c.Mod(e.c, Q)
				if c.Cmp(half) > 0 {
					c.Sub(c, Q)
				}
				c.Mod(c, bt)
				if c.Sign() == 0 {
					continue
				}
				ids := make([]int, len(e.atoms))
				for j, a := range e.atoms {
					ids[j] = x.atomIDFor(a.name, a.class, t)
				}
				res.addTerm(monoID(monoKey(ids)), c.Uint64())
			}
			x.setCell(pT[0].Obj, pT[0].Off+i, x.feReduced(res, t, 1))
		}
		return nil, true
	}
}
