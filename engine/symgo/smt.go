package symgo

// smt.go: lowering of the term IR to SMT-LIB2, in two back ends:
//   BV  – machine words as bit-vectors (1:1)
//   INT – machine words as mathematical integers with explicit, lazily introduced wrap-around
//         (interval- and context-guided wrap elimination; symbolic x symbolic products abstracted).

import (
	"fmt"
	"math/big"
	"sort"
	"strings"
)

type Backend int

const (
	BackendBV Backend = iota
	BackendINT
)

func (b Backend) String() string {
	if b == BackendBV {
		return "BV"
	}
	return "INT"
}

// Lowerer translates the terms of one query.
type Lowerer struct {
	ts      *TermStore
	be      Backend
	decls   []string
	declSet map[string]bool
	asserts []string
	memo    map[*Term]string
	n       int
	// INT back end state
	ivl                map[*Term][2]*big.Int // interval of the canonical (wrapped) Int expression of a BV term
	ctx                []*Term               // ite conditions in scope
	minCtx             int
	facts              map[[2]uint32]bool // (a,b) such that a <= b is known globally (unsigned), from the path condition
	varLo              map[*Term]*big.Int
	varHi              map[*Term]*big.Int
	splits             map[string][2]string
	loOf               map[string]splitRec
	atomIv             map[string][2]*big.Int
	linOf              map[string]*lin   // exact linear form of an emitted expression
	modOf              map[string]*lin   // atom ≡ form (mod 2^64), one level
	modAtoms, divAtoms map[string]modRec // atom = (mod f q) / (div f q), exact (smt_modq.go)
	atomName           map[string]string
	hiAtoms            map[string]hiRec // H of a split X = H*2^k + L
	wraps              int
	Err                error
	// profile knobs
	LinIte     bool
	NoDefine   bool
	LoSubst    bool
	CoefReduce bool
	NoModForms bool
}

const noCtx = 1 << 30

func NewLowerer(be Backend, ts *TermStore) *Lowerer {
	return &Lowerer{ts: ts, be: be, declSet: map[string]bool{}, memo: map[*Term]string{}, ivl: map[*Term][2]*big.Int{}, minCtx: noCtx,
		facts: map[[2]uint32]bool{}, varLo: map[*Term]*big.Int{}, varHi: map[*Term]*big.Int{}, splits: map[string][2]string{}, loOf: map[string]splitRec{}, atomIv: map[string][2]*big.Int{}, linOf: map[string]*lin{}, modOf: map[string]*lin{}, modAtoms: map[string]modRec{}, divAtoms: map[string]modRec{}, atomName: map[string]string{}, hiAtoms: map[string]hiRec{}}
}

func (l *Lowerer) decl(s string) {
	if !l.declSet[s] {
		l.declSet[s] = true
		l.decls = append(l.decls, s)
	}
}

func smtName(n string) string {
	ok := true
	for _, c := range n {
		if !(c >= 'a' && c <= 'z' || c >= 'A' && c <= 'Z' || c >= '0' && c <= '9' || c == '_' || c == '.' || c == '!') {
			ok = false
		}
	}
	if ok && len(n) > 0 && !(n[0] >= '0' && n[0] <= '9') {
		return n
	}
	return "|" + strings.ReplaceAll(n, "|", "_") + "|"
}

func sInt(v *big.Int) string {
	if v.Sign() < 0 {
		return "(- " + new(big.Int).Neg(v).String() + ")"
	}
	return v.String()
}

func (l *Lowerer) sortOf(t *Term) string {
	switch t.Sort {
	case SBool:
		return "Bool"
	case SInt:
		return "Int"
	case SReal:
		return "Real"
	}
	if l.be == BackendINT {
		return "Int"
	}
	return fmt.Sprintf("(_ BitVec %d)", t.W)
}

func (l *Lowerer) fresh(p string, sort string) string {
	l.n++
	name := fmt.Sprintf("%s!%d", p, l.n)
	l.decl(fmt.Sprintf("(declare-const %s %s)", name, sort))
	return name
}

// AddFacts scans assumed conditions (path condition) for interval facts and ordering facts.
func (l *Lowerer) AddFacts(conds []*Term) {
	for _, c := range conds {
		l.addFact(c)
	}
}

func (l *Lowerer) addFact(c *Term) {
	switch c.Op {
	case OBAnd:
		l.addFact(c.A[0])
		l.addFact(c.A[1])
	case OUle:
		l.facts[[2]uint32{c.A[0].ID, c.A[1].ID}] = true
		l.bound(c.A[0], c.A[1], false)
	case OUlt:
		l.facts[[2]uint32{c.A[0].ID, c.A[1].ID}] = true
		l.bound(c.A[0], c.A[1], true)
	case OSlt:
		// x <s 0: sign bit set
		if a, b := c.A[0], c.A[1]; a.Op == OVar && a.Sort == SBV && b.IsConst() && b.ConstBig().Sign() == 0 {
			lo := pow2(uint(a.W) - 1)
			if old, ok := l.varLo[a]; !ok || lo.Cmp(old) > 0 {
				l.varLo[a] = lo
			}
		}
	case OBNot:
		x := c.A[0]
		if x.Op == OSlt {
			if a, b := x.A[0], x.A[1]; a.Op == OVar && a.Sort == SBV && b.IsConst() && b.ConstBig().Sign() == 0 {
				h := new(big.Int).Sub(pow2(uint(a.W)-1), bigOne)
				if old, ok := l.varHi[a]; !ok || h.Cmp(old) < 0 {
					l.varHi[a] = h
				}
			}
		}
		if x.Op == OUlt { // !(a<b) => b<=a
			l.facts[[2]uint32{x.A[1].ID, x.A[0].ID}] = true
			l.bound(x.A[1], x.A[0], false)
		} else if x.Op == OUle {
			l.facts[[2]uint32{x.A[1].ID, x.A[0].ID}] = true
			l.bound(x.A[1], x.A[0], true)
		}
	}
}

func (l *Lowerer) bound(a, b *Term, strict bool) { // a <(=) b
	if (a.Op == OVar || a.Op == OUF) && b.IsConst() && a.Sort == SBV {
		h := new(big.Int).Set(b.ConstBig())
		if strict {
			h.Sub(h, bigOne)
		}
		if old, ok := l.varHi[a]; !ok || h.Cmp(old) < 0 {
			l.varHi[a] = h
		}
	}
	if (b.Op == OVar || b.Op == OUF) && a.IsConst() && b.Sort == SBV {
		lo := new(big.Int).Set(a.ConstBig())
		if strict {
			lo.Add(lo, bigOne)
		}
		if old, ok := l.varLo[b]; !ok || lo.Cmp(old) > 0 {
			l.varLo[b] = lo
		}
	}
}

// knownLe reports whether a <= b (unsigned) follows syntactically from the global facts or the ite context.
func (l *Lowerer) knownLe(a, b *Term) bool {
	if l.facts[[2]uint32{a.ID, b.ID}] {
		return true
	}
	for i := len(l.ctx) - 1; i >= 0; i-- {
		if ctxImpliesLe(l.ctx[i], a, b) {
			if i < l.minCtx {
				l.minCtx = i
			}
			return true
		}
	}
	return false
}

func ctxImpliesLe(c, a, b *Term) bool {
	switch c.Op {
	case OUle, OUlt:
		return c.A[0] == a && c.A[1] == b
	case OBNot:
		x := c.A[0]
		if x.Op == OUlt || x.Op == OUle { // !(b<a) => a<=b ; !(b<=a) => a<b
			return x.A[0] == b && x.A[1] == a
		}
	case OBAnd:
		return ctxImpliesLe(c.A[0], a, b) || ctxImpliesLe(c.A[1], a, b)
	}
	return false
}

// T lowers a term.
func (l *Lowerer) T(t *Term) string {
	if s, ok := l.memo[t]; ok {
		return s
	}
	save := l.minCtx
	l.minCtx = noCtx
	var s string
	if l.be == BackendBV || t.Sort == SInt || t.Sort == SReal {
		s = l.lowerCommon(t)
	} else if t.Sort == SBool {
		s = l.lowerBool(t)
	} else {
		s = l.intBV(t)
	}
	if l.minCtx == noCtx {
		if len(s) > 48 && len(t.A) > 0 && !l.NoDefine {
			l.n++
			name := fmt.Sprintf("d!%d", l.n)
			l.decls = append(l.decls, fmt.Sprintf("(define-fun %s () %s %s)", name, l.sortOf(t), s))
			if lf, ok := l.linOf[s]; ok {
				l.linOf[name] = lf
			}
			if iv, ok := l.atomIv[s]; ok {
				l.atomIv[name] = iv
			}
			s = name
		}
		l.memo[t] = s
	}
	if save < l.minCtx {
		l.minCtx = save
	}
	return s
}

func (l *Lowerer) args(t *Term) []string {
	r := make([]string, len(t.A))
	for i, a := range t.A {
		r[i] = l.T(a)
	}
	return r
}

func (l *Lowerer) lowerBool(t *Term) string {
	// INT back end booleans over BV-sorted arguments
	switch t.Op {
	case OConst:
		if t.C == 1 {
			return "true"
		}
		return "false"
	case OVar:
		l.decl(fmt.Sprintf("(declare-const %s Bool)", smtName(t.Name)))
		return smtName(t.Name)
	case OBNot:
		return "(not " + l.T(t.A[0]) + ")"
	case OBAnd:
		return "(and " + l.T(t.A[0]) + " " + l.T(t.A[1]) + ")"
	case OBOr:
		return "(or " + l.T(t.A[0]) + " " + l.T(t.A[1]) + ")"
	case OIte:
		c := l.T(t.A[0])
		l.ctx = append(l.ctx, t.A[0])
		a := l.T(t.A[1])
		l.ctx[len(l.ctx)-1] = l.notTerm(t.A[0])
		b := l.T(t.A[2])
		l.ctx = l.ctx[:len(l.ctx)-1]
		if l.minCtx >= len(l.ctx) {
			l.minCtx = noCtx
		}
		return "(ite " + c + " " + a + " " + b + ")"
	case OEq:
		if t.A[0].Sort == SBV {
			return "(= " + l.T(t.A[0]) + " " + l.T(t.A[1]) + ")"
		}
		return "(= " + l.T(t.A[0]) + " " + l.T(t.A[1]) + ")"
	case OUlt:
		return "(< " + l.T(t.A[0]) + " " + l.T(t.A[1]) + ")"
	case OUle:
		return "(<= " + l.T(t.A[0]) + " " + l.T(t.A[1]) + ")"
	case OSlt:
		return "(< " + l.signedOf(t.A[0]) + " " + l.signedOf(t.A[1]) + ")"
	case OSle:
		return "(<= " + l.signedOf(t.A[0]) + " " + l.signedOf(t.A[1]) + ")"
	case OILt:
		return "(< " + l.T(t.A[0]) + " " + l.T(t.A[1]) + ")"
	case OILe:
		return "(<= " + l.T(t.A[0]) + " " + l.T(t.A[1]) + ")"
	case ORLt:
		return "(< " + l.T(t.A[0]) + " " + l.T(t.A[1]) + ")"
	case ORLe:
		return "(<= " + l.T(t.A[0]) + " " + l.T(t.A[1]) + ")"
	case OUF:
		return l.uf(t)
	}
	l.fail("INT back end: unsupported boolean op %s", t.Op)
	return "false"
}

// a fake negation node used only as ite context (never interned/lowered)
func (l *Lowerer) notTerm(c *Term) *Term {
	if c.Op == OBNot {
		return c.A[0]
	}
	return &Term{Op: OBNot, Sort: SBool, A: []*Term{c}}
}

func (l *Lowerer) fail(format string, a ...interface{}) {
	if l.Err == nil {
		l.Err = fmt.Errorf(format, a...)
	}
}

func (l *Lowerer) uf(t *Term) string {
	var as, sorts []string
	for _, a := range t.A {
		as = append(as, l.T(a))
		sorts = append(sorts, l.sortOf(a))
	}
	name := smtName("uf_" + t.Name)
	l.decl(fmt.Sprintf("(declare-fun %s (%s) %s)", name, strings.Join(sorts, " "), l.sortOf(t)))
	if len(as) == 0 {
		return name
	}
	app := "(" + name + " " + strings.Join(as, " ") + ")"
	if l.be == BackendINT && t.Sort == SBV {
		lo, hi := bigZero, maxOfW(t.W)
		if v, ok := l.varLo[t]; ok {
			lo = v
		}
		if v, ok := l.varHi[t]; ok {
			hi = v
		}
		l.asserts = append(l.asserts, fmt.Sprintf("(and (<= %s %s) (<= %s %s))", lo, app, app, hi))
		l.ivl[t] = [2]*big.Int{lo, hi}
	}
	return app
}

// lowerCommon: BV back end for everything, and Int/Real-sorted terms for both back ends.
func (l *Lowerer) lowerCommon(t *Term) string {
	bvc := func(v *big.Int, w uint8) string { return fmt.Sprintf("(_ bv%s %d)", v.String(), w) }
	switch t.Op {
	case OConst:
		switch t.Sort {
		case SBool:
			if t.C == 1 {
				return "true"
			}
			return "false"
		case SInt:
			return sInt(t.Big)
		case SReal:
			n, d := t.Rat.Num(), t.Rat.Denom()
			if d.Cmp(bigOne) == 0 {
				if n.Sign() < 0 {
					return "(- " + new(big.Int).Neg(n).String() + ".0)"
				}
				return sInt(n) + ".0"
			}
			if n.Sign() < 0 {
				return "(- (/ " + new(big.Int).Neg(n).String() + ".0 " + d.String() + ".0))"
			}
			return "(/ " + n.String() + ".0 " + d.String() + ".0)"
		}
		return bvc(t.ConstBig(), t.W)
	case OVar:
		l.decl(fmt.Sprintf("(declare-const %s %s)", smtName(t.Name), l.sortOf(t)))
		return smtName(t.Name)
	case OUF:
		return l.uf(t)
	}
	if t.Sort == SBool && l.be == BackendINT {
		return l.lowerBool(t)
	}
	if t.Op == OIMul && l.be == BackendINT && l.ts != nil {
		// product of two machine words in a specification: use the same abstract product as the code's bits.Mul64
		x, y := t.A[0], t.A[1]
		if x.Op == OBV2Int && y.Op == OBV2Int && x.A[0].W == y.A[0].W && !x.A[0].IsConst() && !y.A[0].IsConst() {
			return l.T(l.ts.MulFull(x.A[0], y.A[0]))
		}
	}
	if (t.Op == OIMod || t.Op == OIDiv) && l.be == BackendINT && !l.NoModForms && t.A[1].IsConst() && t.A[1].Big.Sign() > 0 {
		return l.lowerIModDiv(t)
	}
	a := l.args(t)
	bin := func(op string) string { return "(" + op + " " + a[0] + " " + a[1] + ")" }
	switch t.Op {
	case OAdd:
		return bin("bvadd")
	case OSub:
		return bin("bvsub")
	case OMul:
		return bin("bvmul")
	case OUDiv:
		return bin("bvudiv")
	case OURem:
		return bin("bvurem")
	case OSDiv:
		return bin("bvsdiv")
	case OSRem:
		return bin("bvsrem")
	case OAnd:
		return bin("bvand")
	case OOr:
		return bin("bvor")
	case OXor:
		return bin("bvxor")
	case ONot:
		return "(bvnot " + a[0] + ")"
	case ONeg:
		return "(bvneg " + a[0] + ")"
	case OShl:
		return bin("bvshl")
	case OLshr:
		return bin("bvlshr")
	case OAshr:
		return bin("bvashr")
	case OZext:
		return fmt.Sprintf("((_ zero_extend %d) %s)", t.W-t.A[0].W, a[0])
	case OSext:
		return fmt.Sprintf("((_ sign_extend %d) %s)", t.W-t.A[0].W, a[0])
	case OTrunc:
		return fmt.Sprintf("((_ extract %d 0) %s)", t.W-1, a[0])
	case OMulFull:
		w := t.A[0].W
		return fmt.Sprintf("(bvmul ((_ zero_extend %d) %s) ((_ zero_extend %d) %s))", w, a[0], w, a[1])
	case OExtract:
		return fmt.Sprintf("((_ extract %d %d) %s)", t.C>>8, t.C&255, a[0])
	case OConcat:
		return bin("concat")
	case OIte:
		return "(ite " + a[0] + " " + a[1] + " " + a[2] + ")"
	case OEq:
		return bin("=")
	case OUlt:
		return bin("bvult")
	case OUle:
		return bin("bvule")
	case OSlt:
		return bin("bvslt")
	case OSle:
		return bin("bvsle")
	case OBNot:
		return "(not " + a[0] + ")"
	case OBAnd:
		return bin("and")
	case OBOr:
		return bin("or")
	case OIAdd, ORAdd:
		return bin("+")
	case OISub, ORSub:
		return bin("-")
	case OIMul, ORMul:
		return bin("*")
	case OIDiv:
		return bin("div")
	case OIMod:
		return bin("mod")
	case ORDiv:
		return bin("/")
	case OINeg:
		return "(- " + a[0] + ")"
	case OILt, ORLt:
		return bin("<")
	case OILe, ORLe:
		return bin("<=")
	case OBV2Int:
		if l.be == BackendINT {
			return a[0]
		}
		return "(bv2nat " + a[0] + ")"
	case OSBV2Int:
		if l.be == BackendINT {
			return l.signedOf(t.A[0])
		}
		w := t.A[0].W
		return fmt.Sprintf("(ite (bvslt %s (_ bv0 %d)) (- (bv2nat %s) %s) (bv2nat %s))", a[0], w, a[0], pow2(uint(w)), a[0])
	case OInt2BV:
		return fmt.Sprintf("((_ int2bv %d) %s)", t.W, a[0])
	case OInt2Real:
		return "(to_real " + a[0] + ")"
	case OFloor:
		return "(to_int " + a[0] + ")"
	}
	l.fail("lower: unsupported op %s", t.Op)
	return "0"
}

// ---------------------------------------------------------------- INT back end for BV-sorted terms

func (l *Lowerer) iv(t *Term) (*big.Int, *big.Int) {
	if r, ok := l.ivl[t]; ok && r[0] != nil && r[1] != nil {
		return r[0], r[1]
	}
	if t.IsConst() {
		return t.ConstBig(), t.ConstBig()
	}
	return bigZero, maxOfW(t.W)
}

func (l *Lowerer) setiv(t *Term, lo, hi *big.Int) {
	if l.minCtx == noCtx {
		l.ivl[t] = [2]*big.Int{lo, hi}
	}
}

// signedOf gives the Int expression of the signed value of a BV term.
func (l *Lowerer) signedOf(t *Term) string {
	e := l.T(t)
	if l.be == BackendBV {
		panic("signedOf in BV back end")
	}
	lo, hi := l.iv(t)
	half := pow2(uint(t.W) - 1)
	if t.IsConst() {
		return sInt(t.SignedBig())
	}
	if hi.Cmp(half) < 0 {
		return e
	}
	if lo.Cmp(half) >= 0 {
		return fmt.Sprintf("(- %s %s)", e, pow2(uint(t.W)))
	}
	return fmt.Sprintf("(ite (>= %s %s) (- %s %s) %s)", e, half, e, pow2(uint(t.W)), e)
}

// lin is a linear form  Σ c_i·atom_i + k  over SMT atoms (names or opaque sub-expressions).
type lin struct {
	terms map[string]*big.Int
	order []string
	k     *big.Int
}

func newLin() *lin { return &lin{terms: map[string]*big.Int{}, k: new(big.Int)} }

func (a *lin) addAtom(name string, c *big.Int) {
	if old, ok := a.terms[name]; ok {
		old.Add(old, c)
		return
	}
	a.terms[name] = new(big.Int).Set(c)
	a.order = append(a.order, name)
}

func (a *lin) addLin(b *lin, c *big.Int) {
	for _, n := range b.order {
		a.addAtom(n, new(big.Int).Mul(b.terms[n], c))
	}
	a.k.Add(a.k, new(big.Int).Mul(b.k, c))
}

func (a *lin) render() string {
	var parts []string
	for _, n := range a.order {
		c := a.terms[n]
		switch {
		case c.Sign() == 0:
		case c.Cmp(bigOne) == 0:
			parts = append(parts, n)
		default:
			parts = append(parts, "(* "+sInt(c)+" "+n+")")
		}
	}
	if a.k.Sign() != 0 || len(parts) == 0 {
		parts = append(parts, sInt(a.k))
	}
	if len(parts) == 1 {
		return parts[0]
	}
	return "(+ " + strings.Join(parts, " ") + ")"
}

// U returns an unwrapped linear form e with value(t) ≡ e (mod 2^W) and the interval of e.
func (l *Lowerer) U(t *Term) (*lin, *big.Int, *big.Int) {
	switch t.Op {
	case OAdd:
		x, xl, xh := l.U(t.A[0])
		y, yl, yh := l.U(t.A[1])
		r := newLin()
		r.addLin(x, bigOne)
		r.addLin(y, bigOne)
		return r, new(big.Int).Add(xl, yl), new(big.Int).Add(xh, yh)
	case OSub:
		if !t.A[0].IsConst() && l.knownLe(t.A[1], t.A[0]) {
			// b <= a is known for the machine values: use the canonical operands, no underflow possible
			xe, ye := l.T(t.A[0]), l.T(t.A[1])
			xl, xh := l.iv(t.A[0])
			if !l.hasIv(t.A[0]) || xl == nil || xh == nil {
				xl, xh = bigZero, maxOfW(t.W)
			}
			yl, yh := l.iv(t.A[1])
			if !l.hasIv(t.A[1]) || yl == nil || yh == nil {
				yl, yh = bigZero, maxOfW(t.W)
			}
			lo, hi := new(big.Int).Sub(xl, yh), new(big.Int).Sub(xh, yl)
			if lo.Sign() < 0 {
				lo = big.NewInt(0)
			}
			r := newLin()
			r.addAtom(xe, bigOne)
			l.atomIv[xe] = [2]*big.Int{bigZero, maxOfW(t.W)}
			if !t.A[1].IsConst() {
				l.atomIv[ye] = [2]*big.Int{bigZero, maxOfW(t.W)}
			}
			if t.A[1].IsConst() {
				r.k.Sub(r.k, t.A[1].ConstBig())
			} else {
				r.addAtom(ye, big.NewInt(-1))
			}
			return r, lo, hi
		}
		x, xl, xh := l.U(t.A[0])
		y, yl, yh := l.U(t.A[1])
		lo, hi := new(big.Int).Sub(xl, yh), new(big.Int).Sub(xh, yl)
		r := newLin()
		r.addLin(x, bigOne)
		r.addLin(y, big.NewInt(-1))
		return r, lo, hi
	case OMul:
		c, v := t.A[1], t.A[0]
		if c.IsConst() {
			x, xl, xh := l.U(v)
			k := c.ConstBig()
			r := newLin()
			r.addLin(x, k)
			return r, new(big.Int).Mul(xl, k), new(big.Int).Mul(xh, k)
		}
	case OShl:
		if t.A[1].IsConst() && t.A[1].C < uint64(t.W) {
			x, xl, xh := l.U(t.A[0])
			k := pow2(uint(t.A[1].C))
			r := newLin()
			r.addLin(x, k)
			return r, new(big.Int).Mul(xl, k), new(big.Int).Mul(xh, k)
		}
	case OConst:
		r := newLin()
		r.k.Set(t.ConstBig())
		return r, t.ConstBig(), t.ConstBig()
	}
	e := l.T(t)
	lo, hi := l.iv(t)
	if !l.hasIv(t) {
		lo, hi = bigZero, maxOfW(t.W)
	}
	if old, ok := l.atomIv[e]; !ok || (lo.Cmp(old[0]) <= 0 && hi.Cmp(old[1]) >= 0) {
		l.atomIv[e] = [2]*big.Int{lo, hi} // keep the widest interval seen for this expression (context independent)
	}
	r := newLin()
	r.addAtom(e, bigOne)
	return r, lo, hi
}

type splitRec struct {
	x        string // the split expression X = H*2^k + L
	k        uint
	xlo, xhi *big.Int
}

// substLo rewrites low halves  L = X - H*2^k  (k = wrap width) into X: the result is congruent modulo 2^k and lets
// the solver reason about the wide mathematical value (Barrett / Montgomery style code).
func (l *Lowerer) substLo(a *lin, lo, hi *big.Int, w uint8) (*lin, *big.Int, *big.Int, bool) {
	changed := false
	r := newLin()
	r.k.Set(a.k)
	nlo, nhi := new(big.Int).Set(lo), new(big.Int).Set(hi)
	for _, n := range a.order {
		c := a.terms[n]
		rec, ok := l.loOf[n]
		if !ok || rec.k != uint(w) || c.Sign() == 0 {
			r.addAtom(n, c)
			continue
		}
		changed = true
		r.addAtom(rec.x, c)
		lmax := new(big.Int).Sub(pow2(rec.k), bigOne)
		// remove the contribution of L in [0,lmax], add that of X in [xlo,xhi]
		if c.Sign() > 0 {
			nlo.Add(nlo, new(big.Int).Mul(c, rec.xlo))
			nhi.Sub(nhi, new(big.Int).Mul(c, lmax))
			nhi.Add(nhi, new(big.Int).Mul(c, rec.xhi))
		} else {
			nlo.Sub(nlo, new(big.Int).Mul(c, lmax))
			nlo.Add(nlo, new(big.Int).Mul(c, rec.xhi))
			nhi.Add(nhi, new(big.Int).Mul(c, rec.xlo))
		}
	}
	return r, nlo, nhi, changed
}

// reduceCoefs replaces every coefficient by its least-absolute residue modulo 2^w (the value is only needed
// modulo 2^w).  For Barrett/Montgomery style code this turns the low-word computation into the small mathematical
// value it represents, so that the wrap count becomes (nearly) constant.
func (l *Lowerer) reduceCoefs(a *lin, w uint8) (*lin, *big.Int, *big.Int, bool) {
	m := pow2(uint(w))
	half := pow2(uint(w) - 1)
	changed := false
	r := newLin()
	lo, hi := new(big.Int), new(big.Int)
	red := func(c *big.Int) *big.Int {
		x := new(big.Int).Mod(c, m)
		if x.Cmp(half) > 0 {
			x.Sub(x, m)
		}
		return x
	}
	for _, n := range a.order {
		c := a.terms[n]
		if c.Sign() == 0 {
			continue
		}
		c2 := red(c)
		if c2.Cmp(c) != 0 {
			changed = true
		}
		iv, ok := l.atomIv[n]
		if !ok {
			return nil, nil, nil, false
		}
		r.addAtom(n, c2)
		if c2.Sign() > 0 {
			lo.Add(lo, new(big.Int).Mul(c2, iv[0]))
			hi.Add(hi, new(big.Int).Mul(c2, iv[1]))
		} else {
			lo.Add(lo, new(big.Int).Mul(c2, iv[1]))
			hi.Add(hi, new(big.Int).Mul(c2, iv[0]))
		}
	}
	k2 := red(a.k)
	if k2.Cmp(a.k) != 0 {
		changed = true
	}
	r.k.Set(k2)
	lo.Add(lo, k2)
	hi.Add(hi, k2)
	return r, lo, hi, changed
}

// wrapLin wraps a linear form (applying the low-half substitution profile when enabled).
func (l *Lowerer) wrapLin(a *lin, lo, hi *big.Int, w uint8) (string, *big.Int, *big.Int) {
	if lo.Sign() >= 0 && hi.Cmp(maxOfW(w)) <= 0 {
		return a.render(), lo, hi
	}
	if l.LoSubst {
		if b, blo, bhi, ok := l.substLo(a, lo, hi, w); ok {
			return l.wrap(b.render(), blo, bhi, w, a)
		}
	}
	if l.CoefReduce {
		if b, blo, bhi, ok := l.reduceCoefs(a, w); ok {
			return l.wrap(b.render(), blo, bhi, w, a)
		}
	}
	return l.wrap(a.render(), lo, hi, w, a)
}

// wrap reduces an Int expression with interval [lo,hi] into [0,2^w).
func (l *Lowerer) wrap(expr string, lo, hi *big.Int, w uint8, lf *lin) (string, *big.Int, *big.Int) {
	m := pow2(uint(w))
	mx := new(big.Int).Sub(m, bigOne)
	if lo.Sign() >= 0 && hi.Cmp(mx) <= 0 {
		return expr, lo, hi
	}
	if lf != nil && w == 64 && !l.NoModForms {
		if a, ok := l.simpleMod(lf, w); ok {
			iv := l.atomIv[a]
			return a, iv[0], iv[1]
		}
	}
	l.wraps++
	klo := new(big.Int).Div(lo, m) // floor
	khi := new(big.Int).Div(hi, m)
	if klo.Cmp(khi) == 0 {
		// constant number of wraps
		off := new(big.Int).Mul(klo, m)
		return "(- " + expr + " " + sInt(off) + ")", new(big.Int).Sub(lo, off), new(big.Int).Sub(hi, off)
	}
	k := l.fresh("k", "Int")
	r := l.fresh("w", "Int")
	l.asserts = append(l.asserts, fmt.Sprintf("(= %s (- %s (* %s %s)))", r, expr, k, m))
	l.asserts = append(l.asserts, fmt.Sprintf("(and (<= 0 %s) (< %s %s))", r, r, m))
	l.asserts = append(l.asserts, fmt.Sprintf("(and (<= %s %s) (<= %s %s))", sInt(klo), k, k, sInt(khi)))
	l.atomIv[r] = [2]*big.Int{bigZero, mx}
	if lf != nil && w == 64 {
		l.modOf[r] = lf
	}
	return r, bigZero, mx
}

// simpleMod decides whether a linear form is congruent modulo 2^w to a single in-range atom (then the wrapped
// value IS that atom): coefficients are reduced modulo 2^w and atoms that are themselves wraps / low halves
// are expanded level by level.  This is exact modular arithmetic on the concrete constants of the code
// (e.g. q * q^-1 = 1 mod 2^64) and adds no assumption.
func (l *Lowerer) simpleMod(lf *lin, w uint8) (string, bool) {
	m := pow2(uint(w))
	half := pow2(uint(w) - 1)
	red := func(c *big.Int) *big.Int {
		x := new(big.Int).Mod(c, m)
		if x.Cmp(half) > 0 {
			x.Sub(x, m)
		}
		return x
	}
	cur := lf
	for depth := 0; depth < 8; depth++ {
		r := newLin()
		for _, n := range cur.order {
			c := red(cur.terms[n])
			if c.Sign() != 0 {
				r.addAtom(n, c)
			}
		}
		r.k = red(cur.k)
		live := 0
		var atom string
		for _, n := range r.order {
			if r.terms[n].Sign() != 0 {
				live++
				atom = n
			}
		}
		if live == 1 && r.k.Sign() == 0 && r.terms[atom].Cmp(bigOne) == 0 {
			if iv, ok := l.atomIv[atom]; ok && iv[0].Sign() >= 0 && iv[1].Cmp(maxOfW(w)) <= 0 {
				return atom, true
			}
		}
		if live > 1 {
			// several atoms: if the reduced form provably lies in [0, 2^w) it is its own low half
			lo, hi, known := new(big.Int).Set(r.k), new(big.Int).Set(r.k), true
			for _, n := range r.order {
				c := r.terms[n]
				if c.Sign() == 0 {
					continue
				}
				iv, ok := l.atomIv[n]
				if !ok {
					known = false
					break
				}
				if c.Sign() > 0 {
					lo.Add(lo, new(big.Int).Mul(c, iv[0]))
					hi.Add(hi, new(big.Int).Mul(c, iv[1]))
				} else {
					lo.Add(lo, new(big.Int).Mul(c, iv[1]))
					hi.Add(hi, new(big.Int).Mul(c, iv[0]))
				}
			}
			if known && lo.Sign() >= 0 && hi.Cmp(maxOfW(w)) <= 0 {
				return r.render(), true
			}
		}
		next := newLin()
		next.k.Set(r.k)
		changed := false
		for _, n := range r.order {
			c := r.terms[n]
			if c.Sign() == 0 {
				continue
			}
			if mf, ok := l.modOf[n]; ok {
				next.addLin(mf, c)
				changed = true
			} else {
				next.addAtom(n, c)
			}
		}
		if !changed {
			break
		}
		cur = next
	}
	return "", false
}

// split writes ex = H*2^k + L with 0<=L<2^k; returns (H, L).
func (l *Lowerer) split(ex string, lo, hi *big.Int, k uint) (string, string, *big.Int, *big.Int) {
	key := fmt.Sprintf("%s@%d", ex, k)
	hlo, hhi := new(big.Int).Rsh(lo, k), new(big.Int).Rsh(hi, k)
	if s, ok := l.splits[key]; ok {
		return s[0], s[1], hlo, hhi
	}
	m := pow2(k)
	if hlo.Cmp(hhi) == 0 {
		h := sInt(hlo)
		lw := "(- " + ex + " " + new(big.Int).Mul(hlo, m).String() + ")"
		l.splits[key] = [2]string{h, lw}
		return h, lw, hlo, hhi
	}
	lf := l.linOf[ex]
	if lf == nil {
		lf = newLin()
		lf.addAtom(ex, bigOne)
	}
	if k == 64 && !l.NoModForms {
		if a, ok := l.simpleMod(lf, 64); ok && a != ex {
			// the low half is a known in-range value
			h := l.fresh("hi", "Int")
			l.asserts = append(l.asserts, fmt.Sprintf("(= %s (+ (* %s %s) %s))", ex, h, m, a))
			l.asserts = append(l.asserts, fmt.Sprintf("(and (<= %s %s) (<= %s %s))", sInt(hlo), h, h, sInt(hhi)))
			l.atomIv[h] = [2]*big.Int{hlo, hhi}
			l.splits[key] = [2]string{h, a}
			l.hiAtoms[h] = hiRec{x: lf, lo: a, k: k}
			return h, a, hlo, hhi
		}
	}
	h, lw := l.fresh("hi", "Int"), l.fresh("lo", "Int")
	l.loOf[lw] = splitRec{x: ex, k: k, xlo: lo, xhi: hi}
	l.atomIv[h] = [2]*big.Int{hlo, hhi}
	l.atomIv[lw] = [2]*big.Int{bigZero, new(big.Int).Sub(m, bigOne)}
	if k == 64 {
		l.modOf[lw] = lf
	}
	l.asserts = append(l.asserts, fmt.Sprintf("(= %s (+ (* %s %s) %s))", ex, h, m, lw))
	l.asserts = append(l.asserts, fmt.Sprintf("(and (<= 0 %s) (< %s %s) (<= %s %s) (<= %s %s))", lw, lw, m, sInt(hlo), h, h, sInt(hhi)))
	l.splits[key] = [2]string{h, lw}
	l.hiAtoms[h] = hiRec{x: lf, lo: lw, k: k}
	return h, lw, hlo, hhi
}

func (l *Lowerer) intBV(t *Term) string {
	full := maxOfW(t.W)
	switch t.Op {
	case OConst:
		l.setiv(t, t.ConstBig(), t.ConstBig())
		return t.ConstBig().String()
	case OVar:
		name := smtName(t.Name)
		l.decl(fmt.Sprintf("(declare-const %s Int)", name))
		lo, hi := bigZero, full
		if v, ok := l.varLo[t]; ok {
			lo = v
		}
		if v, ok := l.varHi[t]; ok {
			hi = v
		}
		key := "(range " + name + ")"
		if !l.declSet[key] {
			l.declSet[key] = true
			// the interval refined by the path facts is asserted with the variable: the facts themselves are
			// lowered under that interval and may simplify to true
			l.asserts = append(l.asserts, fmt.Sprintf("(and (<= %s %s) (<= %s %s))", lo, name, name, hi))
		}
		l.setiv(t, lo, hi)
		return name
	case OUF:
		return l.uf(t)
	case OAdd, OSub:
		ex, lo, hi := l.U(t)
		r, lo, hi := l.wrapLin(ex, lo, hi, t.W)
		l.setiv(t, lo, hi)
		return r
	case OMul:
		if t.A[1].IsConst() {
			ex, lo, hi := l.U(t)
			r, lo, hi := l.wrapLin(ex, lo, hi, t.W)
			l.setiv(t, lo, hi)
			return r
		}
		// symbolic x symbolic low product (non-linear)
		x, y := l.T(t.A[0]), l.T(t.A[1])
		xl, xh := l.iv(t.A[0])
		yl, yh := l.iv(t.A[1])
		r, lo, hi := l.wrap("(* "+x+" "+y+")", new(big.Int).Mul(xl, yl), new(big.Int).Mul(xh, yh), t.W, nil)
		l.setiv(t, lo, hi)
		return r
	case OShl:
		if t.A[1].IsConst() {
			if t.A[1].C >= uint64(t.W) {
				l.setiv(t, bigZero, bigZero)
				return "0"
			}
			ex, lo, hi := l.U(t)
			r, lo, hi := l.wrapLin(ex, lo, hi, t.W)
			l.setiv(t, lo, hi)
			return r
		}
	case OLshr:
		if t.A[1].IsConst() {
			k := uint(t.A[1].C)
			if k >= uint(t.W) {
				l.setiv(t, bigZero, bigZero)
				return "0"
			}
			x := l.T(t.A[0])
			xl, xh := l.iv(t.A[0])
			h, _, hlo, hhi := l.split(x, xl, xh, k)
			l.setiv(t, hlo, hhi)
			return h
		}
	case OAnd:
		if t.A[1].IsConst() {
			m := new(big.Int).Add(t.A[1].ConstBig(), bigOne)
			if m.BitLen() > 0 && new(big.Int).And(m, t.A[1].ConstBig()).Sign() == 0 { // mask 2^k-1
				k := uint(m.BitLen() - 1)
				x := l.T(t.A[0])
				xl, xh := l.iv(t.A[0])
				if xh.Cmp(t.A[1].ConstBig()) <= 0 {
					l.setiv(t, xl, xh)
					return x
				}
				_, lw, _, _ := l.split(x, xl, xh, k)
				l.setiv(t, bigZero, t.A[1].ConstBig())
				return lw
			}
		}
	case ONot:
		x := l.T(t.A[0])
		xl, xh := l.iv(t.A[0])
		l.setiv(t, new(big.Int).Sub(full, xh), new(big.Int).Sub(full, xl))
		return "(- " + full.String() + " " + x + ")"
	case OZext:
		x := l.T(t.A[0])
		lo, hi := l.iv(t.A[0])
		l.setiv(t, lo, hi)
		return x
	case OSext:
		x := l.T(t.A[0])
		_, hi := l.iv(t.A[0])
		half := pow2(uint(t.A[0].W) - 1)
		if hi.Cmp(half) < 0 {
			lo, hi := l.iv(t.A[0])
			l.setiv(t, lo, hi)
			return x
		}
		d := new(big.Int).Sub(pow2(uint(t.W)), pow2(uint(t.A[0].W)))
		l.setiv(t, bigZero, full)
		return fmt.Sprintf("(ite (>= %s %s) (+ %s %s) %s)", x, half, x, d, x)
	case OTrunc:
		x := l.T(t.A[0])
		xl, xh := l.iv(t.A[0])
		if xh.Cmp(full) <= 0 {
			l.setiv(t, xl, xh)
			return x
		}
		_, lw, _, _ := l.split(x, xl, xh, uint(t.W))
		l.setiv(t, bigZero, full)
		return lw
	case OMulFull:
		x, y := l.T(t.A[0]), l.T(t.A[1])
		xl, xh := l.iv(t.A[0])
		yl, yh := l.iv(t.A[1])
		lo, hi := new(big.Int).Mul(xl, yl), new(big.Int).Mul(xh, yh)
		l.setiv(t, lo, hi)
		if t.A[1].IsConst() {
			e := "(* " + x + " " + y + ")"
			lf := newLin()
			lf.addAtom(x, t.A[1].ConstBig())
			l.linOf[e] = lf
			if _, ok := l.atomIv[x]; !ok {
				l.atomIv[x] = [2]*big.Int{xl, xh}
			}
			return e
		}
		// symbolic x symbolic: abstract product (sound over-approximation; specifications refer to the same term)
		p := l.fresh("P", "Int")
		l.atomIv[p] = [2]*big.Int{lo, hi}
		l.asserts = append(l.asserts, fmt.Sprintf("(and (<= %s %s) (<= %s %s))", lo, p, p, hi))
		// helpful monotonicity facts: P >= x*ylo and P <= x*yhi etc. (linear, sound)
		l.asserts = append(l.asserts, fmt.Sprintf("(and (>= %s (* %s %s)) (<= %s (* %s %s)) (>= %s (* %s %s)) (<= %s (* %s %s)))", p, x, yl, p, x, yh, p, y, xl, p, y, xh))
		return p
	case OExtract:
		hiB, loB := uint(t.C>>8), uint(t.C&255)
		x := l.T(t.A[0])
		xl, xh := l.iv(t.A[0])
		cur, clo, chi := x, xl, xh
		if loB > 0 {
			h, _, hlo, hhi := l.split(x, xl, xh, loB)
			cur, clo, chi = h, hlo, hhi
		}
		w := hiB - loB + 1
		if chi.Cmp(maxOfW(uint8(w))) > 0 {
			_, lw, _, _ := l.split(cur, clo, chi, w)
			l.setiv(t, bigZero, maxOfW(uint8(w)))
			return lw
		}
		l.setiv(t, clo, chi)
		return cur
	case OConcat:
		h, lw := l.T(t.A[0]), l.T(t.A[1])
		hl, hh := l.iv(t.A[0])
		ll, lh := l.iv(t.A[1])
		m := pow2(uint(t.A[1].W))
		l.setiv(t, new(big.Int).Add(new(big.Int).Mul(hl, m), ll), new(big.Int).Add(new(big.Int).Mul(hh, m), lh))
		if hl.Cmp(hh) != 0 {
			l.setiv(t, new(big.Int).Mul(hl, m), new(big.Int).Add(new(big.Int).Mul(hh, m), maxOfW(t.A[1].W)))
		}
		return "(+ (* " + h + " " + m.String() + ") " + lw + ")"
	case OIte:
		// conditional correction  ite(K <= X, X-K, X)  ==>  X - K*[K <= X]   (0/1-linear form: congruences modulo a
		// divisor of K no longer depend on the condition)
		if l.LinIte {
			th, el, cd := t.A[1], t.A[2], t.A[0]
			if th.Op == OSub && th.A[0] == el && th.A[1].IsConst() && (cd.Op == OUle && cd.A[0] == th.A[1] && cd.A[1] == el) {
				k := th.A[1].ConstBig()
				c := l.T(cd)
				y := l.T(el)
				yl, yh := l.iv(el)
				if l.hasIv(el) || el.IsConst() {
					// then-branch: [max(yl,K)-K, yh-K] ; else-branch: [yl, min(yh,K-1)]
					lo := new(big.Int).Set(yl)
					if yl.Cmp(k) >= 0 {
						lo.Sub(yl, k)
					} else {
						lo = big.NewInt(0)
						if yl.Sign() > 0 && yh.Cmp(k) < 0 {
							lo = yl
						}
					}
					hi := new(big.Int).Sub(yh, k)
					km1 := new(big.Int).Sub(k, bigOne)
					eh := yh
					if km1.Cmp(eh) < 0 {
						eh = km1
					}
					if yl.Cmp(k) >= 0 {
						// condition always true
					} else if eh.Cmp(hi) > 0 {
						hi = eh
					}
					if hi.Sign() < 0 {
						hi = eh
					}
					l.setiv(t, lo, hi)
					e := "(- " + y + " (* " + k.String() + " (ite " + c + " 1 0)))"
					lf := newLin()
					lf.addAtom(y, bigOne)
					b := "(ite " + c + " 1 0)"
					lf.addAtom(b, new(big.Int).Neg(k))
					l.linOf[e] = lf
					l.atomIv[b] = [2]*big.Int{bigZero, bigOne}
					if _, ok := l.atomIv[y]; !ok {
						l.atomIv[y] = [2]*big.Int{yl, yh}
					}
					return e
				}
			}
		}
		c := l.T(t.A[0])
		l.ctx = append(l.ctx, t.A[0])
		depth := len(l.ctx) - 1
		x := l.T(t.A[1])
		xl, xh := l.iv(t.A[1])
		if !l.hasIv(t.A[1]) {
			xl, xh = l.ivUnder(t.A[1])
		}
		l.ctx[depth] = l.notTerm(t.A[0])
		y := l.T(t.A[2])
		yl, yh := l.iv(t.A[2])
		if !l.hasIv(t.A[2]) {
			yl, yh = l.ivUnder(t.A[2])
		}
		// else-branch of  ite(K <= X, _, X): X < K
		if cd := t.A[0]; cd.Op == OUle && cd.A[0].IsConst() && cd.A[1] == t.A[2] {
			km1 := new(big.Int).Sub(cd.A[0].ConstBig(), bigOne)
			if km1.Sign() >= 0 && km1.Cmp(yh) < 0 {
				yh = km1
			}
		}
		l.ctx = l.ctx[:depth]
		if l.minCtx >= depth {
			l.minCtx = noCtx
		}
		lo, hi := xl, xh
		if yl.Cmp(lo) < 0 {
			lo = yl
		}
		if yh.Cmp(hi) > 0 {
			hi = yh
		}
		l.setiv(t, lo, hi)
		return "(ite " + c + " " + x + " " + y + ")"
	case OUDiv, OURem:
		x := l.T(t.A[0])
		xl, xh := l.iv(t.A[0])
		if t.A[1].IsConst() && t.A[1].ConstBig().Sign() > 0 {
			c := t.A[1].ConstBig()
			if t.Op == OURem && !l.NoModForms {
				// operand built from specification remainders/quotients: keep the exact (mod · c) form (smt_modq.go)
				save := l.minCtx
				lf, lo, hi := l.U(t.A[0])
				l.minCtx = save
				if lo.Sign() >= 0 && hi.Cmp(maxOfW(t.W)) <= 0 {
					spec := false
					for _, n := range lf.order {
						if _, ok := l.modAtoms[n]; ok {
							spec = true
						}
						if _, ok := l.divAtoms[n]; ok {
							spec = true
						}
					}
					if spec {
						h := new(big.Int).Sub(c, bigOne)
						l.setiv(t, bigZero, h)
						return l.modAtom(lf, c)
					}
				}
			}
			qv, rv := l.fresh("q", "Int"), l.fresh("r", "Int")
			l.asserts = append(l.asserts, fmt.Sprintf("(= %s (+ (* %s %s) %s))", x, qv, c, rv))
			l.asserts = append(l.asserts, fmt.Sprintf("(and (<= 0 %s) (< %s %s) (<= %s %s) (<= %s %s))", rv, rv, c, new(big.Int).Quo(xl, c), qv, qv, new(big.Int).Quo(xh, c)))
			if t.Op == OUDiv {
				l.setiv(t, new(big.Int).Quo(xl, c), new(big.Int).Quo(xh, c))
				return qv
			}
			hi := new(big.Int).Sub(c, bigOne)
			if xh.Cmp(hi) < 0 {
				hi = xh
			}
			l.setiv(t, bigZero, hi)
			return rv
		}
		y := l.T(t.A[1])
		if t.Op == OUDiv {
			l.setiv(t, bigZero, xh)
			return "(div " + x + " " + y + ")"
		}
		_, yh := l.iv(t.A[1])
		l.setiv(t, bigZero, yh)
		return "(mod " + x + " " + y + ")"
	case OInt2BV:
		if in := t.A[0]; in.Op == OIMod && in.A[1].IsConst() && in.A[1].Big.Sign() > 0 && in.A[1].Big.Cmp(pow2(uint(t.W))) <= 0 {
			// a Euclidean remainder by a constant that fits the word: no wrap
			e := l.T(in)
			l.setiv(t, bigZero, new(big.Int).Sub(in.A[1].Big, bigOne))
			return e
		}
		e := l.T(t.A[0])
		k := l.fresh("k", "Int")
		r := l.fresh("w", "Int")
		m := pow2(uint(t.W))
		l.asserts = append(l.asserts, fmt.Sprintf("(= %s (- %s (* %s %s)))", r, e, k, m))
		l.asserts = append(l.asserts, fmt.Sprintf("(and (<= 0 %s) (< %s %s))", r, r, m))
		l.setiv(t, bigZero, full)
		return r
	}
	l.fail("INT back end: unsupported op %s in %v (use the BV back end)", t.Op, t)
	return "0"
}

func (l *Lowerer) hasIv(t *Term) bool {
	_, ok := l.ivl[t]
	return ok || t.IsConst()
}

// ivUnder recomputes the interval of a context-dependent (non-memoised) term by lowering U again.
func (l *Lowerer) ivUnder(t *Term) (*big.Int, *big.Int) {
	switch t.Op {
	case OAdd, OSub, OMul, OShl:
		save := l.minCtx
		_, lo, hi := l.U(t)
		l.minCtx = save
		m := maxOfW(t.W)
		if lo.Sign() >= 0 && hi.Cmp(m) <= 0 {
			return lo, hi
		}
	}
	return bigZero, maxOfW(t.W)
}

// ---------------------------------------------------------------- query assembly

type Query struct {
	ID       string
	Backend  Backend
	Script   string   // declarations + assertions (without check-sat)
	Vars     []string // variables to fetch for a counterexample
	Err      error
	NVars    int
	NAsserts int
}

// termVars collects the variables / uninterpreted symbols of a term.
func termVars(t *Term, seen map[*Term]bool, out map[*Term]bool) {
	if t == nil || seen[t] {
		return
	}
	seen[t] = true
	if t.Op == OVar {
		out[t] = true
	}
	for _, a := range t.A {
		termVars(a, seen, out)
	}
}

// coneOfInfluence keeps the assumptions that (transitively) share variables with the goal.
func coneOfInfluence(assumptions []*Term, goal *Term, inputs []InputVar) []*Term {
	isInput := map[*Term]bool{}
	for _, iv := range inputs {
		isInput[iv.Term] = true
	}
	if goal == nil {
		return assumptions
	}
	vars := map[*Term]bool{}
	termVars(goal, map[*Term]bool{}, vars)
	avars := make([]map[*Term]bool, len(assumptions))
	for i, a := range assumptions {
		avars[i] = map[*Term]bool{}
		termVars(a, map[*Term]bool{}, avars[i])
	}
	in := make([]bool, len(assumptions))
	changed := true
	for changed {
		changed = false
		for i := range assumptions {
			if in[i] {
				continue
			}
			// An assumption is relevant when it shares an auxiliary (non-input) variable with the cone, or when it
			// constrains only inputs and at least one of them is in the cone.  Definitions of auxiliary values
			// (contract stubs) that merely read inputs of the cone are left out.
			hit := len(avars[i]) == 0
			onlyInputs, sharesInput := true, false
			for v := range avars[i] {
				if !isInput[v] && !strings.HasPrefix(v.Name, "crt") { // crt*: quotient of a vCRTLift fact, a property of the inputs
					onlyInputs = false
					if vars[v] {
						hit = true
					}
				} else if vars[v] {
					sharesInput = true
				}
			}
			if onlyInputs && sharesInput {
				hit = true
			}
			if hit {
				in[i] = true
				changed = true
				for v := range avars[i] {
					vars[v] = true
				}
			}
		}
	}
	var out []*Term
	for i, a := range assumptions {
		if in[i] {
			out = append(out, a)
		}
	}
	return out
}

// BuildQuery creates the script for: assumptions ∧ ¬goal  (goal == nil: just the assumptions).
func BuildQuery(ts *TermStore, be Backend, id string, assumptions []*Term, goal *Term, inputs []InputVar, profile int) *Query {
	l := NewLowerer(be, ts)
	l.LoSubst = profile == 1
	l.CoefReduce = profile == 0
	l.LinIte = profile == 0
	l.AddFacts(assumptions)
	var as []string
	for _, a := range assumptions {
		as = append(as, l.T(a))
	}
	g := ""
	if goal != nil {
		g = l.T(goal)
	}
	var sb strings.Builder
	var names []string
	for _, iv := range inputs {
		// make sure inputs are declared so that a model can be read
		n := l.T(iv.Term)
		names = append(names, n)
	}
	sort.Strings(names)
	for _, d := range l.decls {
		sb.WriteString(d)
		sb.WriteByte('\n')
	}
	for _, a := range l.asserts {
		sb.WriteString("(assert " + a + ")\n")
	}
	for _, a := range as {
		if a != "true" {
			sb.WriteString("(assert " + a + ")\n")
		}
	}
	if goal != nil {
		sb.WriteString("(assert (not " + g + "))\n")
	}
	return &Query{ID: id, Backend: be, Script: sb.String(), Vars: names, Err: l.Err, NVars: len(l.decls), NAsserts: len(l.asserts) + len(as) + 1}
}
