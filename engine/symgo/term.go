// Package symgo is a symbolic executor for Go programs in go/ssa form, written for the
// lattigo verification task.  term.go: the hash-consed term IR shared by both SMT back ends.
package symgo

import (
	"fmt"
	"math/big"
	"math/bits"
	"strings"
)

type Sort uint8

const (
	SBool Sort = iota
	SBV
	SInt
	SReal
)

type Op uint8

const (
	OConst Op = iota
	OVar
	// bit-vector (machine word) operations; result width = W
	OAdd
	OSub
	OMul
	OUDiv
	OURem
	OSDiv
	OSRem
	OAnd
	OOr
	OXor
	ONot
	ONeg
	OShl
	OLshr
	OAshr
	OZext
	OSext
	OTrunc
	OMulFull // 2W-bit product of two W-bit unsigned values
	OExtract // bits [C>>8 : C&255] of A[0]
	OConcat  // A[0] high part, A[1] low part
	OIte
	// predicates
	OEq
	OUlt
	OUle
	OSlt
	OSle
	// booleans
	OBNot
	OBAnd
	OBOr
	// mathematical integers (math/big, specifications)
	OIAdd
	OISub
	OIMul
	OIDiv // floor division (SMT div for positive divisor)
	OIMod // SMT mod
	OINeg
	OILt
	OILe
	OBV2Int  // unsigned value of a BV
	OSBV2Int // signed value of a BV
	OInt2BV  // low W bits
	// reals (big.Float scales)
	ORAdd
	ORSub
	ORMul
	ORDiv
	ORLt
	ORLe
	OInt2Real
	OFloor // real -> int
	OUF    // uninterpreted function Name(A...)
)

var opNames = map[Op]string{OConst: "const", OVar: "var", OAdd: "add", OSub: "sub", OMul: "mul", OUDiv: "udiv", OURem: "urem",
	OSDiv: "sdiv", OSRem: "srem", OAnd: "and", OOr: "or", OXor: "xor", ONot: "not", ONeg: "neg", OShl: "shl", OLshr: "lshr", OAshr: "ashr",
	OZext: "zext", OSext: "sext", OTrunc: "trunc", OMulFull: "mulfull", OExtract: "extract", OConcat: "concat", OIte: "ite", OEq: "eq", OUlt: "ult", OUle: "ule",
	OSlt: "slt", OSle: "sle", OBNot: "bnot", OBAnd: "band", OBOr: "bor", OIAdd: "iadd", OISub: "isub", OIMul: "imul", OIDiv: "idiv", OIMod: "imod",
	OINeg: "ineg", OILt: "ilt", OILe: "ile", OBV2Int: "bv2int", OSBV2Int: "sbv2int", OInt2BV: "int2bv", ORAdd: "radd", ORSub: "rsub", ORMul: "rmul",
	ORDiv: "rdiv", ORLt: "rlt", ORLe: "rle", OInt2Real: "int2real", OFloor: "floor", OUF: "uf"}

func (o Op) String() string { return opNames[o] }

// Term is an immutable, hash-consed expression.
type Term struct {
	Op   Op
	Sort Sort
	W    uint8    // bit width for SBV
	C    uint64   // constant value (SBV with W<=64, SBool 0/1), or extract bounds
	Big  *big.Int // constant value for SInt and for SBV with W>64
	Rat  *big.Rat // constant value for SReal
	Name string
	A    []*Term
	ID   uint32
}

type tkey struct {
	op         Op
	sort       Sort
	w          uint8
	n          uint8
	c          uint64
	name       string
	a0, a1, a2 uint32
}

// TermStore creates and interns terms. One store per explored path (no sharing between goroutines).
type TermStore struct {
	tab    map[tkey]*Term
	next   uint32
	varSeq map[string]int
	// refined unsigned intervals for variables (from assumptions)
	VarLo, VarHi map[*Term]*big.Int
	ivmemo       map[*Term][2]*big.Int
	True, False  *Term
}

func NewTermStore() *TermStore {
	s := &TermStore{tab: map[tkey]*Term{}, varSeq: map[string]int{}, VarLo: map[*Term]*big.Int{}, VarHi: map[*Term]*big.Int{}, ivmemo: map[*Term][2]*big.Int{}}
	s.True = s.mk(&Term{Op: OConst, Sort: SBool, C: 1})
	s.False = s.mk(&Term{Op: OConst, Sort: SBool, C: 0})
	return s
}

func (s *TermStore) mk(t *Term) *Term {
	k := tkey{op: t.Op, sort: t.Sort, w: t.W, c: t.C, name: t.Name, n: uint8(len(t.A))}
	if t.Big != nil {
		k.name = t.Big.Text(16)
	}
	if t.Rat != nil {
		k.name = t.Rat.String()
	}
	switch len(t.A) {
	case 0:
	case 1:
		k.a0 = t.A[0].ID
	case 2:
		k.a0, k.a1 = t.A[0].ID, t.A[1].ID
	case 3:
		k.a0, k.a1, k.a2 = t.A[0].ID, t.A[1].ID, t.A[2].ID
	default:
		var sb strings.Builder
		sb.WriteString(k.name)
		for _, a := range t.A {
			fmt.Fprintf(&sb, ",%d", a.ID)
		}
		k.name = sb.String()
	}
	if x, ok := s.tab[k]; ok {
		return x
	}
	s.next++
	t.ID = s.next
	s.tab[k] = t
	return t
}

func (t *Term) IsConst() bool { return t.Op == OConst }
func (t *Term) IsTrue() bool  { return t.Op == OConst && t.Sort == SBool && t.C == 1 }
func (t *Term) IsFalse() bool { return t.Op == OConst && t.Sort == SBool && t.C == 0 }

func maskW(w uint8) uint64 {
	if w >= 64 {
		return ^uint64(0)
	}
	return (uint64(1) << w) - 1
}

var bigOne = big.NewInt(1)

func pow2(w uint) *big.Int { return new(big.Int).Lsh(bigOne, w) }

// ---- constants

func (s *TermStore) BV(v uint64, w uint8) *Term {
	if w > 64 {
		return s.BVBig(new(big.Int).SetUint64(v), w)
	}
	return s.mk(&Term{Op: OConst, Sort: SBV, W: w, C: v & maskW(w)})
}

func (s *TermStore) BVBig(v *big.Int, w uint8) *Term {
	m := new(big.Int).Sub(pow2(uint(w)), bigOne)
	x := new(big.Int).And(v, m) // two's complement wrap for negative values too (big.Int And on negatives uses 2's complement semantics)
	if w <= 64 {
		return s.mk(&Term{Op: OConst, Sort: SBV, W: w, C: x.Uint64()})
	}
	return s.mk(&Term{Op: OConst, Sort: SBV, W: w, Big: x})
}

func (s *TermStore) Bool(b bool) *Term {
	if b {
		return s.True
	}
	return s.False
}
func (s *TermStore) Int(v *big.Int) *Term {
	return s.mk(&Term{Op: OConst, Sort: SInt, Big: new(big.Int).Set(v)})
}
func (s *TermStore) IntU(v uint64) *Term { return s.Int(new(big.Int).SetUint64(v)) }
func (s *TermStore) IntI(v int64) *Term  { return s.Int(big.NewInt(v)) }
func (s *TermStore) Real(v *big.Rat) *Term {
	return s.mk(&Term{Op: OConst, Sort: SReal, Rat: new(big.Rat).Set(v)})
}

// ConstBig returns the unsigned value of a BV constant / the value of an Int constant.
func (t *Term) ConstBig() *big.Int {
	if t.Big != nil {
		return t.Big
	}
	return new(big.Int).SetUint64(t.C)
}

// SignedBig returns the signed value of a BV constant.
func (t *Term) SignedBig() *big.Int {
	v := t.ConstBig()
	if t.Sort == SBV && v.Bit(int(t.W)-1) == 1 {
		return new(big.Int).Sub(v, pow2(uint(t.W)))
	}
	return v
}

// ---- variables

// Var creates a fresh variable; the final name is name#k where k counts earlier variables of the same name
// on this path (deterministic across decision replays).
func (s *TermStore) Var(name string, sort Sort, w uint8) *Term {
	k := s.varSeq[name]
	s.varSeq[name] = k + 1
	n := name
	if k > 0 {
		n = fmt.Sprintf("%s#%d", name, k)
	}
	return s.mk(&Term{Op: OVar, Sort: sort, W: w, Name: n})
}

// ---- generic constructors with folding

func (s *TermStore) un(op Op, a *Term) *Term {
	return s.mk(&Term{Op: op, Sort: a.Sort, W: a.W, A: []*Term{a}})
}

func (s *TermStore) foldBV(op Op, a, b *Term) *Term {
	w := a.W
	if w <= 64 {
		x, y := a.C, b.C
		var r uint64
		switch op {
		case OAdd:
			r = x + y
		case OSub:
			r = x - y
		case OMul:
			r = x * y
		case OAnd:
			r = x & y
		case OOr:
			r = x | y
		case OXor:
			r = x ^ y
		case OShl:
			if y >= uint64(w) {
				r = 0
			} else {
				r = x << y
			}
		case OLshr:
			if y >= uint64(w) {
				r = 0
			} else {
				r = x >> y
			}
		case OUDiv:
			if y == 0 {
				return nil
			}
			r = x / y
		case OURem:
			if y == 0 {
				return nil
			}
			r = x % y
		default:
			return s.foldBVBig(op, a, b)
		}
		return s.BV(r, w)
	}
	return s.foldBVBig(op, a, b)
}

func (s *TermStore) foldBVBig(op Op, a, b *Term) *Term {
	w := a.W
	x, y := a.ConstBig(), b.ConstBig()
	r := new(big.Int)
	switch op {
	case OAdd:
		r.Add(x, y)
	case OSub:
		r.Sub(x, y)
	case OMul:
		r.Mul(x, y)
	case OAnd:
		r.And(x, y)
	case OOr:
		r.Or(x, y)
	case OXor:
		r.Xor(x, y)
	case OShl:
		if y.Cmp(big.NewInt(int64(w))) >= 0 {
			r.SetInt64(0)
		} else {
			r.Lsh(x, uint(y.Uint64()))
		}
	case OLshr:
		if y.Cmp(big.NewInt(int64(w))) >= 0 {
			r.SetInt64(0)
		} else {
			r.Rsh(x, uint(y.Uint64()))
		}
	case OAshr:
		sx := a.SignedBig()
		if y.Cmp(big.NewInt(int64(w))) >= 0 {
			if sx.Sign() < 0 {
				r.SetInt64(-1)
			} else {
				r.SetInt64(0)
			}
		} else {
			r.Rsh(sx, uint(y.Uint64()))
		}
	case OUDiv:
		if y.Sign() == 0 {
			return nil
		}
		r.Quo(x, y)
	case OURem:
		if y.Sign() == 0 {
			return nil
		}
		r.Rem(x, y)
	case OSDiv:
		if y.Sign() == 0 {
			return nil
		}
		r.Quo(a.SignedBig(), b.SignedBig())
	case OSRem:
		if y.Sign() == 0 {
			return nil
		}
		r.Rem(a.SignedBig(), b.SignedBig())
	default:
		panic("foldBVBig " + op.String())
	}
	return s.BVBig(r, w)
}

func (s *TermStore) isBit(t *Term) bool {
	_, hi := s.Interval(t)
	return hi.Cmp(bigOne) <= 0
}

// bitProduct splits t = value * bit.
func (s *TermStore) bitProduct(t *Term) (val, bit *Term) {
	if t.Op != OMul {
		return nil, nil
	}
	if !t.A[1].IsConst() && s.isBit(t.A[1]) {
		return t.A[0], t.A[1]
	}
	if !t.A[0].IsConst() && s.isBit(t.A[0]) {
		return t.A[1], t.A[0]
	}
	return nil, nil
}

func (s *TermStore) bitSelect(a, b *Term) *Term {
	va, sa := s.bitProduct(a)
	vb, sb := s.bitProduct(b)
	if va == nil || vb == nil {
		return nil
	}
	one := s.BV(1, sa.W)
	isNeg := func(x, y *Term) bool { // y == x ^ 1
		return y.Op == OXor && ((y.A[0] == x && y.A[1] == one) || (y.A[1] == x && y.A[0] == one))
	}
	switch {
	case isNeg(sa, sb):
		return s.Ite(s.Cmp(OEq, sa, one), va, vb)
	case isNeg(sb, sa):
		return s.Ite(s.Cmp(OEq, sb, one), vb, va)
	}
	return nil
}

// Bin builds a binary bit-vector operation.
func (s *TermStore) Bin(op Op, a, b *Term) *Term {
	if a.Sort != SBV || b.Sort != SBV {
		panic(fmt.Sprintf("Bin %s on non-BV %v %v", op, a, b))
	}
	if a.W != b.W {
		if op == OShl || op == OLshr || op == OAshr {
			b = s.Resize(b, a.W, false)
		} else {
			panic(fmt.Sprintf("Bin %s width mismatch %d %d: %v , %v", op, a.W, b.W, a, b))
		}
	}
	if a.IsConst() && b.IsConst() {
		if r := s.foldBV(op, a, b); r != nil {
			return r
		}
	}
	if op == OOr {
		// branch-free select  (A*s) | (B*(s^1))  with a one-bit s:  ite(s == 1, A, B)
		if r := s.bitSelect(a, b); r != nil {
			return r
		}
	}
	switch op {
	case OURem:
		if b.IsConst() && b.ConstBig().Sign() > 0 {
			if _, hi := s.Interval(a); hi.Cmp(b.ConstBig()) < 0 {
				return a
			}
		}
	case OAdd, OOr, OXor:
		if a.IsConst() && a.ConstBig().Sign() == 0 {
			return b
		}
		if b.IsConst() && b.ConstBig().Sign() == 0 {
			return a
		}
	case OSub, OShl, OLshr, OAshr:
		if b.IsConst() && b.ConstBig().Sign() == 0 {
			return a
		}
		if op == OLshr && b.IsConst() && b.C < uint64(a.W) && !a.IsConst() {
			// all values of the interval share the bits above the shift: constant
			if lo, hi := s.Interval(a); lo.Sign() > 0 || hi.Cmp(maxOfW(a.W)) < 0 {
				l, h := new(big.Int).Rsh(lo, uint(b.C)), new(big.Int).Rsh(hi, uint(b.C))
				if l.Cmp(h) == 0 {
					return s.BVBig(l, a.W)
				}
			}
		}
		if op == OSub && a == b {
			return s.BV(0, a.W)
		}
	case OMul:
		if a.IsConst() {
			a, b = b, a
		}
		if b.IsConst() {
			if b.ConstBig().Sign() == 0 {
				return b
			}
			if b.ConstBig().Cmp(bigOne) == 0 {
				return a
			}
		}
	case OAnd:
		if a.IsConst() {
			a, b = b, a
		}
		if b.IsConst() {
			if b.ConstBig().Sign() == 0 {
				return b
			}
			if a.W <= 64 && b.C == maskW(a.W) {
				return a
			}
		}
		if a == b {
			return a
		}
	}
	if (op == OAdd || op == OMul || op == OAnd || op == OOr || op == OXor) && a.IsConst() {
		a, b = b, a // constants to the right
	}
	return s.mk(&Term{Op: op, Sort: SBV, W: a.W, A: []*Term{a, b}})
}

func (s *TermStore) Neg(a *Term) *Term { return s.Bin(OSub, s.BV(0, a.W), a) }
func (s *TermStore) BNotW(a *Term) *Term { // bitwise complement
	if a.IsConst() {
		m := new(big.Int).Sub(pow2(uint(a.W)), bigOne)
		return s.BVBig(new(big.Int).Xor(a.ConstBig(), m), a.W)
	}
	return s.un(ONot, a)
}

// Resize converts a BV to width w by truncation, zero- or sign-extension.
func (s *TermStore) Resize(a *Term, w uint8, signed bool) *Term {
	if a.W == w {
		return a
	}
	if a.IsConst() {
		if signed {
			return s.BVBig(a.SignedBig(), w)
		}
		return s.BVBig(a.ConstBig(), w)
	}
	if w < a.W {
		if (a.Op == OZext || a.Op == OSext) && a.A[0].W == w {
			return a.A[0]
		}
		if (a.Op == OZext || a.Op == OSext) && a.A[0].W < w {
			return s.Resize(a.A[0], w, a.Op == OSext)
		}
		return s.Extract(a, w-1, 0)
	}
	if signed {
		return s.mk(&Term{Op: OSext, Sort: SBV, W: w, A: []*Term{a}})
	}
	if a.Op == OZext {
		a = a.A[0]
	}
	return s.mk(&Term{Op: OZext, Sort: SBV, W: w, A: []*Term{a}})
}

// MulFull is the 2W-bit product of two unsigned W-bit values.
func (s *TermStore) MulFull(a, b *Term) *Term {
	w2 := a.W * 2
	if a.IsConst() && b.IsConst() {
		return s.BVBig(new(big.Int).Mul(a.ConstBig(), b.ConstBig()), w2)
	}
	if a.IsConst() || (!b.IsConst() && a.ID > b.ID) {
		a, b = b, a // canonical order, constant second
	}
	return s.mk(&Term{Op: OMulFull, Sort: SBV, W: w2, A: []*Term{a, b}})
}

func (s *TermStore) Extract(a *Term, hi, lo uint8) *Term {
	w := hi - lo + 1
	if a.IsConst() {
		v := new(big.Int).Rsh(a.ConstBig(), uint(lo))
		return s.BVBig(v, w)
	}
	if lo == 0 && w == a.W {
		return a
	}
	if lo == 0 && (a.Op == OZext) && a.A[0].W == w {
		return a.A[0]
	}
	if a.Op == OLshr && a.A[1].IsConst() && a.A[1].C+uint64(hi) < uint64(a.W) {
		return s.Extract(a.A[0], hi+uint8(a.A[1].C), lo+uint8(a.A[1].C))
	}
	if a.Op == OExtract {
		base := uint8(a.C & 255)
		return s.Extract(a.A[0], hi+base, lo+base)
	}
	if (a.Op == OZext) && hi < a.A[0].W {
		return s.Extract(a.A[0], hi, lo)
	}
	return s.mk(&Term{Op: OExtract, Sort: SBV, W: w, C: uint64(hi)<<8 | uint64(lo), A: []*Term{a}})
}

// Concat joins hi (upper bits) and lo (lower bits).
func (s *TermStore) Concat(hi, lo *Term) *Term {
	w := hi.W + lo.W
	if hi.IsConst() && lo.IsConst() {
		v := new(big.Int).Lsh(hi.ConstBig(), uint(lo.W))
		v.Or(v, lo.ConstBig())
		return s.BVBig(v, w)
	}
	if hi.Op == OExtract && lo.Op == OExtract && hi.A[0] == lo.A[0] && (hi.C&255) == (lo.C>>8)+1 {
		return s.Extract(hi.A[0], uint8(hi.C>>8), uint8(lo.C&255))
	}
	if hi.IsConst() && hi.ConstBig().Sign() == 0 {
		return s.Resize(lo, w, false)
	}
	return s.mk(&Term{Op: OConcat, Sort: SBV, W: w, A: []*Term{hi, lo}})
}

// Mul64 returns (hi, lo) of the 128-bit product.
func (s *TermStore) Mul64(a, b *Term) (*Term, *Term) {
	if a.IsConst() && b.IsConst() {
		h, l := bits.Mul64(a.C, b.C)
		return s.BV(h, 64), s.BV(l, 64)
	}
	f := s.MulFull(a, b)
	return s.Extract(f, 127, 64), s.Extract(f, 63, 0)
}

func (s *TermStore) Ite(c, a, b *Term) *Term {
	if c.IsConst() {
		if c.C == 1 {
			return a
		}
		return b
	}
	if a == b {
		return a
	}
	if a.Sort == SBool {
		if a.IsTrue() && b.IsFalse() {
			return c
		}
		if a.IsFalse() && b.IsTrue() {
			return s.Not(c)
		}
		if b.IsFalse() {
			return s.And(c, a)
		}
		if a.IsTrue() {
			return s.Or(c, b)
		}
		if a.IsFalse() {
			return s.And(s.Not(c), b)
		}
		if b.IsTrue() {
			return s.Or(s.Not(c), a)
		}
	}
	return s.mk(&Term{Op: OIte, Sort: a.Sort, W: a.W, A: []*Term{c, a, b}})
}

// ---- predicates

func (s *TermStore) Cmp(op Op, a, b *Term) *Term {
	if a.Sort != b.Sort || a.W != b.W {
		panic(fmt.Sprintf("Cmp %s sort mismatch %v %v", op, a, b))
	}
	if a.IsConst() && b.IsConst() {
		var r bool
		switch op {
		case OEq:
			if a.Sort == SBool {
				r = a.C == b.C
			} else if a.Sort == SReal {
				r = a.Rat.Cmp(b.Rat) == 0
			} else {
				r = a.ConstBig().Cmp(b.ConstBig()) == 0
			}
		case OUlt:
			r = a.ConstBig().Cmp(b.ConstBig()) < 0
		case OUle:
			r = a.ConstBig().Cmp(b.ConstBig()) <= 0
		case OSlt:
			r = a.SignedBig().Cmp(b.SignedBig()) < 0
		case OSle:
			r = a.SignedBig().Cmp(b.SignedBig()) <= 0
		case OILt:
			r = a.Big.Cmp(b.Big) < 0
		case OILe:
			r = a.Big.Cmp(b.Big) <= 0
		case ORLt:
			r = a.Rat.Cmp(b.Rat) < 0
		case ORLe:
			r = a.Rat.Cmp(b.Rat) <= 0
		}
		return s.Bool(r)
	}
	if a == b {
		switch op {
		case OEq, OUle, OSle, OILe, ORLe:
			return s.True
		default:
			return s.False
		}
	}
	if op == OEq && a.Sort == SBool {
		if a.IsConst() {
			a, b = b, a
		}
		if b.IsTrue() {
			return a
		}
		if b.IsFalse() {
			return s.Not(a)
		}
	}
	if op == OEq && a.ID > b.ID {
		a, b = b, a
	}
	return s.mk(&Term{Op: op, Sort: SBool, A: []*Term{a, b}})
}

// RawEq builds an equality without simplification (the comparison is left to the solver).
func (s *TermStore) RawEq(a, b *Term) *Term {
	return s.mk(&Term{Op: OEq, Sort: SBool, A: []*Term{a, b}})
}

func (s *TermStore) Not(a *Term) *Term {
	if a.IsConst() {
		return s.Bool(a.C == 0)
	}
	if a.Op == OBNot {
		return a.A[0]
	}
	return s.mk(&Term{Op: OBNot, Sort: SBool, A: []*Term{a}})
}
func (s *TermStore) And(a, b *Term) *Term {
	if a.IsConst() {
		if a.C == 1 {
			return b
		}
		return a
	}
	if b.IsConst() {
		if b.C == 1 {
			return a
		}
		return b
	}
	if a == b {
		return a
	}
	return s.mk(&Term{Op: OBAnd, Sort: SBool, A: []*Term{a, b}})
}
func (s *TermStore) Or(a, b *Term) *Term {
	if a.IsConst() {
		if a.C == 1 {
			return a
		}
		return b
	}
	if b.IsConst() {
		if b.C == 1 {
			return b
		}
		return a
	}
	if a == b {
		return a
	}
	return s.mk(&Term{Op: OBOr, Sort: SBool, A: []*Term{a, b}})
}
func (s *TermStore) Implies(a, b *Term) *Term { return s.Or(s.Not(a), b) }

// ---- mathematical integers

func (s *TermStore) IBin(op Op, a, b *Term) *Term {
	if a.Sort != SInt || b.Sort != SInt {
		panic(fmt.Sprintf("IBin %s on non-Int %v %v", op, a, b))
	}
	if a.IsConst() && b.IsConst() {
		r := new(big.Int)
		switch op {
		case OIAdd:
			return s.Int(r.Add(a.Big, b.Big))
		case OISub:
			return s.Int(r.Sub(a.Big, b.Big))
		case OIMul:
			return s.Int(r.Mul(a.Big, b.Big))
		case OIDiv: // SMT-LIB div: floor for positive divisor, ceiling for negative (Euclidean)
			if b.Big.Sign() != 0 {
				m := new(big.Int)
				r.DivMod(a.Big, b.Big, m)
				return s.Int(r)
			}
		case OIMod:
			if b.Big.Sign() != 0 {
				return s.Int(r.Mod(a.Big, b.Big))
			}
		}
	}
	switch op {
	case OIAdd:
		if a.IsConst() && a.Big.Sign() == 0 {
			return b
		}
		if b.IsConst() && b.Big.Sign() == 0 {
			return a
		}
	case OISub:
		if b.IsConst() && b.Big.Sign() == 0 {
			return a
		}
		if a == b {
			return s.IntI(0)
		}
	case OIMul:
		if a.IsConst() {
			a, b = b, a
		}
		if b.IsConst() {
			if b.Big.Sign() == 0 {
				return b
			}
			if b.Big.Cmp(bigOne) == 0 {
				return a
			}
		}
	}
	return s.mk(&Term{Op: op, Sort: SInt, A: []*Term{a, b}})
}

func (s *TermStore) BV2Int(a *Term, signed bool) *Term {
	if a.Sort == SInt {
		return a
	}
	if a.IsConst() {
		if signed {
			return s.Int(a.SignedBig())
		}
		return s.Int(a.ConstBig())
	}
	if signed {
		return s.mk(&Term{Op: OSBV2Int, Sort: SInt, A: []*Term{a}})
	}
	return s.mk(&Term{Op: OBV2Int, Sort: SInt, A: []*Term{a}})
}

func (s *TermStore) Int2BV(a *Term, w uint8) *Term {
	if a.IsConst() {
		return s.BVBig(a.Big, w)
	}
	if (a.Op == OBV2Int || a.Op == OSBV2Int) && a.A[0].W == w {
		return a.A[0]
	}
	return s.mk(&Term{Op: OInt2BV, Sort: SBV, W: w, A: []*Term{a}})
}

// ---- reals

func (s *TermStore) RBin(op Op, a, b *Term) *Term {
	if a.IsConst() && b.IsConst() {
		r := new(big.Rat)
		switch op {
		case ORAdd:
			return s.Real(r.Add(a.Rat, b.Rat))
		case ORSub:
			return s.Real(r.Sub(a.Rat, b.Rat))
		case ORMul:
			return s.Real(r.Mul(a.Rat, b.Rat))
		case ORDiv:
			if b.Rat.Sign() != 0 {
				return s.Real(r.Quo(a.Rat, b.Rat))
			}
		}
	}
	return s.mk(&Term{Op: op, Sort: SReal, A: []*Term{a, b}})
}
func (s *TermStore) Int2Real(a *Term) *Term {
	if a.IsConst() {
		return s.Real(new(big.Rat).SetInt(a.Big))
	}
	return s.mk(&Term{Op: OInt2Real, Sort: SReal, A: []*Term{a}})
}
func (s *TermStore) Floor(a *Term) *Term {
	if a.IsConst() {
		q := new(big.Int)
		m := new(big.Int)
		q.DivMod(a.Rat.Num(), a.Rat.Denom(), m)
		return s.Int(q)
	}
	return s.mk(&Term{Op: OFloor, Sort: SInt, A: []*Term{a}})
}

// UF applies an uninterpreted function.
func (s *TermStore) UF(name string, sort Sort, w uint8, args ...*Term) *Term {
	return s.mk(&Term{Op: OUF, Sort: sort, W: w, Name: name, A: append([]*Term(nil), args...)})
}

// ---- printing (debug)

func (t *Term) String() string {
	var sb strings.Builder
	t.str(&sb, 0)
	return sb.String()
}
func (t *Term) str(sb *strings.Builder, d int) {
	if d > 6 {
		sb.WriteString("…")
		return
	}
	switch t.Op {
	case OConst:
		switch t.Sort {
		case SBool:
			fmt.Fprintf(sb, "%v", t.C == 1)
		case SReal:
			sb.WriteString(t.Rat.String())
		case SInt:
			sb.WriteString(t.Big.String())
		default:
			fmt.Fprintf(sb, "%s:%d", t.ConstBig().String(), t.W)
		}
	case OVar:
		sb.WriteString(t.Name)
	default:
		sb.WriteString("(")
		sb.WriteString(t.Op.String())
		if t.Op == OUF {
			sb.WriteString(":" + t.Name)
		}
		if t.Op == OExtract {
			fmt.Fprintf(sb, "[%d:%d]", t.C>>8, t.C&255)
		}
		for _, a := range t.A {
			sb.WriteString(" ")
			a.str(sb, d+1)
		}
		sb.WriteString(")")
	}
}

// ---- unsigned interval analysis on BV terms (used for quick branch decisions and for the INT back end)

var bigZero = big.NewInt(0)

func maxOfW(w uint8) *big.Int { return new(big.Int).Sub(pow2(uint(w)), bigOne) }

// Interval returns an unsigned interval [lo,hi] containing the machine value of the BV term t.
func (s *TermStore) Interval(t *Term) (*big.Int, *big.Int) {
	if r, ok := s.ivmemo[t]; ok {
		return r[0], r[1]
	}
	lo, hi := bigZero, maxOfW(t.W)
	full := hi
	switch t.Op {
	case OConst:
		lo, hi = t.ConstBig(), t.ConstBig()
	case OVar:
		if l, ok := s.VarLo[t]; ok {
			lo = l
		}
		if h, ok := s.VarHi[t]; ok {
			hi = h
		}
	case OInt2BV:
		if in := t.A[0]; in.Op == OIMod && in.A[1].IsConst() && in.A[1].Big.Sign() > 0 && in.A[1].Big.Cmp(new(big.Int).Add(full, bigOne)) <= 0 {
			hi = new(big.Int).Sub(in.A[1].Big, bigOne)
		}
	case OAdd:
		xl, xh := s.Interval(t.A[0])
		yl, yh := s.Interval(t.A[1])
		a, b := new(big.Int).Add(xl, yl), new(big.Int).Add(xh, yh)
		if b.Cmp(full) <= 0 {
			lo, hi = a, b
		}
	case OSub:
		xl, xh := s.Interval(t.A[0])
		yl, yh := s.Interval(t.A[1])
		a, b := new(big.Int).Sub(xl, yh), new(big.Int).Sub(xh, yl)
		if a.Sign() >= 0 {
			lo, hi = a, b
		}
	case OMul:
		xl, xh := s.Interval(t.A[0])
		yl, yh := s.Interval(t.A[1])
		a, b := new(big.Int).Mul(xl, yl), new(big.Int).Mul(xh, yh)
		if b.Cmp(full) <= 0 {
			lo, hi = a, b
		}
	case OMulFull:
		xl, xh := s.Interval(t.A[0])
		yl, yh := s.Interval(t.A[1])
		lo, hi = new(big.Int).Mul(xl, yl), new(big.Int).Mul(xh, yh)
	case OZext:
		lo, hi = s.Interval(t.A[0])
	case OTrunc:
		xl, xh := s.Interval(t.A[0])
		if xh.Cmp(full) <= 0 {
			lo, hi = xl, xh
		}
	case OConcat:
		xl, xh := s.Interval(t.A[0])
		yl, yh := s.Interval(t.A[1])
		lw := uint(t.A[1].W)
		lo = new(big.Int).Add(new(big.Int).Lsh(xl, lw), yl)
		hi = new(big.Int).Add(new(big.Int).Lsh(xh, lw), yh)
		if xl.Cmp(xh) != 0 {
			lo = new(big.Int).Lsh(xl, lw)
			hi = new(big.Int).Add(new(big.Int).Lsh(xh, lw), maxOfW(t.A[1].W))
		}
	case OExtract:
		l := uint(t.C & 255)
		xl, xh := s.Interval(t.A[0])
		a, b := new(big.Int).Rsh(xl, l), new(big.Int).Rsh(xh, l)
		if b.Cmp(full) <= 0 {
			lo, hi = a, b
		}
		if l == 0 && xh.Cmp(full) > 0 {
			lo, hi = bigZero, full
		}
	case OLshr:
		if t.A[1].IsConst() {
			xl, xh := s.Interval(t.A[0])
			sh := uint(t.A[1].C)
			lo, hi = new(big.Int).Rsh(xl, sh), new(big.Int).Rsh(xh, sh)
		} else {
			_, hi = s.Interval(t.A[0])
		}
	case OShl:
		if t.A[1].IsConst() {
			xl, xh := s.Interval(t.A[0])
			sh := uint(t.A[1].C)
			a, b := new(big.Int).Lsh(xl, sh), new(big.Int).Lsh(xh, sh)
			if b.Cmp(full) <= 0 {
				lo, hi = a, b
			}
		}
	case OAnd:
		_, xh := s.Interval(t.A[0])
		_, yh := s.Interval(t.A[1])
		hi = xh
		if yh.Cmp(hi) < 0 {
			hi = yh
		}
	case OXor, OOr:
		_, xh := s.Interval(t.A[0])
		_, yh := s.Interval(t.A[1])
		n := xh.BitLen()
		if yh.BitLen() > n {
			n = yh.BitLen()
		}
		if n < int(t.W) {
			hi = new(big.Int).Sub(pow2(uint(n)), bigOne)
		}
	case OURem:
		_, yh := s.Interval(t.A[1])
		if yh.Sign() > 0 {
			hi = new(big.Int).Sub(yh, bigOne)
		}
		_, xh := s.Interval(t.A[0])
		if xh.Cmp(hi) < 0 {
			hi = xh
		}
	case OUDiv:
		_, xh := s.Interval(t.A[0])
		yl, _ := s.Interval(t.A[1])
		if yl.Sign() > 0 {
			hi = new(big.Int).Quo(xh, yl)
		} else {
			hi = xh
		}
	case OIte:
		xl, xh := s.Interval(t.A[1])
		yl, yh := s.Interval(t.A[2])
		lo, hi = xl, xh
		if yl.Cmp(lo) < 0 {
			lo = yl
		}
		if yh.Cmp(hi) > 0 {
			hi = yh
		}
	case OUF:
		if l, ok := s.VarLo[t]; ok {
			lo = l
		}
		if h, ok := s.VarHi[t]; ok {
			hi = h
		}
	}
	s.ivmemo[t] = [2]*big.Int{lo, hi}
	return lo, hi
}

// Refine narrows variable intervals from an assumed condition of the form var </<= const (and conjunctions).
func (s *TermStore) Refine(c *Term) {
	switch c.Op {
	case OBAnd:
		s.Refine(c.A[0])
		s.Refine(c.A[1])
	case OUlt, OUle:
		a, b := c.A[0], c.A[1]
		if (a.Op == OVar || a.Op == OUF) && b.IsConst() {
			h := new(big.Int).Set(b.ConstBig())
			if c.Op == OUlt {
				h.Sub(h, bigOne)
			}
			if old, ok := s.VarHi[a]; !ok || h.Cmp(old) < 0 {
				s.VarHi[a] = h
				s.ivmemo = map[*Term][2]*big.Int{}
			}
		}
		if (b.Op == OVar || b.Op == OUF) && a.IsConst() {
			l := new(big.Int).Set(a.ConstBig())
			if c.Op == OUlt {
				l.Add(l, bigOne)
			}
			if old, ok := s.VarLo[b]; !ok || l.Cmp(old) > 0 {
				s.VarLo[b] = l
				s.ivmemo = map[*Term][2]*big.Int{}
			}
		}
	case OSlt:
		// x <s 0  (sign bit set):  x >= 2^(w-1) as an unsigned value
		if a, b := c.A[0], c.A[1]; a.Op == OVar && b.IsConst() && b.ConstBig().Sign() == 0 {
			l := pow2(uint(a.W) - 1)
			if old, ok := s.VarLo[a]; !ok || l.Cmp(old) > 0 {
				s.VarLo[a] = l
				s.ivmemo = map[*Term][2]*big.Int{}
			}
		}
	case OBNot:
		x := c.A[0]
		if x.Op == OSlt {
			if a, b := x.A[0], x.A[1]; a.Op == OVar && b.IsConst() && b.ConstBig().Sign() == 0 {
				h := new(big.Int).Sub(pow2(uint(a.W)-1), bigOne)
				if old, ok := s.VarHi[a]; !ok || h.Cmp(old) < 0 {
					s.VarHi[a] = h
					s.ivmemo = map[*Term][2]*big.Int{}
				}
			}
		}
		if x.Op == OUlt { // !(a<b) == b<=a
			s.Refine(&Term{Op: OUle, Sort: SBool, A: []*Term{x.A[1], x.A[0]}})
		} else if x.Op == OUle {
			s.Refine(&Term{Op: OUlt, Sort: SBool, A: []*Term{x.A[1], x.A[0]}})
		}
	}
}

// Decide tries to decide an unsigned comparison from intervals.
func (s *TermStore) Decide(c *Term) *Term {
	if c.IsConst() {
		return c
	}
	switch c.Op {
	case OUlt, OUle:
		xl, xh := s.Interval(c.A[0])
		yl, yh := s.Interval(c.A[1])
		if c.Op == OUlt {
			if xh.Cmp(yl) < 0 {
				return s.True
			}
			if xl.Cmp(yh) >= 0 {
				return s.False
			}
		} else {
			if xh.Cmp(yl) <= 0 {
				return s.True
			}
			if xl.Cmp(yh) > 0 {
				return s.False
			}
		}
	case OEq:
		if c.A[0].Sort == SBV {
			xl, xh := s.Interval(c.A[0])
			yl, yh := s.Interval(c.A[1])
			if xh.Cmp(yl) < 0 || yh.Cmp(xl) < 0 {
				return s.False
			}
		}
	case OBNot:
		d := s.Decide(c.A[0])
		if d.IsConst() {
			return s.Bool(d.C == 0)
		}
	}
	return c
}

// Subst rebuilds t with variables replaced according to env (constant folding applies, so a closed
// substitution yields a constant).  memo must be shared between calls with the same env.
func (s *TermStore) Subst(t *Term, env map[*Term]*Term, memo map[*Term]*Term) *Term {
	if r, ok := memo[t]; ok {
		return r
	}
	var r *Term
	switch t.Op {
	case OConst:
		r = t
	case OVar:
		if v, ok := env[t]; ok {
			r = v
		} else {
			r = t
		}
	default:
		a := make([]*Term, len(t.A))
		same := true
		for i, x := range t.A {
			a[i] = s.Subst(x, env, memo)
			if a[i] != x {
				same = false
			}
		}
		if same {
			r = t
			break
		}
		switch t.Op {
		case OAdd, OSub, OMul, OUDiv, OURem, OSDiv, OSRem, OAnd, OOr, OXor, OShl, OLshr:
			r = s.Bin(t.Op, a[0], a[1])
		case OAshr:
			if a[0].IsConst() && a[1].IsConst() {
				r = s.foldBVBig(OAshr, a[0], a[1])
			} else {
				r = s.mk(&Term{Op: OAshr, Sort: SBV, W: t.W, A: a})
			}
		case ONot:
			r = s.BNotW(a[0])
		case ONeg:
			r = s.Neg(a[0])
		case OZext:
			r = s.Resize(a[0], t.W, false)
		case OSext:
			r = s.Resize(a[0], t.W, true)
		case OTrunc:
			r = s.Resize(a[0], t.W, false)
		case OMulFull:
			r = s.MulFull(a[0], a[1])
		case OExtract:
			r = s.Extract(a[0], uint8(t.C>>8), uint8(t.C&255))
		case OConcat:
			r = s.Concat(a[0], a[1])
		case OIte:
			r = s.Ite(a[0], a[1], a[2])
		case OEq, OUlt, OUle, OSlt, OSle, OILt, OILe, ORLt, ORLe:
			r = s.Cmp(t.Op, a[0], a[1])
		case OBNot:
			r = s.Not(a[0])
		case OBAnd:
			r = s.And(a[0], a[1])
		case OBOr:
			r = s.Or(a[0], a[1])
		case OIAdd, OISub, OIMul, OIDiv, OIMod:
			r = s.IBin(t.Op, a[0], a[1])
		case OBV2Int:
			r = s.BV2Int(a[0], false)
		case OSBV2Int:
			r = s.BV2Int(a[0], true)
		case OInt2BV:
			r = s.Int2BV(a[0], t.W)
		case ORAdd, ORSub, ORMul, ORDiv:
			r = s.RBin(t.Op, a[0], a[1])
		case OInt2Real:
			r = s.Int2Real(a[0])
		case OFloor:
			r = s.Floor(a[0])
		default:
			r = s.mk(&Term{Op: t.Op, Sort: t.Sort, W: t.W, C: t.C, Name: t.Name, A: a})
		}
	}
	memo[t] = r
	return r
}
