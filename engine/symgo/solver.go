package symgo

// solver.go: long-lived SMT solver processes (z3 -in / z3-new -in / cvc5 --incremental), query dispatch
// with hard deadlines, model parsing, and the solver portfolio.

import (
	"bufio"
	"fmt"
	"io"
	"math/big"
	"os/exec"
	"strings"
	"sync"
	"sync/atomic"
	"time"
)

type SolverConfig struct {
	Name    string   // label used in evidence
	Cmd     []string // command line
	Prelude string   // sent after every reset
	Check   string   // check-sat command (may be a check-sat-using tactic)
	IsCVC5  bool
	Fast    bool // raced alone in the first, short stage
}

var (
	CfgZ3      = SolverConfig{Name: "z3-4.8.12", Cmd: []string{"z3", "-in"}, Check: "(check-sat)"}
	CfgZ3New   = SolverConfig{Name: "z3-5.1.0", Cmd: []string{"z3-new", "-in"}, Check: "(check-sat)", Fast: true}
	CfgZ3Leg   = SolverConfig{Name: "z3-4.8.12/arith.solver=2", Cmd: []string{"z3", "-in"}, Check: "(check-sat-using (then simplify solve-eqs (using-params smt :arith.solver 2)))"}
	CfgZ3NewLg = SolverConfig{Name: "z3-5.1.0/arith.solver=2", Cmd: []string{"z3-new", "-in"}, Check: "(check-sat-using (then simplify solve-eqs (using-params smt :arith.solver 2)))"}
	CfgZ3NewLI = SolverConfig{Name: "z3-5.1.0/qflia", Cmd: []string{"z3-new", "-in"}, Check: "(check-sat-using (then simplify solve-eqs qflia))"}
	CfgCVC5    = SolverConfig{Name: "cvc5-1.0", Cmd: []string{"cvc5", "--incremental", "--produce-models", "--lang=smt2"}, Check: "(check-sat)", IsCVC5: true}
)

type SolverProc struct {
	mu                sync.Mutex
	busy, interrupted bool
	cfg               SolverConfig
	cmd               *exec.Cmd
	in                io.WriteCloser
	out               *bufio.Reader
	lines             chan string
	dead              bool
	Stats             *SolverStats
}

type SolverStats struct {
	Queries  atomic.Int64
	Sat      atomic.Int64
	Unsat    atomic.Int64
	Unknown  atomic.Int64
	Errors   atomic.Int64
	Restarts atomic.Int64
	Nanos    atomic.Int64
}

var GlobalSolverStats = map[string]*SolverStats{}
var statsMu sync.Mutex

func statsFor(name string) *SolverStats {
	statsMu.Lock()
	defer statsMu.Unlock()
	s, ok := GlobalSolverStats[name]
	if !ok {
		s = &SolverStats{}
		GlobalSolverStats[name] = s
	}
	return s
}

func NewSolverProc(cfg SolverConfig) *SolverProc {
	p := &SolverProc{cfg: cfg, Stats: statsFor(cfg.Name)}
	p.start()
	return p
}

func (p *SolverProc) start() {
	p.mu.Lock()
	defer p.mu.Unlock()
	p.cmd = exec.Command(p.cfg.Cmd[0], p.cfg.Cmd[1:]...)
	in, _ := p.cmd.StdinPipe()
	out, _ := p.cmd.StdoutPipe()
	p.cmd.Stderr = nil
	if err := p.cmd.Start(); err != nil {
		p.dead = true
		return
	}
	p.in = in
	p.out = bufio.NewReaderSize(out, 1<<16)
	p.lines = make(chan string, 64)
	p.dead = false
	go func(r *bufio.Reader, ch chan string) {
		for {
			s, err := r.ReadString('\n')
			if s != "" {
				ch <- strings.TrimRight(s, "\n")
			}
			if err != nil {
				close(ch)
				return
			}
		}
	}(p.out, p.lines)
}

func (p *SolverProc) Close() {
	p.mu.Lock()
	defer p.mu.Unlock()
	if p.cmd != nil && p.cmd.Process != nil {
		p.in.Close()
		p.cmd.Process.Kill()
		p.cmd.Wait()
	}
	p.dead = true
}

func (p *SolverProc) restart() {
	p.Close()
	p.Stats.Restarts.Add(1)
	p.start()
}

// RunScript sends a full script (after a reset) and returns the verdict and, for sat, the values of vars.
func (p *SolverProc) RunScript(script string, vars []string, timeoutMs int) (string, map[string]string) {
	p.mu.Lock()
	p.busy, p.interrupted = true, false
	p.mu.Unlock()
	res, m := p.runScript(script, vars, timeoutMs)
	p.mu.Lock()
	intr := p.interrupted
	p.mu.Unlock()
	if (res == "error:write" || res == "died") && !intr {
		// the process died for another reason: retry once on a fresh process
		res, m = p.runScript(script, vars, timeoutMs)
	}
	p.mu.Lock()
	p.busy = false
	p.mu.Unlock()
	if res == "died" {
		res = "unknown"
	}
	return res, m
}

func (p *SolverProc) runScript(script string, vars []string, timeoutMs int) (string, map[string]string) {
	if p.dead {
		p.start()
		if p.dead {
			return "error:cannot start " + p.cfg.Cmd[0], nil
		}
	}
	t0 := time.Now()
	p.Stats.Queries.Add(1)
	defer func() { p.Stats.Nanos.Add(int64(time.Since(t0))) }()
	var sb strings.Builder
	sb.WriteString("(reset)\n")
	if p.cfg.IsCVC5 {
		sb.WriteString("(set-logic ALL)\n")
	} else {
		fmt.Fprintf(&sb, "(set-option :timeout %d)\n", timeoutMs)
	}
	sb.WriteString(p.cfg.Prelude)
	sb.WriteString(script)
	sb.WriteString(p.cfg.Check)
	sb.WriteString("\n(echo \"<<chk>>\")\n")
	if _, err := io.WriteString(p.in, sb.String()); err != nil {
		p.restart()
		p.Stats.Errors.Add(1)
		return "error:write", nil
	}
	hard := time.Duration(timeoutMs)*time.Millisecond + 3*time.Second
	verdict, errLine := "", ""
	deadline := time.After(hard)
loop:
	for {
		select {
		case ln, ok := <-p.lines:
			if !ok {
				p.restart()
				p.Stats.Unknown.Add(1)
				return "died", nil
			}
			ln = strings.TrimSpace(ln)
			switch {
			case ln == "<<chk>>" || ln == "\"<<chk>>\"":
				break loop
			case ln == "sat" || ln == "unsat" || ln == "unknown" || ln == "timeout":
				verdict = ln
			case strings.HasPrefix(ln, "(error"):
				errLine = ln
			}
		case <-deadline:
			p.restart()
			p.Stats.Unknown.Add(1)
			return "unknown", nil
		}
	}
	if errLine != "" {
		p.Stats.Errors.Add(1)
		return "error:" + errLine, nil
	}
	switch verdict {
	case "unsat":
		p.Stats.Unsat.Add(1)
		return "unsat", nil
	case "sat":
		p.Stats.Sat.Add(1)
		model := map[string]string{}
		if len(vars) > 0 {
			io.WriteString(p.in, "(get-value ("+strings.Join(vars, " ")+"))\n(echo \"<<val>>\")\n")
			var buf strings.Builder
			dl := time.After(10 * time.Second)
		vl:
			for {
				select {
				case ln, ok := <-p.lines:
					if !ok {
						break vl
					}
					if strings.Contains(ln, "<<val>>") {
						break vl
					}
					buf.WriteString(ln)
					buf.WriteByte(' ')
				case <-dl:
					p.restart()
					break vl
				}
			}
			parseValues(buf.String(), model)
		}
		return "sat", model
	default:
		p.Stats.Unknown.Add(1)
		return "unknown", nil
	}
}

// parseValues reads "((name value) (name value) ...)".
func parseValues(s string, m map[string]string) {
	toks := tokenize(s)
	pos := 0
	var parse func() interface{}
	parse = func() interface{} {
		if pos >= len(toks) {
			return nil
		}
		t := toks[pos]
		pos++
		if t == "(" {
			var l []interface{}
			for pos < len(toks) && toks[pos] != ")" {
				l = append(l, parse())
			}
			pos++
			return l
		}
		return t
	}
	top, ok := parse().([]interface{})
	if !ok {
		return
	}
	for _, e := range top {
		pair, ok := e.([]interface{})
		if !ok || len(pair) != 2 {
			continue
		}
		name, ok := pair[0].(string)
		if !ok {
			continue
		}
		m[name] = sexprValue(pair[1])
	}
}

func tokenize(s string) []string {
	var toks []string
	i := 0
	for i < len(s) {
		c := s[i]
		switch {
		case c == '(' || c == ')':
			toks = append(toks, string(c))
			i++
		case c == ' ' || c == '\t' || c == '\n' || c == '\r':
			i++
		case c == '|':
			j := strings.IndexByte(s[i+1:], '|')
			if j < 0 {
				j = len(s) - i - 2
			}
			toks = append(toks, s[i:i+j+2])
			i += j + 2
		default:
			j := i
			for j < len(s) && !strings.ContainsRune("() \t\n\r", rune(s[j])) {
				j++
			}
			toks = append(toks, s[i:j])
			i = j
		}
	}
	return toks
}

// sexprValue renders a model value as a decimal integer string / true / false / rational "n/d".
func sexprValue(v interface{}) string {
	switch t := v.(type) {
	case string:
		if strings.HasPrefix(t, "#x") {
			b, _ := new(big.Int).SetString(t[2:], 16)
			return b.String()
		}
		if strings.HasPrefix(t, "#b") {
			b, _ := new(big.Int).SetString(t[2:], 2)
			return b.String()
		}
		return t
	case []interface{}:
		if len(t) == 2 {
			if op, ok := t[0].(string); ok && op == "-" {
				return "-" + sexprValue(t[1])
			}
		}
		if len(t) == 3 {
			if op, ok := t[0].(string); ok && op == "_" {
				if s, ok := t[1].(string); ok && strings.HasPrefix(s, "bv") {
					return s[2:]
				}
			}
			if op, ok := t[0].(string); ok && op == "/" {
				return sexprValue(t[1]) + "/" + sexprValue(t[2])
			}
		}
	}
	return fmt.Sprint(v)
}

// ---------------------------------------------------------------- exec-time helpers

// Check decides satisfiability of a conjunction during execution (feasibility of a path).
func (p *SolverProc) Check(x *Exec, conds []*Term, wantModel bool, timeoutMs int) (string, map[string]string) {
	be := x.eng.FeasBackend
	q := BuildQuery(x.ts, be, "feas", conds, nil, nil, 0)
	if q.Err != nil && be == BackendINT {
		q = BuildQuery(x.ts, BackendBV, "feas", conds, nil, nil, 0)
	}
	if q.Err != nil {
		return "unknown", nil
	}
	res, m := p.RunScript(q.Script, nil, timeoutMs)
	if strings.HasPrefix(res, "error") {
		return "unknown", nil
	}
	return res, m
}

// CheckValue finds a feasible value of t under conds.
func (p *SolverProc) CheckValue(x *Exec, conds []*Term, t *Term, timeoutMs int) (string, *big.Int) {
	be := x.eng.FeasBackend
	l := NewLowerer(be, x.ts)
	l.AddFacts(conds)
	var as []string
	for _, c := range conds {
		as = append(as, l.T(c))
	}
	tv := l.T(t)
	if l.Err != nil && be == BackendINT {
		l = NewLowerer(BackendBV, x.ts)
		as = nil
		for _, c := range conds {
			as = append(as, l.T(c))
		}
		tv = l.T(t)
	}
	if l.Err != nil {
		return "unknown", nil
	}
	name := "cv!val"
	var sb strings.Builder
	for _, d := range l.decls {
		sb.WriteString(d + "\n")
	}
	fmt.Fprintf(&sb, "(declare-const %s %s)\n", name, l.sortOf(t))
	for _, a := range l.asserts {
		sb.WriteString("(assert " + a + ")\n")
	}
	for _, a := range as {
		sb.WriteString("(assert " + a + ")\n")
	}
	fmt.Fprintf(&sb, "(assert (= %s %s))\n", name, tv)
	res, m := p.RunScript(sb.String(), []string{name}, timeoutMs)
	if res != "sat" {
		if strings.HasPrefix(res, "error") {
			return "unknown", nil
		}
		return res, nil
	}
	v, ok := new(big.Int).SetString(m[name], 10)
	if !ok {
		return "unknown", nil
	}
	return "sat", v
}

// ---------------------------------------------------------------- portfolio for obligations

type Portfolio struct {
	cfgs  []SolverConfig
	procs [][]*SolverProc // [script profile][config]
}

func NewPortfolio(cfgs []SolverConfig) *Portfolio {
	return &Portfolio{cfgs: cfgs}
}

func (pf *Portfolio) Close() {
	for _, row := range pf.procs {
		for _, p := range row {
			p.Close()
		}
	}
}

type Verdict struct {
	Result  string // unsat | sat | unknown
	Solver  string
	Model   map[string]string
	Seconds float64
	Errors  []string
	Profile int
}

// Solve races all (encoding profile x solver configuration) pairs on equivalent scripts of one obligation; the
// first definitive answer wins and the others are interrupted.  Any (error line makes that answer inconclusive.
func (pf *Portfolio) Solve(scripts []string, vars []string, budgetsMs []int) Verdict {
	t0 := time.Now()
	budget := budgetsMs[len(budgetsMs)-1]
	for len(pf.procs) < len(scripts) {
		var row []*SolverProc
		for _, c := range pf.cfgs {
			row = append(row, NewSolverProc(c))
		}
		pf.procs = append(pf.procs, row)
	}
	// stage 1: the configuration that wins most often, alone, with a short budget (keeps the cores free);
	// stage 2: every (profile x configuration) pair with the full budget.
	var errs []string
	fast := -1
	for i, c := range pf.cfgs {
		if c.Fast {
			fast = i
		}
	}
	if fast >= 0 && budget > 4000 {
		if v, ok := pf.race(scripts, vars, 3000, func(si, i int) bool { return i == fast }, &errs); ok {
			v.Seconds = time.Since(t0).Seconds()
			return v
		}
	}
	v, _ := pf.race(scripts, vars, budget, func(si, i int) bool { return true }, &errs)
	v.Seconds = time.Since(t0).Seconds()
	v.Errors = errs
	return v
}

func (pf *Portfolio) race(scripts []string, vars []string, budget int, use func(si, i int) bool, errs *[]string) (Verdict, bool) {
	type ans struct {
		res   string
		model map[string]string
		name  string
		si, i int
	}
	n := 0
	ch := make(chan ans, len(scripts)*len(pf.cfgs))
	for si, script := range scripts {
		for i, p := range pf.procs[si] {
			if !use(si, i) {
				continue
			}
			n++
			go func(si, i int, p *SolverProc, script string) {
				res, m := p.RunScript(script, vars, budget)
				ch <- ans{res, m, p.cfg.Name, si, i}
			}(si, i, p, script)
		}
	}
	got := map[[2]int]bool{}
	var win *ans
	for k := 0; k < n; k++ {
		a := <-ch
		got[[2]int{a.si, a.i}] = true
		if strings.HasPrefix(a.res, "error") {
			*errs = append(*errs, a.name+": "+a.res)
		}
		if (a.res == "sat" || a.res == "unsat") && win == nil {
			w := a
			win = &w
			for si := range scripts {
				for j, p := range pf.procs[si] {
					if use(si, j) && !got[[2]int{si, j}] {
						p.Interrupt()
					}
				}
			}
		}
	}
	if win != nil {
		name := win.name
		if win.si > 0 {
			name += fmt.Sprintf("+profile%d", win.si)
		}
		return Verdict{Result: win.res, Solver: name, Model: win.model, Errors: *errs, Profile: win.si}, true
	}
	return Verdict{Result: "unknown", Errors: *errs}, false
}

// Interrupt kills the solver process; the pending RunScript returns unknown and the process is restarted lazily.
func (p *SolverProc) Interrupt() {
	p.mu.Lock()
	defer p.mu.Unlock()
	if !p.busy {
		return
	}
	p.interrupted = true
	if p.cmd != nil && p.cmd.Process != nil {
		p.cmd.Process.Kill()
	}
}

// ---------------------------------------------------------------- obligation pool

type solveJob struct {
	script []string
	vars   []string
	budget []int
	out    chan Verdict
}

// SolvePool is a fixed set of portfolio workers shared by all path workers.
type SolvePool struct {
	jobs chan solveJob
	wg   sync.WaitGroup
}

func NewSolvePool(n int, cfgs []SolverConfig) *SolvePool {
	sp := &SolvePool{jobs: make(chan solveJob, 1024)}
	for i := 0; i < n; i++ {
		sp.wg.Add(1)
		go func() {
			defer sp.wg.Done()
			var pf *Portfolio
			for j := range sp.jobs {
				if pf == nil {
					pf = NewPortfolio(cfgs)
				}
				j.out <- pf.Solve(j.script, j.vars, j.budget)
			}
			if pf != nil {
				pf.Close()
			}
		}()
	}
	return sp
}

func (sp *SolvePool) Submit(script []string, vars []string, budget []int) chan Verdict {
	out := make(chan Verdict, 1)
	sp.jobs <- solveJob{script, vars, budget, out}
	return out
}

func (sp *SolvePool) Close() {
	close(sp.jobs)
	sp.wg.Wait()
}
