package symgo

// exec.go: the SSA interpreter (concrete + symbolic), if-conversion by speculative execution with a
// store journal, and path forking by decision replay.

import (
	"fmt"
	"go/constant"
	"go/token"
	"go/types"
	"math"
	"math/big"
	"strings"

	"golang.org/x/tools/go/ssa"
)

// GoPanic is a Go-level panic raised by the interpreted program (explicit panic or runtime check).
type GoPanic struct {
	Val   Value
	Msg   string
	Stack []string
}

// EngineErr means the engine cannot continue (unsupported construct); never counted as a pass.
type EngineErr struct {
	Msg   string
	Stack []string
}

func (e *EngineErr) Error() string { return e.Msg }

type pathAbort struct{ reason string }
type specAbort struct{ reason string }

type Obligation struct {
	ID     string
	Kind   string  // assert | nopanic | bounds | unwind | alloc | cover
	Path   []*Term // path condition at the point of the obligation
	Cond   *Term   // must hold (nil for "path must be infeasible")
	Where  string
	Expect string // "unsat" (default) or "sat" for cover/vacuity witnesses
}

type deferred struct {
	fn   Value
	args []Value
	inv  *ssa.CallCommon
}

type frame struct {
	fn        *ssa.Function
	locals    map[ssa.Value]Value
	defers    []deferred
	panicking *GoPanic
	recovered bool
	results   Value
	info      *fnInfo
	loopIters map[*ssa.BasicBlock]int // iterations of each loop header in THIS activation (unwinding bound)
}

type Exec struct {
	eng *Engine
	ts  *TermStore
	lay *Layout

	globals    map[*ssa.Global]*Object
	initDone   map[*ssa.Package]bool
	initFailed map[*ssa.Package]string
	objSeq     int

	// decision replay
	prefix   []int64
	dpos     int
	taken    []int64
	alts     [][]int64
	path     []*Term
	pathText []string

	obls []*Obligation

	journaling   int
	journal      []journalEntry
	specBlocks   []*ssa.BasicBlock
	writeLog     map[*Object]bool
	writeLogMaps map[*MapObj]bool

	stack  []*frame
	steps  int64
	unwind int
	loops  map[*ssa.BasicBlock]int

	solver      *SolverProc
	solverNew   *SolverProc
	importer    *importer
	stubs       map[string]string
	cfg         map[string]string // harness-provided configuration (vConfig)
	funcsSeen   map[string]int
	inputs      []InputVar
	covers      map[string]bool
	noPanicID   []string
	expectPanic int
	observed    []Observation
	feasQueries int
	fe          *feState
	concrete    map[string]*big.Int // translator-validation mode: fixed input values
	streams     map[string]*streamState
	stepLimit   int64
	searches    map[string]bool
	cuts        map[string]*cutSpec
	stubReal    map[*Term]*Term
	initFrame   *frame
	prngKeys    map[*Object]string
	initSkipped int
	stubOrder   []*Term
	fpErrN      int
	crtN        int
	prngByteN   int
	snaps       []*heapSnap
	wsets       []*heapSet
}

type cutSpec struct {
	loop     int
	hook     Value
	arrivals int
	active   bool
}

type InputVar struct {
	Name string
	Term *Term
	Kind string // u64, i64, bool, byte...
}

type Observation struct {
	Name string
	Val  Value
}

func (x *Exec) errf(format string, a ...interface{}) *EngineErr {
	return &EngineErr{Msg: fmt.Sprintf(format, a...), Stack: x.stackTrace()}
}

func (x *Exec) stackTrace() []string {
	var s []string
	for i := len(x.stack) - 1; i >= 0 && len(s) < 12; i-- {
		s = append(s, x.stack[i].fn.String())
	}
	return s
}

// callers names the innermost n frames (innermost first), short form.
func (x *Exec) callers(n int) string {
	var s []string
	for i := len(x.stack) - 1; i >= 0 && len(s) < n; i-- {
		s = append(s, x.stack[i].fn.Name())
	}
	return strings.Join(s, " < ")
}

func (x *Exec) goPanic(msg string) {
	panic(&GoPanic{Msg: msg, Stack: x.stackTrace()})
}

// ---------------------------------------------------------------- path conditions, forking

func (x *Exec) pathCond() []*Term { return append([]*Term(nil), x.path...) }

func (x *Exec) addPath(c *Term) {
	if c.IsTrue() {
		return
	}
	x.path = append(x.path, c)
	x.ts.Refine(c)
}

// provesNow asks the solver whether c holds on the current path (unsat of path ∧ ¬c).
func (x *Exec) provesNow(c *Term) bool {
	x.feasQueries++
	be := BackendBV
	if x.cfg["backend"] == "int" || x.cfg["backend"] == "int,bv" {
		be = BackendINT
	}
	q := BuildQuery(x.ts, be, "proves", coneOfInfluence(x.pathCond(), c, x.inputs), c, nil, 0)
	if q.Err != nil {
		return false
	}
	res, _ := x.solver.RunScript(q.Script, nil, 10000)
	if res != "unsat" && x.solverNew != nil {
		res, _ = x.solverNew.RunScript(q.Script, nil, 10000)
	}
	return res == "unsat"
}

// feasible asks the solver whether path ∧ c is satisfiable (unknown counts as feasible).
func (x *Exec) feasible(c *Term) bool {
	if c.IsConst() {
		return c.C == 1
	}
	x.feasQueries++
	res, _ := x.solver.Check(x, append(x.pathCond(), c), false, x.eng.FeasTimeoutMs)
	return res != "unsat"
}

// branch decides a symbolic condition on the current path, forking if both outcomes are feasible.
func (x *Exec) branch(c *Term, where string) bool {
	c = x.ts.Decide(c)
	if c.IsConst() {
		return c.C == 1
	}
	if x.journaling > 0 {
		panic(specAbort{"fork inside speculation at " + where})
	}
	if x.dpos < len(x.prefix) {
		d := x.prefix[x.dpos]
		x.dpos++
		x.taken = append(x.taken, d)
		if d == 1 {
			x.addPath(c)
		} else {
			x.addPath(x.ts.Not(c))
		}
		return d == 1
	}
	canT := x.feasible(c)
	canF := x.feasible(x.ts.Not(c))
	x.dpos++
	switch {
	case canT && canF:
		alt := append(append([]int64(nil), x.taken...), 0)
		x.alts = append(x.alts, alt)
		x.taken = append(x.taken, 1)
		x.addPath(c)
		return true
	case canT:
		x.taken = append(x.taken, 1)
		x.addPath(c)
		return true
	case canF:
		x.taken = append(x.taken, 0)
		x.addPath(x.ts.Not(c))
		return false
	}
	panic(pathAbort{"infeasible path at " + where})
}

// concretize forks over the feasible concrete values of a symbolic integer (bounded).
func (x *Exec) concretize(t *Term, what string) int {
	if t.IsConst() {
		return int(t.SignedBig().Int64())
	}
	if x.journaling > 0 {
		panic(specAbort{"concretize inside speculation: " + what})
	}
	if x.dpos < len(x.prefix) {
		d := x.prefix[x.dpos]
		x.dpos++
		x.taken = append(x.taken, d)
		x.addPath(x.ts.Cmp(OEq, t, x.ts.BV(uint64(d), t.W)))
		return int(d)
	}
	// enumerate feasible values
	var vals []int64
	excl := x.pathCond()
	limit := x.eng.ConcretizeLimit
	for len(vals) <= limit {
		x.feasQueries++
		res, model := x.solver.CheckValue(x, excl, t, x.eng.FeasTimeoutMs*4)
		if res == "unsat" {
			break
		}
		if res != "sat" {
			panic(x.errf("concretize %s: solver returned %s", what, res))
		}
		v := x.ts.BVBig(model, t.W).SignedBig().Int64()
		vals = append(vals, v)
		excl = append(excl, x.ts.Not(x.ts.Cmp(OEq, t, x.ts.BV(uint64(v), t.W))))
	}
	if len(vals) == 0 {
		panic(pathAbort{"infeasible path at concretize " + what})
	}
	if len(vals) > limit {
		panic(x.errf("concretize %s: more than %d feasible values for %v (add a bound with vAssume)", what, limit, t))
	}
	x.dpos++
	for _, v := range vals[1:] {
		x.alts = append(x.alts, append(append([]int64(nil), x.taken...), v))
	}
	x.taken = append(x.taken, vals[0])
	x.addPath(x.ts.Cmp(OEq, t, x.ts.BV(uint64(vals[0]), t.W)))
	return int(vals[0])
}

// choose forks over n alternatives (0..n-1), all considered feasible (nondeterministic stub behaviour).
func (x *Exec) choose(n int, what string) int {
	if n <= 1 {
		return 0
	}
	if x.journaling > 0 {
		panic(specAbort{"choice inside speculation: " + what})
	}
	if x.dpos < len(x.prefix) {
		d := x.prefix[x.dpos]
		x.dpos++
		x.taken = append(x.taken, d)
		return int(d)
	}
	x.dpos++
	for v := 1; v < n; v++ {
		x.alts = append(x.alts, append(append([]int64(nil), x.taken...), int64(v)))
	}
	x.taken = append(x.taken, 0)
	return 0
}

func (x *Exec) addObligation(o *Obligation) {
	o.Path = x.pathCond()
	if len(x.stack) > 0 && o.Where == "" {
		o.Where = x.stack[len(x.stack)-1].fn.String()
	}
	x.obls = append(x.obls, o)
}

// require records an implicit obligation (bounds, division by zero, ...) unless it is decided concretely.
func (x *Exec) require(c *Term, kind, msg string) {
	c = x.ts.Decide(c)
	if c.IsTrue() {
		return
	}
	if c.IsFalse() {
		x.goPanic("runtime error: " + msg)
	}
	// symbolic: the failing side is a (possible) panic path; fork so that the harness' panic policy applies.
	if x.journaling > 0 {
		panic(specAbort{"implicit check inside speculation: " + msg})
	}
	if !x.branch(c, "implicit:"+kind) {
		x.goPanic("runtime error: " + msg)
	}
}

// ---------------------------------------------------------------- constants

func (x *Exec) constVal(c *ssa.Const) Value {
	t := c.Type()
	if c.Value == nil {
		return x.Zero(t)
	}
	if b, ok := t.Underlying().(*types.Basic); ok {
		switch {
		case b.Info()&types.IsBoolean != 0:
			return x.ts.Bool(constant.BoolVal(c.Value))
		case b.Info()&types.IsInteger != 0:
			v := constant.ToInt(c.Value)
			bi, ok := new(big.Int).SetString(v.ExactString(), 10)
			if !ok {
				panic(x.errf("const int %s", c.Value))
			}
			return x.ts.BVBig(bi, basicWidth(b))
		case b.Info()&types.IsFloat != 0:
			f, _ := constant.Float64Val(constant.ToFloat(c.Value))
			return FloatV{f}
		case b.Info()&types.IsComplex != 0:
			re, _ := constant.Float64Val(constant.Real(c.Value))
			im, _ := constant.Float64Val(constant.Imag(c.Value))
			return ComplexV{complex(re, im)}
		case b.Info()&types.IsString != 0:
			return constant.StringVal(c.Value)
		}
	}
	panic(x.errf("const of type %s", t))
}

func (x *Exec) get(fr *frame, v ssa.Value) Value {
	switch v := v.(type) {
	case *ssa.Const:
		return x.constVal(v)
	case *ssa.Function:
		return &Closure{Fn: v}
	case *ssa.Global:
		return Ptr{x.global(v), 0}
	case *ssa.Builtin:
		return v
	}
	if r, ok := fr.locals[v]; ok {
		if pz, bad := r.(poisonV); bad {
			panic(x.errf("register %s read after an if-conversion whose arms left it with unmergeable values (%s)", v.Name(), pz.why))
		}
		return r
	}
	panic(x.errf("no value for %s (%T) in %s", v.Name(), v, fr.fn))
}

func (x *Exec) global(g *ssa.Global) *Object {
	if o, ok := x.globals[g]; ok {
		return o
	}
	if g.Pkg != nil && !x.initDone[g.Pkg] {
		x.runInit(g.Pkg)
		if o, ok := x.globals[g]; ok {
			return o
		}
	}
	et := g.Type().(*types.Pointer).Elem()
	o := x.NewObject(x.lay.Cells(et), et, g.String())
	x.ZeroInto(o.Cells, et)
	x.globals[g] = o
	return o
}

func interpretedStdInit(path string) bool {
	switch path {
	case "io", "bufio", "errors", "bytes", "strings", "encoding/binary", "sort", "slices", "unicode/utf8", "math/bits", "math", "strconv", "io/fs":
		return true
	}
	return false
}

func (x *Exec) runInit(p *ssa.Package) {
	if x.initDone[p] {
		return
	}
	x.initDone[p] = true
	path := p.Pkg.Path()
	if !strings.HasPrefix(path, x.eng.ModulePath) && !interpretedStdInit(path) {
		return
	}
	initFn := p.Func("init")
	if initFn == nil || initFn.Blocks == nil {
		return
	}
	saveJ := x.journaling
	x.journaling = 0
	defer func() {
		x.journaling = saveJ
		if r := recover(); r != nil {
			switch e := r.(type) {
			case *EngineErr:
				x.initFailed[p] = e.Msg + " @ " + strings.Join(e.Stack, " < ")
			case *GoPanic:
				x.initFailed[p] = "panic in init: " + e.Msg
			default:
				panic(r)
			}
		}
	}()
	x.callInit(initFn)
}

func (x *Exec) callInit(fn *ssa.Function) {
	fr := &frame{fn: fn, locals: make(map[ssa.Value]Value, 16), info: getFnInfo(fn)}
	x.stack = append(x.stack, fr)
	depth := len(x.stack)
	saved := x.initFrame
	x.initFrame = fr
	defer func() {
		x.initFrame = saved
		x.stack = x.stack[:depth-1]
	}()
	x.run(fr, fn.Blocks[0], nil, nil, false)
}

// stepTolerant executes one instruction of a package initializer; an initializer expression the engine cannot
// interpret (reflection, runtime hooks) leaves the zero value and is remembered, instead of aborting the rest.
func (x *Exec) stepTolerant(fr *frame, in ssa.Instruction) {
	depth := len(x.stack)
	defer func() {
		if r := recover(); r != nil {
			switch r.(type) {
			case *EngineErr, *GoPanic:
				x.stack = x.stack[:depth]
				if v, ok := in.(ssa.Value); ok {
					func() {
						defer func() { recover() }()
						fr.locals[v] = x.Zero(v.Type())
					}()
				}
				x.initSkipped++
			default:
				panic(r)
			}
		}
	}()
	x.step(fr, in)
}

// ---------------------------------------------------------------- calls

func (x *Exec) callValue(fv Value, args []Value, site ssa.Instruction) Value {
	switch f := fv.(type) {
	case *Closure:
		if f == nil {
			x.goPanic("runtime error: invalid memory address or nil pointer dereference (nil func)")
		}
		if f.Native != nil {
			return x.callNativeClosure(f, args)
		}
		if len(f.Bindings) > 0 {
			return x.callWithBindings(f.Fn, args, f.Bindings, site)
		}
		return x.call(f.Fn, args, site)
	case *ssa.Builtin:
		return x.builtin(f.Name(), args, nil)
	}
	panic(x.errf("call of %T", fv))
}

func (x *Exec) call(fn *ssa.Function, args []Value, site ssa.Instruction) Value {
	return x.callWithBindings(fn, args, nil, site)
}

func (x *Exec) callWithBindings(fn *ssa.Function, args []Value, bindings []Value, site ssa.Instruction) (result Value) {
	if r, ok := x.intercept(fn, args, site); ok {
		return r
	}
	if fn.Blocks == nil {
		panic(x.errf("function without body: %s", fn))
	}
	if len(x.stack) > 400 {
		// unbounded recursion is reported like an unwinding failure
		panic(&GoPanic{Msg: "VERIF-UNWIND: call depth exceeds 400 (unbounded recursion?) in " + fn.String(), Stack: x.stackTrace()})
	}
	x.funcsSeen[fn.String()]++
	fr := &frame{fn: fn, locals: make(map[ssa.Value]Value, 16), info: getFnInfo(fn)}
	for i, p := range fn.Params {
		fr.locals[p] = args[i]
	}
	for i, fv := range fn.FreeVars {
		fr.locals[fv] = bindings[i]
	}
	x.stack = append(x.stack, fr)
	depth := len(x.stack)
	if fr.info.hasDefer {
		defer func() {
			r := recover()
			if r == nil {
				return
			}
			gp, ok := r.(*GoPanic)
			if !ok {
				panic(r)
			}
			x.stack = x.stack[:depth]
			fr.panicking = gp
			x.runDefers(fr)
			if fr.panicking != nil {
				x.stack = x.stack[:depth-1]
				panic(fr.panicking)
			}
			// recovered
			if fn.Recover != nil {
				res := x.run(fr, fn.Recover, nil, nil, false)
				result = res.ret
			} else {
				result = x.zeroResults(fn)
			}
			x.stack = x.stack[:depth-1]
		}()
	}
	res := x.run(fr, fn.Blocks[0], nil, nil, false)
	x.stack = x.stack[:depth-1]
	return res.ret
}

func (x *Exec) zeroResults(fn *ssa.Function) Value {
	rs := fn.Signature.Results()
	switch rs.Len() {
	case 0:
		return nil
	case 1:
		return x.Zero(rs.At(0).Type())
	}
	t := make(Tuple, rs.Len())
	for i := range t {
		t[i] = x.Zero(rs.At(i).Type())
	}
	return t
}

func (x *Exec) runDefers(fr *frame) {
	for len(fr.defers) > 0 {
		d := fr.defers[len(fr.defers)-1]
		fr.defers = fr.defers[:len(fr.defers)-1]
		if d.inv != nil {
			x.invoke(d.inv, d.args, nil)
		} else {
			x.callValue(d.fn, d.args, nil)
		}
	}
}

// invoke performs an interface method call; args[0] is the receiver interface value.
func (x *Exec) invoke(cc *ssa.CallCommon, args []Value, site ssa.Instruction) Value {
	recv, ok := args[0].(Iface)
	if !ok {
		panic(x.errf("invoke on %T", args[0]))
	}
	if recv.T == nil {
		x.goPanic("runtime error: invalid memory address or nil pointer dereference (nil interface method call " + cc.Method.Name() + ")")
	}
	if r, ok := x.interceptInvoke(recv, cc.Method, args[1:], site); ok {
		return r
	}
	fn := x.lookupMethod(recv.T, cc.Method)
	if fn == nil {
		panic(x.errf("method %s not found on %s", cc.Method.Name(), recv.T))
	}
	return x.call(fn, append([]Value{recv.V}, args[1:]...), site)
}

func (x *Exec) lookupMethod(t types.Type, m *types.Func) *ssa.Function {
	ms := x.eng.Prog.MethodSets.MethodSet(t)
	sel := ms.Lookup(m.Pkg(), m.Name())
	if sel == nil {
		return nil
	}
	return x.eng.Prog.MethodValue(sel)
}

// ---------------------------------------------------------------- the block interpreter

type runResult struct {
	returned  bool
	ret       Value
	pred      *ssa.BasicBlock // predecessor from which `stop` was reached
	phisValid bool            // the phis of `stop` were already evaluated (merged inner diamond)
	phis      []Value
}

func (x *Exec) evalPhis(fr *frame, blk, prev *ssa.BasicBlock) []Value {
	var vals []Value
	pi := -1
	for i, p := range blk.Preds {
		if p == prev {
			pi = i
			break
		}
	}
	for _, in := range blk.Instrs {
		p, ok := in.(*ssa.Phi)
		if !ok {
			break
		}
		if pi < 0 {
			panic(x.errf("phi without matching predecessor in %s", fr.fn))
		}
		vals = append(vals, x.get(fr, p.Edges[pi]))
	}
	return vals
}

func (x *Exec) setPhis(fr *frame, blk *ssa.BasicBlock, vals []Value) {
	i := 0
	for _, in := range blk.Instrs {
		p, ok := in.(*ssa.Phi)
		if !ok {
			break
		}
		fr.locals[p] = vals[i]
		i++
	}
}

// run executes from blk (entered from prev) until a Return, or until control is about to enter stop.
func (x *Exec) run(fr *frame, blk, prev, stop *ssa.BasicBlock, phisSet bool) runResult {
	for {
		if blk == stop && stop != nil {
			return runResult{pred: prev}
		}
		if n := len(x.specBlocks); n > 0 && x.specBlocks[n-1] == blk && !fr.info.loopHeader[blk.Index] {
			panic(specAbort{"loop inside speculation"})
		}
		if fr.info.loopHeader[blk.Index] {
			if cs, ok := x.cuts[fr.fn.Name()]; ok && !cs.active && fr.info.outerLoopIndex(blk.Index) == cs.loop {
				if !phisSet && prev != nil {
					x.setPhis(fr, blk, x.evalPhis(fr, blk, prev))
					phisSet = true
				}
				cs.active = true
				x.callValue(cs.hook, []Value{x.ts.BV(uint64(cs.arrivals), 64)}, nil)
				cs.active = false
				cs.arrivals++
			}
			// the unwinding bound is per activation of the function (a concrete helper called many times is not an
			// unbounded loop); the per-path total is kept as a second, much larger guard
			x.loops[blk]++
			if fr.loopIters == nil {
				fr.loopIters = map[*ssa.BasicBlock]int{}
			}
			fr.loopIters[blk]++
			if fr.loopIters[blk] > x.eng.LoopLimit || x.loops[blk] > 50*x.eng.LoopLimit {
				panic(&GoPanic{Msg: fmt.Sprintf("VERIF-UNWIND: loop at %s block %d exceeds %d iterations", fr.fn, blk.Index, x.eng.LoopLimit), Stack: x.stackTrace()})
			}
		}
		if !phisSet && prev != nil {
			x.setPhis(fr, blk, x.evalPhis(fr, blk, prev))
		}
		phisSet = false
		var next *ssa.BasicBlock
	instrs:
		for _, in := range blk.Instrs {
			x.steps++
			if x.stepLimit > 0 && x.steps > x.stepLimit {
				panic(x.errf("step limit %d exceeded", x.stepLimit))
			}
			switch in := in.(type) {
			case *ssa.Phi, *ssa.DebugRef:
			case *ssa.If:
				cv := x.get(fr, in.Cond)
				c, ok := cv.(*Term)
				if !ok {
					panic(x.errf("if on %T", cv))
				}
				c = x.ts.Decide(c)
				if c.IsConst() {
					if c.C == 1 {
						next = blk.Succs[0]
					} else {
						next = blk.Succs[1]
					}
					break instrs
				}
				// symbolic condition: try if-conversion, else fork
				if res, nb, done := x.trySpeculate(fr, blk, c, stop); done {
					if res != nil {
						return *res
					}
					// merged: continue at the join block with phis already set
					prev = nil
					blk = nb
					phisSet = true
					goto nextBlock
				}
				if x.branch(c, fr.fn.String()) {
					next = blk.Succs[0]
				} else {
					next = blk.Succs[1]
				}
				break instrs
			case *ssa.Jump:
				next = blk.Succs[0]
				break instrs
			case *ssa.Return:
				var r Value
				switch len(in.Results) {
				case 0:
				case 1:
					r = x.get(fr, in.Results[0])
				default:
					t := make(Tuple, len(in.Results))
					for i, rv := range in.Results {
						t[i] = x.get(fr, rv)
					}
					r = t
				}
				return runResult{returned: true, ret: r}
			case *ssa.Panic:
				v := x.get(fr, in.X)
				panic(&GoPanic{Val: v, Msg: x.panicString(v), Stack: x.stackTrace()})
			case *ssa.RunDefers:
				x.runDefers(fr)
			default:
				if x.initFrame == fr {
					x.stepTolerant(fr, in)
				} else {
					x.step(fr, in)
				}
			}
		}
		if next == nil {
			panic(x.errf("fell off block %d of %s", blk.Index, fr.fn))
		}
		prev, blk = blk, next
	nextBlock:
	}
}

func (x *Exec) panicString(v Value) string {
	switch t := v.(type) {
	case Iface:
		if t.T == nil {
			return "panic(nil)"
		}
		switch vv := t.V.(type) {
		case string:
			return vv
		case *OpaqueErr:
			return vv.Msg
		case *Term:
			return vv.String()
		}
		return "panic(" + t.T.String() + ")"
	case string:
		return t
	}
	return fmt.Sprintf("panic(%T)", v)
}

// trySpeculate performs if-conversion of the diamond rooted at blk. It returns done=false when the region
// cannot be merged (the caller then forks).  On success either res != nil (both arms returned; merged result)
// or nb is the join block at which execution continues with its phis already evaluated.
func (x *Exec) trySpeculate(fr *frame, blk *ssa.BasicBlock, c *Term, stop *ssa.BasicBlock) (res *runResult, nb *ssa.BasicBlock, done bool) {
	if x.eng.NoSpeculation {
		return nil, nil, false
	}
	if fr.info.loopHeader[blk.Index] {
		// a loop whose trip count depends on symbolic data: if-convert iteration by iteration (the body arm re-enters
		// this header with the next guard) as long as the nesting stays small; otherwise fork
		depth := 0
		for _, b := range x.specBlocks {
			if b == blk {
				depth++
			}
		}
		if depth >= 72 {
			return nil, nil, false
		}
	}
	if x.eng.noSpec(blk) {
		return nil, nil, false
	}
	var join *ssa.BasicBlock
	if j := fr.info.ipdom[blk.Index]; j >= 0 {
		join = fr.fn.Blocks[j]
	}
	if join == nil && fr.info.hasDefer {
		return nil, nil, false
	}
	// If an enclosing speculation/stop lies before the join we must stop there: only merge when the join is
	// reached before `stop` – guaranteed when stop post-dominates blk as well; otherwise bail out.
	mark := len(x.journal)
	oblMark := len(x.obls)
	pathMark := len(x.path)
	// SSA registers of this frame: an arm that runs through a loop back edge re-assigns registers defined before the
	// branch (and registers defined in the loop body are live after the loop exit), so the register file is part of
	// the speculated state: restored between the arms and on abort, merged like memory on success.
	locals0 := make(map[ssa.Value]Value, len(fr.locals))
	for k, v := range fr.locals {
		locals0[k] = v
	}
	restoreLocals := func() {
		for k := range fr.locals {
			if _, ok := locals0[k]; !ok {
				delete(fr.locals, k)
			}
		}
		for k, v := range locals0 {
			fr.locals[k] = v
		}
	}
	changedLocals := func() map[ssa.Value]Value {
		ch := map[ssa.Value]Value{}
		for k, v := range fr.locals {
			if old, ok := locals0[k]; !ok || !sameLocal(old, v) {
				ch[k] = v
			}
		}
		return ch
	}
	varSeq := make(map[string]int, len(x.ts.varSeq))
	for k, v := range x.ts.varSeq {
		varSeq[k] = v
	}
	inputsMark := len(x.inputs)
	stackDepth := len(x.stack)
	x.journaling++
	x.specBlocks = append(x.specBlocks, blk)
	type armOut struct {
		r      runResult
		phis   []Value
		writes map[cellRef]Value
		maps   []journalEntry
	}
	abort := func(reason string) {
		x.undoTo(mark)
		restoreLocals()
		x.journaling--
		x.specBlocks = x.specBlocks[:len(x.specBlocks)-1]
		x.obls = x.obls[:oblMark]
		x.path = x.path[:pathMark]
		x.ts.varSeq = varSeq
		x.inputs = x.inputs[:inputsMark]
		x.stack = x.stack[:stackDepth]
		x.eng.markNoSpec(blk, reason)
	}
	runArm := func(succ *ssa.BasicBlock, cond *Term) (out armOut, ok bool, reason string) {
		defer func() {
			if r := recover(); r != nil {
				switch e := r.(type) {
				case specAbort:
					ok, reason = false, e.reason
				case *GoPanic:
					ok, reason = false, "panic in arm: "+e.Msg
				case pathAbort:
					ok, reason = false, "path abort in arm"
				case *EngineErr:
					// not modelled inside a speculated arm: the branch is forked instead (an infeasible arm is then
					// never executed, a feasible one reports the limitation itself)
					ok, reason = false, "engine limitation in arm: "+e.Msg
				default:
					panic(r)
				}
			}
		}()
		x.path = append(x.path, cond)
		out.r = x.run(fr, succ, blk, join, false)
		x.path = x.path[:pathMark]
		if !out.r.returned {
			if join == nil {
				return out, false, "arm neither returned nor reached join"
			}
			if out.r.phisValid {
				out.phis = out.r.phis
			} else {
				out.phis = x.evalPhis(fr, join, out.r.pred)
			}
		}
		out.writes = map[cellRef]Value{}
		for _, je := range x.journal[mark:] {
			if je.m != nil {
				return out, false, "map update in arm"
			}
			out.writes[cellRef{je.obj, je.idx}] = je.obj.Cells[je.idx]
		}
		return out, true, ""
	}
	a, ok, why := runArm(blk.Succs[0], c)
	if !ok {
		abort(why)
		return nil, nil, false
	}
	// remember original values, undo arm A
	orig := map[cellRef]Value{}
	for i := len(x.journal) - 1; i >= mark; i-- {
		je := x.journal[i]
		orig[cellRef{je.obj, je.idx}] = je.old
	}
	x.undoTo(mark)
	localsA := changedLocals()
	restoreLocals()
	b, ok, why := runArm(blk.Succs[1], x.ts.Not(c))
	if !ok {
		abort(why)
		return nil, nil, false
	}
	localsB := changedLocals()
	restoreLocals()
	for i := len(x.journal) - 1; i >= mark; i-- {
		je := x.journal[i]
		orig[cellRef{je.obj, je.idx}] = je.old
	}
	x.undoTo(mark)
	if a.r.returned != b.r.returned {
		abort("arms end differently")
		return nil, nil, false
	}
	// merge memory
	merged := map[cellRef]Value{}
	for ref, old := range orig {
		va, okA := a.writes[ref]
		if !okA {
			va = old
		}
		vb, okB := b.writes[ref]
		if !okB {
			vb = old
		}
		m, ok := x.mergeValue(c, va, vb)
		if !ok {
			abort(fmt.Sprintf("unmergeable memory values %T / %T", va, vb))
			return nil, nil, false
		}
		merged[ref] = m
	}
	var mret Value
	var mphis []Value
	if a.r.returned {
		m, ok := x.mergeValue(c, a.r.ret, b.r.ret)
		if !ok {
			abort("unmergeable return values")
			return nil, nil, false
		}
		mret = m
	} else {
		mphis = make([]Value, len(a.phis))
		for i := range a.phis {
			m, ok := x.mergeValue(c, a.phis[i], b.phis[i])
			if !ok {
				abort("unmergeable phi values")
				return nil, nil, false
			}
			mphis[i] = m
		}
	}
	// merge the register file
	mergedLocals := map[ssa.Value]Value{}
	for k, va := range localsA {
		vb, okB := localsB[k]
		if !okB {
			if old, ok := locals0[k]; ok {
				vb = old
			} else {
				mergedLocals[k] = va // defined in one arm only: not live at the join (dominance)
				continue
			}
		}
		if sameLocal(va, vb) {
			mergedLocals[k] = va
			continue
		}
		m, ok := x.mergeValue(c, va, vb)
		if !ok {
			// not expressible as one value: fine if the register is dead at the join (the usual case: temporaries of
			// the arms); poisoned so that a later read is an engine error instead of a wrong value
			m = poisonV{fmt.Sprintf("%T / %T", va, vb)}
		}
		mergedLocals[k] = m
	}
	for k, vb := range localsB {
		if _, done := localsA[k]; done {
			continue
		}
		old, ok := locals0[k]
		if !ok {
			mergedLocals[k] = vb
			continue
		}
		m, ok := x.mergeValue(c, old, vb)
		if !ok {
			m = poisonV{fmt.Sprintf("%T / %T", old, vb)}
		}
		mergedLocals[k] = m
	}
	for k, v := range mergedLocals {
		fr.locals[k] = v
	}
	x.journaling--
	x.specBlocks = x.specBlocks[:len(x.specBlocks)-1]
	for ref, v := range merged {
		x.setCell(ref.obj, ref.idx, v)
	}
	x.eng.specMerged.Add(1)
	if a.r.returned {
		return &runResult{returned: true, ret: mret}, nil, true
	}
	if join == stop {
		// the enclosing speculation stops at the same block: hand the merged phi values up
		return &runResult{phisValid: true, phis: mphis}, nil, true
	}
	x.setPhis(fr, join, mphis)
	return nil, join, true
}

// poisonV marks a register whose value after an if-conversion is not representable (see trySpeculate).
type poisonV struct{ why string }

// sameLocal: cheap identity test of two register values (pointer-equal terms, equal scalars).
func sameLocal(a, b Value) (eq bool) {
	defer func() {
		if recover() != nil {
			eq = false
		}
	}()
	switch va := a.(type) {
	case Agg:
		vb, ok := b.(Agg)
		if !ok || len(va.Cells) != len(vb.Cells) {
			return false
		}
		for i := range va.Cells {
			if !sameLocal(va.Cells[i], vb.Cells[i]) {
				return false
			}
		}
		return true
	case Tuple:
		vb, ok := b.(Tuple)
		if !ok || len(va) != len(vb) {
			return false
		}
		for i := range va {
			if !sameLocal(va[i], vb[i]) {
				return false
			}
		}
		return true
	}
	return a == b
}

type cellRef struct {
	obj *Object
	idx int
}

func (x *Exec) undoTo(mark int) {
	for i := len(x.journal) - 1; i >= mark; i-- {
		je := x.journal[i]
		if je.m != nil {
			je.m.keys, je.m.vals = je.mk, je.mv
			je.m.rebuild(x)
		} else {
			je.obj.Cells[je.idx] = je.old
		}
	}
	x.journal = x.journal[:mark]
}

func (x *Exec) mergeValue(c *Term, a, b Value) (Value, bool) {
	switch va := a.(type) {
	case nil:
		if b == nil {
			return nil, true
		}
		return nil, false
	case *Term:
		vb, ok := b.(*Term)
		if !ok || va.Sort != vb.Sort || va.W != vb.W {
			return nil, false
		}
		return x.ts.Ite(c, va, vb), true
	case Tuple:
		vb, ok := b.(Tuple)
		if !ok || len(va) != len(vb) {
			return nil, false
		}
		r := make(Tuple, len(va))
		for i := range va {
			m, ok := x.mergeValue(c, va[i], vb[i])
			if !ok {
				return nil, false
			}
			r[i] = m
		}
		return r, true
	case Agg:
		vb, ok := b.(Agg)
		if !ok || len(va.Cells) != len(vb.Cells) {
			return nil, false
		}
		r := Agg{make([]Value, len(va.Cells))}
		for i := range va.Cells {
			m, ok := x.mergeValue(c, va.Cells[i], vb.Cells[i])
			if !ok {
				return nil, false
			}
			r.Cells[i] = m
		}
		return r, true
	case Ptr:
		if vb, ok := b.(Ptr); ok && va == vb {
			return a, true
		}
	case Slice:
		if vb, ok := b.(Slice); ok && va == vb {
			return a, true
		}
	case string:
		if vb, ok := b.(string); ok && va == vb {
			return a, true
		}
	case FloatV:
		if vb, ok := b.(FloatV); ok && (va == vb || (math.IsNaN(va.F) && math.IsNaN(vb.F))) {
			return a, true
		}
	case Iface:
		if vb, ok := b.(Iface); ok {
			if va.T == nil && vb.T == nil {
				return a, true
			}
			if va.T != nil && vb.T != nil && types.Identical(va.T, vb.T) {
				if m, ok := x.mergeValue(c, va.V, vb.V); ok {
					return Iface{va.T, m}, true
				}
			}
		}
	case *Closure:
		if vb, ok := b.(*Closure); ok && va == vb {
			return a, true
		}
	case *MapObj:
		if vb, ok := b.(*MapObj); ok && va == vb {
			return a, true
		}
	case *OpaqueErr:
		if vb, ok := b.(*OpaqueErr); ok && va == vb {
			return a, true
		}
	case *FE:
		if vb, ok := b.(*FE); ok && va == vb {
			return a, true
		}
	}
	return nil, false
}

// ---------------------------------------------------------------- single instructions

func (x *Exec) step(fr *frame, in ssa.Instruction) {
	switch in := in.(type) {
	case *ssa.BinOp:
		fr.locals[in] = x.binop(in.Op, x.get(fr, in.X), x.get(fr, in.Y), in.X.Type(), in.Y.Type())
	case *ssa.UnOp:
		fr.locals[in] = x.unop(fr, in)
	case *ssa.Call:
		fr.locals[in] = x.doCall(fr, &in.Call, in)
	case *ssa.Defer:
		args := make([]Value, len(in.Call.Args))
		for i, a := range in.Call.Args {
			args[i] = x.get(fr, a)
		}
		if in.Call.IsInvoke() {
			fr.defers = append(fr.defers, deferred{inv: &in.Call, args: append([]Value{x.get(fr, in.Call.Value)}, args...)})
		} else {
			fr.defers = append(fr.defers, deferred{fn: x.get(fr, in.Call.Value), args: args})
		}
	case *ssa.Go:
		panic(x.errf("go statement is not supported (sequential executor) in %s", fr.fn))
	case *ssa.Extract:
		fr.locals[in] = x.get(fr, in.Tuple).(Tuple)[in.Index]
	case *ssa.Alloc:
		et := in.Type().(*types.Pointer).Elem()
		o := x.NewObject(x.lay.Cells(et), et, in.Comment)
		x.ZeroInto(o.Cells, et)
		fr.locals[in] = Ptr{o, 0}
	case *ssa.Store:
		pv := x.get(fr, in.Addr)
		v := x.get(fr, in.Val)
		switch p := pv.(type) {
		case Ptr:
			x.Store(p, v, in.Val.Type())
		case *SymPtr:
			x.symStore(p, v)
		default:
			panic(x.errf("store through %T", pv))
		}
	case *ssa.FieldAddr:
		p := x.get(fr, in.X).(Ptr)
		if p.Obj == nil {
			x.goPanic("runtime error: invalid memory address or nil pointer dereference (field of nil struct pointer)")
		}
		st := in.X.Type().Underlying().(*types.Pointer).Elem().Underlying().(*types.Struct)
		if isOpaqueNamed(in.X.Type().Underlying().(*types.Pointer).Elem()) {
			panic(x.errf("field access into opaque type %s", in.X.Type()))
		}
		fr.locals[in] = Ptr{p.Obj, p.Off + x.lay.FieldOff(st, in.Field)}
	case *ssa.Field:
		a := x.get(fr, in.X).(Agg)
		st := in.X.Type().Underlying().(*types.Struct)
		off := x.lay.FieldOff(st, in.Field)
		ft := st.Field(in.Field).Type()
		n := x.lay.Cells(ft)
		if isAggT(ft) {
			fr.locals[in] = Agg{append([]Value(nil), a.Cells[off:off+n]...)}
		} else {
			fr.locals[in] = a.Cells[off]
		}
	case *ssa.IndexAddr:
		fr.locals[in] = x.indexAddr(fr, in)
	case *ssa.Index:
		fr.locals[in] = x.index(fr, in)
	case *ssa.Lookup:
		fr.locals[in] = x.lookup(fr, in)
	case *ssa.Slice:
		fr.locals[in] = x.sliceOp(fr, in)
	case *ssa.MakeSlice:
		st := in.Type().Underlying().(*types.Slice)
		n := x.allocSize(x.get(fr, in.Len), "make([]T, n)")
		c := x.allocSize(x.get(fr, in.Cap), "make([]T, _, cap)")
		if c < n {
			x.goPanic("runtime error: makeslice: cap out of range")
		}
		fr.locals[in] = x.makeSlice(st.Elem(), n, c, "make")
	case *ssa.MakeMap:
		mt := in.Type().Underlying().(*types.Map)
		if in.Reserve != nil {
			x.allocSize(x.get(fr, in.Reserve), "make(map, n)")
		}
		fr.locals[in] = x.NewMap(mt.Key(), mt.Elem())
	case *ssa.MapUpdate:
		m := x.get(fr, in.Map).(*MapObj)
		x.MapSet(m, x.get(fr, in.Key), x.get(fr, in.Value))
	case *ssa.MakeClosure:
		b := make([]Value, len(in.Bindings))
		for i, bv := range in.Bindings {
			b[i] = x.get(fr, bv)
		}
		fr.locals[in] = &Closure{Fn: in.Fn.(*ssa.Function), Bindings: b}
	case *ssa.MakeInterface:
		fr.locals[in] = Iface{T: in.X.Type(), V: x.get(fr, in.X)}
	case *ssa.ChangeInterface:
		fr.locals[in] = x.get(fr, in.X)
	case *ssa.ChangeType:
		fr.locals[in] = x.get(fr, in.X)
	case *ssa.Convert:
		fr.locals[in] = x.convert(x.get(fr, in.X), in.X.Type(), in.Type())
	case *ssa.MultiConvert:
		fr.locals[in] = x.convert(x.get(fr, in.X), in.X.Type(), in.Type())
	case *ssa.SliceToArrayPointer:
		s := x.get(fr, in.X).(Slice)
		at := in.Type().Underlying().(*types.Pointer).Elem().Underlying().(*types.Array)
		if int(at.Len()) > s.Len {
			x.goPanic("runtime error: cannot convert slice to array pointer: length too short")
		}
		fr.locals[in] = Ptr{s.Obj, s.Off}
	case *ssa.TypeAssert:
		fr.locals[in] = x.typeAssert(x.get(fr, in.X), in)
	case *ssa.Range:
		fr.locals[in] = x.makeRange(x.get(fr, in.X), in.X.Type())
	case *ssa.Next:
		fr.locals[in] = x.next(x.get(fr, in.Iter).(*rangeIter), in)
	case *ssa.MakeChan, *ssa.Send, *ssa.Select:
		panic(x.errf("channel operation %T is not supported in %s", in, fr.fn))
	default:
		panic(x.errf("unsupported instruction %T: %s", in, in))
	}
}

func (x *Exec) allocSize(v Value, what string) int {
	t := v.(*Term)
	if t.IsConst() {
		n := t.SignedBig()
		if n.Sign() < 0 || n.BitLen() > 40 {
			x.goPanic(fmt.Sprintf("runtime error: makeslice: len out of range (%s)", n))
		}
		return int(n.Int64())
	}
	// symbolic allocation size: negative sizes panic at run time; sizes beyond the allocation bound are reported
	// as an allocation obligation (the size is attacker controlled and not bounded by the data available)
	if !x.branch(x.ts.Cmp(OSle, x.ts.BV(0, t.W), t), "alloc-sign:"+what) {
		x.goPanic("runtime error: makeslice: len out of range (negative symbolic size)")
	}
	if x.eng.AllocLimit > 0 {
		lim := x.ts.BV(uint64(x.eng.AllocLimit), t.W)
		if !x.branch(x.ts.Cmp(OSle, t, lim), "alloc:"+what) {
			panic(&GoPanic{Msg: "VERIF-ALLOC: allocation size taken from untrusted input is not bounded (" + what + ")", Stack: x.stackTrace()})
		}
	}
	return x.concretize(t, what)
}

func (x *Exec) makeSlice(elem types.Type, n, c int, label string) Slice {
	esz := x.lay.Cells(elem)
	o := x.NewObject(c*esz, elem, label)
	if esz == 1 {
		var z [1]Value
		x.ZeroInto(z[:], elem)
		for i := range o.Cells {
			o.Cells[i] = z[0]
		}
	} else {
		for i := 0; i < c; i++ {
			x.ZeroInto(o.Cells[i*esz:(i+1)*esz], elem)
		}
	}
	return Slice{Obj: o, Off: 0, Len: n, Cap: c, ESz: esz, NonNil: true}
}

func (x *Exec) doCall(fr *frame, cc *ssa.CallCommon, site ssa.Instruction) Value {
	args := make([]Value, 0, len(cc.Args)+1)
	if cc.IsInvoke() {
		args = append(args, x.get(fr, cc.Value))
		for _, a := range cc.Args {
			args = append(args, x.get(fr, a))
		}
		return x.invoke(cc, args, site)
	}
	for _, a := range cc.Args {
		args = append(args, x.get(fr, a))
	}
	switch f := cc.Value.(type) {
	case *ssa.Function:
		return x.call(f, args, site)
	case *ssa.Builtin:
		return x.builtin(f.Name(), args, cc)
	}
	return x.callValue(x.get(fr, cc.Value), args, site)
}

// ---------------------------------------------------------------- operators

func (x *Exec) binop(op token.Token, a, b Value, ta, tb types.Type) Value {
	switch va := a.(type) {
	case *Term:
		switch vb := b.(type) {
		case *Term:
			return x.binopTerm(op, va, vb, ta, tb)
		case *FE:
			return x.feBinop(op, a, b, ta)
		}
	case *FE:
		return x.feBinop(op, a, b, ta)
	case *RealV:
		return x.realBinop(op, a, b)
	case FloatV:
		if _, ok := b.(*RealV); ok {
			return x.realBinop(op, a, b)
		}
		vb := b.(FloatV)
		f32 := false
		if bt, ok := ta.Underlying().(*types.Basic); ok && bt.Kind() == types.Float32 {
			f32 = true
		}
		rnd := func(f float64) Value {
			if f32 {
				return FloatV{float64(float32(f))}
			}
			return FloatV{f}
		}
		switch op {
		case token.ADD:
			return rnd(va.F + vb.F)
		case token.SUB:
			return rnd(va.F - vb.F)
		case token.MUL:
			return rnd(va.F * vb.F)
		case token.QUO:
			return rnd(va.F / vb.F)
		case token.LSS:
			return x.ts.Bool(va.F < vb.F)
		case token.LEQ:
			return x.ts.Bool(va.F <= vb.F)
		case token.GTR:
			return x.ts.Bool(va.F > vb.F)
		case token.GEQ:
			return x.ts.Bool(va.F >= vb.F)
		case token.EQL:
			return x.ts.Bool(va.F == vb.F)
		case token.NEQ:
			return x.ts.Bool(va.F != vb.F)
		}
	case ComplexV:
		vb := b.(ComplexV)
		switch op {
		case token.ADD:
			return ComplexV{va.C + vb.C}
		case token.SUB:
			return ComplexV{va.C - vb.C}
		case token.MUL:
			return ComplexV{va.C * vb.C}
		case token.QUO:
			return ComplexV{va.C / vb.C}
		case token.EQL:
			return x.ts.Bool(va.C == vb.C)
		case token.NEQ:
			return x.ts.Bool(va.C != vb.C)
		}
	case string:
		vb := b.(string)
		switch op {
		case token.ADD:
			return va + vb
		case token.EQL:
			return x.ts.Bool(va == vb)
		case token.NEQ:
			return x.ts.Bool(va != vb)
		case token.LSS:
			return x.ts.Bool(va < vb)
		case token.LEQ:
			return x.ts.Bool(va <= vb)
		case token.GTR:
			return x.ts.Bool(va > vb)
		case token.GEQ:
			return x.ts.Bool(va >= vb)
		}
	}
	switch op {
	case token.EQL:
		return x.valuesEqual(a, b)
	case token.NEQ:
		return x.ts.Not(x.valuesEqual(a, b))
	}
	panic(x.errf("binop %s on %T, %T", op, a, b))
}

func (x *Exec) valuesEqual(a, b Value) *Term {
	switch va := a.(type) {
	case *Term:
		if vb, ok := b.(*Term); ok {
			return x.ts.Cmp(OEq, va, vb)
		}
	case Ptr:
		if vb, ok := b.(Ptr); ok {
			return x.ts.Bool(va == vb)
		}
	case string:
		if vb, ok := b.(string); ok {
			return x.ts.Bool(va == vb)
		}
	case FloatV:
		if vb, ok := b.(FloatV); ok {
			return x.ts.Bool(va.F == vb.F)
		}
	case Slice:
		if vb, ok := b.(Slice); ok {
			if va.IsNil() || vb.IsNil() {
				return x.ts.Bool(va.IsNil() && vb.IsNil())
			}
		}
	case *MapObj:
		if vb, ok := b.(*MapObj); ok {
			return x.ts.Bool(va == vb)
		}
	case *Closure:
		if vb, ok := b.(*Closure); ok {
			if va == nil || vb == nil {
				return x.ts.Bool(va == nil && vb == nil)
			}
		}
	case Iface:
		if vb, ok := b.(Iface); ok {
			if va.T == nil || vb.T == nil {
				return x.ts.Bool(va.T == nil && vb.T == nil)
			}
			if !types.Identical(va.T, vb.T) {
				return x.ts.False
			}
			return x.valuesEqual(va.V, vb.V)
		}
	case *OpaqueErr:
		if vb, ok := b.(*OpaqueErr); ok {
			return x.ts.Bool(va == vb)
		}
		return x.ts.False
	case Agg:
		if vb, ok := b.(Agg); ok && len(va.Cells) == len(vb.Cells) {
			r := x.ts.True
			for i := range va.Cells {
				r = x.ts.And(r, x.valuesEqual(va.Cells[i], vb.Cells[i]))
			}
			return r
		}
	case Opaque:
		if vb, ok := b.(Opaque); ok {
			return x.ts.Bool(va.V == vb.V)
		}
	case nil:
		return x.ts.Bool(b == nil)
	case *FE:
		return x.feEqual(a, b)
	}
	if _, ok := b.(*FE); ok {
		return x.feEqual(a, b)
	}
	panic(x.errf("equality on %T, %T", a, b))
}

func (x *Exec) binopTerm(op token.Token, a, b *Term, ta, tb types.Type) Value {
	ts := x.ts
	if a.Sort == SBool {
		switch op {
		case token.EQL:
			return ts.Cmp(OEq, a, b)
		case token.NEQ:
			return ts.Not(ts.Cmp(OEq, a, b))
		case token.AND, token.LAND:
			return ts.And(a, b)
		case token.OR, token.LOR:
			return ts.Or(a, b)
		}
		panic(x.errf("bool binop %s", op))
	}
	signed := isSignedT(ta)
	switch op {
	case token.ADD:
		return ts.Bin(OAdd, a, b)
	case token.SUB:
		return ts.Bin(OSub, a, b)
	case token.MUL:
		if !a.IsConst() && !b.IsConst() && a.W == 64 && x.eng.AbstractMul {
			_, lo := ts.Mul64(a, b)
			return lo
		}
		return ts.Bin(OMul, a, b)
	case token.QUO, token.REM:
		x.require(ts.Not(ts.Cmp(OEq, b, ts.BV(0, b.W))), "div", "integer divide by zero")
		if signed {
			if op == token.QUO {
				return ts.Bin(OSDiv, a, b)
			}
			return ts.Bin(OSRem, a, b)
		}
		if op == token.QUO {
			return ts.Bin(OUDiv, a, b)
		}
		return ts.Bin(OURem, a, b)
	case token.AND:
		return ts.Bin(OAnd, a, b)
	case token.OR:
		return ts.Bin(OOr, a, b)
	case token.XOR:
		return ts.Bin(OXor, a, b)
	case token.AND_NOT:
		return ts.Bin(OAnd, a, ts.BNotW(b))
	case token.SHL, token.SHR:
		// shift count: unsigned (or non-negative signed) value of any width
		cnt := b
		if isSignedT(tb) && cnt.IsConst() && cnt.SignedBig().Sign() < 0 {
			x.goPanic("runtime error: negative shift amount")
		}
		if cnt.W != a.W {
			if cnt.W > a.W {
				// saturate: counts >= width behave like width
				if cnt.IsConst() {
					if cnt.ConstBig().Cmp(big.NewInt(int64(a.W))) >= 0 {
						cnt = ts.BV(uint64(a.W), a.W)
					} else {
						cnt = ts.Resize(cnt, a.W, false)
					}
				} else {
					big := ts.Cmp(OUle, ts.BV(uint64(a.W), cnt.W), cnt)
					cnt = ts.Ite(big, ts.BV(uint64(a.W), a.W), ts.Resize(cnt, a.W, false))
				}
			} else {
				cnt = ts.Resize(cnt, a.W, false)
			}
		}
		if op == token.SHL {
			return ts.Bin(OShl, a, cnt)
		}
		if signed {
			if a.IsConst() && cnt.IsConst() {
				return ts.foldBVBig(OAshr, a, cnt)
			}
			return ts.mk(&Term{Op: OAshr, Sort: SBV, W: a.W, A: []*Term{a, cnt}})
		}
		return ts.Bin(OLshr, a, cnt)
	case token.EQL:
		return ts.Cmp(OEq, a, b)
	case token.NEQ:
		return ts.Not(ts.Cmp(OEq, a, b))
	case token.LSS:
		if signed {
			return ts.Cmp(OSlt, a, b)
		}
		return ts.Cmp(OUlt, a, b)
	case token.LEQ:
		if signed {
			return ts.Cmp(OSle, a, b)
		}
		return ts.Cmp(OUle, a, b)
	case token.GTR:
		if signed {
			return ts.Cmp(OSlt, b, a)
		}
		return ts.Cmp(OUlt, b, a)
	case token.GEQ:
		if signed {
			return ts.Cmp(OSle, b, a)
		}
		return ts.Cmp(OUle, b, a)
	}
	panic(x.errf("int binop %s", op))
}

func (x *Exec) unop(fr *frame, in *ssa.UnOp) Value {
	v := x.get(fr, in.X)
	switch in.Op {
	case token.MUL:
		switch p := v.(type) {
		case Ptr:
			return x.Load(p, in.Type())
		case *SymPtr:
			return x.symLoad(p)
		}
		panic(x.errf("load through %T", v))
	case token.NOT:
		return x.ts.Not(v.(*Term))
	case token.SUB:
		switch t := v.(type) {
		case *Term:
			return x.ts.Neg(t)
		case FloatV:
			return FloatV{-t.F}
		case *RealV:
			if t.Err == nil {
				panic(x.errf("negation of a big.Float-derived symbolic value is not modelled"))
			}
			return &RealV{T: x.ts.RBin(ORSub, x.ts.Real(new(big.Rat)), t.T), Err: t.Err, Mag: t.Mag, Grid: t.Grid, GridOK: t.GridOK, Sign: -t.Sign}
		case ComplexV:
			return ComplexV{-t.C}
		case *FE:
			return x.feNeg(t)
		}
	case token.XOR:
		return x.ts.BNotW(v.(*Term))
	}
	panic(x.errf("unop %s on %T", in.Op, v))
}

// ---------------------------------------------------------------- conversions

func (x *Exec) convert(v Value, from, to types.Type) Value {
	fu, tu := from.Underlying(), to.Underlying()
	switch t := v.(type) {
	case *Term:
		if isIntT(to) {
			return x.ts.Resize(t, intWidth(to), isSignedT(from))
		}
		if isFloatT(to) {
			if !t.IsConst() {
				return x.symIntToFloat(t, isSignedT(from))
			}
			var f float64
			if isSignedT(from) {
				f, _ = new(big.Float).SetInt(t.SignedBig()).Float64()
			} else {
				f, _ = new(big.Float).SetInt(t.ConstBig()).Float64()
			}
			if tu.(*types.Basic).Kind() == types.Float32 {
				f = float64(float32(f))
			}
			return FloatV{f}
		}
		if isStringT(to) {
			if !t.IsConst() {
				panic(x.errf("string(symbolic rune)"))
			}
			return string(rune(t.SignedBig().Int64()))
		}
		if tb, ok := tu.(*types.Basic); ok && tb.Kind() == types.UnsafePointer {
			panic(x.errf("uintptr -> unsafe.Pointer conversion"))
		}
	case FloatV:
		if isFloatT(to) {
			if tu.(*types.Basic).Kind() == types.Float32 {
				return FloatV{float64(float32(t.F))}
			}
			return t
		}
		if isIntT(to) {
			w := intWidth(to)
			if isSignedT(to) {
				return x.ts.BV(uint64(int64(t.F)), w)
			}
			return x.ts.BV(uint64(t.F), w)
		}
	case *FE:
		if isIntT(to) && intWidth(to) == 64 {
			return t
		}
		if isFloatT(to) {
			panic(x.errf("float64(field element) – floating-point use of an algebraic value"))
		}
	case *RealV:
		return x.convertReal(t, to)
	case ComplexV:
		if isComplexT(to) {
			return t
		}
	case string:
		if isStringT(to) {
			return t
		}
		if sl, ok := tu.(*types.Slice); ok {
			if isIntT(sl.Elem()) && intWidth(sl.Elem()) == 8 {
				s := x.makeSlice(sl.Elem(), len(t), len(t), "[]byte(string)")
				for i := 0; i < len(t); i++ {
					s.Obj.Cells[i] = x.ts.BV(uint64(t[i]), 8)
				}
				return s
			}
			if isIntT(sl.Elem()) && intWidth(sl.Elem()) == 32 {
				rs := []rune(t)
				s := x.makeSlice(sl.Elem(), len(rs), len(rs), "[]rune(string)")
				for i, r := range rs {
					s.Obj.Cells[i] = x.ts.BV(uint64(r), 32)
				}
				return s
			}
		}
	case Slice:
		if isStringT(to) {
			bs := make([]byte, t.Len)
			for i := 0; i < t.Len; i++ {
				c, ok := t.Obj.Cells[t.Off+i].(*Term)
				if !ok || !c.IsConst() {
					return x.symString(t)
				}
				bs[i] = byte(c.C)
			}
			return string(bs)
		}
		if _, ok := tu.(*types.Slice); ok {
			return t
		}
	case Ptr:
		// unsafe.Pointer <-> *T : same cells, re-typed. A window type must fit into the object.
		if pt, ok := tu.(*types.Pointer); ok {
			if t.Obj != nil {
				n := x.lay.Cells(pt.Elem())
				if t.Off+n > len(t.Obj.Cells) {
					x.goPanic(fmt.Sprintf("VERIF-UNSAFE: unsafe cast to %s at cell %d overflows the backing array %s (%d cells)", to, t.Off, t.Obj.Label, len(t.Obj.Cells)))
				}
			}
			return t
		}
		if tb, ok := tu.(*types.Basic); ok && tb.Kind() == types.UnsafePointer {
			return t
		}
		if tb, ok := tu.(*types.Basic); ok && tb.Kind() == types.Uintptr {
			panic(x.errf("pointer -> uintptr conversion"))
		}
	}
	_ = fu
	panic(x.errf("convert %T from %s to %s", v, from, to))
}

// ---------------------------------------------------------------- indexing, slicing

// SymPtr is the address of an element selected by a symbolic index (scalar elements only).
type SymPtr struct {
	Obj  *Object
	Base int
	N    int
	ESz  int
	Idx  *Term
}

func (x *Exec) symLoad(p *SymPtr) Value {
	if p.ESz != 1 {
		panic(x.errf("symbolic index into aggregate elements"))
	}
	var r Value = p.Obj.Cells[p.Base+p.N-1]
	for i := p.N - 2; i >= 0; i-- {
		c := x.ts.Cmp(OEq, p.Idx, x.ts.BV(uint64(i), p.Idx.W))
		m, ok := x.mergeValue(c, p.Obj.Cells[p.Base+i], r)
		if !ok {
			panic(x.errf("symbolic index over unmergeable elements"))
		}
		r = m
	}
	return r
}

func (x *Exec) symStore(p *SymPtr, v Value) {
	if p.ESz != 1 {
		panic(x.errf("symbolic index store into aggregate elements"))
	}
	for i := 0; i < p.N; i++ {
		c := x.ts.Cmp(OEq, p.Idx, x.ts.BV(uint64(i), p.Idx.W))
		m, ok := x.mergeValue(c, v, p.Obj.Cells[p.Base+i])
		if !ok {
			panic(x.errf("symbolic index store over unmergeable elements"))
		}
		x.setCell(p.Obj, p.Base+i, m)
	}
}

func (x *Exec) indexAddr(fr *frame, in *ssa.IndexAddr) Value {
	base := x.get(fr, in.X)
	it := x.get(fr, in.Index).(*Term)
	var obj *Object
	var off, n, esz int
	switch b := base.(type) {
	case Slice:
		obj, off, n, esz = b.Obj, b.Off, b.Len, b.ESz
		if esz == 0 {
			esz = x.lay.Cells(in.X.Type().Underlying().(*types.Slice).Elem())
		}
	case Ptr:
		if b.Obj == nil {
			x.goPanic("runtime error: invalid memory address or nil pointer dereference (index of nil array pointer)")
		}
		at := in.X.Type().Underlying().(*types.Pointer).Elem().Underlying().(*types.Array)
		obj, off, n, esz = b.Obj, b.Off, int(at.Len()), x.lay.Cells(at.Elem())
	default:
		panic(x.errf("indexaddr base %T", base))
	}
	if it.IsConst() {
		i := it.SignedBig()
		if i.Sign() < 0 || i.Cmp(big.NewInt(int64(n))) >= 0 {
			x.goPanic(fmt.Sprintf("runtime error: index out of range [%s] with length %d", i, n))
		}
		return Ptr{obj, off + int(i.Int64())*esz}
	}
	// symbolic index
	inb := x.ts.Cmp(OUlt, it, x.ts.BV(uint64(n), it.W))
	x.require(inb, "bounds", fmt.Sprintf("index out of range [symbolic] with length %d", n))
	if n > x.eng.SymIndexLimit {
		return Ptr{obj, off + x.concretize(it, "index")*esz}
	}
	return &SymPtr{Obj: obj, Base: off, N: n, ESz: esz, Idx: it}
}

func (x *Exec) index(fr *frame, in *ssa.Index) Value {
	it := x.get(fr, in.Index).(*Term)
	switch b := x.get(fr, in.X).(type) {
	case Agg:
		at := in.X.Type().Underlying().(*types.Array)
		esz := x.lay.Cells(at.Elem())
		n := int(at.Len())
		if !it.IsConst() {
			inb := x.ts.Cmp(OUlt, it, x.ts.BV(uint64(n), it.W))
			x.require(inb, "bounds", "index out of range")
			o := &Object{Cells: b.Cells}
			return x.symLoad(&SymPtr{Obj: o, N: n, ESz: esz, Idx: it})
		}
		i := int(it.SignedBig().Int64())
		if i < 0 || i >= n {
			x.goPanic(fmt.Sprintf("runtime error: index out of range [%d] with length %d", i, n))
		}
		if isAggT(at.Elem()) {
			return Agg{append([]Value(nil), b.Cells[i*esz:(i+1)*esz]...)}
		}
		return b.Cells[i*esz]
	case string:
		i := x.constInt(it, "string index")
		if i < 0 || i >= len(b) {
			x.goPanic("runtime error: index out of range (string)")
		}
		return x.ts.BV(uint64(b[i]), 8)
	}
	panic(x.errf("index on %T", x.get(fr, in.X)))
}

func (x *Exec) lookup(fr *frame, in *ssa.Lookup) Value {
	switch m := x.get(fr, in.X).(type) {
	case *MapObj:
		k := x.get(fr, in.Index)
		if kt, ok := k.(*Term); ok && !kt.IsConst() {
			k = x.ts.BV(uint64(x.concretize(kt, "map key")), kt.W)
		}
		v, ok := x.MapGet(m, k)
		if !ok {
			v = x.Zero(in.X.Type().Underlying().(*types.Map).Elem())
		}
		if in.CommaOk {
			return Tuple{v, x.ts.Bool(ok)}
		}
		return v
	case string:
		i := x.constInt(x.get(fr, in.Index), "string index")
		if i < 0 || i >= len(m) {
			x.goPanic("runtime error: index out of range (string)")
		}
		return x.ts.BV(uint64(m[i]), 8)
	}
	panic(x.errf("lookup on %T", x.get(fr, in.X)))
}

func (x *Exec) sliceBound(v ssa.Value, fr *frame, def int, what string, max int) int {
	if v == nil {
		return def
	}
	t := x.get(fr, v).(*Term)
	if !t.IsConst() {
		inb := x.ts.And(x.ts.Cmp(OSle, x.ts.BV(0, t.W), t), x.ts.Cmp(OSle, t, x.ts.BV(uint64(max), t.W)))
		x.require(inb, "bounds", fmt.Sprintf("slice bounds out of range [symbolic %s] with capacity %d", what, max))
	}
	if t.IsConst() {
		b := t.SignedBig()
		if b.BitLen() > 40 {
			if b.Sign() < 0 {
				return -1
			}
			return 1 << 40
		}
		return int(b.Int64())
	}
	return x.concretize(t, what)
}

func (x *Exec) sliceOp(fr *frame, in *ssa.Slice) Value {
	base := x.get(fr, in.X)
	switch b := base.(type) {
	case string:
		lo := x.sliceBound(in.Low, fr, 0, "slice low", len(b))
		hi := x.sliceBound(in.High, fr, len(b), "slice high", len(b))
		if lo < 0 || hi < lo || hi > len(b) {
			x.goPanic(fmt.Sprintf("runtime error: slice bounds out of range [%d:%d] with string length %d", lo, hi, len(b)))
		}
		return b[lo:hi]
	case Slice:
		esz := b.ESz
		if esz == 0 {
			esz = x.lay.Cells(in.X.Type().Underlying().(*types.Slice).Elem())
		}
		lo := x.sliceBound(in.Low, fr, 0, "slice low", b.Cap)
		hi := x.sliceBound(in.High, fr, b.Len, "slice high", b.Cap)
		mx := x.sliceBound(in.Max, fr, b.Cap, "slice max", b.Cap)
		if hi < 0 || hi > b.Cap {
			x.goPanic(fmt.Sprintf("runtime error: slice bounds out of range [:%d] with capacity %d", hi, b.Cap))
		}
		if lo < 0 || lo > hi {
			x.goPanic(fmt.Sprintf("runtime error: slice bounds out of range [%d:%d]", lo, hi))
		}
		if mx < hi || mx > b.Cap {
			x.goPanic(fmt.Sprintf("runtime error: slice bounds out of range [::%d] with capacity %d", mx, b.Cap))
		}
		if b.IsNil() {
			return b
		}
		return Slice{Obj: b.Obj, Off: b.Off + lo*esz, Len: hi - lo, Cap: mx - lo, ESz: esz, NonNil: true}
	case Ptr:
		at := in.X.Type().Underlying().(*types.Pointer).Elem().Underlying().(*types.Array)
		if b.Obj == nil {
			x.goPanic("runtime error: slice of nil array pointer")
		}
		n := int(at.Len())
		esz := x.lay.Cells(at.Elem())
		lo := x.sliceBound(in.Low, fr, 0, "slice low", n)
		hi := x.sliceBound(in.High, fr, n, "slice high", n)
		mx := x.sliceBound(in.Max, fr, n, "slice max", n)
		if lo < 0 || hi < lo || hi > n || mx < hi || mx > n {
			x.goPanic(fmt.Sprintf("runtime error: slice bounds out of range [%d:%d:%d] with array length %d", lo, hi, mx, n))
		}
		return Slice{Obj: b.Obj, Off: b.Off + lo*esz, Len: hi - lo, Cap: mx - lo, ESz: esz, NonNil: true}
	}
	panic(x.errf("slice of %T", base))
}

// ---------------------------------------------------------------- type assertions

func (x *Exec) implements(dyn types.Type, it *types.Interface) bool {
	return types.Implements(dyn, it)
}

func (x *Exec) typeAssert(v Value, in *ssa.TypeAssert) Value {
	iv := v.(Iface)
	ok := false
	if iv.T != nil {
		if it, isI := in.AssertedType.Underlying().(*types.Interface); isI {
			ok = x.implements(iv.T, it)
		} else {
			ok = types.Identical(iv.T, in.AssertedType)
		}
	}
	var res Value
	if ok {
		if _, isI := in.AssertedType.Underlying().(*types.Interface); isI {
			res = iv
		} else {
			res = iv.V
		}
	} else {
		if !in.CommaOk {
			dyn := "nil"
			if iv.T != nil {
				dyn = iv.T.String()
			}
			x.goPanic(fmt.Sprintf("interface conversion: interface is %s, not %s", dyn, in.AssertedType))
		}
		res = x.Zero(in.AssertedType)
	}
	if in.CommaOk {
		return Tuple{res, x.ts.Bool(ok)}
	}
	return res
}

// ---------------------------------------------------------------- range

type rangeIter struct {
	m     *MapObj
	order []int
	keys  []Value
	vals  []Value
	s     string
	isStr bool
	pos   int
}

func (x *Exec) makeRange(v Value, t types.Type) Value {
	switch r := v.(type) {
	case *MapObj:
		it := &rangeIter{m: r}
		if r != nil {
			for _, i := range x.mapOrder(r) {
				it.keys = append(it.keys, r.keys[i])
				it.vals = append(it.vals, r.vals[i])
			}
		}
		return it
	case string:
		return &rangeIter{s: r, isStr: true}
	}
	panic(x.errf("range over %T", v))
}

func (x *Exec) next(it *rangeIter, in *ssa.Next) Value {
	if it.isStr {
		if it.pos >= len(it.s) {
			return Tuple{x.ts.False, x.ts.BV(0, 64), x.ts.BV(0, 32)}
		}
		for i, r := range it.s[it.pos:] {
			_ = i
			p := it.pos
			it.pos += len(string(r))
			return Tuple{x.ts.True, x.ts.BV(uint64(p), 64), x.ts.BV(uint64(r), 32)}
		}
	}
	for it.pos < len(it.keys) {
		k, v := it.keys[it.pos], it.vals[it.pos]
		it.pos++
		// skip entries deleted during iteration; pick up updated values
		if cur, ok := x.MapGet(it.m, k); ok {
			v = cur
			return Tuple{x.ts.True, k, v}
		}
	}
	tt := in.Type().(*types.Tuple)
	return Tuple{x.ts.False, x.Zero(tt.At(1).Type()), x.Zero(tt.At(2).Type())}
}

// ---------------------------------------------------------------- builtins

func (x *Exec) builtin(name string, args []Value, cc *ssa.CallCommon) Value {
	switch name {
	case "len":
		switch a := args[0].(type) {
		case Slice:
			return x.ts.BV(uint64(a.Len), 64)
		case string:
			return x.ts.BV(uint64(len(a)), 64)
		case *MapObj:
			if a == nil {
				return x.ts.BV(0, 64)
			}
			return x.ts.BV(uint64(a.Len()), 64)
		case Ptr:
			at := cc.Args[0].Type().Underlying().(*types.Pointer).Elem().Underlying().(*types.Array)
			return x.ts.BV(uint64(at.Len()), 64)
		case Agg:
			at := cc.Args[0].Type().Underlying().(*types.Array)
			return x.ts.BV(uint64(at.Len()), 64)
		case *SymString:
			return x.ts.BV(uint64(a.S.Len), 64)
		}
	case "cap":
		switch a := args[0].(type) {
		case Slice:
			return x.ts.BV(uint64(a.Cap), 64)
		case Ptr:
			at := cc.Args[0].Type().Underlying().(*types.Pointer).Elem().Underlying().(*types.Array)
			return x.ts.BV(uint64(at.Len()), 64)
		}
	case "append":
		s := args[0].(Slice)
		var add Slice
		var addStr string
		isStr := false
		switch a := args[1].(type) {
		case Slice:
			add = a
		case string:
			addStr, isStr = a, true
			add.Len = len(a)
		}
		if add.Len == 0 {
			return s
		}
		esz := s.ESz
		if esz == 0 {
			esz = add.ESz
		}
		if esz == 0 {
			esz = 1
		}
		nl := s.Len + add.Len
		if nl > s.Cap {
			nc := s.Cap * 2
			if nc < nl {
				nc = nl
			}
			if nc < 4 {
				nc = 4
			}
			var et types.Type
			if cc != nil {
				et = cc.Args[0].Type().Underlying().(*types.Slice).Elem()
			} else if s.Obj != nil {
				et = s.Obj.Typ
			}
			ns := x.makeSlice(et, nl, nc, "append")
			if s.Obj != nil {
				copy(ns.Obj.Cells, s.Obj.Cells[s.Off:s.Off+s.Len*esz])
			}
			s = ns
			s.Len = nl - add.Len
		}
		for i := 0; i < add.Len*esz; i++ {
			var v Value
			if isStr {
				v = x.ts.BV(uint64(addStr[i]), 8)
			} else {
				v = add.Obj.Cells[add.Off+i]
			}
			x.setCell(s.Obj, s.Off+s.Len*esz+i, v)
		}
		s.Len = nl
		s.NonNil = true
		return s
	case "copy":
		dst := args[0].(Slice)
		n := dst.Len
		switch src := args[1].(type) {
		case Slice:
			if src.Len < n {
				n = src.Len
			}
			esz := dst.ESz
			if esz == 0 {
				esz = src.ESz
			}
			if n > 0 {
				tmp := append([]Value(nil), src.Obj.Cells[src.Off:src.Off+n*esz]...)
				for i, v := range tmp {
					x.setCell(dst.Obj, dst.Off+i, v)
				}
			}
		case string:
			if len(src) < n {
				n = len(src)
			}
			for i := 0; i < n; i++ {
				x.setCell(dst.Obj, dst.Off+i, x.ts.BV(uint64(src[i]), 8))
			}
		default:
			panic(x.errf("copy from %T", args[1]))
		}
		return x.ts.BV(uint64(n), 64)
	case "delete":
		x.MapDelete(args[0].(*MapObj), args[1])
		return nil
	case "print", "println":
		return nil
	case "recover":
		// find the nearest panicking frame below the deferred function
		for i := len(x.stack) - 2; i >= 0; i-- {
			fr := x.stack[i]
			if fr.panicking != nil {
				p := fr.panicking
				fr.panicking = nil
				if p.Val != nil {
					return p.Val
				}
				return Iface{T: x.eng.errorStringType(), V: &OpaqueErr{Msg: p.Msg}}
			}
		}
		return Iface{}
	case "min", "max":
		r := args[0]
		for _, a := range args[1:] {
			var less Value
			tt := cc.Args[0].Type()
			if name == "min" {
				less = x.binop(token.LSS, a, r, tt, tt)
			} else {
				less = x.binop(token.GTR, a, r, tt, tt)
			}
			m, ok := x.mergeValue(less.(*Term), a, r)
			if !ok {
				if x.branch(less.(*Term), "min/max") {
					m = a
				} else {
					m = r
				}
			}
			r = m
		}
		return r
	case "real":
		return FloatV{real(args[0].(ComplexV).C)}
	case "imag":
		return FloatV{imag(args[0].(ComplexV).C)}
	case "complex":
		return ComplexV{complex(args[0].(FloatV).F, args[1].(FloatV).F)}
	case "clear":
		switch a := args[0].(type) {
		case *MapObj:
			if a != nil {
				x.journalMap(a)
				a.keys, a.vals = nil, nil
				a.rebuild(x)
			}
		case Slice:
			et := cc.Args[0].Type().Underlying().(*types.Slice).Elem()
			for i := 0; i < a.Len; i++ {
				z := make([]Value, a.ESz)
				x.ZeroInto(z, et)
				for j, v := range z {
					x.setCell(a.Obj, a.Off+i*a.ESz+j, v)
				}
			}
		}
		return nil
	case "ssa:wrapnilchk":
		if p, ok := args[0].(Ptr); ok && p.Obj == nil {
			x.goPanic("value method called using nil pointer")
		}
		return args[0]
	case "panic":
		panic(&GoPanic{Val: args[0], Msg: x.panicString(args[0]), Stack: x.stackTrace()})
	}
	panic(x.errf("builtin %s(%T...)", name, args[0]))
}
