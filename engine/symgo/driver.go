package symgo

// driver.go: explores all paths of a harness (decision replay, worker pool), discharges the obligations of
// every path with the solver portfolio, and replays counterexamples natively.

import (
	"encoding/json"
	"fmt"
	"math/big"
	"os"
	"os/exec"
	"path/filepath"
	"sort"
	"strings"
	"sync"
	"time"

	"golang.org/x/tools/go/ssa"
)

type OblResult struct {
	Harness  string            `json:"harness"`
	ID       string            `json:"id"`
	Kind     string            `json:"kind"`
	Where    string            `json:"where,omitempty"`
	Path     int               `json:"path"`
	Verdict  string            `json:"verdict"` // discharged | violated | unconfirmed | unknown | error | witness-ok | vacuous
	Solver   string            `json:"solver,omitempty"`
	Backend  string            `json:"backend,omitempty"`
	Seconds  float64           `json:"seconds"`
	Model    map[string]string `json:"model,omitempty"`
	Replay   string            `json:"replay,omitempty"`
	Note     string            `json:"note,omitempty"`
	Symbolic bool              `json:"symbolic"`
	Sample   string            `json:"-"`
}

type HarnessResult struct {
	Name            string
	Pkg             string
	Paths           int
	Aborted         int
	Results         []OblResult
	EngineErrs      []string
	Funcs           map[string]int
	Steps           int64
	FeasQueries     int
	Seconds         float64
	Stubs           map[string]string
	Cfg             map[string]string
	PathLimit       bool
	Inputs          int
	NativeValidated bool
}

type RunOptions struct {
	Workers      int
	MaxPaths     int
	BudgetsMs    []int
	ReplayDir    string
	SelfExe      string // path of this binary, for native replay subprocesses
	OverlayEnv   []string
	Verbose      bool
	StepLimit    int64
	Configs      []SolverConfig
	HarnessTimeS int
	Pool         *SolvePool
}

type pathJob struct{ prefix []int64 }

type worker struct {
	feas    *SolverProc
	feasNew *SolverProc
}

func newWorker(opts *RunOptions) *worker {
	return &worker{feas: NewSolverProc(CfgZ3), feasNew: NewSolverProc(CfgZ3New)}
}

func (w *worker) close() {
	w.feas.Close()
	w.feasNew.Close()
}

// DefaultConfigs is the solver portfolio raced on every obligation.
var DefaultConfigs = []SolverConfig{CfgZ3, CfgZ3New, CfgZ3Leg, CfgZ3NewLI}

func (e *Engine) NewExec(prefix []int64, feas *SolverProc) *Exec {
	return &Exec{eng: e, ts: NewTermStore(), lay: &Layout{}, globals: map[*ssa.Global]*Object{}, initDone: map[*ssa.Package]bool{},
		initFailed: map[*ssa.Package]string{}, prefix: prefix, loops: map[*ssa.BasicBlock]int{}, solver: feas, stubs: map[string]string{},
		cfg: map[string]string{}, funcsSeen: map[string]int{}, covers: map[string]bool{}, streams: map[string]*streamState{}}
}

type pathOutcome struct {
	x        *Exec
	panicked *GoPanic
	aborted  bool
	err      *EngineErr
}

func (e *Engine) runPath(fn *ssa.Function, prefix []int64, w *worker, opts *RunOptions, concrete map[string]*big.Int) (out pathOutcome) {
	x := e.NewExec(prefix, w.feas)
	x.solverNew = w.feasNew
	x.concrete = concrete
	x.stepLimit = opts.StepLimit
	out.x = x
	defer func() {
		if r := recover(); r != nil {
			switch v := r.(type) {
			case *GoPanic:
				out.panicked = v
			case pathAbort:
				out.aborted = true
			case *EngineErr:
				out.err = v
			case specAbort:
				out.err = &EngineErr{Msg: "internal: speculation abort escaped: " + v.reason}
			default:
				panic(r)
			}
		}
	}()
	x.call(fn, nil, nil)
	return
}

// RunHarness explores a harness completely and returns the verdict of every obligation.
func (e *Engine) RunHarness(fn *ssa.Function, opts *RunOptions) *HarnessResult {
	t0 := time.Now()
	hr := &HarnessResult{Name: fn.Name(), Pkg: fn.Pkg.Pkg.Path(), Funcs: map[string]int{}, Stubs: map[string]string{}, Cfg: map[string]string{}}
	var mu sync.Mutex
	cond := sync.NewCond(&mu)
	queue := []pathJob{{nil}}
	active := 0
	pathNo := 0
	done := false
	nw := opts.Workers
	if nw < 1 {
		nw = 1
	}
	var wg sync.WaitGroup
	for i := 0; i < nw; i++ {
		wg.Add(1)
		go func() {
			defer wg.Done()
			var w *worker
			defer func() {
				if w != nil {
					w.close()
				}
			}()
			for {
				mu.Lock()
				for len(queue) == 0 && active > 0 && !done {
					cond.Wait()
				}
				if done || (len(queue) == 0 && active == 0) {
					done = true
					cond.Broadcast()
					mu.Unlock()
					return
				}
				job := queue[len(queue)-1]
				queue = queue[:len(queue)-1]
				active++
				pathNo++
				myPath := pathNo
				if opts.MaxPaths > 0 && pathNo > opts.MaxPaths {
					hr.PathLimit = true
					active--
					done = true
					cond.Broadcast()
					mu.Unlock()
					return
				}
				if opts.HarnessTimeS > 0 && time.Since(t0) > time.Duration(opts.HarnessTimeS)*time.Second {
					hr.PathLimit = true
					active--
					done = true
					cond.Broadcast()
					mu.Unlock()
					return
				}
				mu.Unlock()
				if w == nil {
					w = newWorker(opts)
				}
				po := e.runPath(fn, job.prefix, w, opts, nil)
				results := e.dischargePath(fn, &po, myPath, w, opts)
				mu.Lock()
				for _, alt := range po.x.alts {
					queue = append(queue, pathJob{alt})
				}
				hr.Paths++
				if po.aborted {
					hr.Aborted++
				}
				if po.err != nil {
					hr.EngineErrs = append(hr.EngineErrs, fmt.Sprintf("path %d: %s @ %s", myPath, po.err.Msg, strings.Join(po.err.Stack, " < ")))
				}
				for p, why := range po.x.initFailed {
					msg := fmt.Sprintf("package init of %s not interpretable: %s", p.Pkg.Path(), why)
					found := false
					for _, s := range hr.EngineErrs {
						if s == msg {
							found = true
						}
					}
					if !found && po.x.cfg["ignore-init-failure"] == "" {
						hr.EngineErrs = append(hr.EngineErrs, msg)
					}
				}
				hr.Results = append(hr.Results, results...)
				for k, v := range po.x.funcsSeen {
					hr.Funcs[k] += v
				}
				for k, v := range po.x.stubs {
					hr.Stubs[k] = v
				}
				for k, v := range po.x.cfg {
					hr.Cfg[k] = v
				}
				hr.Steps += po.x.steps
				hr.FeasQueries += po.x.feasQueries
				if len(po.x.inputs) > hr.Inputs {
					hr.Inputs = len(po.x.inputs)
				}
				active--
				cond.Broadcast()
				mu.Unlock()
			}
		}()
	}
	wg.Wait()
	hr.Seconds = time.Since(t0).Seconds()
	sort.SliceStable(hr.Results, func(i, j int) bool {
		if hr.Results[i].Path != hr.Results[j].Path {
			return hr.Results[i].Path < hr.Results[j].Path
		}
		return false
	})
	return hr
}

func backendsFor(cfg map[string]string) []Backend {
	switch cfg["backend"] {
	case "int":
		return []Backend{BackendINT}
	case "int,bv":
		return []Backend{BackendINT, BackendBV}
	case "bv,int":
		return []Backend{BackendBV, BackendINT}
	}
	return []Backend{BackendBV}
}

func hasSymbolic(ts []*Term) bool {
	seen := map[*Term]bool{}
	var rec func(t *Term) bool
	rec = func(t *Term) bool {
		if t == nil || seen[t] {
			return false
		}
		seen[t] = true
		if t.Op == OVar || t.Op == OUF {
			return true
		}
		for _, a := range t.A {
			if rec(a) {
				return true
			}
		}
		return false
	}
	for _, t := range ts {
		if rec(t) {
			return true
		}
	}
	return false
}

func (e *Engine) dischargePath(fn *ssa.Function, po *pathOutcome, pathNo int, w *worker, opts *RunOptions) []OblResult {
	x := po.x
	var res []OblResult
	obls := x.obls
	if po.panicked != nil {
		kind := "nopanic"
		id := "no-panic"
		switch {
		case strings.HasPrefix(po.panicked.Msg, "VERIF-UNWIND"):
			kind, id = "unwind", "unwinding"
		case strings.HasPrefix(po.panicked.Msg, "VERIF-ALLOC"):
			kind, id = "alloc", "bounded-allocation"
		case strings.HasPrefix(po.panicked.Msg, "VERIF-UNSAFE"):
			kind, id = "bounds", "unsafe-window-in-bounds"
		}
		obls = append(obls, &Obligation{ID: id, Kind: kind, Path: x.pathCond(), Cond: x.ts.False,
			Where: po.panicked.Msg + " @ " + strings.Join(po.panicked.Stack, " < ")})
	}
	if po.err != nil || po.aborted {
		// obligations recorded before the abort are still discharged
	}
	budgets := opts.BudgetsMs
	if len(budgets) == 0 {
		budgets = []int{30000}
	}
	bes := backendsFor(x.cfg)
	type pending struct {
		ob  *Obligation
		r   OblResult
		ch  chan Verdict
		be  int
		sub []InputVar
		idx int
	}
	dump := func(ob *Obligation, be Backend, q *Query, n int) {
		if d := os.Getenv("VERIF_DUMP"); d != "" {
			os.MkdirAll(d, 0o755)
			os.WriteFile(filepath.Join(d, fmt.Sprintf("%s_p%d_%s_%d_%s.smt2", fn.Name(), pathNo, sanitize(ob.ID), n, be)), []byte(q.Script+"(check-sat)\n"), 0o644)
		}
	}
	samplesKept := 0
	submit := func(p *pending) bool {
		for ; p.be < len(bes); p.be++ {
			be := bes[p.be]
			cone := coneOfInfluence(p.ob.Path, p.ob.Cond, x.inputs)
			q := BuildQuery(x.ts, be, p.ob.ID, cone, p.ob.Cond, nil, 0)
			if q.Err != nil {
				p.r.Note += fmt.Sprintf("[%s lowering: %v] ", be, q.Err)
				continue
			}
			p.r.Backend = be.String()
			if samplesKept < 8 { // (a handful of query heads go into the evidence; keeping every script costs tens of GB)
				p.r.Sample = q.Script
				samplesKept++
			}
			dump(p.ob, be, q, p.idx)
			scripts := []string{q.Script}
			if be == BackendINT {
				if q1 := BuildQuery(x.ts, be, p.ob.ID, cone, p.ob.Cond, nil, 1); q1.Err == nil && q1.Script != q.Script {
					scripts = append(scripts, q1.Script)
				}
			}
			p.ch = opts.Pool.Submit(scripts, nil, budgets)
			return true
		}
		return false
	}
	// obligations are lowered and submitted in windows: the scripts of tens of thousands of queued queries would
	// otherwise all be alive at once (tens of GB for the thorough tier of the vector kernels)
	const window = 512
	nextIdx := 0
	for start := 0; start < len(obls); start += window {
		end := start + window
		if end > len(obls) {
			end = len(obls)
		}
		var pend []*pending
		for _, ob := range obls[start:end] {
			p := &pending{idx: nextIdx, ob: ob, r: OblResult{Harness: fn.Name(), ID: ob.ID, Kind: ob.Kind, Where: ob.Where, Path: pathNo}}
			nextIdx++
			all := append(append([]*Term(nil), ob.Path...), ob.Cond)
			p.r.Symbolic = hasSymbolic(all)
			if ob.Cond != nil && ob.Cond.IsTrue() && ob.Expect != "sat" {
				p.r.Verdict = "discharged"
				p.r.Note = "trivially true after simplification"
			} else if !submit(p) {
				p.r.Verdict = "unknown"
			}
			pend = append(pend, p)
		}
		for _, p := range pend {
			if p.r.Verdict != "" {
				res = append(res, p.r)
				continue
			}
			verdict := <-p.ch
			for verdict.Result == "unknown" {
				if len(verdict.Errors) > 0 {
					p.r.Note += strings.Join(verdict.Errors, "; ")
				}
				p.be++
				if !submit(p) {
					break
				}
				verdict = <-p.ch
			}
			r, ob := &p.r, p.ob
			r.Solver, r.Seconds = verdict.Solver, verdict.Seconds
			switch {
			case ob.Expect == "sat":
				if verdict.Result == "sat" {
					r.Verdict = "witness-ok"
				} else if verdict.Result == "unsat" && ob.Kind == "reach" {
					// a value the property requires to be possible is excluded for every input inside the bound
					r.Verdict = "unconfirmed"
					r.Note += " required outcome is unreachable for every input inside the bound (solver: unsat)"
					e.confirmBySearch(fn, x, ob, r, opts)
				} else if verdict.Result == "unsat" {
					r.Verdict = "vacuous"
				} else {
					r.Verdict = "unknown"
				}
			case verdict.Result == "unsat":
				r.Verdict = "discharged"
			case verdict.Result == "sat":
				// obtain a model of the complete query (all assumptions, all inputs)
				be := bes[p.be]
				q := BuildQuery(x.ts, be, ob.ID, ob.Path, ob.Cond, x.inputs, verdict.Profile)
				dump(ob, be, q, 9000+p.idx)
				full := <-opts.Pool.Submit([]string{q.Script}, q.Vars, budgets)
				r.Verdict = "unconfirmed"
				if ob.Kind == "range" {
					r.Note += " tracked-range obligation of the algebraic model (engine-only: the bound is on intermediate values, not on inputs) [" + ob.Where + "]"
					e.confirmByNativeRun(fn, x, ob, r, opts)
				} else if ob.Kind == "separation" {
					r.Note += " write-set separation obligation (engine-only: a written object is shared between the two parties; natively this is a potential data race, not a reproducible failure)"
				} else if ob.Kind == "lemma" {
					r.Model = full.Model
					r.Note += " stage lemma refuted by the solver (engine-only obligation)"
					e.confirmBySearch(fn, x, ob, r, opts)
				} else if full.Result == "sat" {
					r.Model = full.Model
					e.confirmNatively(fn, x, ob, r, opts)
					if r.Verdict == "unconfirmed" && x.hasSearch(ob.ID) {
						// the model's values enter through a stub that does not exist natively (e.g. the normal
						// deviate of the Gaussian sampler): look for an end-to-end witness with the registered search
						e.confirmBySearch(fn, x, ob, r, opts)
					}
				} else if full.Result == "unsat" {
					r.Verdict = "discharged"
					r.Note += " (sat only without unrelated assumptions; unsat with the full path condition)"
				} else {
					r.Note += " counterexample of the reduced query could not be completed to a full model"
				}
			default:
				r.Verdict = "unknown"
			}
			res = append(res, *r)
		}
	}
	return res
}

// ReplayFile is the on-disk form of a counterexample.
type ReplayFile struct {
	Property   string            `json:"property"`
	Package    string            `json:"package"`
	Harness    string            `json:"harness"`
	Obligation string            `json:"obligation"`
	Kind       string            `json:"kind"`
	Where      string            `json:"where,omitempty"`
	Inputs     map[string]string `json:"inputs"`
	Decisions  []int64           `json:"decisions,omitempty"`
	Note       string            `json:"note,omitempty"`
	Tier       string            `json:"tier,omitempty"`
}

type NativeResult struct {
	Failed       []string          `json:"failed"`
	AssumeFailed bool              `json:"assume_failed"`
	Panic        string            `json:"panic"`
	Observed     map[string]string `json:"observed"`
	Crashed      bool              `json:"crashed"`
	Output       string            `json:"output,omitempty"`
}

// confirmBySearch looks for an end-to-end witness of a refuted engine-only lemma: the harness's registered native
// search (vSearch) runs the real code on a deterministic battery of inputs.
func (x *Exec) hasSearch(id string) bool {
	for p := range x.searches {
		if strings.HasPrefix(id, p+"-") || id == p {
			return true
		}
	}
	return false
}

func (e *Engine) confirmBySearch(fn *ssa.Function, x *Exec, ob *Obligation, r *OblResult, opts *RunOptions) {
	if opts.SelfExe == "" || opts.ReplayDir == "" {
		return
	}
	if !x.hasSearch(ob.ID) {
		r.Note += "; no native witness search registered for it"
		return
	}
	rf := ReplayFile{Tier: NativeReplayTier, Package: fn.Pkg.Pkg.Path(), Harness: fn.Name(), Obligation: ob.ID, Kind: "search", Where: ob.Where,
		Inputs: map[string]string{"@search": ob.ID, "@seed": "88172645463325252"},
		Note:   "deterministic native witness search for a lemma refuted by the solver; stage-level model: " + fmt.Sprint(r.Model)}
	os.MkdirAll(opts.ReplayDir, 0o755)
	path := filepath.Join(opts.ReplayDir, fmt.Sprintf("%s_%s_search.json", fn.Name(), sanitize(ob.ID)))
	b, _ := json.MarshalIndent(rf, "", " ")
	os.WriteFile(path, b, 0o644)
	nr := RunNativeReplay(opts.SelfExe, path, 300*time.Second)
	if contains(nr.Failed, ob.ID) {
		r.Verdict = "violated"
		r.Replay = path
		r.Note += fmt.Sprintf("; native witness found by the registered search: %v", nr.Observed)
	} else {
		r.Note += "; the native witness search found no end-to-end witness" + firstLine(nr.Panic)
	}
}

// confirmByNativeRun: a refuted range obligation of the algebraic model says that the real code may wrap around
// 2^64 at that point; the harness is run natively (real samplers, realistic primes, fixed seed) and any of its
// assertions that fails there is the reproducible end-to-end witness.
func (e *Engine) confirmByNativeRun(fn *ssa.Function, x *Exec, ob *Obligation, r *OblResult, opts *RunOptions) {
	if opts.SelfExe == "" || opts.ReplayDir == "" {
		return
	}
	e.nativeMu.Lock()
	defer e.nativeMu.Unlock()
	if e.nativeRuns == nil {
		e.nativeRuns = map[string]*NativeResult{}
	}
	path := filepath.Join(opts.ReplayDir, fmt.Sprintf("%s_native-run.json", fn.Name()))
	nr, ok := e.nativeRuns[fn.Name()]
	if !ok {
		rf := ReplayFile{Tier: NativeReplayTier, Package: fn.Pkg.Pkg.Path(), Harness: fn.Name(), Obligation: ob.ID, Kind: "native-run", Where: ob.Where,
			Inputs: map[string]string{"@seed": "88172645463325252"},
			Note:   "native run of the harness after the solver refuted a tracked-range obligation: " + ob.Where}
		os.MkdirAll(opts.ReplayDir, 0o755)
		b, _ := json.MarshalIndent(rf, "", " ")
		os.WriteFile(path, b, 0o644)
		res := RunNativeReplay(opts.SelfExe, path, 300*time.Second)
		nr = &res
		e.nativeRuns[fn.Name()] = nr
	}
	if len(nr.Failed) > 0 || nr.Panic != "" || nr.Crashed {
		r.Verdict = "violated"
		r.Replay = path
		r.Note += fmt.Sprintf("; native run of the harness fails: %v %s", nr.Failed, firstLine(nr.Panic))
	} else {
		r.Note += "; the native run of the harness shows no failure"
	}
}

func (e *Engine) confirmNatively(fn *ssa.Function, x *Exec, ob *Obligation, r *OblResult, opts *RunOptions) {
	if opts.SelfExe == "" || opts.ReplayDir == "" {
		return
	}
	inputs := map[string]string{}
	for _, iv := range x.inputs {
		name := smtName(iv.Name)
		if v, ok := r.Model[name]; ok {
			inputs[iv.Name] = v
		}
	}
	rf := ReplayFile{Tier: NativeReplayTier, Package: fn.Pkg.Pkg.Path(), Harness: fn.Name(), Obligation: ob.ID, Kind: ob.Kind, Where: ob.Where, Inputs: inputs, Decisions: x.taken}
	os.MkdirAll(opts.ReplayDir, 0o755)
	h := fnv64(fmt.Sprintf("%s|%s|%v", fn.Name(), ob.ID, inputs))
	path := filepath.Join(opts.ReplayDir, fmt.Sprintf("%s_%s_%x.json", fn.Name(), sanitize(ob.ID), h&0xffffff))
	b, _ := json.MarshalIndent(rf, "", " ")
	os.WriteFile(path, b, 0o644)
	r.Replay = path
	nr := RunNativeReplay(opts.SelfExe, path, 60*time.Second)
	switch {
	case ob.Kind == "assert" && contains(nr.Failed, ob.ID):
		// (a later assumption may fail for inputs created after this obligation: irrelevant)
		r.Verdict = "violated"
	case nr.AssumeFailed:
		r.Verdict = "unconfirmed"
		r.Note += " native replay: an assumption did not hold for the solver's values"
	case ob.Kind != "assert" && (nr.Panic != "" || nr.Crashed):
		r.Verdict = "violated"
		r.Note += " native: " + firstLine(nr.Panic+nr.Output)
	case ob.Kind == "assert" && nr.Crashed:
		r.Verdict = "violated"
		r.Note += " native replay crashed (fatal, unrecoverable): " + firstLine(nr.Output)
	case ob.Kind == "assert" && nr.Panic != "":
		r.Verdict = "unconfirmed"
		r.Note += " native replay panicked instead: " + firstLine(nr.Panic+nr.Output)
	default:
		r.Verdict = "unconfirmed"
		r.Note += fmt.Sprintf(" native replay did not reproduce (failed=%v panic=%q)", nr.Failed, firstLine(nr.Panic))
	}
}

func firstLine(s string) string {
	if i := strings.IndexByte(s, '\n'); i >= 0 {
		s = s[:i]
	}
	if len(s) > 300 {
		s = s[:300]
	}
	return s
}

func contains(l []string, s string) bool {
	for _, v := range l {
		if v == s {
			return true
		}
	}
	return false
}

func sanitize(s string) string {
	var sb strings.Builder
	for _, c := range s {
		if c >= 'a' && c <= 'z' || c >= 'A' && c <= 'Z' || c >= '0' && c <= '9' || c == '-' || c == '_' {
			sb.WriteRune(c)
		} else {
			sb.WriteByte('_')
		}
	}
	return sb.String()
}

func fnv64(s string) uint64 {
	h := uint64(14695981039346656037)
	for i := 0; i < len(s); i++ {
		h ^= uint64(s[i])
		h *= 1099511628211
	}
	return h
}

// RunNativeReplay runs the harness natively (same binary, subprocess) on the values of a replay file.
// NativeReplayTier is the tier of the current run: native replays and validation runs use the same tier as the
// symbolic run (harnesses select parameter sets and cases by tier).
var NativeReplayTier = "quick"

func RunNativeReplay(exe, replayPath string, timeout time.Duration) NativeResult {
	cmd := exec.Command(exe, "-native-replay", replayPath, "-tier", NativeReplayTier)
	cmd.Env = append(os.Environ(), "VERIF_NATIVE=1")
	var nr NativeResult
	donec := make(chan struct{})
	var out []byte
	var err error
	go func() {
		out, err = cmd.CombinedOutput()
		close(donec)
	}()
	select {
	case <-donec:
	case <-time.After(timeout):
		if cmd.Process != nil {
			cmd.Process.Kill()
		}
		<-donec
		nr.Crashed = true
		nr.Output = "native replay timed out (possible unbounded loop/recursion)"
		return nr
	}
	s := string(out)
	if i := strings.LastIndex(s, "VERIF-NATIVE-RESULT "); i >= 0 {
		line := s[i+len("VERIF-NATIVE-RESULT "):]
		if j := strings.IndexByte(line, '\n'); j >= 0 {
			line = line[:j]
		}
		if json.Unmarshal([]byte(line), &nr) == nil {
			return nr
		}
	}
	nr.Crashed = true
	if err != nil {
		nr.Output = err.Error() + ": "
	}
	// keep the interesting part of a crash (fatal error line)
	for _, ln := range strings.Split(s, "\n") {
		if strings.HasPrefix(ln, "fatal error") || strings.HasPrefix(ln, "panic:") || strings.Contains(ln, "goroutine stack exceeds") {
			nr.Output += ln + "; "
		}
	}
	if len(nr.Output) > 600 {
		nr.Output = nr.Output[:600]
	}
	return nr
}
