package symgo

// value.go: run-time values and the flattened-cell memory model.
//
// Every Go object is an Object holding a flat vector of scalar cells.  Structs and arrays are laid out
// field after field / element after element, so a pointer is (object, cell offset) and the unsafe window
// casts of the ring package ((*[8]uint64)(unsafe.Pointer(&p[j]))) are simply re-typed views of the same cells,
// with a bounds obligation.

import (
	"fmt"
	"go/types"
	"math/big"
	"sort"

	"golang.org/x/tools/go/ssa"
	"golang.org/x/tools/go/types/typeutil"
)

type Value interface{}

type Object struct {
	Cells []Value
	ID    int
	Label string
	Typ   types.Type // element type the object was allocated with (informational)
	ro    bool       // imported read-only table (write = engine error)
}

type Ptr struct {
	Obj *Object
	Off int
}

func (p Ptr) IsNil() bool { return p.Obj == nil }

// Slice header. Off/Len/Cap are in elements; ESz is the number of cells per element.
type Slice struct {
	Obj           *Object
	Off, Len, Cap int // Off in cells
	ESz           int
	NonNil        bool // distinguishes empty non-nil slices from nil
}

func (s Slice) IsNil() bool { return s.Obj == nil && !s.NonNil }

// Agg is a struct or array value held in an SSA register (value semantics: copied on load/store).
type Agg struct{ Cells []Value }

type Tuple []Value

type Iface struct {
	T types.Type // dynamic type; nil => nil interface
	V Value
}

type Closure struct {
	Fn       *ssa.Function
	Bindings []Value
	Native   interface{} // reflect.Value of an imported native func (opaque)
	Bound    *Iface      // for bound-method closures on interface values (unused mostly)
}

type MapObj struct {
	KT, VT  types.Type
	keys    []Value
	vals    []Value
	idx     map[string]int
	ID      int
	deleted int
}

// OpaqueErr is an error value created by fmt.Errorf / errors.New intrinsics.
type OpaqueErr struct {
	Msg     string
	Wrapped []Value
}

// Opaque is a native value the engine does not look into.
type Opaque struct{ V interface{} }

// FloatV is a concrete float64/float32 scalar.
type FloatV struct{ F float64 }

// ComplexV is a concrete complex128 scalar.
type ComplexV struct{ C complex128 }

// ---------------------------------------------------------------- layout

type Layout struct {
	sizes typeutil.Map
}

func isOpaqueNamed(t types.Type) bool {
	n, ok := types.Unalias(t).(*types.Named)
	if !ok {
		return false
	}
	o := n.Obj()
	if o.Pkg() == nil {
		return false
	}
	switch o.Pkg().Path() {
	case "math/big":
		return true
	case "sync/atomic", "reflect", "time", "os", "math/rand", "hash", "crypto/rand", "runtime":
		_, isStruct := n.Underlying().(*types.Struct)
		return isStruct
	case "golang.org/x/crypto/blake2b":
		_, isStruct := n.Underlying().(*types.Struct)
		return isStruct
	}
	return false
}

func (l *Layout) Cells(t types.Type) int {
	if v := l.sizes.At(t); v != nil {
		return v.(int)
	}
	n := 1
	if !isOpaqueNamed(t) {
		switch u := t.Underlying().(type) {
		case *types.Struct:
			n = 0
			for i := 0; i < u.NumFields(); i++ {
				n += l.Cells(u.Field(i).Type())
			}
		case *types.Array:
			n = int(u.Len()) * l.Cells(u.Elem())
		case *types.Tuple:
			n = u.Len()
		}
	}
	l.sizes.Set(t, n)
	return n
}

func (l *Layout) FieldOff(st *types.Struct, field int) int {
	off := 0
	for i := 0; i < field; i++ {
		off += l.Cells(st.Field(i).Type())
	}
	return off
}

func basicWidth(b *types.Basic) uint8 {
	switch b.Kind() {
	case types.Int8, types.Uint8:
		return 8
	case types.Int16, types.Uint16:
		return 16
	case types.Int32, types.Uint32:
		return 32
	case types.Bool, types.UntypedBool:
		return 1
	default:
		return 64
	}
}

func isSignedT(t types.Type) bool {
	if b, ok := t.Underlying().(*types.Basic); ok {
		return b.Info()&types.IsInteger != 0 && b.Info()&types.IsUnsigned == 0
	}
	return false
}
func isIntT(t types.Type) bool {
	if b, ok := t.Underlying().(*types.Basic); ok {
		return b.Info()&types.IsInteger != 0
	}
	return false
}
func isFloatT(t types.Type) bool {
	if b, ok := t.Underlying().(*types.Basic); ok {
		return b.Info()&types.IsFloat != 0
	}
	return false
}
func isComplexT(t types.Type) bool {
	if b, ok := t.Underlying().(*types.Basic); ok {
		return b.Info()&types.IsComplex != 0
	}
	return false
}
func isBoolT(t types.Type) bool {
	if b, ok := t.Underlying().(*types.Basic); ok {
		return b.Info()&types.IsBoolean != 0
	}
	return false
}
func isStringT(t types.Type) bool {
	if b, ok := t.Underlying().(*types.Basic); ok {
		return b.Info()&types.IsString != 0
	}
	return false
}
func intWidth(t types.Type) uint8 {
	if b, ok := t.Underlying().(*types.Basic); ok {
		return basicWidth(b)
	}
	return 64
}

func namedPath(t types.Type) string {
	if n, ok := types.Unalias(t).(*types.Named); ok && n.Obj().Pkg() != nil {
		return n.Obj().Pkg().Path() + "." + n.Obj().Name()
	}
	return ""
}

// ZeroInto writes the zero value of t into cells.
func (x *Exec) ZeroInto(cells []Value, t types.Type) {
	if isOpaqueNamed(t) {
		switch namedPath(t) {
		case "math/big.Int":
			cells[0] = x.ts.IntI(0)
		case "math/big.Float":
			cells[0] = x.ts.Real(new(big.Rat))
		case "math/big.Rat":
			cells[0] = x.ts.Real(new(big.Rat))
		default:
			cells[0] = Opaque{nil}
		}
		return
	}
	switch u := t.Underlying().(type) {
	case *types.Basic:
		switch {
		case u.Info()&types.IsBoolean != 0:
			cells[0] = x.ts.False
		case u.Info()&types.IsInteger != 0:
			cells[0] = x.ts.BV(0, basicWidth(u))
		case u.Info()&types.IsFloat != 0:
			cells[0] = FloatV{0}
		case u.Info()&types.IsComplex != 0:
			cells[0] = ComplexV{0}
		case u.Info()&types.IsString != 0:
			cells[0] = ""
		case u.Kind() == types.UnsafePointer:
			cells[0] = Ptr{}
		default:
			cells[0] = nil
		}
	case *types.Pointer:
		cells[0] = Ptr{}
	case *types.Slice:
		cells[0] = Slice{ESz: x.lay.Cells(u.Elem())}
	case *types.Map:
		cells[0] = (*MapObj)(nil)
	case *types.Interface:
		cells[0] = Iface{}
	case *types.Signature:
		cells[0] = (*Closure)(nil)
	case *types.Chan:
		cells[0] = Opaque{nil}
	case *types.Struct:
		off := 0
		for i := 0; i < u.NumFields(); i++ {
			n := x.lay.Cells(u.Field(i).Type())
			x.ZeroInto(cells[off:off+n], u.Field(i).Type())
			off += n
		}
	case *types.Array:
		n := x.lay.Cells(u.Elem())
		for i := 0; i < int(u.Len()); i++ {
			x.ZeroInto(cells[i*n:(i+1)*n], u.Elem())
		}
	case *types.Tuple:
		for i := 0; i < u.Len(); i++ {
			x.ZeroInto(cells[i:i+1], u.At(i).Type())
		}
	default:
		panic(x.errf("ZeroInto: unsupported type %s", t))
	}
}

func isAggT(t types.Type) bool {
	if isOpaqueNamed(t) {
		return false
	}
	switch t.Underlying().(type) {
	case *types.Struct, *types.Array:
		return true
	}
	return false
}

// Zero returns the zero value of t as a register value.
func (x *Exec) Zero(t types.Type) Value {
	n := x.lay.Cells(t)
	if isAggT(t) {
		a := Agg{make([]Value, n)}
		x.ZeroInto(a.Cells, t)
		return a
	}
	var c [1]Value
	x.ZeroInto(c[:], t)
	return c[0]
}

func (x *Exec) NewObject(n int, t types.Type, label string) *Object {
	x.objSeq++
	return &Object{Cells: make([]Value, n), ID: x.objSeq, Typ: t, Label: label}
}

// Load reads a value of type t at p.
func (x *Exec) Load(p Ptr, t types.Type) Value {
	if p.Obj == nil {
		x.goPanic("runtime error: invalid memory address or nil pointer dereference")
	}
	n := x.lay.Cells(t)
	if p.Off < 0 || p.Off+n > len(p.Obj.Cells) {
		x.goPanic(fmt.Sprintf("unsafe access outside the backing array: offset %d size %d object %s of %d cells", p.Off, n, p.Obj.Label, len(p.Obj.Cells)))
	}
	if isAggT(t) {
		a := Agg{make([]Value, n)}
		copy(a.Cells, p.Obj.Cells[p.Off:p.Off+n])
		return a
	}
	v := p.Obj.Cells[p.Off]
	if v == nil && n == 1 {
		// uninitialised (should not happen); materialise zero
		var c [1]Value
		x.ZeroInto(c[:], t)
		return c[0]
	}
	return v
}

// Store writes v (of type t) at p, journaling old contents while speculating.
func (x *Exec) Store(p Ptr, v Value, t types.Type) {
	if p.Obj == nil {
		x.goPanic("runtime error: invalid memory address or nil pointer dereference")
	}
	n := x.lay.Cells(t)
	if p.Off < 0 || p.Off+n > len(p.Obj.Cells) {
		x.goPanic(fmt.Sprintf("unsafe store outside the backing array: offset %d size %d object %s of %d cells", p.Off, n, p.Obj.Label, len(p.Obj.Cells)))
	}
	if a, ok := v.(Agg); ok {
		if len(a.Cells) != n {
			panic(x.errf("store: aggregate size mismatch %d vs %d for %s", len(a.Cells), n, t))
		}
		for i, c := range a.Cells {
			x.setCell(p.Obj, p.Off+i, c)
		}
		return
	}
	if n != 1 {
		if n == 0 {
			return
		}
		panic(x.errf("store: scalar into %d-cell type %s (%T)", n, t, v))
	}
	x.setCell(p.Obj, p.Off, v)
}

type journalEntry struct {
	obj *Object
	idx int
	old Value
	m   *MapObj // map journal: restore full snapshot
	mk  []Value
	mv  []Value
}

func (x *Exec) setCell(o *Object, i int, v Value) {
	if x.journaling > 0 {
		x.journal = append(x.journal, journalEntry{obj: o, idx: i, old: o.Cells[i]})
	}
	if x.writeLog != nil {
		x.writeLog[o] = true
	}
	o.Cells[i] = v
}

// ---------------------------------------------------------------- maps

func (x *Exec) mapKeyString(k Value) string {
	switch v := k.(type) {
	case *Term:
		if !v.IsConst() {
			panic(x.errf("symbolic map key %v", v))
		}
		return "t" + v.ConstBig().String()
	case string:
		return "s" + v
	case Ptr:
		if v.Obj == nil {
			return "pnil"
		}
		return fmt.Sprintf("p%d:%d", v.Obj.ID, v.Off)
	case Agg:
		s := "a("
		for _, c := range v.Cells {
			s += x.mapKeyString(c) + ","
		}
		return s + ")"
	case Iface:
		if v.T == nil {
			return "inil"
		}
		return "i" + v.T.String() + ":" + x.mapKeyString(v.V)
	case FloatV:
		return fmt.Sprintf("f%v", v.F)
	}
	panic(x.errf("unsupported map key %T", k))
}

func (x *Exec) NewMap(kt, vt types.Type) *MapObj {
	x.objSeq++
	return &MapObj{KT: kt, VT: vt, idx: map[string]int{}, ID: x.objSeq}
}

func (x *Exec) journalMap(m *MapObj) {
	if x.journaling > 0 {
		x.journal = append(x.journal, journalEntry{m: m, mk: append([]Value(nil), m.keys...), mv: append([]Value(nil), m.vals...)})
	}
	if x.writeLogMaps != nil {
		x.writeLogMaps[m] = true
	}
}

func (m *MapObj) Len() int { return len(m.idx) }

func (m *MapObj) rebuild(x *Exec) {
	m.idx = map[string]int{}
	for i, k := range m.keys {
		m.idx[x.mapKeyString(k)] = i
	}
}

func (x *Exec) MapGet(m *MapObj, k Value) (Value, bool) {
	if m == nil {
		return nil, false
	}
	if i, ok := m.idx[x.mapKeyString(k)]; ok {
		return m.vals[i], true
	}
	return nil, false
}

func (x *Exec) MapSet(m *MapObj, k, v Value) {
	if m == nil {
		x.goPanic("assignment to entry in nil map")
	}
	x.journalMap(m)
	ks := x.mapKeyString(k)
	if i, ok := m.idx[ks]; ok {
		m.vals[i] = v
		return
	}
	m.idx[ks] = len(m.keys)
	m.keys = append(m.keys, k)
	m.vals = append(m.vals, v)
}

func (x *Exec) MapDelete(m *MapObj, k Value) {
	if m == nil {
		return
	}
	ks := x.mapKeyString(k)
	i, ok := m.idx[ks]
	if !ok {
		return
	}
	x.journalMap(m)
	m.keys = append(m.keys[:i:i], m.keys[i+1:]...)
	m.vals = append(m.vals[:i:i], m.vals[i+1:]...)
	m.rebuild(x)
}

// SortedKeys returns indices of the map entries in a deterministic order (sorted by key string).
func (x *Exec) mapOrder(m *MapObj) []int {
	idx := make([]int, len(m.keys))
	ks := make([]string, len(m.keys))
	for i := range idx {
		idx[i] = i
		ks[i] = x.mapKeyString(m.keys[i])
	}
	sort.Slice(idx, func(a, b int) bool {
		ka, kb := m.keys[idx[a]], m.keys[idx[b]]
		ta, oka := ka.(*Term)
		tb, okb := kb.(*Term)
		if oka && okb {
			return ta.ConstBig().Cmp(tb.ConstBig()) < 0
		}
		return ks[idx[a]] < ks[idx[b]]
	})
	return idx
}

// ---------------------------------------------------------------- helpers

func (x *Exec) constInt(v Value, what string) int {
	t, ok := v.(*Term)
	if !ok {
		panic(x.errf("%s: expected integer, got %T", what, v))
	}
	if !t.IsConst() {
		return x.concretize(t, what)
	}
	if t.Sort == SInt {
		return int(t.Big.Int64())
	}
	return int(t.SignedBig().Int64())
}

func describe(v Value) string {
	switch t := v.(type) {
	case *Term:
		return t.String()
	case Ptr:
		if t.Obj == nil {
			return "nil"
		}
		return fmt.Sprintf("&%s[%d]", t.Obj.Label, t.Off)
	default:
		return fmt.Sprintf("%T", v)
	}
}
