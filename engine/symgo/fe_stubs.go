package symgo

// fe_stubs.go: contract stubs of the algebraic slot model for the non-algebraic lattigo functions
// (NTT as its definition matrix, samplers, basis extension, rescaling, gadget decomposition ...).
// A stub returns ok=false when its arguments hold no field elements; the real code is then interpreted.
// Every stub is a contract that a word-level (W) harness discharges on the real function (see DESIGN §5).

import (
	"fmt"
	"go/types"
	"math/big"
	"math/bits"
	"strings"

	"golang.org/x/tools/go/ssa"
)

type feStub func(x *Exec, fn *ssa.Function, args []Value) (Value, bool)

var feStubs = map[string]feStub{}

const lat = "github.com/tuneinsight/lattigo/v6"

// ---------------------------------------------------------------- struct navigation helpers

// fieldOf returns the value and type of field `name` (searching embedded structs / pointers) of a struct value
// or pointer-to-struct.
func (x *Exec) fieldOf(v Value, t types.Type, name string) (Value, types.Type) {
	// dereference pointers
	for {
		if pt, ok := t.Underlying().(*types.Pointer); ok {
			p, ok := v.(Ptr)
			if !ok {
				panic(x.errf("fieldOf(%s): pointer expected, got %T", name, v))
			}
			if p.Obj == nil {
				x.goPanic("runtime error: invalid memory address or nil pointer dereference (" + name + ")")
			}
			t = pt.Elem()
			v = x.Load(p, t)
			continue
		}
		break
	}
	st, ok := t.Underlying().(*types.Struct)
	if !ok {
		panic(x.errf("fieldOf(%s): not a struct: %s", name, t))
	}
	a, ok := v.(Agg)
	if !ok {
		panic(x.errf("fieldOf(%s): struct value expected, got %T", name, v))
	}
	get := func(i int) (Value, types.Type) {
		ft := st.Field(i).Type()
		off := x.lay.FieldOff(st, i)
		n := x.lay.Cells(ft)
		if isAggT(ft) {
			return Agg{a.Cells[off : off+n]}, ft
		}
		return a.Cells[off], ft
	}
	for i := 0; i < st.NumFields(); i++ {
		if st.Field(i).Name() == name {
			return get(i)
		}
	}
	for i := 0; i < st.NumFields(); i++ {
		if st.Field(i).Embedded() {
			fv, ft := get(i)
			if r, rt, ok := x.tryFieldOf(fv, ft, name); ok {
				return r, rt
			}
		}
	}
	panic(x.errf("field %s not found in %s", name, t))
}

func (x *Exec) tryFieldOf(v Value, t types.Type, name string) (rv Value, rt types.Type, ok bool) {
	defer func() {
		if r := recover(); r != nil {
			if _, isErr := r.(*EngineErr); isErr {
				ok = false
				return
			}
			panic(r)
		}
	}()
	if p, isP := v.(Ptr); isP && p.Obj == nil {
		return nil, nil, false
	}
	rv, rt = x.fieldOf(v, t, name)
	return rv, rt, true
}

func (x *Exec) u64(v Value) uint64 {
	t := x.term(v)
	if !t.IsConst() {
		panic(x.errf("concrete integer expected"))
	}
	return t.C
}

// ringInfo extracts (moduli of levels 0..level, N) from a ring.Ring value or *ring.Ring.
type ringInfo struct {
	moduli []uint64
	subs   []Value // *SubRing pointers
	level  int
	n      int
	subT   types.Type
}

func (x *Exec) ringInfoOf(v Value, t types.Type) *ringInfo {
	sr, srt := x.fieldOf(v, t, "SubRings")
	lv, _ := x.fieldOf(v, t, "level")
	s := sr.(Slice)
	ri := &ringInfo{level: x.constInt(lv, "ring level")}
	ri.subT = srt.Underlying().(*types.Slice).Elem()
	for i := 0; i <= ri.level && i < s.Len; i++ {
		sp := s.Obj.Cells[s.Off+i]
		ri.subs = append(ri.subs, sp)
		m, _ := x.fieldOf(sp, ri.subT, "Modulus")
		ri.moduli = append(ri.moduli, x.u64(m))
		if i == 0 {
			n, _ := x.fieldOf(sp, ri.subT, "N")
			ri.n = x.constInt(n, "N")
		}
	}
	return ri
}

// polyLimbs returns the limb slices of a ring.Poly value (struct{Coeffs Matrix[uint64]}).
func (x *Exec) polyLimbs(v Value) []Slice {
	a, ok := v.(Agg)
	if !ok || len(a.Cells) != 1 {
		panic(x.errf("ring.Poly value expected, got %T", v))
	}
	m, ok := a.Cells[0].(Slice)
	if !ok {
		panic(x.errf("ring.Poly.Coeffs: slice expected"))
	}
	out := make([]Slice, m.Len)
	for i := range out {
		out[i] = m.Obj.Cells[m.Off+i].(Slice)
	}
	return out
}

func sliceHasFE(s Slice) bool {
	for i := 0; i < s.Len; i++ {
		switch s.Obj.Cells[s.Off+i].(type) {
		case *FE, *UFE:
			return true
		}
	}
	return false
}

func (x *Exec) fresh(prefix string) string {
	s := x.feS()
	s.streams[prefix]++
	return fmt.Sprintf("%s%d", prefix, s.streams[prefix])
}

// contentName names a derived (deterministic) quantity after the content of the polynomials it is computed from, so
// that computing it twice from equal inputs yields the same atoms.
func (x *Exec) contentName(prefix string, extra string, limbs []Slice, moduli []uint64) string {
	var sb strings.Builder
	sb.WriteString(extra)
	for k, l := range limbs {
		if k >= len(moduli) {
			break
		}
		for n := 0; n < l.Len; n++ {
			fmt.Fprintf(&sb, "%x;", x.feArg(l.Obj.Cells[l.Off+n], moduli[k]).P.hash())
		}
		sb.WriteByte('|')
	}
	st := x.feS()
	key := prefix + ":" + sb.String()
	id, ok := st.decompIDs[key]
	if !ok {
		id = len(st.decompIDs) + 1
		st.decompIDs[key] = id
	}
	return fmt.Sprintf("%s%d", prefix, id)
}

// classOfSlice: dominant atom class of the field elements in a slice (defaults to rounding).
func (x *Exec) classOfSlice(s Slice) int {
	st := x.feS()
	for i := 0; i < s.Len; i++ {
		if f, ok := s.Obj.Cells[s.Off+i].(*FE); ok {
			for k := range f.P.terms {
				for _, id := range monoIDs(monoStr(k)) {
					return st.atoms[id].class
				}
			}
		}
	}
	return ClsRounding
}

// ---------------------------------------------------------------- NTT as its definition matrix

func (x *Exec) nttMatrix(n int, q, prim, nthRoot uint64, inverse bool) [][]uint64 {
	s := x.feS()
	key := fmt.Sprintf("%d/%d/%v", n, q, inverse)
	if m, ok := s.nttMat[key]; ok {
		return m
	}
	if nthRoot != uint64(2*n) {
		panic(x.errf("algebraic NTT stub supports the standard ring only (NthRoot=%d, N=%d)", nthRoot, n))
	}
	psi := powmod(prim, (q-1)/nthRoot, q)
	logN := bits.Len64(uint64(n)) - 1
	brv := func(v int) int { return int(bits.Reverse64(uint64(v)) >> (64 - logN)) }
	m := make([][]uint64, n)
	if !inverse {
		for j := 0; j < n; j++ {
			m[j] = make([]uint64, n)
			for i := 0; i < n; i++ {
				m[j][i] = powmod(psi, uint64((2*brv(j)+1)*i), q)
			}
		}
	} else {
		psiInv := invmod(psi, q)
		nInv := invmod(uint64(n)%q, q)
		for i := 0; i < n; i++ {
			m[i] = make([]uint64, n)
			for j := 0; j < n; j++ {
				m[i][j] = mulmod(powmod(psiInv, uint64((2*brv(j)+1)*i), q), nInv, q)
			}
		}
	}
	s.nttMat[key] = m
	return m
}

// inttTolerates: the lazy inverse butterflies map a bound B on their inputs to 2B-2q (X = U+V, minus 2q when >= 2q),
// so an excess B-2q > 0 doubles at every one of the log2(N) stages.  The model rings are tiny (N = 16); the bound is
// evaluated for the largest ring degree the library accepts (rlwe.MaxLogN = 20), the range a caller must respect
// for its code to be correct on every supported ring.
func inttTolerates(hi *big.Int, q uint64) bool {
	twoQ := new(big.Int).SetUint64(2 * q)
	if hi.Cmp(twoQ) < 0 {
		return true
	}
	ex := new(big.Int).Sub(hi, twoQ)
	ex.Add(ex, big.NewInt(1))
	ex.Lsh(ex, 20)
	return ex.Add(ex, twoQ).Cmp(two64big) < 0
}

func nttStub(inverse bool, lazy uint64) feStub {
	return func(x *Exec, fn *ssa.Function, args []Value) (Value, bool) {
		p1, p2 := args[1].(Slice), args[2].(Slice)
		if !sliceHasFE(p1) {
			return nil, false
		}
		st := fn.Signature.Recv().Type()
		nV, _ := x.fieldOf(args[0], st, "N")
		qV, _ := x.fieldOf(args[0], st, "Modulus")
		prV, _ := x.fieldOf(args[0], st, "PrimitiveRoot")
		nrV, _ := x.fieldOf(args[0], st, "NthRoot")
		n, q := x.constInt(nV, "N"), x.u64(qV)
		m := x.nttMatrix(n, q, x.u64(prV), x.u64(nrV), inverse)
		in := make([]*FE, n)
		for i := 0; i < n; i++ {
			in[i] = x.feArg(p1.Obj.Cells[p1.Off+i], q)
		}
		// input ranges the lazy butterflies tolerate (C01 stage lemmas): the inverse transform keeps its [0, 2q)
		// invariant from inputs below 2q; the excess of a larger input doubles at every stage (inttTolerates); the forward transform lets
		// an input grow by at most 4q before its first conditional reduction
		flagged := false
		for i := 0; i < n && !flagged; i++ {
			if inverse && !inttTolerates(in[i].Hi, q) {
				flagged = true
				x.addObligation(&Obligation{ID: "intt-input-below-2q", Kind: "range", Cond: x.ts.False,
					Where: fmt.Sprintf("%s on a value with tracked upper bound %s (q=%d): above 2q the excess doubles at every stage of the lazy inverse butterflies and reaches 2^64 for ring degrees the library supports; called from %s", fn.Name(), in[i].Hi, q, x.callers(3))})
			}
			if !inverse && new(big.Int).Add(in[i].Hi, new(big.Int).Mul(big.NewInt(4), new(big.Int).SetUint64(q))).Cmp(two64big) >= 0 {
				flagged = true
				x.addObligation(&Obligation{ID: "ntt-input-range", Kind: "range", Cond: x.ts.False,
					Where: fmt.Sprintf("%s on a value with tracked upper bound %s (q=%d): input + 4q reaches 2^64; called from %s", fn.Name(), in[i].Hi, q, x.callers(3))})
			}
		}
		for j := 0; j < n; j++ {
			acc := newFEPoly(q)
			for i := 0; i < n; i++ {
				if m[j][i] != 0 && !in[i].P.isZero() {
					acc.addScaled(in[i].P, m[j][i])
				}
			}
			x.setCell(p2.Obj, p2.Off+j, x.feReduced(acc, q, lazy))
		}
		return nil, true
	}
}

// ---------------------------------------------------------------- samplers

func samplerStub(kind string, add bool) feStub {
	return func(x *Exec, fn *ssa.Function, args []Value) (Value, bool) {
		if x.cfg["algebraic-samplers"] == "" {
			return nil, false
		}
		rt := fn.Signature.Recv().Type()
		ringV, ringT := x.fieldOf(args[0], rt, "baseRing")
		ri := x.ringInfoOf(ringV, ringT)
		limbs := x.polyLimbs(args[1])
		class, prefix := ClsError, "e"
		switch kind {
		case "ternary":
			class, prefix = ClsSecret, "s"
		case "uniform":
			class, prefix = ClsUniform, "u"
		}
		name := x.fresh(prefix)
		if kind == "uniform" {
			// uniform masks are identified by their PRNG object and read position (two samplers sharing a PRNG
			// continue the same stream)
			if pv, pt, ok := x.tryFieldOf(args[0], rt, "prng"); ok {
				_ = pt
				if iv, ok := pv.(Iface); ok {
					if p, ok := iv.V.(Ptr); ok && p.Obj != nil {
						// position is per PRNG object; the stream identity is the key when two objects were declared
						// to be keyed alike (vPRNGKey), so that equal call sequences read equal polynomials
						pos := fmt.Sprintf("prng%d", p.Obj.ID)
						id := pos
						if key, ok := x.prngKeys[p.Obj]; ok {
							id = "crs:" + key
						}
						st := x.feS()
						st.streams[pos]++
						name = fmt.Sprintf("u[%s#%d]", id, st.streams[pos])
					}
				}
			}
		}
		for k := 0; k <= ri.level; k++ {
			if k >= len(limbs) {
				x.goPanic(fmt.Sprintf("runtime error: index out of range [%d] with length %d (sampler level above polynomial level)", k, len(limbs)))
			}
			q := ri.moduli[k]
			mont := false
			switch kind {
			case "gaussian":
				mv, _ := x.fieldOf(args[0], rt, "montgomery")
				mont = x.term(mv).C == 1
			case "ternary":
				mv, _ := x.fieldOf(args[0], rt, "matrixValues")
				ms := mv.(Slice)
				one := x.u64(ms.Obj.Cells[ms.Off+k*ms.ESz+1])
				mont = one != 1
			}
			r, _ := x.feS().radix(q)
			l := limbs[k]
			for i := 0; i < l.Len; i++ {
				an := fmt.Sprintf("%s.%d[%d]", name, k, i)
				if kind != "uniform" {
					// a small integer is the same integer in every limb: one name, interned per modulus
					an = fmt.Sprintf("%s[%d]", name, i)
				}
				f := x.newAtom(an, class, q)
				if mont {
					f = x.feReduced(f.P.scale(r), q, 1)
				}
				if add {
					old := x.feArg(l.Obj.Cells[l.Off+i], q)
					if old.Hi.Cmp(new(big.Int).SetUint64(q)) > 0 {
						x.addObligation(&Obligation{ID: "cred-input-below-2q", Kind: "range", Cond: x.ts.False, Where: "sampler ReadAndAdd on an unreduced value"})
					}
					f = x.feReduced(old.P.add(f.P), q, 1)
				}
				x.setCell(l.Obj, l.Off+i, f)
			}
		}
		return nil, true
	}
}

// ---------------------------------------------------------------- basis extension / rescaling

func (x *Exec) prodInv(ps []uint64, q uint64) uint64 {
	prod := uint64(1)
	for _, p := range ps {
		prod = mulmod(prod, p%q, q)
	}
	return invmod(prod, q)
}

func init() {
	R := lat + "/ring"
	feStubs["(*"+R+".SubRing).NTT"] = nttStub(false, 1)
	feStubs["(*"+R+".SubRing).NTTLazy"] = nttStub(false, 6)
	feStubs["(*"+R+".SubRing).INTT"] = nttStub(true, 1)
	feStubs["(*"+R+".SubRing).INTTLazy"] = nttStub(true, 2)
	for _, k := range []struct{ typ, kind string }{{"GaussianSampler", "gaussian"}, {"TernarySampler", "ternary"}, {"UniformSampler", "uniform"}} {
		feStubs["(*"+R+"."+k.typ+").Read"] = samplerStub(k.kind, false)
		feStubs["(*"+R+"."+k.typ+").ReadAndAdd"] = samplerStub(k.kind, true)
	}

	// Keyed PRNG in the algebraic model: Read yields fresh arbitrary bytes; a generator created from a key is named by
	// the content of the key, so that two generators built from the same (symbolic) seed yield the same sampled atoms
	// (compressed evaluation keys and their expansion).
	feStubs["(*"+lat+"/utils/sampling.KeyedPRNG).Read"] = func(x *Exec, fn *ssa.Function, args []Value) (Value, bool) {
		sl, ok := args[1].(Slice)
		if !ok {
			return nil, false
		}
		p, _ := args[0].(Ptr)
		for i := 0; i < sl.Len; i++ {
			x.prngByteN++
			id := 0
			if p.Obj != nil {
				id = p.Obj.ID
			}
			x.setCell(sl.Obj, sl.Off+i, x.ts.Var(fmt.Sprintf("prngbyte.%d.%d", id, x.prngByteN), SBV, 8))
		}
		return Tuple{x.ts.BV(uint64(sl.Len), 64), Iface{}}, true
	}
	feStubs[lat+"/utils/sampling.NewKeyedPRNG"] = func(x *Exec, fn *ssa.Function, args []Value) (Value, bool) {
		sl, ok := args[0].(Slice)
		if !ok {
			return nil, false
		}
		pt, ok := fn.Signature.Results().At(0).Type().(*types.Pointer)
		if !ok {
			return nil, false
		}
		o := x.NewObject(x.lay.Cells(pt.Elem()), pt.Elem(), "keyedprng")
		x.ZeroInto(o.Cells, pt.Elem())
		name := "seed"
		for i := 0; i < sl.Len; i++ {
			name += fmt.Sprintf(".%d", x.term(sl.Obj.Cells[sl.Off+i]).ID)
		}
		if x.prngKeys == nil {
			x.prngKeys = map[*Object]string{}
		}
		x.prngKeys[o] = name
		return Tuple{Ptr{o, 0}, Iface{}}, true
	}

	// ringqp.Ring.ExtendBasisSmallNormAndCenter(polyInQ, levelP, polyOutQ, polyOutP): the P limbs hold "the same small
	// polynomial": fresh atoms of the same class (nothing is assumed across limbs)
	feStubs["("+R+"/ringqp.Ring).ExtendBasisSmallNormAndCenter"] = func(x *Exec, fn *ssa.Function, args []Value) (Value, bool) {
		inQ := x.polyLimbs(args[1])
		if len(inQ) == 0 || !sliceHasFE(inQ[0]) {
			return nil, false
		}
		levelP := x.constInt(args[2], "levelP")
		outQ, outP := x.polyLimbs(args[3]), x.polyLimbs(args[4])
		rt := fn.Signature.Recv().Type()
		rp, rpt := x.fieldOf(args[0], rt, "RingP")
		ri := x.ringInfoOf(rp, rpt)
		for k := range inQ {
			if k < len(outQ) && !(outQ[k].Obj == inQ[k].Obj && outQ[k].Off == inQ[k].Off) {
				for i := 0; i < inQ[k].Len && i < outQ[k].Len; i++ {
					x.setCell(outQ[k].Obj, outQ[k].Off+i, inQ[k].Obj.Cells[inQ[k].Off+i])
				}
			}
		}
		for j := 0; j <= levelP; j++ {
			q := ri.moduli[j]
			for i := 0; i < outP[j].Len; i++ {
				x.setCell(outP[j].Obj, outP[j].Off+i, x.sameSmall(inQ[0].Obj.Cells[inQ[0].Off+i], q, "ExtendBasisSmallNormAndCenter"))
			}
		}
		return nil, true
	}

	// rlwe.ExtendBasisSmallNormAndCenterNTTMontgomery(rQ, rP, polQ, buff, polP): polQ (limb 0, NTT+Montgomery) holds a
	// small polynomial; polP receives the same small polynomial modulo every modulus of rP (NTT+Montgomery).
	feStubs[lat+"/core/rlwe.ExtendBasisSmallNormAndCenterNTTMontgomery"] = func(x *Exec, fn *ssa.Function, args []Value) (Value, bool) {
		polQ := x.polyLimbs(args[2])
		if len(polQ) == 0 || !sliceHasFE(polQ[0]) {
			return nil, false
		}
		polP := x.polyLimbs(args[4])
		pt := fn.Signature.Params().At(0).Type()
		riQ := x.ringInfoAll(args[0], pt, 0)
		riP := x.ringInfoOf(args[1], pt)
		q0 := riQ.moduli[0]
		n := polQ[0].Len
		prV, _ := x.fieldOf(riQ.subs[0], riQ.subT, "PrimitiveRoot")
		nrV, _ := x.fieldOf(riQ.subs[0], riQ.subT, "NthRoot")
		inv := x.nttMatrix(n, q0, x.u64(prV), x.u64(nrV), true)
		_, rinv0 := x.feS().radix(q0)
		coeff := make([]*FE, n)
		for i := 0; i < n; i++ {
			acc := newFEPoly(q0)
			for j := 0; j < n; j++ {
				acc.addScaled(x.feArg(polQ[0].Obj.Cells[polQ[0].Off+j], q0).P, inv[i][j])
			}
			coeff[i] = x.feReduced(acc.scale(rinv0), q0, 1)
		}
		for k := 0; k <= riP.level; k++ {
			q := riP.moduli[k]
			prK, _ := x.fieldOf(riP.subs[k], riP.subT, "PrimitiveRoot")
			nrK, _ := x.fieldOf(riP.subs[k], riP.subT, "NthRoot")
			fwd := x.nttMatrix(n, q, x.u64(prK), x.u64(nrK), false)
			r, _ := x.feS().radix(q)
			small := make([]*FE, n)
			for i := 0; i < n; i++ {
				small[i] = x.sameSmall(coeff[i], q, "ExtendBasisSmallNormAndCenterNTTMontgomery")
			}
			for j := 0; j < n; j++ {
				acc := newFEPoly(q)
				for i := 0; i < n; i++ {
					acc.addScaled(small[i].P, fwd[j][i])
				}
				x.setCell(polP[k].Obj, polP[k].Off+j, x.feReduced(acc.scale(r), q, 1))
			}
		}
		return nil, true
	}

	// BasisExtender.ModDownQPtoQ / ModDownQPtoQNTT (levelQ, levelP, p1Q, p1P, p2Q):  P·out = in - λ  per Q limb
	modDown := func(x *Exec, fn *ssa.Function, args []Value) (Value, bool) {
		p1Q := x.polyLimbs(args[3])
		if len(p1Q) == 0 || !sliceHasFE(p1Q[0]) {
			return nil, false
		}
		levelQ, levelP := x.constInt(args[1], "levelQ"), x.constInt(args[2], "levelP")
		p2Q := x.polyLimbs(args[5])
		rt := fn.Signature.Recv().Type()
		rq, rqt := x.fieldOf(args[0], rt, "ringQ")
		rp, rpt := x.fieldOf(args[0], rt, "ringP")
		rq2, _ := x.fieldOf(rq, rqt, "SubRings")
		qs := rq2.(Slice)
		subT := rqt.Underlying().(*types.Pointer).Elem()
		_ = subT
		riQ := x.ringInfoAll(rq, rqt, qs.Len-1)
		riP := x.ringInfoAll(rp, rpt, levelP)
		p1P := x.polyLimbs(args[4])
		// input ranges the real ModDown tolerates: the P part goes through INTTLazy / AddScalarBigint+ModUpExact
		// (below 2p), the Q part is the subtrahend of SubThenMulScalarMontgomeryTwoModulus (at most 2q)
		for k, flagged := 0, false; k <= levelP && !flagged; k++ {
			for i := 0; i < p1P[k].Len && !flagged; i++ {
				if in := x.feArg(p1P[k].Obj.Cells[p1P[k].Off+i], riP.moduli[k]); in.Hi.Cmp(new(big.Int).SetUint64(2*riP.moduli[k])) >= 0 {
					flagged = true
					x.addObligation(&Obligation{ID: "moddown-input-P-below-2p", Kind: "range", Cond: x.ts.False,
						Where: fmt.Sprintf("%s: P limb %d has tracked upper bound %s >= 2p (p=%d); called from %s", fn.Name(), k, in.Hi, riP.moduli[k], x.callers(3))})
				}
			}
		}
		for k, flagged := 0, false; k <= levelQ && !flagged; k++ {
			for i := 0; i < p1Q[k].Len && !flagged; i++ {
				if in := x.feArg(p1Q[k].Obj.Cells[p1Q[k].Off+i], riQ.moduli[k]); in.Hi.Cmp(new(big.Int).SetUint64(2*riQ.moduli[k])) > 0 {
					flagged = true
					x.addObligation(&Obligation{ID: "moddown-input-Q-at-most-2q", Kind: "range", Cond: x.ts.False,
						Where: fmt.Sprintf("%s: Q limb %d has tracked upper bound %s > 2q (q=%d); called from %s", fn.Name(), k, in.Hi, riQ.moduli[k], x.callers(3))})
				}
			}
		}
		name := x.contentName("rnd", fmt.Sprintf("%d/%d", levelQ, levelP), append(append([]Slice(nil), p1Q[:levelQ+1]...), p1P[:levelP+1]...), append(append([]uint64(nil), riQ.moduli[:levelQ+1]...), riP.moduli[:levelP+1]...))
		for k := 0; k <= levelQ; k++ {
			q := riQ.moduli[k]
			pinv := x.prodInv(riP.moduli[:levelP+1], q)
			for i := 0; i < p1Q[k].Len; i++ {
				in := x.feArg(p1Q[k].Obj.Cells[p1Q[k].Off+i], q)
				lam := x.newAtom(fmt.Sprintf("%s.%d[%d]", name, k, i), ClsRounding, q)
				x.setCell(p2Q[k].Obj, p2Q[k].Off+i, x.feReduced(in.P.add(lam.P.neg()).scale(pinv), q, 1))
			}
		}
		return nil, true
	}
	feStubs["(*"+R+".BasisExtender).ModDownQPtoQ"] = modDown
	feStubs["(*"+R+".BasisExtender).ModDownQPtoQNTT"] = modDown

	// Ring.DivRound/DivFloorByLastModulus(NTT): q_L·out = in - δ on every remaining limb
	divLast := func(many bool, withBuff bool) feStub {
		return func(x *Exec, fn *ssa.Function, args []Value) (Value, bool) {
			ai := 1
			nb := 1
			if many {
				nb = x.constInt(args[1], "nbRescales")
				ai = 2
			}
			p0 := x.polyLimbs(args[ai])
			if len(p0) == 0 || !sliceHasFE(p0[0]) {
				return nil, false
			}
			var p1 []Slice
			if withBuff {
				p1 = x.polyLimbs(args[ai+2])
			} else {
				p1 = x.polyLimbs(args[ai+1])
			}
			rt := fn.Signature.Recv().Type()
			ri := x.ringInfoOf(args[0], rt)
			level := ri.level
			if nb == 0 {
				for k := 0; k <= level; k++ {
					if !(p0[k].Obj == p1[k].Obj && p0[k].Off == p1[k].Off) {
						for i := 0; i < p0[k].Len; i++ {
							x.setCell(p1[k].Obj, p1[k].Off+i, p0[k].Obj.Cells[p0[k].Off+i])
						}
					}
				}
				return nil, true
			}
			if nb > level {
				x.goPanic("runtime error: index out of range (rescaling below level 0)")
			}
			name := x.contentName("rsc", fmt.Sprintf("%d/%d", level, nb), p0[:level+1], ri.moduli[:level+1])
			for k := 0; k <= level-nb; k++ {
				q := ri.moduli[k]
				dinv := x.prodInv(ri.moduli[level-nb+1:level+1], q)
				for i := 0; i < p0[k].Len; i++ {
					in := x.feArg(p0[k].Obj.Cells[p0[k].Off+i], q)
					d := x.newAtom(fmt.Sprintf("%s.%d[%d]", name, k, i), ClsRounding, q)
					x.setCell(p1[k].Obj, p1[k].Off+i, x.feReduced(in.P.add(d.P.neg()).scale(dinv), q, 1))
				}
			}
			return nil, true
		}
	}
	feStubs["("+R+".Ring).DivRoundByLastModulusNTT"] = divLast(false, true)
	feStubs["("+R+".Ring).DivFloorByLastModulusNTT"] = divLast(false, true)
	feStubs["("+R+".Ring).DivRoundByLastModulus"] = divLast(false, false)
	feStubs["("+R+".Ring).DivFloorByLastModulus"] = divLast(false, false)
	feStubs["("+R+".Ring).DivRoundByLastModulusManyNTT"] = divLast(true, true)
	feStubs["("+R+".Ring).DivFloorByLastModulusManyNTT"] = divLast(true, true)
	feStubs["("+R+".Ring).DivRoundByLastModulusMany"] = divLast(true, true)
	feStubs["("+R+".Ring).DivFloorByLastModulusMany"] = divLast(true, true)
	// Decomposer.DecomposeAndSplit(levelQ, levelP, nbPi, i, p0Q, p1Q, p1P): digit i of the RNS decomposition
	// (coefficient domain): on the limbs of its own group the digit is the input itself (d_i ≡ c mod q_k), on every
	// other Q limb and on the P limbs it is a fresh digit-class atom (the centred reconstruction; contract from C02).
	feStubs["(*"+R+".Decomposer).DecomposeAndSplit"] = func(x *Exec, fn *ssa.Function, args []Value) (Value, bool) {
		p0Q := x.polyLimbs(args[5])
		if len(p0Q) == 0 || !sliceHasFE(p0Q[0]) {
			return nil, false
		}
		levelQ, levelP, nbPi, i := x.constInt(args[1], "levelQ"), x.constInt(args[2], "levelP"), x.constInt(args[3], "nbPi"), x.constInt(args[4], "i")
		p1Q, p1P := x.polyLimbs(args[6]), x.polyLimbs(args[7])
		rt := fn.Signature.Recv().Type()
		rq, rqt := x.fieldOf(args[0], rt, "ringQ")
		riQ := x.ringInfoAll(rq, rqt, levelQ)
		// the digit is a deterministic function of the limbs of its group: name it after their content, so that
		// decomposing the same polynomial twice yields the same digits
		var sb strings.Builder
		fmt.Fprintf(&sb, "%d/%d/%d/%d|", levelQ, levelP, nbPi, i)
		allZero := true
		for k := i * nbPi; k < (i+1)*nbPi && k <= levelQ; k++ {
			for n := 0; n < p0Q[k].Len; n++ {
				f := x.feArg(p0Q[k].Obj.Cells[p0Q[k].Off+n], riQ.moduli[k])
				if len(f.P.terms) != 0 {
					allZero = false
				}
				fmt.Fprintf(&sb, "%x;", f.P.hash())
			}
		}
		if allZero {
			// the digit of the zero polynomial is zero on every limb (exactly, no centring ambiguity)
			for k := 0; k <= levelQ; k++ {
				for n := 0; n < p1Q[k].Len; n++ {
					x.setCell(p1Q[k].Obj, p1Q[k].Off+n, x.feFromConst(riQ.moduli[k], x.ts.BV(0, 64)))
				}
			}
			if levelP >= 0 {
				rp, rpt := x.fieldOf(args[0], rt, "ringP")
				if p, ok := rp.(Ptr); ok && p.Obj != nil {
					riP := x.ringInfoAll(rp, rpt, levelP)
					for k := 0; k <= levelP; k++ {
						for n := 0; n < p1P[k].Len; n++ {
							x.setCell(p1P[k].Obj, p1P[k].Off+n, x.feFromConst(riP.moduli[k], x.ts.BV(0, 64)))
						}
					}
				}
			}
			return nil, true
		}
		st := x.feS()
		id, ok := st.decompIDs["rns:"+sb.String()]
		if !ok {
			id = len(st.decompIDs) + 1
			st.decompIDs["rns:"+sb.String()] = id
		}
		name := fmt.Sprintf("dig%d", id)
		for k := 0; k <= levelQ; k++ {
			own := k >= i*nbPi && k < (i+1)*nbPi
			for n := 0; n < p1Q[k].Len; n++ {
				if own {
					x.setCell(p1Q[k].Obj, p1Q[k].Off+n, p0Q[k].Obj.Cells[p0Q[k].Off+n])
				} else {
					x.setCell(p1Q[k].Obj, p1Q[k].Off+n, x.newAtom(fmt.Sprintf("%s.Q%d[%d]", name, k, n), ClsDigit, riQ.moduli[k]))
				}
			}
		}
		if levelP >= 0 {
			rp, rpt := x.fieldOf(args[0], rt, "ringP")
			if p, ok := rp.(Ptr); ok && p.Obj != nil {
				riP := x.ringInfoAll(rp, rpt, levelP)
				for k := 0; k <= levelP; k++ {
					for n := 0; n < p1P[k].Len; n++ {
						x.setCell(p1P[k].Obj, p1P[k].Off+n, x.newAtom(fmt.Sprintf("%s.P%d[%d]", name, k, n), ClsDigit, riP.moduli[k]))
					}
				}
			}
		}
		return nil, true
	}

	// ring.MaskVec(p1, w, mask, p2): power-of-two digit  d = (x >> w) & mask  of a residue x in [0,q).  The digit is
	// a small integer used with every modulus (universal value).  Recombination fact (exact integer identity
	// Σ_j d_j·2^{j·width} = x when the digits cover all bits of q): the digit at shift 0 is represented, for the
	// modulus of x itself, as  x − Σ_{j≥1} 2^{j·width}·d_j  over ALL digits needed to cover q; digits the code never
	// computes therefore remain visible in the result.
	feStubs[R+".MaskVec"] = func(x *Exec, fn *ssa.Function, args []Value) (Value, bool) {
		p1, p2 := args[0].(Slice), args[3].(Slice)
		if !sliceHasFE(p1) {
			return nil, false
		}
		w := x.constInt(args[1], "shift")
		mask := x.u64(args[2])
		width := bits.Len64(mask)
		if mask == 0 {
			// every digit is zero
			for n := 0; n < p1.Len; n++ {
				x.setCell(p2.Obj, p2.Off+n, x.ts.BV(0, 64))
			}
			return nil, true
		}
		if mask&(mask+1) != 0 {
			panic(x.errf("MaskVec stub: mask %d is not 2^k-1", mask))
		}
		st := x.feS()
		for n := 0; n < p1.Len; n++ {
			src, ok := p1.Obj.Cells[p1.Off+n].(*FE)
			if !ok {
				panic(x.errf("MaskVec stub: mixed slice"))
			}
			q := src.P.q
			if src.Hi.Cmp(new(big.Int).SetUint64(q)) >= 0 {
				x.addObligation(&Obligation{ID: "bit-decomposition-input-reduced", Kind: "range", Cond: x.ts.False, Where: "MaskVec on a value not known to be below q"})
			}
			// identify the source coefficient by its polynomial
			key := fmt.Sprintf("%d|%x|%d", q, src.P.hash(), len(src.P.terms))
			id, ok := st.decompIDs[key]
			if !ok {
				id = len(st.decompIDs) + 1
				st.decompIDs[key] = id
			}
			j := w / width
			dhi := mask // a digit is at most the mask and at most the shifted source value
			if sh := new(big.Int).Rsh(src.Hi, uint(w)); sh.IsUint64() && sh.Uint64() < dhi {
				dhi = sh.Uint64()
			}
			u := &UFE{Name: fmt.Sprintf("bit%d.%d", id, j), Class: ClsDigit, Hi: dhi}
			if w%width != 0 {
				panic(x.errf("MaskVec stub: shift %d is not a multiple of the digit width %d", w, width))
			}
			if j == 0 {
				need := (bits.Len64(q-1) + width - 1) / width
				p := src.P
				for jj := 1; jj < need; jj++ {
					d := x.newAtom(fmt.Sprintf("bit%d.%d", id, jj), ClsDigit, q)
					c := powmod(2, uint64(jj*width), q)
					p = p.add(d.P.scale(c).neg())
				}
				u.Special = map[uint64]*FE{q: {P: p, Lo: bigZero, Hi: new(big.Int).SetUint64(dhi)}}
			}
			x.setCell(p2.Obj, p2.Off+n, u)
		}
		return nil, true
	}
	_ = strings.Join
}

// sameSmall returns "the same small integer" modulo q: the value must be a single small-class atom (coefficient
// 1 or -1) or a constant; anything else cannot be carried to another modulus in the algebraic model.
func (x *Exec) sameSmall(v Value, q uint64, what string) *FE {
	st := x.feS()
	switch t := v.(type) {
	case *Term:
		if t.IsConst() {
			return x.feFromConst(q, t)
		}
	case *UFE:
		return x.instUFE(t, q)
	case *FE:
		if len(t.P.terms) == 0 {
			return &FE{P: newFEPoly(q), Lo: bigZero, Hi: bigZero}
		}
		if len(t.P.terms) == 1 {
			for k, c := range t.P.terms {
				ids := monoIDs(monoStr(k))
				if len(ids) == 1 && (c == 1 || c == t.P.q-1) {
					a := st.atoms[ids[0]]
					if a.class == ClsSecret || a.class == ClsError || a.class == ClsRounding || a.class == ClsDigit {
						f := x.newAtom(a.name, a.class, q)
						if c != 1 {
							return x.feReduced(f.P.neg(), q, 1)
						}
						return f
					}
				}
				if len(ids) == 0 {
					// small constant (centred)
					if c <= t.P.q/2 {
						return x.feReduced(feConst(q, c), q, 1)
					}
					return x.feReduced(feConst(q, q-(t.P.q-c)%q), q, 1)
				}
			}
		}
	}
	panic(x.errf("%s: the value is not a single small atom (cannot be carried to another modulus in the algebraic model): %s", what, x.polyString(v.(*FE).P, 4)))
}

// ringInfoAll is ringInfoOf for an explicit level (views share the SubRings slice).
func (x *Exec) ringInfoAll(v Value, t types.Type, level int) *ringInfo {
	sr, srt := x.fieldOf(v, t, "SubRings")
	s := sr.(Slice)
	ri := &ringInfo{level: level}
	ri.subT = srt.Underlying().(*types.Slice).Elem()
	for i := 0; i <= level && i < s.Cap; i++ {
		sp := s.Obj.Cells[s.Off+i]
		ri.subs = append(ri.subs, sp)
		m, _ := x.fieldOf(sp, ri.subT, "Modulus")
		ri.moduli = append(ri.moduli, x.u64(m))
	}
	return ri
}
