package symgo

// fe_stubs.go: contract stubs of the algebraic slot model for the non-algebraic lattigo functions
// (NTT as its definition matrix, samplers, basis extension, rescaling, gadget decomposition ...).
// A stub returns ok=false when its arguments hold no field elements; the real code is then interpreted.
// Every stub is a contract that a word-level (W) harness discharges on the real function (see DESIGN §5).

import (
	"fmt"
	"go/types"
	"math/big"
	"math/bits"
	"strings"

	"golang.org/x/tools/go/ssa"
)

type feStub func(x *Exec, fn *ssa.Function, args []Value) (Value, bool)

var feStubs = map[string]feStub{}

const lat = "github.com/tuneinsight/lattigo/v6"

// ---------------------------------------------------------------- struct navigation helpers

// fieldOf returns the value and type of field `name` (searching embedded structs / pointers) of a struct value
// or pointer-to-struct.
func (x *Exec) fieldOf(v Value, t types.Type, name string) (Value, types.Type) {
	// dereference pointers
	for {
		if pt, ok := t.Underlying().(*types.Pointer); ok {
			p, ok := v.(Ptr)
			if !ok {
				panic(x.errf("fieldOf(%s): pointer expected, got %T", name, v))
			}
			if p.Obj == nil {
				x.goPanic("runtime error: invalid memory address or nil pointer dereference (" + name + ")")
			}
			t = pt.Elem()
			v = x.Load(p, t)
			continue
		}
		break
	}
	st, ok := t.Underlying().(*types.Struct)
	if !ok {
		panic(x.errf("fieldOf(%s): not a struct: %s", name, t))
	}
	a, ok := v.(Agg)
	if !ok {
		panic(x.errf("fieldOf(%s): struct value expected, got %T", name, v))
	}
	get := func(i int) (Value, types.Type) {
		ft := st.Field(i).Type()
		off := x.lay.FieldOff(st, i)
		n := x.lay.Cells(ft)
		if isAggT(ft) {
			return Agg{a.Cells[off : off+n]}, ft
		}
		return a.Cells[off], ft
	}
	for i := 0; i < st.NumFields(); i++ {
		if st.Field(i).Name() == name {
			return get(i)
		}
	}
	for i := 0; i < st.NumFields(); i++ {
		if st.Field(i).Embedded() {
			fv, ft := get(i)
			if r, rt, ok := x.tryFieldOf(fv, ft, name); ok {
				return r, rt
			}
		}
	}
	panic(x.errf("field %s not found in %s", name, t))
}

func (x *Exec) tryFieldOf(v Value, t types.Type, name string) (rv Value, rt types.Type, ok bool) {
	defer func() {
		if r := recover(); r != nil {
			if _, isErr := r.(*EngineErr); isErr {
				ok = false
				return
			}
			panic(r)
		}
	}()
	if p, isP := v.(Ptr); isP && p.Obj == nil {
		return nil, nil, false
	}
	rv, rt = x.fieldOf(v, t, name)
	return rv, rt, true
}

func (x *Exec) u64(v Value) uint64 {
	t := x.term(v)
	if !t.IsConst() {
		panic(x.errf("concrete integer expected"))
	}
	return t.C
}

// ringInfo extracts (moduli of levels 0..level, N) from a ring.Ring value or *ring.Ring.
type ringInfo struct {
	moduli []uint64
	subs   []Value // *SubRing pointers
	level  int
	n      int
	subT   types.Type
}

func (x *Exec) ringInfoOf(v Value, t types.Type) *ringInfo {
	sr, srt := x.fieldOf(v, t, "SubRings")
	lv, _ := x.fieldOf(v, t, "level")
	s := sr.(Slice)
	ri := &ringInfo{level: x.constInt(lv, "ring level")}
	ri.subT = srt.Underlying().(*types.Slice).Elem()
	for i := 0; i <= ri.level && i < s.Len; i++ {
		sp := s.Obj.Cells[s.Off+i]
		ri.subs = append(ri.subs, sp)
		m, _ := x.fieldOf(sp, ri.subT, "Modulus")
		ri.moduli = append(ri.moduli, x.u64(m))
		if i == 0 {
			n, _ := x.fieldOf(sp, ri.subT, "N")
			ri.n = x.constInt(n, "N")
		}
	}
	return ri
}

// polyLimbs returns the limb slices of a ring.Poly value (struct{Coeffs Matrix[uint64]}).
func (x *Exec) polyLimbs(v Value) []Slice {
	a, ok := v.(Agg)
	if !ok || len(a.Cells) != 1 {
		panic(x.errf("ring.Poly value expected, got %T", v))
	}
	m, ok := a.Cells[0].(Slice)
	if !ok {
		panic(x.errf("ring.Poly.Coeffs: slice expected"))
	}
	out := make([]Slice, m.Len)
	for i := range out {
		out[i] = m.Obj.Cells[m.Off+i].(Slice)
	}
	return out
}

func sliceHasFE(s Slice) bool {
	for i := 0; i < s.Len; i++ {
		if _, ok := s.Obj.Cells[s.Off+i].(*FE); ok {
			return true
		}
	}
	return false
}

func (x *Exec) fresh(prefix string) string {
	s := x.feS()
	s.streams[prefix]++
	return fmt.Sprintf("%s%d", prefix, s.streams[prefix])
}

// classOfSlice: dominant atom class of the field elements in a slice (defaults to rounding).
func (x *Exec) classOfSlice(s Slice) int {
	st := x.feS()
	for i := 0; i < s.Len; i++ {
		if f, ok := s.Obj.Cells[s.Off+i].(*FE); ok {
			for k := range f.P.terms {
				for _, id := range monoIDs(k) {
					return st.atoms[id].class
				}
			}
		}
	}
	return ClsRounding
}

// ---------------------------------------------------------------- NTT as its definition matrix

func (x *Exec) nttMatrix(n int, q, prim, nthRoot uint64, inverse bool) [][]uint64 {
	s := x.feS()
	key := fmt.Sprintf("%d/%d/%v", n, q, inverse)
	if m, ok := s.nttMat[key]; ok {
		return m
	}
	if nthRoot != uint64(2*n) {
		panic(x.errf("algebraic NTT stub supports the standard ring only (NthRoot=%d, N=%d)", nthRoot, n))
	}
	psi := powmod(prim, (q-1)/nthRoot, q)
	logN := bits.Len64(uint64(n)) - 1
	brv := func(v int) int { return int(bits.Reverse64(uint64(v)) >> (64 - logN)) }
	m := make([][]uint64, n)
	if !inverse {
		for j := 0; j < n; j++ {
			m[j] = make([]uint64, n)
			for i := 0; i < n; i++ {
				m[j][i] = powmod(psi, uint64((2*brv(j)+1)*i), q)
			}
		}
	} else {
		psiInv := invmod(psi, q)
		nInv := invmod(uint64(n)%q, q)
		for i := 0; i < n; i++ {
			m[i] = make([]uint64, n)
			for j := 0; j < n; j++ {
				m[i][j] = mulmod(powmod(psiInv, uint64((2*brv(j)+1)*i), q), nInv, q)
			}
		}
	}
	s.nttMat[key] = m
	return m
}

func nttStub(inverse bool, lazy uint64) feStub {
	return func(x *Exec, fn *ssa.Function, args []Value) (Value, bool) {
		p1, p2 := args[1].(Slice), args[2].(Slice)
		if !sliceHasFE(p1) {
			return nil, false
		}
		st := fn.Signature.Recv().Type()
		nV, _ := x.fieldOf(args[0], st, "N")
		qV, _ := x.fieldOf(args[0], st, "Modulus")
		prV, _ := x.fieldOf(args[0], st, "PrimitiveRoot")
		nrV, _ := x.fieldOf(args[0], st, "NthRoot")
		n, q := x.constInt(nV, "N"), x.u64(qV)
		m := x.nttMatrix(n, q, x.u64(prV), x.u64(nrV), inverse)
		in := make([]*FE, n)
		for i := 0; i < n; i++ {
			in[i] = x.feArg(p1.Obj.Cells[p1.Off+i], q)
		}
		for j := 0; j < n; j++ {
			acc := newFEPoly(q)
			for i := 0; i < n; i++ {
				if m[j][i] != 0 && !in[i].P.isZero() {
					acc = acc.add(in[i].P.scale(m[j][i]))
				}
			}
			x.setCell(p2.Obj, p2.Off+j, x.feReduced(acc, q, lazy))
		}
		return nil, true
	}
}

// ---------------------------------------------------------------- samplers

func samplerStub(kind string, add bool) feStub {
	return func(x *Exec, fn *ssa.Function, args []Value) (Value, bool) {
		if x.cfg["algebraic-samplers"] == "" {
			return nil, false
		}
		rt := fn.Signature.Recv().Type()
		ringV, ringT := x.fieldOf(args[0], rt, "baseRing")
		ri := x.ringInfoOf(ringV, ringT)
		limbs := x.polyLimbs(args[1])
		class, prefix := ClsError, "e"
		switch kind {
		case "ternary":
			class, prefix = ClsSecret, "s"
		case "uniform":
			class, prefix = ClsUniform, "u"
		}
		name := x.fresh(prefix)
		if kind == "uniform" {
			// uniform masks are identified by their PRNG object and read position (two samplers sharing a PRNG
			// continue the same stream)
			if pv, pt, ok := x.tryFieldOf(args[0], rt, "prng"); ok {
				_ = pt
				if iv, ok := pv.(Iface); ok {
					if p, ok := iv.V.(Ptr); ok && p.Obj != nil {
						id := fmt.Sprintf("prng%d", p.Obj.ID)
						if key, ok := x.prngKeys[p.Obj]; ok {
							id = "crs" + key
						}
						st := x.feS()
						st.streams[id]++
						name = fmt.Sprintf("u[%s#%d]", id, st.streams[id])
					}
				}
			}
		}
		for k := 0; k <= ri.level; k++ {
			if k >= len(limbs) {
				x.goPanic(fmt.Sprintf("runtime error: index out of range [%d] with length %d (sampler level above polynomial level)", k, len(limbs)))
			}
			q := ri.moduli[k]
			mont := false
			switch kind {
			case "gaussian":
				mv, _ := x.fieldOf(args[0], rt, "montgomery")
				mont = x.term(mv).C == 1
			case "ternary":
				mv, _ := x.fieldOf(args[0], rt, "matrixValues")
				ms := mv.(Slice)
				one := x.u64(ms.Obj.Cells[ms.Off+k*ms.ESz+1])
				mont = one != 1
			}
			r, _ := x.feS().radix(q)
			l := limbs[k]
			for i := 0; i < l.Len; i++ {
				f := x.newAtom(fmt.Sprintf("%s.%d[%d]", name, k, i), class, q)
				if mont {
					f = x.feReduced(f.P.scale(r), q, 1)
				}
				if add {
					old := x.feArg(l.Obj.Cells[l.Off+i], q)
					if old.Hi.Cmp(new(big.Int).SetUint64(q)) > 0 {
						x.addObligation(&Obligation{ID: "cred-input-below-2q", Kind: "range", Cond: x.ts.False, Where: "sampler ReadAndAdd on an unreduced value"})
					}
					f = x.feReduced(old.P.add(f.P), q, 1)
				}
				x.setCell(l.Obj, l.Off+i, f)
			}
		}
		return nil, true
	}
}

// ---------------------------------------------------------------- basis extension / rescaling

func (x *Exec) prodInv(ps []uint64, q uint64) uint64 {
	prod := uint64(1)
	for _, p := range ps {
		prod = mulmod(prod, p%q, q)
	}
	return invmod(prod, q)
}

func init() {
	R := lat + "/ring"
	feStubs["(*"+R+".SubRing).NTT"] = nttStub(false, 1)
	feStubs["(*"+R+".SubRing).NTTLazy"] = nttStub(false, 6)
	feStubs["(*"+R+".SubRing).INTT"] = nttStub(true, 1)
	feStubs["(*"+R+".SubRing).INTTLazy"] = nttStub(true, 2)
	for _, k := range []struct{ typ, kind string }{{"GaussianSampler", "gaussian"}, {"TernarySampler", "ternary"}, {"UniformSampler", "uniform"}} {
		feStubs["(*"+R+"."+k.typ+").Read"] = samplerStub(k.kind, false)
		feStubs["(*"+R+"."+k.typ+").ReadAndAdd"] = samplerStub(k.kind, true)
	}

	// ringqp.Ring.ExtendBasisSmallNormAndCenter(polyInQ, levelP, polyOutQ, polyOutP): the P limbs hold "the same small
	// polynomial": fresh atoms of the same class (nothing is assumed across limbs)
	feStubs["("+R+"/ringqp.Ring).ExtendBasisSmallNormAndCenter"] = func(x *Exec, fn *ssa.Function, args []Value) (Value, bool) {
		inQ := x.polyLimbs(args[1])
		if len(inQ) == 0 || !sliceHasFE(inQ[0]) {
			return nil, false
		}
		levelP := x.constInt(args[2], "levelP")
		outQ, outP := x.polyLimbs(args[3]), x.polyLimbs(args[4])
		rt := fn.Signature.Recv().Type()
		rp, rpt := x.fieldOf(args[0], rt, "RingP")
		ri := x.ringInfoOf(rp, rpt)
		for k := range inQ {
			if k < len(outQ) && !(outQ[k].Obj == inQ[k].Obj && outQ[k].Off == inQ[k].Off) {
				for i := 0; i < inQ[k].Len && i < outQ[k].Len; i++ {
					x.setCell(outQ[k].Obj, outQ[k].Off+i, inQ[k].Obj.Cells[inQ[k].Off+i])
				}
			}
		}
		class := x.classOfSlice(inQ[0])
		name := x.fresh("ext")
		for j := 0; j <= levelP; j++ {
			q := ri.moduli[j]
			for i := 0; i < outP[j].Len; i++ {
				x.setCell(outP[j].Obj, outP[j].Off+i, x.newAtom(fmt.Sprintf("%s.P%d[%d]", name, j, i), class, q))
			}
		}
		return nil, true
	}

	// BasisExtender.ModDownQPtoQ / ModDownQPtoQNTT (levelQ, levelP, p1Q, p1P, p2Q):  P·out = in - λ  per Q limb
	modDown := func(x *Exec, fn *ssa.Function, args []Value) (Value, bool) {
		p1Q := x.polyLimbs(args[3])
		if len(p1Q) == 0 || !sliceHasFE(p1Q[0]) {
			return nil, false
		}
		levelQ, levelP := x.constInt(args[1], "levelQ"), x.constInt(args[2], "levelP")
		p2Q := x.polyLimbs(args[5])
		rt := fn.Signature.Recv().Type()
		rq, rqt := x.fieldOf(args[0], rt, "ringQ")
		rp, rpt := x.fieldOf(args[0], rt, "ringP")
		rq2, _ := x.fieldOf(rq, rqt, "SubRings")
		qs := rq2.(Slice)
		subT := rqt.Underlying().(*types.Pointer).Elem()
		_ = subT
		riQ := x.ringInfoAll(rq, rqt, qs.Len-1)
		riP := x.ringInfoAll(rp, rpt, levelP)
		name := x.fresh("rnd")
		for k := 0; k <= levelQ; k++ {
			q := riQ.moduli[k]
			pinv := x.prodInv(riP.moduli[:levelP+1], q)
			for i := 0; i < p1Q[k].Len; i++ {
				in := x.feArg(p1Q[k].Obj.Cells[p1Q[k].Off+i], q)
				lam := x.newAtom(fmt.Sprintf("%s.%d[%d]", name, k, i), ClsRounding, q)
				x.setCell(p2Q[k].Obj, p2Q[k].Off+i, x.feReduced(in.P.add(lam.P.neg()).scale(pinv), q, 1))
			}
		}
		return nil, true
	}
	feStubs["(*"+R+".BasisExtender).ModDownQPtoQ"] = modDown
	feStubs["(*"+R+".BasisExtender).ModDownQPtoQNTT"] = modDown

	// Ring.DivRound/DivFloorByLastModulus(NTT): q_L·out = in - δ on every remaining limb
	divLast := func(many bool, withBuff bool) feStub {
		return func(x *Exec, fn *ssa.Function, args []Value) (Value, bool) {
			ai := 1
			nb := 1
			if many {
				nb = x.constInt(args[1], "nbRescales")
				ai = 2
			}
			p0 := x.polyLimbs(args[ai])
			if len(p0) == 0 || !sliceHasFE(p0[0]) {
				return nil, false
			}
			var p1 []Slice
			if withBuff {
				p1 = x.polyLimbs(args[ai+2])
			} else {
				p1 = x.polyLimbs(args[ai+1])
			}
			rt := fn.Signature.Recv().Type()
			ri := x.ringInfoOf(args[0], rt)
			level := ri.level
			if nb == 0 {
				for k := 0; k <= level; k++ {
					if !(p0[k].Obj == p1[k].Obj && p0[k].Off == p1[k].Off) {
						for i := 0; i < p0[k].Len; i++ {
							x.setCell(p1[k].Obj, p1[k].Off+i, p0[k].Obj.Cells[p0[k].Off+i])
						}
					}
				}
				return nil, true
			}
			if nb > level {
				x.goPanic("runtime error: index out of range (rescaling below level 0)")
			}
			name := x.fresh("rsc")
			for k := 0; k <= level-nb; k++ {
				q := ri.moduli[k]
				dinv := x.prodInv(ri.moduli[level-nb+1:level+1], q)
				for i := 0; i < p0[k].Len; i++ {
					in := x.feArg(p0[k].Obj.Cells[p0[k].Off+i], q)
					d := x.newAtom(fmt.Sprintf("%s.%d[%d]", name, k, i), ClsRounding, q)
					x.setCell(p1[k].Obj, p1[k].Off+i, x.feReduced(in.P.add(d.P.neg()).scale(dinv), q, 1))
				}
			}
			return nil, true
		}
	}
	feStubs["("+R+".Ring).DivRoundByLastModulusNTT"] = divLast(false, true)
	feStubs["("+R+".Ring).DivFloorByLastModulusNTT"] = divLast(false, true)
	feStubs["("+R+".Ring).DivRoundByLastModulus"] = divLast(false, false)
	feStubs["("+R+".Ring).DivFloorByLastModulus"] = divLast(false, false)
	feStubs["("+R+".Ring).DivRoundByLastModulusManyNTT"] = divLast(true, true)
	feStubs["("+R+".Ring).DivFloorByLastModulusManyNTT"] = divLast(true, true)
	feStubs["("+R+".Ring).DivRoundByLastModulusMany"] = divLast(true, true)
	feStubs["("+R+".Ring).DivFloorByLastModulusMany"] = divLast(true, true)
	_ = strings.Join
}

// ringInfoAll is ringInfoOf for an explicit level (views share the SubRings slice).
func (x *Exec) ringInfoAll(v Value, t types.Type, level int) *ringInfo {
	sr, srt := x.fieldOf(v, t, "SubRings")
	s := sr.(Slice)
	ri := &ringInfo{level: level}
	ri.subT = srt.Underlying().(*types.Slice).Elem()
	for i := 0; i <= level && i < s.Cap; i++ {
		sp := s.Obj.Cells[s.Off+i]
		ri.subs = append(ri.subs, sp)
		m, _ := x.fieldOf(sp, ri.subT, "Modulus")
		ri.moduli = append(ri.moduli, x.u64(m))
	}
	return ri
}
