package symgo

// fe.go: the algebraic slot model.  A uint64 cell may hold a field element: a value known modulo a concrete
// prime q as a sparse polynomial over named atoms (ciphertext, key, error, ... coefficients) together with a
// machine-value interval [lo,hi].  +,-,* on such cells are field operations with overflow/underflow obligations
// on the interval; the scalar reduction kernels act through their contracts (proved at word level under C01).

import (
	"fmt"
	"go/token"
	"go/types"
	"math/big"
	"math/bits"
	"sort"
	"strings"
	"sync"

	"golang.org/x/tools/go/ssa"
)

// atom classes
const (
	ClsUniform  = 0 // uniformly random mask / CRS / ciphertext coefficient
	ClsSecret   = 1
	ClsError    = 2
	ClsMessage  = 3
	ClsDigit    = 4
	ClsRounding = 5
	ClsJunk     = 6
)

var clsNames = []string{"uniform", "secret", "error", "message", "digit", "rounding", "junk"}

type atomInfo struct {
	id    int
	name  string
	class int
	q     uint64
}

// mono is a monomial: sorted atom ids (with repetition for powers), encoded as a string key.
type FEPoly struct {
	q     uint64
	terms map[uint32]uint64 // interned monomial -> coefficient in [1,q)
}

type FE struct {
	P      *FEPoly
	Lo, Hi *big.Int
}

// UFE is a small integer that is the same in every RNS limb (a power-of-two digit): it becomes a field element
// when it meets a modulus.  special[q] overrides the plain atom for one modulus (recombination fact).
type UFE struct {
	Name    string
	Class   int
	Hi      uint64
	Special map[uint64]*FE
}

func (x *Exec) instUFE(u *UFE, q uint64) *FE {
	if f, ok := u.Special[q]; ok {
		return f
	}
	f := x.newAtom(u.Name, u.Class, q)
	return &FE{P: f.P, Lo: bigZero, Hi: new(big.Int).SetUint64(u.Hi)}
}

type feState struct {
	atoms     []*atomInfo
	byName    map[string]*atomInfo
	rinv      map[uint64]uint64 // 2^-64 mod q
	rr        map[uint64]uint64 // 2^64 mod q
	nttMat    map[string][][]uint64
	streams   map[string]int
	monoVars  map[uint32]*Term
	decompIDs map[string]int
}

type streamState struct{ pos int }

func (x *Exec) feS() *feState {
	if x.fe == nil {
		x.fe = &feState{byName: map[string]*atomInfo{}, rinv: map[uint64]uint64{}, rr: map[uint64]uint64{}, nttMat: map[string][][]uint64{}, streams: map[string]int{}, monoVars: map[uint32]*Term{}, decompIDs: map[string]int{}}
	}
	return x.fe
}

func mulmod(a, b, q uint64) uint64 {
	hi, lo := bits.Mul64(a, b)
	_, r := bits.Div64(hi%q, lo, q)
	return r
}
func addmod(a, b, q uint64) uint64 {
	s := a + b
	if s >= q || s < a {
		s -= q
	}
	return s
}
func powmod(a, e, q uint64) uint64 {
	r := uint64(1)
	a %= q
	for ; e > 0; e >>= 1 {
		if e&1 == 1 {
			r = mulmod(r, a, q)
		}
		a = mulmod(a, a, q)
	}
	return r
}
func invmod(a, q uint64) uint64 { return powmod(a, q-2, q) }

func (s *feState) radix(q uint64) (r, rinv uint64) {
	if v, ok := s.rr[q]; ok {
		return v, s.rinv[q]
	}
	r = new(big.Int).Mod(pow2(64), new(big.Int).SetUint64(q)).Uint64()
	s.rr[q] = r
	s.rinv[q] = invmod(r, q)
	return r, s.rinv[q]
}

// ---- polynomials

func monoKey(ids []int) string {
	sort.Ints(ids)
	var sb strings.Builder
	for i, id := range ids {
		if i > 0 {
			sb.WriteByte(',')
		}
		fmt.Fprintf(&sb, "%d", id)
	}
	return sb.String()
}

func monoIDs(k string) []int {
	if k == "" {
		return nil
	}
	ids := make([]int, 0, 4)
	v := 0
	for i := 0; i < len(k); i++ {
		if k[i] == ',' {
			ids = append(ids, v)
			v = 0
		} else {
			v = v*10 + int(k[i]-'0')
		}
	}
	return append(ids, v)
}

// addScaled adds c*o to p in place.
func (p *FEPoly) addScaled(o *FEPoly, c uint64) {
	c %= p.q
	if c == 0 {
		return
	}
	for k, v := range o.terms {
		p.addTerm(k, mulmod(v, c, p.q))
	}
}

// hash is an order-independent fingerprint of the polynomial (used to name derived quantities by content).
func (p *FEPoly) hash() uint64 {
	var h uint64
	for k, c := range p.terms {
		x := (uint64(k)+1)*0x9E3779B97F4A7C15 ^ c*0xC2B2AE3D27D4EB4F
		x ^= x >> 29
		x *= 0xBF58476D1CE4E5B9
		x ^= x >> 32
		h += x
	}
	return h ^ p.q
}

func monoMul(a, b string) string {
	if a == "" {
		return b
	}
	if b == "" {
		return a
	}
	return monoKey(append(monoIDs(a), monoIDs(b)...))
}

func newFEPoly(q uint64) *FEPoly { return &FEPoly{q: q, terms: map[uint32]uint64{}} }

// monomials are interned: id 0 is the empty monomial (constant term)
var monoTab = struct {
	mu   sync.RWMutex
	ids  map[string]uint32
	keys []string
	prod map[uint64]uint32
}{ids: map[string]uint32{"": 0}, keys: []string{""}, prod: map[uint64]uint32{}}

func monoID(key string) uint32 {
	monoTab.mu.RLock()
	id, ok := monoTab.ids[key]
	monoTab.mu.RUnlock()
	if ok {
		return id
	}
	monoTab.mu.Lock()
	defer monoTab.mu.Unlock()
	if id, ok := monoTab.ids[key]; ok {
		return id
	}
	id = uint32(len(monoTab.keys))
	monoTab.keys = append(monoTab.keys, key)
	monoTab.ids[key] = id
	return id
}

func monoStr(id uint32) string {
	monoTab.mu.RLock()
	defer monoTab.mu.RUnlock()
	return monoTab.keys[id]
}

func monoMulID(a, b uint32) uint32 {
	if a == 0 {
		return b
	}
	if b == 0 {
		return a
	}
	if a > b {
		a, b = b, a
	}
	k := uint64(a)<<32 | uint64(b)
	monoTab.mu.RLock()
	id, ok := monoTab.prod[k]
	monoTab.mu.RUnlock()
	if ok {
		return id
	}
	id = monoID(monoMul(monoStr(a), monoStr(b)))
	monoTab.mu.Lock()
	monoTab.prod[k] = id
	monoTab.mu.Unlock()
	return id
}

func (p *FEPoly) addTerm(k uint32, c uint64) {
	c %= p.q
	if c == 0 {
		return
	}
	v := addmod(p.terms[k], c, p.q)
	if v == 0 {
		delete(p.terms, k)
	} else {
		p.terms[k] = v
	}
}

func feConst(q, c uint64) *FEPoly {
	p := newFEPoly(q)
	p.addTerm(0, c%q)
	return p
}

func (p *FEPoly) add(o *FEPoly) *FEPoly {
	r := newFEPoly(p.q)
	for k, c := range p.terms {
		r.terms[k] = c
	}
	for k, c := range o.terms {
		r.addTerm(k, c)
	}
	return r
}

func (p *FEPoly) scale(c uint64) *FEPoly {
	r := newFEPoly(p.q)
	c %= p.q
	if c == 0 {
		return r
	}
	for k, v := range p.terms {
		r.terms[k] = mulmod(v, c, p.q)
	}
	return r
}

func (p *FEPoly) neg() *FEPoly { return p.scale(p.q - 1) }

func (p *FEPoly) mul(o *FEPoly) *FEPoly {
	r := newFEPoly(p.q)
	for k1, c1 := range p.terms {
		for k2, c2 := range o.terms {
			r.addTerm(monoMulID(k1, k2), mulmod(c1, c2, p.q))
		}
	}
	return r
}

func (p *FEPoly) isZero() bool { return len(p.terms) == 0 }

func (p *FEPoly) equal(o *FEPoly) bool {
	if len(p.terms) != len(o.terms) {
		return false
	}
	for k, c := range p.terms {
		if o.terms[k] != c {
			return false
		}
	}
	return true
}

func (p *FEPoly) keys() []uint32 {
	ks := make([]uint32, 0, len(p.terms))
	for k := range p.terms {
		ks = append(ks, k)
	}
	sort.Slice(ks, func(i, j int) bool { return monoStr(ks[i]) < monoStr(ks[j]) })
	return ks
}

func (x *Exec) polyString(p *FEPoly, max int) string {
	s := x.feS()
	var parts []string
	for i, k := range p.keys() {
		if i >= max {
			parts = append(parts, fmt.Sprintf("… (%d terms)", len(p.terms)))
			break
		}
		var names []string
		for _, id := range monoIDs(monoStr(k)) {
			names = append(names, s.atoms[id].name)
		}
		m := strings.Join(names, "·")
		if m == "" {
			m = "1"
		}
		parts = append(parts, fmt.Sprintf("%d·%s", p.terms[k], m))
	}
	if len(parts) == 0 {
		return "0"
	}
	return strings.Join(parts, " + ")
}

// dropClasses removes every monomial that contains an atom of one of the classes (sets those atoms to 0).
func (x *Exec) dropClasses(p *FEPoly, classes ...int) *FEPoly {
	s := x.feS()
	drop := map[int]bool{}
	for _, c := range classes {
		drop[c] = true
	}
	r := newFEPoly(p.q)
	for k, c := range p.terms {
		keep := true
		for _, id := range monoIDs(monoStr(k)) {
			if drop[s.atoms[id].class] {
				keep = false
				break
			}
		}
		if keep {
			r.terms[k] = c
		}
	}
	return r
}

// ---- field elements

func (x *Exec) newAtom(name string, class int, q uint64) *FE {
	s := x.feS()
	full := fmt.Sprintf("%s@%d", name, q)
	a, ok := s.byName[full]
	if !ok {
		a = &atomInfo{id: len(s.atoms), name: name, class: class, q: q}
		s.atoms = append(s.atoms, a)
		s.byName[full] = a
	}
	p := newFEPoly(q)
	p.terms[monoID(monoKey([]int{a.id}))] = 1
	return &FE{P: p, Lo: bigZero, Hi: new(big.Int).SetUint64(q - 1)}
}

func (x *Exec) feFromConst(q uint64, c *Term) *FE {
	v := c.ConstBig()
	m := new(big.Int).Mod(v, new(big.Int).SetUint64(q))
	return &FE{P: feConst(q, m.Uint64()), Lo: v, Hi: v}
}

var two64big = pow2(64)

func (x *Exec) feRangeCheck(lo, hi *big.Int, what string) {
	if hi.Cmp(two64big) >= 0 {
		x.addObligation(&Obligation{ID: "lazy-range-no-overflow", Kind: "range", Cond: x.ts.False,
			Where: fmt.Sprintf("%s: tracked upper bound %s reaches 2^64", what, hi)})
	}
	if lo.Sign() < 0 {
		x.addObligation(&Obligation{ID: "lazy-range-no-underflow", Kind: "range", Cond: x.ts.False,
			Where: fmt.Sprintf("%s: tracked lower bound %s is negative (subtraction may wrap)", what, lo)})
	}
}

func (x *Exec) feBinop(op token.Token, a, b Value, t types.Type) Value {
	fa, oka := a.(*FE)
	fb, okb := b.(*FE)
	var q uint64
	if oka {
		q = fa.P.q
	} else {
		q = fb.P.q
	}
	conv := func(v Value) *FE {
		tm, ok := v.(*Term)
		if !ok || !tm.IsConst() {
			panic(x.errf("field element mixed with a symbolic machine word (%v)", v))
		}
		return x.feFromConst(q, tm)
	}
	if !oka {
		fa = conv(a)
	}
	if !okb {
		if (op == token.SHL || op == token.SHR) && false {
		}
		fb = conv(b)
	}
	if fa.P.q != fb.P.q {
		panic(&GoPanic{Msg: fmt.Sprintf("VERIF-MODULUS: arithmetic between values of different moduli %d and %d (limb mix-up)", fa.P.q, fb.P.q), Stack: x.stackTrace()})
	}
	switch op {
	case token.ADD:
		lo, hi := new(big.Int).Add(fa.Lo, fb.Lo), new(big.Int).Add(fa.Hi, fb.Hi)
		x.feRangeCheck(lo, hi, "addition")
		return &FE{P: fa.P.add(fb.P), Lo: lo, Hi: hi}
	case token.SUB:
		lo, hi := new(big.Int).Sub(fa.Lo, fb.Hi), new(big.Int).Sub(fa.Hi, fb.Lo)
		x.feRangeCheck(lo, hi, "subtraction")
		if lo.Sign() < 0 {
			lo = bigZero
		}
		return &FE{P: fa.P.add(fb.P.neg()), Lo: lo, Hi: hi}
	case token.OR, token.XOR:
		// selection idiom  a*(t^1) | b*t  with t in {0,1}: one side is exactly zero
		if fa.Hi.Sign() == 0 {
			return fb
		}
		if fb.Hi.Sign() == 0 {
			return fa
		}
	case token.MUL:
		lo, hi := new(big.Int).Mul(fa.Lo, fb.Lo), new(big.Int).Mul(fa.Hi, fb.Hi)
		x.feRangeCheck(lo, hi, "multiplication")
		return &FE{P: fa.P.mul(fb.P), Lo: lo, Hi: hi}
	}
	panic(x.errf("operation %s on a field element is outside the algebraic model", op))
}

func (x *Exec) feNeg(a *FE) Value {
	panic(x.errf("unary minus on a field element (two's complement negation is outside the algebraic model)"))
}

func (x *Exec) feEqual(a, b Value) *Term {
	panic(x.errf("comparison of field elements in the code under test is outside the algebraic model"))
}

// feArg converts a kernel argument into a field element of modulus q.
func (x *Exec) feArg(v Value, q uint64) *FE {
	switch t := v.(type) {
	case *UFE:
		return x.instUFE(t, q)
	case *FE:
		if t.P.q != q {
			panic(&GoPanic{Msg: fmt.Sprintf("VERIF-MODULUS: value of modulus %d passed to a reduction modulo %d (limb mix-up)", t.P.q, q), Stack: x.stackTrace()})
		}
		return t
	case *Term:
		if t.IsConst() {
			return x.feFromConst(q, t)
		}
	}
	panic(x.errf("field-element kernel on %T", v))
}

func anyFE(args []Value) bool {
	for _, a := range args {
		switch a.(type) {
		case *FE, *UFE:
			return true
		}
	}
	return false
}

func (x *Exec) feReduced(p *FEPoly, q uint64, lazy uint64) *FE {
	return &FE{P: p, Lo: bigZero, Hi: new(big.Int).SetUint64(lazy*q - 1)}
}

// feKernel implements the contracts of ring/modular_reduction.go on field elements.
// Returns ok=false when the call has no field-element argument (then the real code is interpreted).
func (x *Exec) feKernel(name string, args []Value) (Value, bool) {
	if !anyFE(args) {
		return nil, false
	}
	s := x.feS()
	qOf := func(i int) uint64 {
		t, ok := args[i].(*Term)
		if !ok || !t.IsConst() {
			panic(x.errf("%s: symbolic modulus in the algebraic model", name))
		}
		return t.C
	}
	prodCheck := func(a, b *FE, q uint64) {
		// contract precondition (C01-1): x*y < q*2^64
		lim := new(big.Int).Mul(new(big.Int).SetUint64(q), two64big)
		if new(big.Int).Mul(a.Hi, b.Hi).Cmp(lim) >= 0 {
			x.addObligation(&Obligation{ID: "montgomery-input-range", Kind: "range", Cond: x.ts.False,
				Where: fmt.Sprintf("%s: product of tracked bounds %s * %s reaches q*2^64", name, a.Hi, b.Hi)})
		}
	}
	switch name {
	case "MRed", "MRedLazy":
		q := qOf(2)
		a, b := x.feArg(args[0], q), x.feArg(args[1], q)
		prodCheck(a, b, q)
		_, rinv := s.radix(q)
		res := x.feReduced(a.P.mul(b.P).scale(rinv), q, 1)
		if name == "MRedLazy" {
			// r = hi(x·y) - hi(m·q) + q with 0 <= hi(m·q) < q:  hi(x·y) < r <= hi(x·y) + q  (and below 2q)
			hi := new(big.Int).Rsh(new(big.Int).Mul(a.Hi, b.Hi), 64)
			hi.Add(hi, new(big.Int).SetUint64(q))
			if lim := new(big.Int).SetUint64(2*q - 1); hi.Cmp(lim) > 0 {
				hi = lim
			}
			res.Hi = hi
		}
		return res, true
	case "BRed", "BRedLazy":
		q := qOf(2)
		a, b := x.feArg(args[0], q), x.feArg(args[1], q)
		qb := new(big.Int).SetUint64(q)
		if a.Hi.Cmp(qb) >= 0 && b.Hi.Cmp(qb) >= 0 {
			x.addObligation(&Obligation{ID: "barrett-input-range", Kind: "range", Cond: x.ts.False,
				Where: fmt.Sprintf("%s: neither operand is known to be below q (bounds %s, %s)", name, a.Hi, b.Hi)})
		}
		lazy := uint64(1)
		if name == "BRedLazy" {
			lazy = 2
		}
		return x.feReduced(a.P.mul(b.P), q, lazy), true
	case "BRedAdd", "BRedAddLazy":
		q := qOf(1)
		a := x.feArg(args[0], q)
		lazy := uint64(1)
		if name == "BRedAddLazy" {
			lazy = 2
		}
		return x.feReduced(a.P, q, lazy), true
	case "CRed":
		// CRed(a) = a-q if a >= q else a (C01: VerifH_C01_CRed, all a): congruent, below q when a < 2q,
		// otherwise merely one q smaller (callers that feed lazy values rely on a later full reduction)
		q := qOf(1)
		a := x.feArg(args[0], q)
		hi := new(big.Int).SetUint64(q - 1)
		if d := new(big.Int).Sub(a.Hi, new(big.Int).SetUint64(q)); d.Cmp(hi) > 0 {
			hi = d
		}
		return &FE{P: a.P, Lo: bigZero, Hi: hi}, true
	case "MForm", "MFormLazy":
		q := qOf(1)
		a := x.feArg(args[0], q)
		r, _ := s.radix(q)
		lazy := uint64(1)
		if name == "MFormLazy" {
			lazy = 2
		}
		return x.feReduced(a.P.scale(r), q, lazy), true
	case "IMForm", "IMFormLazy":
		q := qOf(1)
		a := x.feArg(args[0], q)
		_, rinv := s.radix(q)
		lazy := uint64(1)
		if name == "IMFormLazy" {
			lazy = 2
		}
		return x.feReduced(a.P.scale(rinv), q, lazy), true
	}
	return nil, false
}

// ---------------------------------------------------------------- prelude functions of the algebraic model

func (x *Exec) feOf(v Value, q uint64) *FE {
	switch t := v.(type) {
	case *UFE:
		return x.instUFE(t, q)
	case *FE:
		return t
	case *Term:
		if t.IsConst() {
			return x.feFromConst(q, t)
		}
	}
	panic(x.errf("expected an algebraic value, got %s", describe(v)))
}

func (x *Exec) sliceFEs(v Value, q uint64) []*FE {
	s := v.(Slice)
	out := make([]*FE, s.Len)
	for i := range out {
		out[i] = x.feOf(s.Obj.Cells[s.Off+i], q)
	}
	return out
}

// feObligation states "a ≡ b (mod q) as polynomials over the atoms" as a solver query: every distinct monomial
// becomes a free integer variable, both sides become linear forms over those variables, and the identity holds for
// all atom values iff  (Σ a_m·M_m − Σ b_m·M_m) mod q ≠ 0  is unsatisfiable.  (Monomials as free variables
// over-approximate their values, so unsat is sound; a sat answer names the monomial that differs.)
func (x *Exec) feObligation(a, b *FEPoly, id, where string) {
	ts := x.ts
	lin := func(p *FEPoly) *Term {
		sum := ts.IntI(0)
		for _, k := range p.keys() {
			st := x.feS()
			m, ok := st.monoVars[k]
			if !ok {
				m = ts.Var("mono["+monoStr(k)+"]", SInt, 0)
				st.monoVars[k] = m
			}
			sum = ts.IBin(OIAdd, sum, ts.IBin(OIMul, ts.IntU(p.terms[k]), m))
		}
		return sum
	}
	// monomial variables must be shared between the two sides: intern by name
	diff := a.add(b.neg())
	note := where
	if !diff.isZero() {
		note += " residual: " + x.polyString(diff, 6)
	}
	if !diff.isZero() {
		// the two sides differ as polynomials: one monomial of the residual is a complete refutation (monomials are
		// free variables: set this one to 1 and the others to 0); the solver is asked about that monomial only, which
		// keeps a failing identity with thousands of monomials from exhausting its budget
		ks := diff.keys()
		k := ks[0]
		cond := ts.Cmp(OEq, ts.IBin(OIMod, lin(&FEPoly{q: a.q, terms: map[uint32]uint64{k: diff.terms[k]}}), ts.IntU(a.q)), ts.IntI(0))
		x.addObligation(&Obligation{ID: id, Kind: "assert", Cond: cond, Where: note})
		return
	}
	if len(a.terms)+len(b.terms) > 600 {
		// very large sides: send only the residual (still a solver query over its monomials)
		cond := ts.Cmp(OEq, ts.IBin(OIMod, lin(diff), ts.IntU(a.q)), ts.IntI(0))
		x.addObligation(&Obligation{ID: id, Kind: "assert", Cond: cond, Where: note})
		return
	}
	cond := ts.RawEq(ts.IBin(OIMod, lin(a), ts.IntU(a.q)), ts.IBin(OIMod, lin(b), ts.IntU(a.q)))
	x.addObligation(&Obligation{ID: id, Kind: "assert", Cond: cond, Where: note})
}

func registerFEPrelude() {
	P := preludeFns
	// vAtoms(name, class, q, n) []uint64
	P["vAtoms"] = func(x *Exec, fn *ssa.Function, a []Value) Value {
		name := a[0].(string)
		class := x.constInt(a[1], "class")
		q := x.term(a[2]).C
		n := x.constInt(a[3], "n")
		s := x.makeSlice(types.Typ[types.Uint64], n, n, name)
		for i := 0; i < n; i++ {
			s.Obj.Cells[i] = x.newAtom(fmt.Sprintf("%s[%d]", name, i), class, q)
		}
		return s
	}
	// vAssertEqMod(a, b []uint64, q, id): limb-wise polynomial identity
	P["vAssertEqMod"] = func(x *Exec, fn *ssa.Function, a []Value) Value {
		q := x.term(a[2]).C
		as, bs := x.sliceFEs(a[0], q), x.sliceFEs(a[1], q)
		if len(as) != len(bs) {
			x.addObligation(&Obligation{ID: a[3].(string), Kind: "assert", Cond: x.ts.False, Where: "length mismatch"})
			return nil
		}
		for i := range as {
			x.feObligation(as[i].P, bs[i].P, a[3].(string), fmt.Sprintf("slot %d (mod %d)", i, q))
		}
		return nil
	}
	// vAssertNoiseFreeMod(a, b []uint64, q, id): equal after setting error/rounding atoms to zero
	P["vAssertNoiseFreeMod"] = func(x *Exec, fn *ssa.Function, a []Value) Value {
		q := x.term(a[2]).C
		as, bs := x.sliceFEs(a[0], q), x.sliceFEs(a[1], q)
		for i := range as {
			x.feObligation(x.dropClasses(as[i].P, ClsError, ClsRounding), x.dropClasses(bs[i].P, ClsError, ClsRounding), a[3].(string), fmt.Sprintf("slot %d (mod %d), noise atoms removed", i, q))
		}
		return nil
	}
	// vAssertReduced(a []uint64, q, mult, id): tracked upper bound < mult*q
	P["vAssertBelow"] = func(x *Exec, fn *ssa.Function, a []Value) Value {
		q := x.term(a[1]).C
		mult := x.term(a[2]).C
		lim := new(big.Int).Mul(new(big.Int).SetUint64(q), new(big.Int).SetUint64(mult))
		ok := true
		for _, f := range x.sliceFEs(a[0], q) {
			if f.Hi.Cmp(lim) >= 0 {
				ok = false
			}
		}
		x.addObligation(&Obligation{ID: a[3].(string), Kind: "assert", Cond: x.ts.Bool(ok), Where: "tracked range"})
		return nil
	}
	// vHasClass(a []uint64, q, class) bool : some slot contains an atom of the class with a non-zero coefficient
	P["vEverySlotHasClass"] = func(x *Exec, fn *ssa.Function, a []Value) Value {
		q := x.term(a[1]).C
		class := x.constInt(a[2], "class")
		s := x.feS()
		all := true
		for _, f := range x.sliceFEs(a[0], q) {
			found := false
			for k := range f.P.terms {
				for _, id := range monoIDs(monoStr(k)) {
					if s.atoms[id].class == class {
						found = true
					}
				}
			}
			if !found {
				all = false
			}
		}
		return x.ts.Bool(all)
	}
	// vFreshNoiseOnly(a []uint64, q) bool : every slot is zero or a sum of single error atoms with coefficient +1 or -1
	// (exactly the freshly sampled error: no scaling by a constant, no product with another value)
	P["vFreshNoiseOnly"] = func(x *Exec, fn *ssa.Function, a []Value) Value {
		q := x.term(a[1]).C
		s := x.feS()
		ok := true
		for _, f := range x.sliceFEs(a[0], q) {
			for k, c := range f.P.terms {
				ids := monoIDs(monoStr(k))
				if len(ids) != 1 || s.atoms[ids[0]].class != ClsError || (c != 1 && c != q-1) {
					ok = false
				}
			}
		}
		return x.ts.Bool(ok)
	}
	// vNoAtomOfClass(a []uint64, q, class) bool
	P["vNoAtomOfClass"] = func(x *Exec, fn *ssa.Function, a []Value) Value {
		q := x.term(a[1]).C
		class := x.constInt(a[2], "class")
		s := x.feS()
		for _, f := range x.sliceFEs(a[0], q) {
			for k := range f.P.terms {
				for _, id := range monoIDs(monoStr(k)) {
					if s.atoms[id].class == class {
						return x.ts.False
					}
				}
			}
		}
		return x.ts.True
	}
	// vPRNGKey(prng, key): declare that this PRNG object is keyed with `key` (objects with equal keys produce equal streams)
	P["vPRNGKey"] = func(x *Exec, fn *ssa.Function, a []Value) Value {
		if x.prngKeys == nil {
			x.prngKeys = map[*Object]string{}
		}
		var p Ptr
		switch v := a[0].(type) {
		case Iface:
			p, _ = v.V.(Ptr)
		case Ptr:
			p = v
		}
		if p.Obj == nil {
			panic(x.errf("vPRNGKey: not a PRNG object"))
		}
		x.prngKeys[p.Obj] = a[1].(string)
		return nil
	}
	// vSharesAtomOfClass(a, b []uint64, q, class): some atom of the class occurs both in a and in b
	P["vSharesAtomOfClass"] = func(x *Exec, fn *ssa.Function, a []Value) Value {
		q := x.term(a[2]).C
		cls := x.constInt(a[3], "class")
		st := x.feS()
		in := map[int]bool{}
		for _, f := range x.sliceFEs(a[0], q) {
			for k := range f.P.terms {
				for _, id := range monoIDs(monoStr(k)) {
					if st.atoms[id].class == cls {
						in[id] = true
					}
				}
			}
		}
		for _, f := range x.sliceFEs(a[1], q) {
			for k := range f.P.terms {
				for _, id := range monoIDs(monoStr(k)) {
					if in[id] {
						return x.ts.True
					}
				}
			}
		}
		return x.ts.False
	}
	P["vIsAlgebraic"] = func(x *Exec, fn *ssa.Function, a []Value) Value { return x.ts.True }
}
