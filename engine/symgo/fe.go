package symgo

// fe.go: the algebraic slot model (field elements as sparse polynomials over atoms).  Filled in below.

import (
	"go/token"
	"go/types"
)

type FE struct{}
type feState struct{}
type streamState struct{}

func (x *Exec) feBinop(op token.Token, a, b Value, t types.Type) Value {
	panic(x.errf("field-element arithmetic not available"))
}
func (x *Exec) feNeg(a *FE) Value        { panic(x.errf("field-element arithmetic not available")) }
func (x *Exec) feEqual(a, b Value) *Term { panic(x.errf("field-element comparison not available")) }
func registerFEPrelude()                 {}
