package symgo

// bigmath.go: math/big.Int as SMT Int cells, math/big.Float as exact SMT Real cells (the finite mantissa of
// big.Float is ignored: listed assumption).

import (
	"fmt"
	"go/token"
	"go/types"
	"math"
	"math/big"

	"golang.org/x/tools/go/ssa"
)

func (x *Exec) bigCell(v Value) (Ptr, *Term) {
	p, ok := v.(Ptr)
	if !ok || p.Obj == nil {
		x.goPanic("runtime error: invalid memory address or nil pointer dereference (nil *big value)")
	}
	t, ok := p.Obj.Cells[p.Off].(*Term)
	if !ok {
		panic(x.errf("big value cell holds %T", p.Obj.Cells[p.Off]))
	}
	return p, t
}

func (x *Exec) newBig(t *Term, typ types.Type) Ptr {
	o := x.NewObject(1, typ, "big")
	o.Cells[0] = t
	return Ptr{o, 0}
}

func (x *Exec) setBig(z Value, t *Term) Value {
	p, _ := x.bigCell(z)
	x.setCell(p.Obj, p.Off, t)
	return z
}

// signTerm returns -1/0/1 as a 64-bit value for an Int- or Real-sorted term.
func (x *Exec) signTerm(t *Term) *Term {
	ts := x.ts
	var zero *Term
	var lt Op
	if t.Sort == SReal {
		zero, lt = ts.Real(new(big.Rat)), ORLt
	} else {
		zero, lt = ts.IntI(0), OILt
	}
	return ts.Ite(ts.Cmp(lt, t, zero), ts.BV(^uint64(0), 64), ts.Ite(ts.Cmp(OEq, t, zero), ts.BV(0, 64), ts.BV(1, 64)))
}

func (x *Exec) cmpTerms(a, b *Term) *Term {
	ts := x.ts
	lt := OILt
	if a.Sort == SReal {
		lt = ORLt
	}
	return ts.Ite(ts.Cmp(lt, a, b), ts.BV(^uint64(0), 64), ts.Ite(ts.Cmp(OEq, a, b), ts.BV(0, 64), ts.BV(1, 64)))
}

func (x *Exec) absInt(a *Term) *Term {
	if a.IsConst() {
		return x.ts.Int(new(big.Int).Abs(a.Big))
	}
	if a.Op == OIMod && a.A[1].IsConst() && a.A[1].Big.Sign() > 0 {
		return a // Euclidean remainder is non-negative
	}
	return x.ts.Ite(x.ts.Cmp(OILt, a, x.ts.IntI(0)), x.ts.IBin(OISub, x.ts.IntI(0), a), a)
}

// truncated quotient (Go's Quo) from Euclidean div
func (x *Exec) quoInt(a, b *Term) *Term {
	ts := x.ts
	if a.IsConst() && b.IsConst() {
		if b.Big.Sign() == 0 {
			x.goPanic("division by zero")
		}
		return ts.Int(new(big.Int).Quo(a.Big, b.Big))
	}
	// sign(a)*sign(b) * (|a| div |b|)
	q := ts.IBin(OIDiv, x.absInt(a), x.absInt(b))
	neg := ts.Not(ts.Cmp(OEq, ts.Cmp(OILt, a, ts.IntI(0)), ts.Cmp(OILt, b, ts.IntI(0))))
	return ts.Ite(neg, ts.IBin(OISub, ts.IntI(0), q), q)
}

func registerBig() {
	I := func(name string, f intrinsic) { intrinsics["(*math/big.Int)."+name] = f }
	bin := func(op Op) intrinsic {
		return func(x *Exec, fn *ssa.Function, a []Value) Value {
			_, p := x.bigCell(a[1])
			_, q := x.bigCell(a[2])
			return x.setBig(a[0], x.ts.IBin(op, p, q))
		}
	}
	intrinsics["math/big.NewInt"] = func(x *Exec, fn *ssa.Function, a []Value) Value {
		return x.newBig(x.ts.BV2Int(x.term(a[0]), true), nil)
	}
	I("Add", bin(OIAdd))
	I("Sub", bin(OISub))
	I("Mul", bin(OIMul))
	I("Set", func(x *Exec, fn *ssa.Function, a []Value) Value {
		_, p := x.bigCell(a[1])
		return x.setBig(a[0], p)
	})
	I("SetUint64", func(x *Exec, fn *ssa.Function, a []Value) Value {
		return x.setBig(a[0], x.ts.BV2Int(x.term(a[1]), false))
	})
	I("SetInt64", func(x *Exec, fn *ssa.Function, a []Value) Value {
		return x.setBig(a[0], x.ts.BV2Int(x.term(a[1]), true))
	})
	I("SetString", func(x *Exec, fn *ssa.Function, a []Value) Value {
		v, ok := new(big.Int).SetString(a[1].(string), x.constInt(a[2], "base"))
		if !ok {
			return Tuple{Ptr{}, x.ts.False}
		}
		return Tuple{x.setBig(a[0], x.ts.Int(v)), x.ts.True}
	})
	I("Neg", func(x *Exec, fn *ssa.Function, a []Value) Value {
		_, p := x.bigCell(a[1])
		return x.setBig(a[0], x.ts.IBin(OISub, x.ts.IntI(0), p))
	})
	I("Abs", func(x *Exec, fn *ssa.Function, a []Value) Value {
		_, p := x.bigCell(a[1])
		return x.setBig(a[0], x.absInt(p))
	})
	I("Quo", func(x *Exec, fn *ssa.Function, a []Value) Value {
		_, p := x.bigCell(a[1])
		_, q := x.bigCell(a[2])
		return x.setBig(a[0], x.quoInt(p, q))
	})
	I("Rem", func(x *Exec, fn *ssa.Function, a []Value) Value {
		_, p := x.bigCell(a[1])
		_, q := x.bigCell(a[2])
		return x.setBig(a[0], x.ts.IBin(OISub, p, x.ts.IBin(OIMul, q, x.quoInt(p, q))))
	})
	I("Div", func(x *Exec, fn *ssa.Function, a []Value) Value {
		_, p := x.bigCell(a[1])
		_, q := x.bigCell(a[2])
		if q.IsConst() && q.Big.Sign() == 0 {
			x.goPanic("division by zero")
		}
		return x.setBig(a[0], x.ts.IBin(OIDiv, p, q))
	})
	I("Mod", func(x *Exec, fn *ssa.Function, a []Value) Value {
		_, p := x.bigCell(a[1])
		_, q := x.bigCell(a[2])
		if q.IsConst() && q.Big.Sign() == 0 {
			x.goPanic("division by zero")
		}
		return x.setBig(a[0], x.ts.IBin(OIMod, p, q))
	})
	I("DivMod", func(x *Exec, fn *ssa.Function, a []Value) Value {
		_, p := x.bigCell(a[1])
		_, q := x.bigCell(a[2])
		d, m := x.ts.IBin(OIDiv, p, q), x.ts.IBin(OIMod, p, q)
		x.setBig(a[3], m)
		x.setBig(a[0], d)
		return Tuple{a[0], a[3]}
	})
	I("QuoRem", func(x *Exec, fn *ssa.Function, a []Value) Value {
		_, p := x.bigCell(a[1])
		_, q := x.bigCell(a[2])
		qq := x.quoInt(p, q)
		r := x.ts.IBin(OISub, p, x.ts.IBin(OIMul, q, qq))
		x.setBig(a[3], r)
		x.setBig(a[0], qq)
		return Tuple{a[0], a[3]}
	})
	I("Cmp", func(x *Exec, fn *ssa.Function, a []Value) Value {
		_, p := x.bigCell(a[0])
		_, q := x.bigCell(a[1])
		return x.cmpTerms(p, q)
	})
	I("CmpAbs", func(x *Exec, fn *ssa.Function, a []Value) Value {
		_, p := x.bigCell(a[0])
		_, q := x.bigCell(a[1])
		return x.cmpTerms(x.absInt(p), x.absInt(q))
	})
	I("Sign", func(x *Exec, fn *ssa.Function, a []Value) Value {
		_, p := x.bigCell(a[0])
		return x.signTerm(p)
	})
	I("Uint64", func(x *Exec, fn *ssa.Function, a []Value) Value {
		_, p := x.bigCell(a[0])
		return x.ts.Int2BV(x.absInt(p), 64)
	})
	I("Int64", func(x *Exec, fn *ssa.Function, a []Value) Value {
		_, p := x.bigCell(a[0])
		return x.ts.Int2BV(p, 64)
	})
	I("IsUint64", func(x *Exec, fn *ssa.Function, a []Value) Value {
		_, p := x.bigCell(a[0])
		return x.ts.And(x.ts.Cmp(OILe, x.ts.IntI(0), p), x.ts.Cmp(OILt, p, x.ts.Int(pow2(64))))
	})
	I("IsInt64", func(x *Exec, fn *ssa.Function, a []Value) Value {
		_, p := x.bigCell(a[0])
		return x.ts.And(x.ts.Cmp(OILe, x.ts.Int(new(big.Int).Neg(pow2(63))), p), x.ts.Cmp(OILt, p, x.ts.Int(pow2(63))))
	})
	I("BitLen", func(x *Exec, fn *ssa.Function, a []Value) Value {
		_, p := x.bigCell(a[0])
		if p.IsConst() {
			return x.ts.BV(uint64(p.Big.BitLen()), 64)
		}
		ab := x.absInt(p)
		r := x.ts.BV(0, 64)
		for k := uint(1); k <= 130; k++ {
			r = x.ts.Ite(x.ts.Cmp(OILe, x.ts.Int(pow2(k-1)), ab), x.ts.BV(uint64(k), 64), r)
		}
		return r
	})
	I("Bit", func(x *Exec, fn *ssa.Function, a []Value) Value {
		_, p := x.bigCell(a[0])
		i := x.constInt(a[1], "Bit index")
		if p.IsConst() {
			return x.ts.BV(uint64(p.Big.Bit(i)), 64)
		}
		sh := x.ts.IBin(OIDiv, p, x.ts.Int(pow2(uint(i))))
		return x.ts.Int2BV(x.ts.IBin(OIMod, sh, x.ts.IntI(2)), 64)
	})
	I("Lsh", func(x *Exec, fn *ssa.Function, a []Value) Value {
		_, p := x.bigCell(a[1])
		n := uint(x.constInt(a[2], "Lsh count"))
		return x.setBig(a[0], x.ts.IBin(OIMul, p, x.ts.Int(pow2(n))))
	})
	I("Rsh", func(x *Exec, fn *ssa.Function, a []Value) Value {
		_, p := x.bigCell(a[1])
		n := uint(x.constInt(a[2], "Rsh count"))
		return x.setBig(a[0], x.ts.IBin(OIDiv, p, x.ts.Int(pow2(n))))
	})
	conc := func(x *Exec, v Value, what string) *big.Int {
		_, p := x.bigCell(v)
		if !p.IsConst() {
			panic(x.errf("big.Int.%s on a symbolic value", what))
		}
		return new(big.Int).Set(p.Big)
	}
	I("Exp", func(x *Exec, fn *ssa.Function, a []Value) Value {
		b, e := conc(x, a[1], "Exp"), conc(x, a[2], "Exp")
		var m *big.Int
		if p, ok := a[3].(Ptr); ok && p.Obj != nil {
			m = conc(x, a[3], "Exp")
		}
		return x.setBig(a[0], x.ts.Int(new(big.Int).Exp(b, e, m)))
	})
	I("ModInverse", func(x *Exec, fn *ssa.Function, a []Value) Value {
		g, n := conc(x, a[1], "ModInverse"), conc(x, a[2], "ModInverse")
		r := new(big.Int).ModInverse(g, n)
		if r == nil {
			return Ptr{}
		}
		return x.setBig(a[0], x.ts.Int(r))
	})
	I("GCD", func(x *Exec, fn *ssa.Function, a []Value) Value {
		p, q := conc(x, a[3], "GCD"), conc(x, a[4], "GCD")
		xx, yy := new(big.Int), new(big.Int)
		g := new(big.Int).GCD(xx, yy, p, q)
		if pp, ok := a[1].(Ptr); ok && pp.Obj != nil {
			x.setBig(a[1], x.ts.Int(xx))
		}
		if pp, ok := a[2].(Ptr); ok && pp.Obj != nil {
			x.setBig(a[2], x.ts.Int(yy))
		}
		return x.setBig(a[0], x.ts.Int(g))
	})
	I("ProbablyPrime", func(x *Exec, fn *ssa.Function, a []Value) Value {
		return x.ts.Bool(conc(x, a[0], "ProbablyPrime").ProbablyPrime(x.constInt(a[1], "n")))
	})
	I("Sqrt", func(x *Exec, fn *ssa.Function, a []Value) Value {
		return x.setBig(a[0], x.ts.Int(new(big.Int).Sqrt(conc(x, a[1], "Sqrt"))))
	})
	I("String", func(x *Exec, fn *ssa.Function, a []Value) Value {
		_, p := x.bigCell(a[0])
		if p.IsConst() {
			return p.Big.String()
		}
		return "<symbolic big.Int>"
	})
	I("Text", func(x *Exec, fn *ssa.Function, a []Value) Value {
		return conc(x, a[0], "Text").Text(x.constInt(a[1], "base"))
	})
	I("And", func(x *Exec, fn *ssa.Function, a []Value) Value {
		_, p := x.bigCell(a[1])
		_, q := x.bigCell(a[2])
		if p.IsConst() && q.IsConst() {
			return x.setBig(a[0], x.ts.Int(new(big.Int).And(p.Big, q.Big)))
		}
		// x & (2^k-1) for non-negative x
		if q.IsConst() {
			m := new(big.Int).Add(q.Big, bigOne)
			if new(big.Int).And(m, q.Big).Sign() == 0 {
				return x.setBig(a[0], x.ts.IBin(OIMod, p, x.ts.Int(m)))
			}
		}
		panic(x.errf("big.Int.And on symbolic values"))
	})
	I("Bytes", func(x *Exec, fn *ssa.Function, a []Value) Value {
		b := conc(x, a[0], "Bytes").Bytes()
		s := x.makeSlice(types.Typ[types.Uint8], len(b), len(b), "big.Bytes")
		for i, v := range b {
			s.Obj.Cells[i] = x.ts.BV(uint64(v), 8)
		}
		return s
	})
	I("SetBytes", func(x *Exec, fn *ssa.Function, a []Value) Value {
		s := a[1].(Slice)
		b := make([]byte, s.Len)
		for i := range b {
			c := x.term(s.Obj.Cells[s.Off+i])
			if !c.IsConst() {
				panic(x.errf("big.Int.SetBytes on symbolic bytes"))
			}
			b[i] = byte(c.C)
		}
		return x.setBig(a[0], x.ts.Int(new(big.Int).SetBytes(b)))
	})

	// ---- big.Float as exact reals
	F := func(name string, f intrinsic) { intrinsics["(*math/big.Float)."+name] = f }
	fbin := func(op Op) intrinsic {
		return func(x *Exec, fn *ssa.Function, a []Value) Value {
			_, p := x.bigCell(a[1])
			_, q := x.bigCell(a[2])
			if op == ORDiv && q.IsConst() && q.Rat.Sign() == 0 {
				x.goPanic("big.Float division by zero")
			}
			return x.setBig(a[0], x.ts.RBin(op, p, q))
		}
	}
	// natural logarithm of a concrete big.Float (lattigo's bignum.Log wraps an arbitrary-precision library that works
	// on the representation of big.Float): host float64 approximation, -2^1000 standing for -Inf.  Only used by the
	// library for sanity comparisons of scales (Scale.InDelta), never for ciphertext values.
	intrinsics[lat+"/utils/bignum.Log"] = func(x *Exec, fn *ssa.Function, a []Value) Value {
		_, p := x.bigCell(a[0])
		if !p.IsConst() {
			panic(x.errf("bignum.Log of a symbolic value"))
		}
		r := new(big.Rat)
		switch p.Rat.Sign() {
		case 0:
			r.SetInt(new(big.Int).Neg(new(big.Int).Lsh(big.NewInt(1), 1000)))
		case -1:
			panic(x.errf("bignum.Log of a negative value"))
		default:
			f, _ := p.Rat.Float64()
			if f == 0 || math.IsInf(f, 0) {
				// outside float64: use the bit lengths
				n, d := p.Rat.Num().BitLen(), p.Rat.Denom().BitLen()
				r.SetFloat64(float64(n-d) * math.Ln2)
			} else {
				r.SetFloat64(math.Log(f))
			}
		}
		return x.newBig(x.ts.Real(r), nil)
	}
	intrinsics[lat+"/utils/bignum.Log2"] = func(x *Exec, fn *ssa.Function, a []Value) Value {
		r := new(big.Rat)
		r.SetFloat64(math.Ln2)
		return x.newBig(x.ts.Real(r), nil)
	}
	intrinsics["math/big.NewFloat"] = func(x *Exec, fn *ssa.Function, a []Value) Value {
		if rv, ok := a[0].(*RealV); ok { // the float64 value is a real number: exact
			return x.newBig(rv.T, nil)
		}
		f := a[0].(FloatV).F
		r := new(big.Rat)
		r.SetFloat64(f)
		return x.newBig(x.ts.Real(r), nil)
	}
	F("Add", fbin(ORAdd))
	F("Sub", fbin(ORSub))
	F("Mul", fbin(ORMul))
	F("Quo", fbin(ORDiv))
	ident := func(x *Exec, fn *ssa.Function, a []Value) Value { return a[0] }
	F("SetPrec", ident)
	F("SetMode", ident)
	F("Prec", func(x *Exec, fn *ssa.Function, a []Value) Value { return x.ts.BV(256, 64) })
	F("MinPrec", func(x *Exec, fn *ssa.Function, a []Value) Value { return x.ts.BV(64, 64) })
	F("Set", func(x *Exec, fn *ssa.Function, a []Value) Value {
		_, p := x.bigCell(a[1])
		return x.setBig(a[0], p)
	})
	F("Copy", func(x *Exec, fn *ssa.Function, a []Value) Value {
		_, p := x.bigCell(a[1])
		return x.setBig(a[0], p)
	})
	F("SetInt", func(x *Exec, fn *ssa.Function, a []Value) Value {
		_, p := x.bigCell(a[1])
		return x.setBig(a[0], x.ts.Int2Real(p))
	})
	F("SetUint64", func(x *Exec, fn *ssa.Function, a []Value) Value {
		return x.setBig(a[0], x.ts.Int2Real(x.ts.BV2Int(x.term(a[1]), false)))
	})
	F("SetInt64", func(x *Exec, fn *ssa.Function, a []Value) Value {
		return x.setBig(a[0], x.ts.Int2Real(x.ts.BV2Int(x.term(a[1]), true)))
	})
	F("SetFloat64", func(x *Exec, fn *ssa.Function, a []Value) Value {
		switch f := a[1].(type) {
		case FloatV:
			r := new(big.Rat)
			r.SetFloat64(f.F)
			return x.setBig(a[0], x.ts.Real(r))
		case *RealV:
			return x.setBig(a[0], f.T)
		}
		panic(x.errf("big.Float.SetFloat64(%T)", a[1]))
	})
	F("SetString", func(x *Exec, fn *ssa.Function, a []Value) Value {
		r, ok := new(big.Rat).SetString(a[1].(string))
		if !ok {
			return Tuple{Ptr{}, x.ts.False}
		}
		return Tuple{x.setBig(a[0], x.ts.Real(r)), x.ts.True}
	})
	F("Neg", func(x *Exec, fn *ssa.Function, a []Value) Value {
		_, p := x.bigCell(a[1])
		return x.setBig(a[0], x.ts.RBin(ORSub, x.ts.Real(new(big.Rat)), p))
	})
	F("Abs", func(x *Exec, fn *ssa.Function, a []Value) Value {
		_, p := x.bigCell(a[1])
		z := x.ts.Real(new(big.Rat))
		return x.setBig(a[0], x.ts.Ite(x.ts.Cmp(ORLt, p, z), x.ts.RBin(ORSub, z, p), p))
	})
	F("Cmp", func(x *Exec, fn *ssa.Function, a []Value) Value {
		_, p := x.bigCell(a[0])
		_, q := x.bigCell(a[1])
		return x.cmpTerms(p, q)
	})
	F("Sign", func(x *Exec, fn *ssa.Function, a []Value) Value {
		_, p := x.bigCell(a[0])
		return x.signTerm(p)
	})
	F("IsInt", func(x *Exec, fn *ssa.Function, a []Value) Value {
		_, p := x.bigCell(a[0])
		if p.IsConst() {
			return x.ts.Bool(p.Rat.IsInt())
		}
		return x.ts.Cmp(OEq, x.ts.Int2Real(x.ts.Floor(p)), p)
	})
	F("Int", func(x *Exec, fn *ssa.Function, a []Value) Value {
		_, p := x.bigCell(a[0])
		// truncation toward zero
		ts := x.ts
		z := ts.Real(new(big.Rat))
		fl := ts.Floor(p)
		negfl := ts.IBin(OISub, ts.IntI(0), ts.Floor(ts.RBin(ORSub, z, p)))
		tr := ts.Ite(ts.Cmp(ORLt, p, z), negfl, fl)
		var dst Value
		if pp, ok := a[1].(Ptr); ok && pp.Obj != nil {
			dst = x.setBig(a[1], tr)
		} else {
			dst = x.newBig(tr, nil)
		}
		return Tuple{dst, x.ts.BV(0, 8)}
	})
	F("Float64", func(x *Exec, fn *ssa.Function, a []Value) Value {
		_, p := x.bigCell(a[0])
		if p.IsConst() {
			f, _ := p.Rat.Float64()
			return Tuple{FloatV{f}, x.ts.BV(0, 8)}
		}
		return Tuple{&RealV{T: p}, x.ts.BV(0, 8)}
	})
	F("Uint64", func(x *Exec, fn *ssa.Function, a []Value) Value {
		_, p := x.bigCell(a[0])
		return Tuple{x.ts.Int2BV(x.ts.Floor(p), 64), x.ts.BV(0, 8)}
	})
	F("Int64", func(x *Exec, fn *ssa.Function, a []Value) Value {
		_, p := x.bigCell(a[0])
		return Tuple{x.ts.Int2BV(x.ts.Floor(p), 64), x.ts.BV(0, 8)}
	})
	F("Sqrt", func(x *Exec, fn *ssa.Function, a []Value) Value {
		_, p := x.bigCell(a[1])
		if !p.IsConst() {
			panic(x.errf("big.Float.Sqrt on a symbolic value"))
		}
		f := new(big.Float).SetPrec(256).SetRat(p.Rat)
		f.Sqrt(f)
		r, _ := f.Rat(nil)
		return x.setBig(a[0], x.ts.Real(r))
	})
	F("String", func(x *Exec, fn *ssa.Function, a []Value) Value {
		_, p := x.bigCell(a[0])
		if p.IsConst() {
			return p.Rat.FloatString(10)
		}
		return "<symbolic big.Float>"
	})
	F("Text", func(x *Exec, fn *ssa.Function, a []Value) Value {
		_, p := x.bigCell(a[0])
		if p.IsConst() {
			f := new(big.Float).SetPrec(256).SetRat(p.Rat)
			return f.Text(byte(x.constInt(a[1], "fmt")), x.constInt(a[2], "prec"))
		}
		return "<symbolic big.Float>"
	})
}

// RealV is a symbolic float64.  T denotes the float64 value itself (a real-sorted term): every conversion or operation
// that can round contributes its own fresh real variable e with |e| <= u·Mag (u = 2^-53 unit round-off, Mag a concrete
// bound on the magnitude), so repeated uses of one float value see one value.  Only non-negative values built from
// unsigned integers, +, and * or / by positive constants are supported; anything else is an engine error
// (inconclusive), never a silent real relaxation.  Subnormals/overflow are outside the model (all magnitudes here are
// far from both).  Err == nil marks a value derived from a big.Float (exact real; no float64 arithmetic allowed).
type RealV struct {
	T        *Term
	Err, Mag *big.Rat
	// GridOK: the value is statically known to be an integer multiple of 2^Grid (so that a sum or difference of two
	// such values below 2^(Grid+53) in magnitude is representable and the float operation is exact).
	Grid   int
	GridOK bool
	// Sign: +1 statically non-negative, -1 statically non-positive, 0 unknown.
	Sign int
}

// floatGrid returns e with f = m·2^e, m an odd integer (a large e for 0), and whether |f| is a power of two.
func floatGrid(f float64) (int, bool) {
	if f == 0 {
		return 1 << 20, false
	}
	fr, e := math.Frexp(math.Abs(f)) // |f| = fr·2^e, fr in [0.5, 1)
	m := uint64(fr * (1 << 53))       // 53-bit integer mantissa
	e -= 53
	tz := 0
	for m&1 == 0 {
		m >>= 1
		tz++
	}
	return e + tz, m == 1
}

var fpUnit = new(big.Rat).SetFrac(big.NewInt(1), new(big.Int).Lsh(big.NewInt(1), 53))

// fpRound returns t + e for a fresh e with |e| <= u*mag.
func (x *Exec) fpRound(t *Term, mag *big.Rat) *Term {
	x.fpErrN++
	e := x.ts.Var(fmt.Sprintf("fperr%d", x.fpErrN), SReal, 0)
	b := new(big.Rat).Mul(fpUnit, mag)
	x.path = append(x.path, x.ts.Cmp(ORLe, x.ts.Real(new(big.Rat).Neg(b)), e), x.ts.Cmp(ORLe, e, x.ts.Real(b)))
	return x.ts.RBin(ORAdd, t, e)
}

func (x *Exec) symIntToFloat(t *Term, signed bool) Value {
	if signed {
		panic(x.errf("float64(symbolic signed integer) is not modelled"))
	}
	_, ihi := x.ts.Interval(t)
	hi := new(big.Rat).SetInt(ihi)
	v := x.ts.Int2Real(x.ts.BV2Int(t, false))
	exact := true
	if hi.Cmp(new(big.Rat).SetInt(new(big.Int).Lsh(big.NewInt(1), 53))) > 0 {
		v = x.fpRound(v, hi)
		exact = false
	}
	return &RealV{T: v, Err: new(big.Rat), Mag: hi, Grid: 0, GridOK: exact, Sign: 1}
}

func (x *Exec) floatAsReal(v Value) *RealV {
	switch t := v.(type) {
	case *RealV:
		if t.Err == nil {
			panic(x.errf("float64 arithmetic on a big.Float-derived symbolic value is not modelled"))
		}
		return t
	case FloatV:
		if math.IsNaN(t.F) || math.IsInf(t.F, 0) {
			panic(x.errf("symbolic float arithmetic with non-finite constant %v is not modelled", t.F))
		}
		r := new(big.Rat)
		r.SetFloat64(t.F)
		g, _ := floatGrid(t.F)
		sg := 1
		if t.F < 0 {
			sg = -1
		}
		return &RealV{T: x.ts.Real(r), Err: new(big.Rat), Mag: new(big.Rat).Abs(r), Grid: g, GridOK: true, Sign: sg}
	}
	panic(x.errf("float operand %T", v))
}

var fpSlack = new(big.Rat).SetFrac(big.NewInt(1<<20+1), big.NewInt(1<<20)) // magnitudes are inflated to cover operand errors

// realBinop models one float64 operation on symbolic operands.
func (x *Exec) realBinop(op token.Token, a, b Value) Value {
	ra, rb := x.floatAsReal(a), x.floatAsReal(b)
	switch op {
	case token.LSS:
		return x.ts.Cmp(ORLt, ra.T, rb.T)
	case token.LEQ:
		return x.ts.Cmp(ORLe, ra.T, rb.T)
	case token.GTR:
		return x.ts.Cmp(ORLt, rb.T, ra.T)
	case token.GEQ:
		return x.ts.Cmp(ORLe, rb.T, ra.T)
	case token.EQL:
		return x.ts.And(x.ts.Cmp(ORLe, ra.T, rb.T), x.ts.Cmp(ORLe, rb.T, ra.T))
	case token.NEQ:
		return x.ts.Not(x.ts.And(x.ts.Cmp(ORLe, ra.T, rb.T), x.ts.Cmp(ORLe, rb.T, ra.T)))
	}
	var t *Term
	var mag *big.Rat
	switch op {
	case token.ADD, token.SUB:
		if op == token.ADD {
			t = x.ts.RBin(ORAdd, ra.T, rb.T)
		} else {
			t = x.ts.RBin(ORSub, ra.T, rb.T)
		}
		mag = new(big.Rat).Add(ra.Mag, rb.Mag)
		if ra.GridOK && rb.GridOK {
			// both operands on the grid 2^g, |result| <= mag < 2^(g+53): the exact result is representable
			g := ra.Grid
			if rb.Grid < g {
				g = rb.Grid
			}
			lim := new(big.Rat).SetInt(new(big.Int).Lsh(big.NewInt(1), 53))
			if g >= 0 {
				lim.Mul(lim, new(big.Rat).SetInt(new(big.Int).Lsh(big.NewInt(1), uint(g))))
			} else {
				lim.Quo(lim, new(big.Rat).SetInt(new(big.Int).Lsh(big.NewInt(1), uint(-g))))
			}
			if g > -1000 && g < 1000 && mag.Cmp(lim) < 0 {
				sg := 0
				sb := rb.Sign
				if op == token.SUB {
					sb = -sb
				}
				if ra.Sign == sb {
					sg = sb
				}
				return &RealV{T: t, Err: new(big.Rat), Mag: mag, Grid: g, GridOK: true, Sign: sg}
			}
		}
	case token.MUL, token.QUO:
		// multiplication / division by a constant power of two (either sign) is exact (magnitudes are far from
		// overflow and underflow)
		if cb, ok := b.(FloatV); ok && cb.F != 0 {
			if g, pow2 := floatGrid(cb.F); pow2 && g > -500 && g < 500 {
				rop, shift := ORMul, g
				if op == token.QUO {
					rop, shift = ORDiv, -g
				}
				return &RealV{T: x.ts.RBin(rop, ra.T, rb.T), Err: new(big.Rat), Mag: new(big.Rat).Mul(ra.Mag, ratPow2(shift)), Grid: ra.Grid + shift, GridOK: ra.GridOK, Sign: ra.Sign * rb.Sign}
			}
		}
		if ca, ok := a.(FloatV); ok && op == token.MUL && ca.F != 0 {
			if g, pow2 := floatGrid(ca.F); pow2 && g > -500 && g < 500 {
				return &RealV{T: x.ts.RBin(ORMul, ra.T, rb.T), Err: new(big.Rat), Mag: new(big.Rat).Mul(rb.Mag, ratPow2(g)), Grid: rb.Grid + g, GridOK: rb.GridOK, Sign: ra.Sign * rb.Sign}
			}
		}
		_, bc := b.(FloatV)
		_, ac := a.(FloatV)
		if !bc && !(ac && op == token.MUL) {
			panic(x.errf("symbolic float %s symbolic float is not modelled", op))
		}
		if op == token.QUO {
			if rb.Mag.Sign() == 0 {
				panic(x.errf("symbolic float division by zero constant"))
			}
			t = x.ts.RBin(ORDiv, ra.T, rb.T)
			mag = new(big.Rat).Mul(ra.Mag, new(big.Rat).Inv(rb.Mag))
		} else {
			t = x.ts.RBin(ORMul, ra.T, rb.T)
			mag = new(big.Rat).Mul(ra.Mag, rb.Mag)
		}
	default:
		panic(x.errf("symbolic float operation %s is not modelled", op))
	}
	mag.Mul(mag, fpSlack)
	// (rounding to nearest keeps the sign)
	sg := 0
	switch op {
	case token.ADD:
		if ra.Sign == rb.Sign {
			sg = ra.Sign
		}
	case token.SUB:
		if ra.Sign == -rb.Sign {
			sg = ra.Sign
		}
	case token.MUL, token.QUO:
		sg = ra.Sign * rb.Sign
	}
	return &RealV{T: x.fpRound(t, mag), Err: new(big.Rat), Mag: mag, Sign: sg}
}

func (x *Exec) convertReal(r *RealV, to types.Type) Value {
	if isFloatT(to) {
		if b, ok := to.Underlying().(*types.Basic); ok && b.Kind() == types.Float32 {
			panic(x.errf("float32 conversion of symbolic float is not modelled"))
		}
		return r
	}
	if isIntT(to) {
		// truncation towards zero: floor for a non-negative value, -floor(-v) for a negative one
		if r.Sign > 0 || r.Err == nil {
			if r.Err != nil {
				// a fact, not an assumption: rounding to nearest keeps the sign, so the float value is non-negative
				// although the real term with its error variables could dip below zero
				x.path = append(x.path, x.ts.Cmp(ORLe, x.ts.Real(new(big.Rat)), r.T))
			}
			return x.ts.Int2BV(x.ts.Floor(r.T), intWidth(to))
		}
		z := x.ts.Real(new(big.Rat))
		negfl := x.ts.IBin(OISub, x.ts.IntI(0), x.ts.Floor(x.ts.RBin(ORSub, z, r.T)))
		return x.ts.Int2BV(x.ts.Ite(x.ts.Cmp(ORLt, r.T, z), negfl, x.ts.Floor(r.T)), intWidth(to))
	}
	panic(x.errf("convert real to %s", to))
}

func ratPow2(e int) *big.Rat {
	p := new(big.Rat).SetInt(new(big.Int).Lsh(big.NewInt(1), uint(abs(e))))
	if e < 0 {
		p.Inv(p)
	}
	return p
}

func abs(a int) int {
	if a < 0 {
		return -a
	}
	return a
}

// SymString is a string with symbolic bytes (rare; only produced by string([]byte) on symbolic data).
type SymString struct{ S Slice }

func (x *Exec) symString(s Slice) Value { return &SymString{s} }
