package symgo

// heapwalk.go: reachability over the engine heap, snapshots and write sets (copy-independence harnesses, C10).

import (
	"fmt"
	"go/types"
	"sort"

	"golang.org/x/tools/go/ssa"
)

type heapSet struct {
	objs map[*Object]bool
	maps map[*MapObj]bool
}

func newHeapSet() *heapSet { return &heapSet{objs: map[*Object]bool{}, maps: map[*MapObj]bool{}} }

// reach adds everything reachable from v.
func (h *heapSet) reach(v Value) {
	switch t := v.(type) {
	case Ptr:
		h.obj(t.Obj)
	case Slice:
		h.obj(t.Obj)
	case Agg:
		for _, c := range t.Cells {
			h.reach(c)
		}
	case *Agg:
		if t != nil {
			for _, c := range t.Cells {
				h.reach(c)
			}
		}
	case Tuple:
		for _, c := range t {
			h.reach(c)
		}
	case Iface:
		h.reach(t.V)
	case *Iface:
		if t != nil {
			h.reach(t.V)
		}
	case *Closure:
		if t != nil {
			for _, b := range t.Bindings {
				h.reach(b)
			}
		}
	case *MapObj:
		if t != nil && !h.maps[t] {
			h.maps[t] = true
			for _, k := range t.keys {
				h.reach(k)
			}
			for _, c := range t.vals {
				h.reach(c)
			}
		}
	}
}

func (h *heapSet) obj(o *Object) {
	if o == nil || h.objs[o] {
		return
	}
	h.objs[o] = true
	for _, c := range o.Cells {
		h.reach(c)
	}
}

type heapSnap struct {
	objs []*Object
	cell [][]Value
	maps []*MapObj
	mk   [][]Value
	mv   [][]Value
}

func (x *Exec) snapshot(v Value) *heapSnap {
	h := newHeapSet()
	h.reach(v)
	s := &heapSnap{}
	for o := range h.objs {
		s.objs = append(s.objs, o)
	}
	sort.Slice(s.objs, func(i, j int) bool { return s.objs[i].ID < s.objs[j].ID })
	for _, o := range s.objs {
		s.cell = append(s.cell, append([]Value(nil), o.Cells...))
	}
	for m := range h.maps {
		s.maps = append(s.maps, m)
	}
	sort.Slice(s.maps, func(i, j int) bool { return s.maps[i].ID < s.maps[j].ID })
	for _, m := range s.maps {
		s.mk = append(s.mk, append([]Value(nil), m.keys...))
		s.mv = append(s.mv, append([]Value(nil), m.vals...))
	}
	return s
}

// sameValue decides / states equality of two cell values; returns (decided, equal, condition).
func (x *Exec) sameValue(a, b Value) (bool, bool, *Term) {
	if a == nil && b == nil {
		return true, true, nil
	}
	switch ta := a.(type) {
	case *Term:
		if tb, ok := b.(*Term); ok {
			if ta == tb {
				return true, true, nil
			}
			if ta.Sort == tb.Sort && ta.W == tb.W {
				c := x.ts.Cmp(OEq, ta, tb)
				if c.IsConst() {
					return true, c.IsTrue(), nil
				}
				return false, false, c
			}
		}
		return true, false, nil
	case *FE:
		if tb, ok := b.(*FE); ok {
			if ta == tb || (ta.P.q == tb.P.q && ta.P.equal(tb.P)) {
				return true, true, nil
			}
		}
		return true, false, nil
	case Ptr:
		tb, ok := b.(Ptr)
		return true, ok && ta == tb, nil
	case Slice:
		tb, ok := b.(Slice)
		return true, ok && ta == tb, nil
	case FloatV:
		tb, ok := b.(FloatV)
		return true, ok && ta == tb, nil
	case string:
		tb, ok := b.(string)
		return true, ok && ta == tb, nil
	case *MapObj:
		tb, ok := b.(*MapObj)
		return true, ok && ta == tb, nil
	case Agg:
		tb, ok := b.(Agg)
		if !ok || len(ta.Cells) != len(tb.Cells) {
			return true, false, nil
		}
		for i := range ta.Cells {
			d, eq, _ := x.sameValue(ta.Cells[i], tb.Cells[i])
			if !d || !eq {
				return d, false, nil
			}
		}
		return true, true, nil
	case Iface:
		tb, ok := b.(Iface)
		if !ok {
			return true, false, nil
		}
		return x.sameValue(ta.V, tb.V)
	}
	// closures, opaque natives, ...: identity
	defer func() { recover() }()
	return true, a == b, nil
}

func registerHeapPrelude() {
	P := preludeFns
	P["vSnapshot"] = func(x *Exec, fn *ssa.Function, a []Value) Value {
		x.snaps = append(x.snaps, x.snapshot(a[0]))
		return x.ts.BV(uint64(len(x.snaps)-1), 64)
	}
	// vAssertUnchanged(snap, id): every object and map reachable at snapshot time holds the same values now
	P["vAssertUnchanged"] = func(x *Exec, fn *ssa.Function, a []Value) Value {
		s := x.snaps[x.constInt(a[0], "snapshot id")]
		id := a[1].(string)
		bad := ""
		var conds []*Term
		for i, o := range s.objs {
			for j, old := range s.cell[i] {
				if j >= len(o.Cells) {
					break
				}
				d, eq, c := x.sameValue(old, o.Cells[j])
				if d && !eq && bad == "" {
					bad = fmt.Sprintf("object #%d %q cell %d changed: %s -> %s", o.ID, o.Label, j, describe(old), describe(o.Cells[j]))
				}
				if !d && c != nil {
					conds = append(conds, c)
				}
			}
		}
		for i, m := range s.maps {
			if len(m.keys) != len(s.mk[i]) {
				if bad == "" {
					bad = fmt.Sprintf("map #%d changed size %d -> %d", m.ID, len(s.mk[i]), len(m.keys))
				}
				continue
			}
			for j := range m.vals {
				d, eq, c := x.sameValue(s.mv[i][j], m.vals[j])
				if d && !eq && bad == "" {
					bad = fmt.Sprintf("map #%d entry %d changed", m.ID, j)
				}
				if !d && c != nil {
					conds = append(conds, c)
				}
			}
		}
		if bad != "" {
			x.addObligation(&Obligation{ID: id, Kind: "assert", Cond: x.ts.False, Where: bad})
			return nil
		}
		cond := x.ts.True
		for _, c := range conds {
			cond = x.ts.And(cond, c)
		}
		x.addObligation(&Obligation{ID: id, Kind: "assert", Cond: cond})
		return nil
	}
	P["vWritesBegin"] = func(x *Exec, fn *ssa.Function, a []Value) Value {
		x.writeLog = map[*Object]bool{}
		x.writeLogMaps = map[*MapObj]bool{}
		return nil
	}
	P["vWritesEnd"] = func(x *Exec, fn *ssa.Function, a []Value) Value {
		x.wsets = append(x.wsets, &heapSet{objs: x.writeLog, maps: x.writeLogMaps})
		x.writeLog, x.writeLogMaps = nil, nil
		return x.ts.BV(uint64(len(x.wsets)-1), 64)
	}
	// vAssertNotWritten(ws, root, id): nothing reachable from root was written during the recorded window
	// (engine-only separation obligation: sufficient for race freedom of "one copy per goroutine")
	P["vAssertNotWritten"] = func(x *Exec, fn *ssa.Function, a []Value) Value {
		ws := x.wsets[x.constInt(a[0], "write set id")]
		h := newHeapSet()
		h.reach(a[1])
		bad := ""
		for o := range ws.objs {
			if h.objs[o] && bad == "" {
				bad = fmt.Sprintf("object #%d %q (%v) written during the operation is reachable from the other party", o.ID, o.Label, o.Typ)
			}
		}
		for m := range ws.maps {
			if h.maps[m] && bad == "" {
				bad = fmt.Sprintf("map #%d (%v -> %v) written during the operation is reachable from the other party", m.ID, m.KT, m.VT)
			}
		}
		c := x.ts.True
		if bad != "" {
			c = x.ts.False
		}
		x.addObligation(&Obligation{ID: a[2].(string), Kind: "separation", Cond: c, Where: bad})
		return nil
	}
}

// deepEqual compares two object graphs structurally (isomorphism following pointers, slices, maps).  Undecided
// scalar comparisons are collected in conds; the first decided difference is described in *bad.
func (x *Exec) deepEqual(a, b Value, seen map[[2]interface{}]bool, conds *[]*Term, bad *string, path string) {
	if *bad != "" {
		return
	}
	fail := func(msg string) {
		if *bad == "" {
			*bad = path + ": " + msg
		}
	}
	cells := func(oa *Object, offA int, ob *Object, offB int, n int) {
		for i := 0; i < n; i++ {
			if offA+i >= len(oa.Cells) || offB+i >= len(ob.Cells) {
				fail("object size differs")
				return
			}
			x.deepEqual(oa.Cells[offA+i], ob.Cells[offB+i], seen, conds, bad, fmt.Sprintf("%s.%d", path, i))
		}
	}
	switch ta := a.(type) {
	case Ptr:
		tb, ok := b.(Ptr)
		if !ok {
			fail("kind differs")
			return
		}
		if ta.Obj == nil || tb.Obj == nil {
			if ta.Obj != tb.Obj {
				fail("nil vs non-nil pointer")
			}
			return
		}
		key := [2]interface{}{ta.Obj, tb.Obj}
		if seen[key] {
			return
		}
		seen[key] = true
		if ta.Off != tb.Off || len(ta.Obj.Cells) != len(tb.Obj.Cells) {
			fail("pointer target shape differs")
			return
		}
		cells(ta.Obj, 0, tb.Obj, 0, len(ta.Obj.Cells))
	case Slice:
		tb, ok := b.(Slice)
		if !ok {
			fail("kind differs")
			return
		}
		if ta.Len != tb.Len { // a nil and an empty slice behave alike: not distinguished
			fail(fmt.Sprintf("slice length / nil-ness differs (%d,%v) vs (%d,%v)", ta.Len, ta.IsNil(), tb.Len, tb.IsNil()))
			return
		}
		if ta.Obj == nil || ta.Len == 0 {
			return
		}
		cells(ta.Obj, ta.Off, tb.Obj, tb.Off, ta.Len*ta.ESz)
	case Agg:
		tb, ok := b.(Agg)
		if !ok || len(ta.Cells) != len(tb.Cells) {
			fail("aggregate shape differs")
			return
		}
		for i := range ta.Cells {
			x.deepEqual(ta.Cells[i], tb.Cells[i], seen, conds, bad, fmt.Sprintf("%s.%d", path, i))
		}
	case Iface:
		tb, ok := b.(Iface)
		if !ok {
			fail("kind differs")
			return
		}
		if (ta.T == nil) != (tb.T == nil) || (ta.T != nil && ta.T.String() != tb.T.String()) {
			fail("dynamic type differs")
			return
		}
		x.deepEqual(ta.V, tb.V, seen, conds, bad, path+".(iface)")
	case *MapObj:
		tb, ok := b.(*MapObj)
		if !ok || (ta == nil) != (tb == nil) {
			fail("map nil-ness differs")
			return
		}
		if ta == nil {
			return
		}
		if ta.Len() != tb.Len() {
			fail("map size differs")
			return
		}
		for i, k := range ta.keys {
			ks := x.mapKeyString(k)
			j, ok := tb.idx[ks]
			if !ok {
				fail("map key " + ks + " missing")
				return
			}
			x.deepEqual(ta.vals[i], tb.vals[j], seen, conds, bad, path+"["+ks+"]")
		}
	case *Closure:
		// functions are not compared
	default:
		if a == nil && b == nil {
			return
		}
		d, eq, c := x.sameValue(a, b)
		if d && !eq {
			fail(fmt.Sprintf("%s vs %s", describe(a), describe(b)))
		}
		if !d && c != nil {
			*conds = append(*conds, c)
		}
	}
}

// fieldByName navigates into a struct value (through pointers and interfaces) and returns the cells of the named
// field (searching embedded structs); ok=false if not found.
func (x *Exec) fieldByName(v Value, t types.Type, name string) (Value, types.Type, bool) {
	for depth := 0; depth < 8; depth++ {
		switch tv := v.(type) {
		case Iface:
			if tv.T == nil {
				return nil, nil, false
			}
			v, t = tv.V, tv.T
			continue
		case Ptr:
			pt, ok := t.Underlying().(*types.Pointer)
			if !ok || tv.Obj == nil {
				return nil, nil, false
			}
			v, t = x.Load(tv, pt.Elem()), pt.Elem()
			continue
		}
		break
	}
	st, ok := t.Underlying().(*types.Struct)
	if !ok {
		return nil, nil, false
	}
	agg, ok := v.(Agg)
	if !ok {
		return nil, nil, false
	}
	for i := 0; i < st.NumFields(); i++ {
		f := st.Field(i)
		off := x.lay.FieldOff(st, i)
		n := x.lay.Cells(f.Type())
		var fv Value
		if isAggT(f.Type()) {
			fv = Agg{append([]Value(nil), agg.Cells[off:off+n]...)}
		} else {
			fv = agg.Cells[off]
		}
		if f.Name() == name {
			return fv, f.Type(), true
		}
		if f.Embedded() {
			if r, rt, ok := x.fieldByName(fv, f.Type(), name); ok {
				return r, rt, true
			}
		}
	}
	return nil, nil, false
}

func registerHeapPrelude2() {
	// vAssertSameField(a, b, field, id): the named (possibly unexported, possibly embedded) field of the two objects
	// holds structurally equal values
	preludeFns["vAssertSameField"] = func(x *Exec, fn *ssa.Function, a []Value) Value {
		ia, oka := a[0].(Iface)
		ib, okb := a[1].(Iface)
		name, id := a[2].(string), a[3].(string)
		if !oka || !okb {
			panic(x.errf("vAssertSameField: interface arguments expected"))
		}
		fa, _, ok1 := x.fieldByName(ia, nil, name)
		fb, _, ok2 := x.fieldByName(ib, nil, name)
		if !ok1 || !ok2 {
			x.addObligation(&Obligation{ID: id, Kind: "assert", Cond: x.ts.False, Where: "field " + name + " not found"})
			return nil
		}
		var conds []*Term
		bad := ""
		x.deepEqual(fa, fb, map[[2]interface{}]bool{}, &conds, &bad, name)
		if bad != "" {
			x.addObligation(&Obligation{ID: id, Kind: "assert", Cond: x.ts.False, Where: bad})
			return nil
		}
		cond := x.ts.True
		for _, c := range conds {
			cond = x.ts.And(cond, c)
		}
		x.addObligation(&Obligation{ID: id, Kind: "assert", Cond: cond})
		return nil
	}
	// vUniCoeffs(v, n): v is a field element that is, up to noise terms, a univariate polynomial of degree < n in ONE atom: returns its n
	// concrete coefficients (reduced); nil if v involves several atoms or a higher degree.  A concrete v is a constant.
	preludeFns["vUniCoeffs"] = func(x *Exec, fn *ssa.Function, a []Value) Value {
		n := x.constInt(a[1], "vUniCoeffs degree bound")
		et := types.Typ[types.Uint64]
		res := make([]uint64, n)
		switch v := a[0].(type) {
		case *Term:
			if !v.IsConst() {
				return Slice{}
			}
			res[0] = v.C
		case *FE:
			atom := -1
			// noise terms (error / rounding atoms, as in vAssertNoiseFreeMod) are not part of the polynomial
			for k, c := range x.dropClasses(v.P, ClsError, ClsRounding).terms {
				ids := monoIDs(monoStr(k))
				for _, id := range ids {
					if atom == -1 {
						atom = id
					}
					if id != atom {
						return Slice{}
					}
				}
				if len(ids) >= n {
					return Slice{}
				}
				res[len(ids)] = c % v.P.q
			}
		default:
			return Slice{}
		}
		s := x.makeSlice(et, n, n, "vUniCoeffs")
		for i, c := range res {
			s.Obj.Cells[s.Off+i] = x.ts.BV(c, 64)
		}
		return s
	}
	preludeFns["vAssertDeepEqual"] = func(x *Exec, fn *ssa.Function, a []Value) Value {
		var conds []*Term
		bad := ""
		va, vb := a[0], a[1]
		if ia, ok := va.(Iface); ok {
			va = ia.V
		}
		if ib, ok := vb.(Iface); ok {
			vb = ib.V
		}
		x.deepEqual(va, vb, map[[2]interface{}]bool{}, &conds, &bad, "root")
		if bad != "" {
			x.addObligation(&Obligation{ID: a[2].(string), Kind: "assert", Cond: x.ts.False, Where: bad})
			return nil
		}
		cond := x.ts.True
		for _, c := range conds {
			cond = x.ts.And(cond, c)
		}
		x.addObligation(&Obligation{ID: a[2].(string), Kind: "assert", Cond: cond})
		return nil
	}
}
