package symgo

// smt_modq.go: INT back end, exact modular arithmetic on Int-sorted specification terms.
//
// (mod E q) and (div E c) with a positive constant modulus are lowered from a linear form of E over SMT atoms.
// Inside (mod · q): an atom that is itself (mod F q) is replaced by F, K·(div F c) with c | K is replaced by
// (K/c)·(F − (mod F c)), and all coefficients are reduced to their least absolute residue modulo q.  These are exact
// identities of integer arithmetic on the concrete constants of the code (e.g. qL·qL^-1 ≡ 1 mod q_i); they add no
// assumption and spare the solver the search for a modular inverse, which LIA cuts do not find for 60-bit moduli.

import (
	"fmt"
	"math/big"
)

type hiRec struct {
	x  *lin
	lo string
	k  uint
}

type modRec struct {
	f *lin
	q *big.Int
}

// IL returns the exact linear form of an Int-sorted term.
func (l *Lowerer) IL(t *Term) *lin {
	r := newLin()
	switch t.Op {
	case OConst:
		r.k.Set(t.Big)
		return r
	case OIAdd, OISub:
		r.addLin(l.IL(t.A[0]), bigOne)
		if t.Op == OIAdd {
			r.addLin(l.IL(t.A[1]), bigOne)
		} else {
			r.addLin(l.IL(t.A[1]), big.NewInt(-1))
		}
		return r
	case OINeg:
		r.addLin(l.IL(t.A[0]), big.NewInt(-1))
		return r
	case OIMul:
		if t.A[0].IsConst() {
			r.addLin(l.IL(t.A[1]), t.A[0].Big)
			return r
		}
		if t.A[1].IsConst() {
			r.addLin(l.IL(t.A[0]), t.A[1].Big)
			return r
		}
	case OBV2Int:
		u := t.A[0]
		save := l.minCtx
		lf, lo, hi := l.U(u)
		l.minCtx = save
		if lo.Sign() >= 0 && hi.Cmp(maxOfW(u.W)) <= 0 {
			return lf
		}
	}
	r.addAtom(l.T(t), bigOne)
	return r
}

func (a *lin) liveAtoms() int {
	n := 0
	for _, c := range a.terms {
		if c.Sign() != 0 {
			n++
		}
	}
	return n
}

// namedAtom emits expr as a define-fun (once) so that the same expression always is the same atom.
func (l *Lowerer) namedAtom(expr, sort string) string {
	if n, ok := l.atomName[expr]; ok {
		return n
	}
	l.n++
	name := fmt.Sprintf("m!%d", l.n)
	l.decls = append(l.decls, fmt.Sprintf("(define-fun %s () %s %s)", name, sort, expr))
	l.atomName[expr] = name
	return name
}

// expandDivs rewrites K·(div F c), c | K, into (K/c)·(F − (mod F c)).
func (l *Lowerer) expandDivs(a *lin) (*lin, bool) {
	changed := false
	r := newLin()
	r.k.Set(a.k)
	for _, n := range a.order {
		c := a.terms[n]
		if c.Sign() == 0 {
			continue
		}
		if rec, ok := l.hiAtoms[n]; ok {
			// c·H with 2^k | c, X = H·2^k + L:  c·H = (c/2^k)·(X − L)
			m := pow2(rec.k)
			if new(big.Int).Mod(c, m).Sign() == 0 {
				k := new(big.Int).Quo(c, m)
				r.addLin(rec.x, k)
				r.addAtom(rec.lo, new(big.Int).Neg(k))
				changed = true
				continue
			}
		}
		if rec, ok := l.divAtoms[n]; ok {
			if m := new(big.Int).Mod(c, rec.q); m.Sign() == 0 {
				k := new(big.Int).Quo(c, rec.q)
				r.addLin(rec.f, k)
				r.addAtom(l.modAtom(rec.f, rec.q), new(big.Int).Neg(k))
				changed = true
				continue
			}
		}
		r.addAtom(n, c)
	}
	return r, changed
}

// normMod normalises a linear form modulo q (see the file comment).
func (l *Lowerer) normMod(a *lin, q *big.Int) *lin {
	cur := a
	for depth := 0; depth < 32; depth++ {
		nx, ch := l.expandDivs(cur)
		r := newLin()
		r.k.Set(nx.k)
		for _, n := range nx.order {
			c := nx.terms[n]
			if c.Sign() == 0 {
				continue
			}
			if rec, ok := l.modAtoms[n]; ok && new(big.Int).Mod(rec.q, q).Sign() == 0 { // (mod F q'), q | q'
				r.addLin(rec.f, c)
				ch = true
				continue
			}
			r.addAtom(n, c)
		}
		cur = r
		if !ch {
			break
		}
	}
	half := new(big.Int).Rsh(q, 1)
	red := func(c *big.Int) *big.Int {
		x := new(big.Int).Mod(c, q)
		if x.Cmp(half) > 0 {
			x.Sub(x, q)
		}
		return x
	}
	r := newLin()
	for _, n := range cur.order {
		if c := red(cur.terms[n]); c.Sign() != 0 {
			r.addAtom(n, c)
		}
	}
	r.k = new(big.Int).Mod(cur.k, q)
	return r
}

// modAtom returns the atom for (mod f q), f an exact linear form.
func (l *Lowerer) modAtom(f *lin, q *big.Int) string {
	nf := l.normMod(f, q)
	if nf.liveAtoms() == 0 {
		return sInt(new(big.Int).Mod(nf.k, q))
	}
	expr := "(mod " + nf.render() + " " + q.String() + ")"
	name := l.namedAtom(expr, "Int")
	if _, ok := l.modAtoms[name]; !ok {
		l.modAtoms[name] = modRec{nf, q}
		l.atomIv[name] = [2]*big.Int{bigZero, new(big.Int).Sub(q, bigOne)}
	}
	return name
}

func (l *Lowerer) divAtom(f *lin, c *big.Int) string {
	nf, _ := l.expandDivs(f)
	if nf.liveAtoms() == 0 {
		d, m := new(big.Int), new(big.Int)
		d.DivMod(nf.k, c, m)
		return sInt(d)
	}
	expr := "(div " + nf.render() + " " + c.String() + ")"
	name := l.namedAtom(expr, "Int")
	if _, ok := l.divAtoms[name]; !ok {
		l.divAtoms[name] = modRec{nf, c}
	}
	return name
}

// lowerIModDiv lowers (mod E q) / (div E q) for a positive constant q in the INT back end.
func (l *Lowerer) lowerIModDiv(t *Term) string {
	q := t.A[1].Big
	f := l.IL(t.A[0])
	if t.Op == OIMod {
		return l.modAtom(f, q)
	}
	return l.divAtom(f, q)
}
