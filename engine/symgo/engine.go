package symgo

// engine.go: program loading (go/packages with the harness overlay, SSA construction) and engine-wide options.

import (
	"encoding/json"
	"fmt"
	"go/types"
	"os"
	"sort"
	"strings"
	"sync"
	"sync/atomic"
	"time"

	"golang.org/x/tools/go/packages"
	"golang.org/x/tools/go/ssa"
	"golang.org/x/tools/go/ssa/ssautil"
)

type Engine struct {
	Prog       *ssa.Program
	Pkgs       map[string]*ssa.Package // by import path
	TPkgs      map[string]*types.Package
	ModulePath string
	RepoDir    string
	LoadSecs   float64

	nativeMu   sync.Mutex
	nativeRuns map[string]*NativeResult

	// options
	FeasBackend     Backend
	FeasTimeoutMs   int
	ConcretizeLimit int
	LoopLimit       int
	AllocLimit      int
	SymIndexLimit   int
	AbstractMul     bool
	NoSpeculation   bool
	Verbose         bool
	Tier            int
	Seed            int64

	noSpecMu   sync.Mutex
	noSpecSet  map[*ssa.BasicBlock]string
	specMerged atomic.Int64

	errStrOnce sync.Once
	errStrT    types.Type

	Natives map[string]map[string]interface{} // package path -> name -> native function value
}

func (e *Engine) noSpec(b *ssa.BasicBlock) bool {
	e.noSpecMu.Lock()
	defer e.noSpecMu.Unlock()
	_, ok := e.noSpecSet[b]
	return ok
}
func (e *Engine) markNoSpec(b *ssa.BasicBlock, why string) {
	e.noSpecMu.Lock()
	defer e.noSpecMu.Unlock()
	e.noSpecSet[b] = why
}

// errorStringType returns *errors.errorString, used as the dynamic type of opaque error values.
func (e *Engine) errorStringType() types.Type {
	e.errStrOnce.Do(func() {
		if p, ok := e.TPkgs["errors"]; ok {
			if o := p.Scope().Lookup("errorString"); o != nil {
				e.errStrT = types.NewPointer(o.Type())
			}
		}
	})
	return e.errStrT
}

// ReadOverlay reads a go build overlay file ({"Replace": {virtual: real}}) into a packages overlay.
func ReadOverlay(path string) (map[string][]byte, error) {
	if path == "" {
		return nil, nil
	}
	b, err := os.ReadFile(path)
	if err != nil {
		return nil, err
	}
	var ov struct{ Replace map[string]string }
	if err := json.Unmarshal(b, &ov); err != nil {
		return nil, err
	}
	res := map[string][]byte{}
	for virt, real := range ov.Replace {
		if !strings.HasSuffix(virt, ".go") || strings.Contains(virt, "/verif/engine/") {
			continue
		}
		c, err := os.ReadFile(real)
		if err != nil {
			return nil, err
		}
		res[virt] = c
	}
	return res, nil
}

// Load loads the given package patterns of the repository (with the overlay) and builds SSA for everything.
func Load(repoDir string, overlay map[string][]byte, patterns []string) (*Engine, error) {
	t0 := time.Now()
	cfg := &packages.Config{Mode: packages.LoadAllSyntax | packages.NeedModule, Dir: repoDir, Overlay: overlay,
		Env: append(os.Environ(), "GOFLAGS=-mod=mod", "GOPROXY=off", "GOSUMDB=off", "GOTOOLCHAIN=local")}
	pkgs, err := packages.Load(cfg, patterns...)
	if err != nil {
		return nil, err
	}
	var errs []string
	packages.Visit(pkgs, nil, func(p *packages.Package) {
		for _, e := range p.Errors {
			errs = append(errs, e.Error())
		}
	})
	if len(errs) > 0 {
		sort.Strings(errs)
		if len(errs) > 10 {
			errs = errs[:10]
		}
		return nil, fmt.Errorf("package load errors:\n%s", strings.Join(errs, "\n"))
	}
	prog, _ := ssautil.AllPackages(pkgs, ssa.InstantiateGenerics)
	prog.Build()
	e := &Engine{Prog: prog, Pkgs: map[string]*ssa.Package{}, TPkgs: map[string]*types.Package{}, RepoDir: repoDir,
		FeasBackend: BackendBV, FeasTimeoutMs: 2000, ConcretizeLimit: 64, LoopLimit: 100000, AllocLimit: 1 << 16, SymIndexLimit: 64,
		AbstractMul: false, noSpecSet: map[*ssa.BasicBlock]string{}, Natives: map[string]map[string]interface{}{}}
	for _, p := range prog.AllPackages() {
		e.Pkgs[p.Pkg.Path()] = p
		e.TPkgs[p.Pkg.Path()] = p.Pkg
	}
	for _, p := range pkgs {
		if p.Module != nil {
			e.ModulePath = p.Module.Path
			break
		}
	}
	e.LoadSecs = time.Since(t0).Seconds()
	return e, nil
}

// Harnesses lists the harness functions (VerifH_<prop>_...) of all loaded packages for a property.
func (e *Engine) Harnesses(prop string) []*ssa.Function {
	var out []*ssa.Function
	for _, p := range e.Prog.AllPackages() {
		if !strings.HasPrefix(p.Pkg.Path(), e.ModulePath) {
			continue
		}
		for name, m := range p.Members {
			if f, ok := m.(*ssa.Function); ok && strings.HasPrefix(name, "VerifH_"+prop+"_") {
				out = append(out, f)
			}
		}
	}
	sort.Slice(out, func(i, j int) bool { return out[i].String() < out[j].String() })
	return out
}
