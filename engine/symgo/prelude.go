package symgo

// prelude.go: engine-side implementation of the harness prelude (the v* functions).  In the native build the
// same functions are ordinary Go (harness/_prelude/prelude.go.tmpl) reading their values from a replay file.

import (
	"fmt"
	"go/types"
	"math/big"
	"os"
	"strings"

	"golang.org/x/tools/go/ssa"
)

var preludeFns map[string]intrinsic

func init() {
	preludeFns = map[string]intrinsic{
		"vU64":  func(x *Exec, fn *ssa.Function, a []Value) Value { return x.input(a[0].(string), 64, "u64") },
		"vU32":  func(x *Exec, fn *ssa.Function, a []Value) Value { return x.input(a[0].(string), 32, "u32") },
		"vU16":  func(x *Exec, fn *ssa.Function, a []Value) Value { return x.input(a[0].(string), 16, "u16") },
		"vU8":   func(x *Exec, fn *ssa.Function, a []Value) Value { return x.input(a[0].(string), 8, "u8") },
		"vI64":  func(x *Exec, fn *ssa.Function, a []Value) Value { return x.input(a[0].(string), 64, "i64") },
		"vInt":  func(x *Exec, fn *ssa.Function, a []Value) Value { return x.input(a[0].(string), 64, "i64") },
		"vBool": func(x *Exec, fn *ssa.Function, a []Value) Value { return x.inputBool(a[0].(string)) },
		"vU64s": func(x *Exec, fn *ssa.Function, a []Value) Value {
			n := x.constInt(a[1], "vU64s length")
			s := x.makeSlice(types.Typ[types.Uint64], n, n, a[0].(string))
			for i := 0; i < n; i++ {
				s.Obj.Cells[i] = x.input(fmt.Sprintf("%s[%d]", a[0].(string), i), 64, "u64")
			}
			return s
		},
		"vBytes": func(x *Exec, fn *ssa.Function, a []Value) Value {
			n := x.constInt(a[1], "vBytes length")
			s := x.makeSlice(types.Typ[types.Uint8], n, n, a[0].(string))
			for i := 0; i < n; i++ {
				s.Obj.Cells[i] = x.input(fmt.Sprintf("%s[%d]", a[0].(string), i), 8, "u8")
			}
			return s
		},
		"vBig": func(x *Exec, fn *ssa.Function, a []Value) Value {
			name := a[0].(string)
			var t *Term
			if x.concrete != nil {
				v, ok := x.concrete[x.nextName(name)]
				if !ok {
					v = new(big.Int)
				}
				t = x.ts.Int(v)
			} else {
				t = x.ts.Var(name, SInt, 0)
				x.inputs = append(x.inputs, InputVar{Name: t.Name, Term: t, Kind: "big"})
			}
			return x.newBig(t, nil)
		},
		"vAssume": func(x *Exec, fn *ssa.Function, a []Value) Value {
			c := x.term(a[0])
			if c.IsFalse() {
				panic(pathAbort{"assumption is false"})
			}
			if x.journaling > 0 {
				panic(specAbort{"vAssume inside speculation"})
			}
			x.addPath(c)
			return nil
		},
		"vAssert": func(x *Exec, fn *ssa.Function, a []Value) Value {
			x.addObligation(&Obligation{ID: a[1].(string), Kind: "assert", Cond: x.term(a[0])})
			return nil
		},
		"vCover": func(x *Exec, fn *ssa.Function, a []Value) Value {
			x.addObligation(&Obligation{ID: a[0].(string), Kind: "cover", Cond: x.ts.False, Expect: "sat"})
			return nil
		},
		"vObserve": func(x *Exec, fn *ssa.Function, a []Value) Value {
			x.observed = append(x.observed, Observation{a[0].(string), a[1]})
			return nil
		},
		"vConfig": func(x *Exec, fn *ssa.Function, a []Value) Value {
			x.cfg[a[0].(string)] = a[1].(string)
			if a[0].(string) == "algebraic-samplers" {
				x.feS()
			}
			return nil
		},
		"vStub": func(x *Exec, fn *ssa.Function, a []Value) Value {
			x.stubs[a[0].(string)] = a[1].(string)
			return nil
		},
		"vUnstub": func(x *Exec, fn *ssa.Function, a []Value) Value {
			delete(x.stubs, a[0].(string))
			return nil
		},
		"vPanics": func(x *Exec, fn *ssa.Function, a []Value) (res Value) {
			depth := len(x.stack)
			defer func() {
				if r := recover(); r != nil {
					gp, ok := r.(*GoPanic)
					if !ok || (strings.HasPrefix(gp.Msg, "VERIF-") && !strings.HasPrefix(gp.Msg, "VERIF-ALLOC")) {
						panic(r)
					}
					x.stack = x.stack[:depth]
					x.cfg["lastpanic"] = gp.Msg
					res = x.ts.True
				}
			}()
			x.callValue(a[0], nil, nil)
			return x.ts.False
		},
		"vCong": func(x *Exec, fn *ssa.Function, a []Value) Value {
			_, p := x.bigCell(a[0])
			_, q := x.bigCell(a[1])
			m := x.ts.BV2Int(x.term(a[2]), false)
			d := x.ts.IBin(OISub, p, q)
			return x.ts.Cmp(OEq, x.ts.IBin(OIMod, d, m), x.ts.IntI(0))
		},
		"vImplies": func(x *Exec, fn *ssa.Function, a []Value) Value {
			return x.ts.Implies(x.term(a[0]), x.term(a[1]))
		},
		"vIte64": func(x *Exec, fn *ssa.Function, a []Value) Value {
			return x.ts.Ite(x.term(a[0]), x.term(a[1]), x.term(a[2]))
		},
		"vUF": func(x *Exec, fn *ssa.Function, a []Value) Value {
			s := a[1].(Slice)
			args := make([]*Term, s.Len)
			for i := range args {
				args[i] = x.term(s.Obj.Cells[s.Off+i])
			}
			return x.ts.UF(a[0].(string), SBV, 64, args...)
		},
		"vTier": func(x *Exec, fn *ssa.Function, a []Value) Value { return x.ts.BV(uint64(x.eng.Tier), 64) },
		// vCutLoop(fn, loopIndex, hook): call hook(arrival) every time control reaches the header of the loopIndex-th
		// outermost loop of function fn (cut point: the hook checks the stage lemma and havocs the state)
		"vCutLoop": func(x *Exec, fn *ssa.Function, a []Value) Value {
			if x.cuts == nil {
				x.cuts = map[string]*cutSpec{}
			}
			x.cuts[a[0].(string)] = &cutSpec{loop: x.constInt(a[1], "loop index"), hook: a[2]}
			return nil
		},
		// vSearch(prefix, tries, f): registers a native witness search for the engine-only lemmas whose id starts
		// with prefix: when the solver refutes such a lemma, the real code is run natively by f on a deterministic
		// battery of inputs to obtain a reproducible end-to-end witness (the solver's verdict decides; the search
		// only supplies the replay).  Symbolically a no-op.
		"vSearch": func(x *Exec, fn *ssa.Function, a []Value) Value {
			if x.searches == nil {
				x.searches = map[string]bool{}
			}
			x.searches[a[0].(string)] = true
			return nil
		},
		// vSearchNone(prefix, tries, f): like vSearch for reachability obligations: natively the failure is that f
		// never reports the outcome in all tries.
		"vSearchNone": func(x *Exec, fn *ssa.Function, a []Value) Value {
			if x.searches == nil {
				x.searches = map[string]bool{}
			}
			x.searches[a[0].(string)] = true
			return nil
		},
		// vReach(cond, id): the property requires that cond is possible here (a value of the declared support, a
		// sign, ...): decided as satisfiability of path && cond.
		"vReach": func(x *Exec, fn *ssa.Function, a []Value) Value {
			x.addObligation(&Obligation{ID: a[1].(string), Kind: "reach", Cond: x.ts.Not(x.term(a[0])), Expect: "sat"})
			return nil
		},
		// vForget(): drops the path conditions accumulated so far (the obligations already recorded keep theirs).  For
		// harnesses that run many independent cases on fresh symbols in one path: every obligation carries a copy of
		// the path, which otherwise grows with every case.  Dropping assumptions only adds behaviours (sound).
		"vForget": func(x *Exec, fn *ssa.Function, a []Value) Value {
			if x.journaling > 0 {
				panic(specAbort{"vForget inside speculation"})
			}
			x.path = nil
			return nil
		},
		"vUncut": func(x *Exec, fn *ssa.Function, a []Value) Value {
			delete(x.cuts, a[0].(string))
			return nil
		},
		// vLemma: engine-only obligation (stage lemma at a cut point)
		// vCRTLift(e, moduli, id): the Chinese remainder theorem as the one arithmetic axiom of the RNS harnesses.
		// Obligations: e ≡ 0 modulo every (pairwise distinct prime) modulus.  Conclusion added to the path: e = V·∏moduli
		// for a fresh integer V, which is returned.
		"vCRTLift": func(x *Exec, fn *ssa.Function, a []Value) Value {
			_, e := x.bigCell(a[0])
			ms := a[1].(Slice)
			prod := big.NewInt(1)
			seen := map[uint64]bool{}
			for i := 0; i < ms.Len; i++ {
				m := x.term(ms.Obj.Cells[ms.Off+i])
				if !m.IsConst() || seen[m.C] || !new(big.Int).SetUint64(m.C).ProbablyPrime(20) {
					panic(x.errf("vCRTLift: moduli must be concrete distinct primes"))
				}
				seen[m.C] = true
				bm := new(big.Int).SetUint64(m.C)
				prod.Mul(prod, bm)
				x.addObligation(&Obligation{ID: a[3].(string), Kind: "lemma", Cond: x.ts.Cmp(OEq, x.ts.IBin(OIMod, e, x.ts.Int(bm)), x.ts.IntI(0))})
			}
			x.crtN++
			v := x.ts.Var(fmt.Sprintf("crt%d", x.crtN), SInt, 0)
			eq := x.ts.IBin(OISub, e, x.ts.IBin(OIMul, v, x.ts.Int(prod)))
			x.path = append(x.path, x.ts.Cmp(OEq, eq, x.ts.IntI(0)))
			// consequences of the equality modulo the target moduli, stated explicitly (reduced coefficients)
			tg := a[2].(Slice)
			for i := 0; i < tg.Len; i++ {
				m := x.term(tg.Obj.Cells[tg.Off+i])
				if !m.IsConst() || m.C == 0 {
					panic(x.errf("vCRTLift: target moduli must be concrete"))
				}
				x.path = append(x.path, x.ts.Cmp(OEq, x.ts.IBin(OIMod, eq, x.ts.Int(new(big.Int).SetUint64(m.C))), x.ts.IntI(0)))
			}
			return x.newBig(v, nil)
		},
		"vLemma": func(x *Exec, fn *ssa.Function, a []Value) Value {
			x.addObligation(&Obligation{ID: a[1].(string), Kind: "lemma", Cond: x.term(a[0])})
			return nil
		},
		// vProves(c): does c hold for all values on the current path?  (immediate solver query; used to search the
		// tightest invariant, never to decide a property by itself)
		"vProves": func(x *Exec, fn *ssa.Function, a []Value) Value {
			c := x.term(a[0])
			if c.IsConst() {
				return c
			}
			return x.ts.Bool(x.provesNow(c))
		},
		// vLinearProbe(y, xs, q): concrete coefficients (y[xs:=e_i] - y[xs:=0]) mod q, last entry = y[xs:=0] mod q
		"vLinearProbe": func(x *Exec, fn *ssa.Function, a []Value) Value {
			y := x.term(a[0])
			xs := a[1].(Slice)
			q := x.term(a[2])
			if !q.IsConst() {
				panic(x.errf("vLinearProbe: symbolic modulus"))
			}
			bq := q.ConstBig()
			vars := make([]*Term, xs.Len)
			for i := range vars {
				vars[i] = x.term(xs.Obj.Cells[xs.Off+i])
			}
			// variables that occur in y (transitively through the real definitions of contract-stub values)
			occ := map[*Term]bool{}
			seen := map[*Term]bool{}
			termVars(y, seen, occ)
			for i := len(x.stubOrder) - 1; i >= 0; i-- {
				if sv := x.stubOrder[i]; occ[sv] {
					termVars(x.stubReal[sv], seen, occ)
				}
			}
			eval := func(one int) *big.Int {
				env := map[*Term]*Term{}
				for i, v := range vars {
					if v.Op != OVar {
						continue
					}
					if i == one {
						env[v] = x.ts.BV(1, v.W)
					} else {
						env[v] = x.ts.BV(0, v.W)
					}
				}
				memo := map[*Term]*Term{}
				for _, sv := range x.stubOrder {
					if occ[sv] {
						env[sv] = x.ts.Subst(x.stubReal[sv], env, memo)
					}
				}
				r := x.ts.Subst(y, env, memo)
				if !r.IsConst() {
					panic(x.errf("vLinearProbe: value depends on something other than the probed variables: %v", r))
				}
				return new(big.Int).Mod(r.ConstBig(), bq)
			}
			zero := eval(-1)
			out := x.makeSlice(types.Typ[types.Uint64], len(vars)+1, len(vars)+1, "probe")
			for i, v := range vars {
				c := new(big.Int)
				if occ[v] {
					c.Sub(eval(i), zero)
					c.Mod(c, bq)
				}
				out.Obj.Cells[i] = x.ts.BV(c.Uint64(), 64)
			}
			out.Obj.Cells[len(vars)] = x.ts.BV(zero.Uint64(), 64)
			return out
		},
		// vUpperBound(x): a sound upper bound of x on the current path from the INT back end's interval analysis
		// (used only to pick candidate invariants; the invariant itself is then proved by the solver)
		"vUpperBound": func(x *Exec, fn *ssa.Function, a []Value) Value {
			t := x.term(a[0])
			if t.IsConst() {
				return t
			}
			l := NewLowerer(BackendINT, x.ts)
			l.CoefReduce, l.LinIte = true, true
			l.AddFacts(x.pathCond())
			l.T(t)
			_, hi := l.iv(t)
			if !l.hasIv(t) || l.Err != nil {
				hi = maxOfW(t.W)
			}
			return x.ts.BVBig(hi, 64)
		},
		"vAllLE": func(x *Exec, fn *ssa.Function, a []Value) Value {
			xs := a[0].(Slice)
			b := x.term(a[1])
			r := x.ts.True
			for i := 0; i < xs.Len; i++ {
				r = x.ts.And(r, x.ts.Cmp(OUle, x.term(xs.Obj.Cells[xs.Off+i]), b))
			}
			return r
		},
		"vSymbolic": func(x *Exec, fn *ssa.Function, a []Value) Value { return x.ts.True },
		"vLog": func(x *Exec, fn *ssa.Function, a []Value) Value {
			if os.Getenv("VERIF_LOG") != "" {
				fmt.Println("[vLog]", a[0].(string))
			}
			return nil
		},
	}
	registerFEPrelude()
	registerHeapPrelude()
	registerHeapPrelude2()
}

func (x *Exec) nextName(name string) string {
	k := x.ts.varSeq[name]
	x.ts.varSeq[name] = k + 1
	if k > 0 {
		return fmt.Sprintf("%s#%d", name, k)
	}
	return name
}

func (x *Exec) input(name string, w uint8, kind string) *Term {
	if x.concrete != nil {
		n := x.nextName(name)
		v, ok := x.concrete[n]
		if !ok {
			v = new(big.Int)
		}
		return x.ts.BVBig(v, w)
	}
	t := x.ts.Var(name, SBV, w)
	x.inputs = append(x.inputs, InputVar{Name: t.Name, Term: t, Kind: kind})
	return t
}

func (x *Exec) inputBool(name string) *Term {
	if x.concrete != nil {
		n := x.nextName(name)
		v, ok := x.concrete[n]
		return x.ts.Bool(ok && v.Sign() != 0)
	}
	t := x.ts.Var(name, SBool, 0)
	x.inputs = append(x.inputs, InputVar{Name: t.Name, Term: t, Kind: "bool"})
	return t
}

// applyStub implements the contract stubs a harness may install with vStub(function, kind).
func (x *Exec) applyStub(kind string, fn *ssa.Function, args []Value) Value {
	switch {
	case kind == "uf":
		// uninterpreted function of all scalar arguments (lane-discipline harnesses)
		ts := make([]*Term, 0, len(args))
		for _, a := range args {
			if t, ok := a.(*Term); ok {
				ts = append(ts, t)
			}
		}
		rs := fn.Signature.Results()
		if rs.Len() == 1 {
			return x.ts.UF(fn.Name(), SBV, intWidth(rs.At(0).Type()), ts...)
		}
		t := make(Tuple, rs.Len())
		for i := range t {
			t[i] = x.ts.UF(fmt.Sprintf("%s.%d", fn.Name(), i), SBV, intWidth(rs.At(i).Type()), ts...)
		}
		return t
	case strings.HasPrefix(kind, "fresh<"):
		// fresh value below k*args[idx]: "fresh<2*2" = result < 2*arg2
		var mul, idx int
		fmt.Sscanf(kind, "fresh<%d*%d", &mul, &idx)
		r := x.ts.Var("stub_"+fn.Name(), SBV, 64)
		bound := x.ts.Bin(OMul, x.term(args[idx]), x.ts.BV(uint64(mul), 64))
		x.addPath(x.ts.Cmp(OUlt, r, bound))
		return r
	case kind == "anybool":
		// arbitrary boolean oracle (e.g. primality of a symbolic candidate)
		return x.ts.Var("oracle_"+fn.Name(), SBool, 0)
	case kind == "skip":
		return x.zeroResults(fn)
	case strings.HasPrefix(kind, "call:"):
		// replace by another harness-package function with the same signature
		target := kind[5:]
		if f := fn.Pkg.Func(target); f != nil {
			return x.call(f, args, nil)
		}
		// "call:<import path>.<name>": a stand-in that lives in another (harness) package
		if i := strings.LastIndex(target, "."); i > 0 {
			if p, ok := x.eng.Pkgs[target[:i]]; ok {
				if f := p.Func(target[i+1:]); f != nil {
					return x.call(f, args, nil)
				}
			}
		}
		panic(x.errf("stub target %s not found", target))
	}
	if h, ok := contractStubs[kind]; ok {
		return h(x, fn, args)
	}
	panic(x.errf("unknown stub kind %q for %s", kind, fn))
}

var contractStubs = map[string]intrinsic{}

func init() {
	// MRedLazy(x, y, q, qinv) with concrete y < q and odd q:  r ≡ x·(y·2^-64) (mod q),  0 < r < 2q.
	// Discharged for every 64-bit x by the C01 kernel harness (2^64·r ≡ x·y and the range); cancelling the radix
	// 2^64 (q odd) is the one arithmetic lemma used.
	// MRed(x, y, q, qinv) with concrete y < q and odd q:  r = x·(y·2^-64) mod q exactly (r < q and 2^64·r ≡ x·y
	// determine r uniquely).  Discharged for every 64-bit x by the kernel-contract harness of the property that uses it.
	contractStubs["contract:mred"] = func(x *Exec, fn *ssa.Function, a []Value) Value {
		v, y, q := x.term(a[0]), x.term(a[1]), x.term(a[2])
		if !y.IsConst() || !q.IsConst() {
			panic(x.errf("contract:mred needs concrete multiplier and modulus"))
		}
		if y.C >= q.C || q.C&1 == 0 {
			panic(&GoPanic{Msg: "VERIF-CONTRACT: MRed called with multiplier >= q or even q", Stack: x.stackTrace()})
		}
		if v.IsConst() {
			return nil2term(x, fn, a)
		}
		bq := new(big.Int).SetUint64(q.C)
		rinv := new(big.Int).ModInverse(pow2(64), bq)
		c := new(big.Int).Mul(new(big.Int).SetUint64(y.C), rinv)
		c.Mod(c, bq)
		ts := x.ts
		return ts.Int2BV(ts.IBin(OIMod, ts.IBin(OIMul, ts.BV2Int(v, false), ts.Int(c)), ts.Int(bq)), 64)
	}
	// BRedAdd(x, q, brc) = x mod q exactly (r < q and r ≡ x determine r), for every 64-bit x; discharged on the real
	// kernel by the C01 BRedAdd harness and re-discharged for the moduli of the harness that uses it.
	contractStubs["contract:bredadd"] = func(x *Exec, fn *ssa.Function, a []Value) Value {
		v, q := x.term(a[0]), x.term(a[1])
		if !q.IsConst() || q.C == 0 {
			panic(x.errf("contract:bredadd needs a concrete modulus"))
		}
		if v.IsConst() {
			return nil2term(x, fn, a)
		}
		ts := x.ts
		return ts.Int2BV(ts.IBin(OIMod, ts.BV2Int(v, false), ts.Int(new(big.Int).SetUint64(q.C))), 64)
	}
	contractStubs["contract:mredlazy"] = func(x *Exec, fn *ssa.Function, a []Value) Value {
		v, y, q := x.term(a[0]), x.term(a[1]), x.term(a[2])
		if !y.IsConst() || !q.IsConst() {
			panic(x.errf("contract:mredlazy needs concrete twiddle and modulus"))
		}
		if y.C >= q.C || q.C&1 == 0 {
			panic(&GoPanic{Msg: "VERIF-CONTRACT: MRedLazy called with twiddle >= q or even q", Stack: x.stackTrace()})
		}
		if v.IsConst() {
			return nil2term(x, fn, a)
		}
		bq := new(big.Int).SetUint64(q.C)
		rinv := new(big.Int).ModInverse(pow2(64), bq)
		c := new(big.Int).Mul(new(big.Int).SetUint64(y.C), rinv)
		c.Mod(c, bq)
		ts := x.ts
		r := ts.Var("mrl", SBV, 64)
		k := ts.Var("mrk", SInt, 0)
		lhs := ts.BV2Int(r, false)
		rhs := ts.IBin(OISub, ts.IBin(OIMul, ts.BV2Int(v, false), ts.Int(c)), ts.IBin(OIMul, k, ts.Int(bq)))
		x.path = append(x.path, ts.Cmp(OEq, lhs, rhs))
		x.addPath(ts.Cmp(OUlt, ts.BV(0, 64), r))
		x.addPath(ts.Cmp(OUlt, r, ts.BV(2*q.C, 64)))
		// remember the real computation for concrete evaluation (vLinearProbe)
		if real, ok := nil2term(x, fn, a).(*Term); ok {
			if x.stubReal == nil {
				x.stubReal = map[*Term]*Term{}
			}
			x.stubReal[r] = real
			x.stubOrder = append(x.stubOrder, r)
		}
		return r
	}
}

// nil2term runs the real function (used when a contract stub sees fully concrete arguments).
func nil2term(x *Exec, fn *ssa.Function, a []Value) Value {
	saved := x.stubs
	x.stubs = map[string]string{}
	defer func() { x.stubs = saved }()
	return x.call(fn, a, nil)
}
