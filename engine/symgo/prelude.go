package symgo

// prelude.go: engine-side implementation of the harness prelude (the v* functions).  In the native build the
// same functions are ordinary Go (harness/_prelude/prelude.go.tmpl) reading their values from a replay file.

import (
	"fmt"
	"go/types"
	"math/big"
	"strings"

	"golang.org/x/tools/go/ssa"
)

var preludeFns map[string]intrinsic

func init() {
	preludeFns = map[string]intrinsic{
		"vU64":  func(x *Exec, fn *ssa.Function, a []Value) Value { return x.input(a[0].(string), 64, "u64") },
		"vU32":  func(x *Exec, fn *ssa.Function, a []Value) Value { return x.input(a[0].(string), 32, "u32") },
		"vU16":  func(x *Exec, fn *ssa.Function, a []Value) Value { return x.input(a[0].(string), 16, "u16") },
		"vU8":   func(x *Exec, fn *ssa.Function, a []Value) Value { return x.input(a[0].(string), 8, "u8") },
		"vI64":  func(x *Exec, fn *ssa.Function, a []Value) Value { return x.input(a[0].(string), 64, "i64") },
		"vInt":  func(x *Exec, fn *ssa.Function, a []Value) Value { return x.input(a[0].(string), 64, "i64") },
		"vBool": func(x *Exec, fn *ssa.Function, a []Value) Value { return x.inputBool(a[0].(string)) },
		"vU64s": func(x *Exec, fn *ssa.Function, a []Value) Value {
			n := x.constInt(a[1], "vU64s length")
			s := x.makeSlice(types.Typ[types.Uint64], n, n, a[0].(string))
			for i := 0; i < n; i++ {
				s.Obj.Cells[i] = x.input(fmt.Sprintf("%s[%d]", a[0].(string), i), 64, "u64")
			}
			return s
		},
		"vBytes": func(x *Exec, fn *ssa.Function, a []Value) Value {
			n := x.constInt(a[1], "vBytes length")
			s := x.makeSlice(types.Typ[types.Uint8], n, n, a[0].(string))
			for i := 0; i < n; i++ {
				s.Obj.Cells[i] = x.input(fmt.Sprintf("%s[%d]", a[0].(string), i), 8, "u8")
			}
			return s
		},
		"vBig": func(x *Exec, fn *ssa.Function, a []Value) Value {
			name := a[0].(string)
			var t *Term
			if x.concrete != nil {
				v, ok := x.concrete[x.nextName(name)]
				if !ok {
					v = new(big.Int)
				}
				t = x.ts.Int(v)
			} else {
				t = x.ts.Var(name, SInt, 0)
				x.inputs = append(x.inputs, InputVar{Name: t.Name, Term: t, Kind: "big"})
			}
			return x.newBig(t, nil)
		},
		"vAssume": func(x *Exec, fn *ssa.Function, a []Value) Value {
			c := x.term(a[0])
			if c.IsFalse() {
				panic(pathAbort{"assumption is false"})
			}
			if x.journaling > 0 {
				panic(specAbort{"vAssume inside speculation"})
			}
			x.addPath(c)
			return nil
		},
		"vAssert": func(x *Exec, fn *ssa.Function, a []Value) Value {
			x.addObligation(&Obligation{ID: a[1].(string), Kind: "assert", Cond: x.term(a[0])})
			return nil
		},
		"vCover": func(x *Exec, fn *ssa.Function, a []Value) Value {
			x.addObligation(&Obligation{ID: a[0].(string), Kind: "cover", Cond: x.ts.False, Expect: "sat"})
			return nil
		},
		"vObserve": func(x *Exec, fn *ssa.Function, a []Value) Value {
			x.observed = append(x.observed, Observation{a[0].(string), a[1]})
			return nil
		},
		"vConfig": func(x *Exec, fn *ssa.Function, a []Value) Value {
			x.cfg[a[0].(string)] = a[1].(string)
			return nil
		},
		"vStub": func(x *Exec, fn *ssa.Function, a []Value) Value {
			x.stubs[a[0].(string)] = a[1].(string)
			return nil
		},
		"vUnstub": func(x *Exec, fn *ssa.Function, a []Value) Value {
			delete(x.stubs, a[0].(string))
			return nil
		},
		"vPanics": func(x *Exec, fn *ssa.Function, a []Value) (res Value) {
			depth := len(x.stack)
			defer func() {
				if r := recover(); r != nil {
					gp, ok := r.(*GoPanic)
					if !ok || strings.HasPrefix(gp.Msg, "VERIF-") {
						panic(r)
					}
					x.stack = x.stack[:depth]
					x.cfg["lastpanic"] = gp.Msg
					res = x.ts.True
				}
			}()
			x.callValue(a[0], nil, nil)
			return x.ts.False
		},
		"vCong": func(x *Exec, fn *ssa.Function, a []Value) Value {
			_, p := x.bigCell(a[0])
			_, q := x.bigCell(a[1])
			m := x.ts.BV2Int(x.term(a[2]), false)
			d := x.ts.IBin(OISub, p, q)
			return x.ts.Cmp(OEq, x.ts.IBin(OIMod, d, m), x.ts.IntI(0))
		},
		"vImplies": func(x *Exec, fn *ssa.Function, a []Value) Value {
			return x.ts.Implies(x.term(a[0]), x.term(a[1]))
		},
		"vIte64": func(x *Exec, fn *ssa.Function, a []Value) Value {
			return x.ts.Ite(x.term(a[0]), x.term(a[1]), x.term(a[2]))
		},
		"vUF": func(x *Exec, fn *ssa.Function, a []Value) Value {
			s := a[1].(Slice)
			args := make([]*Term, s.Len)
			for i := range args {
				args[i] = x.term(s.Obj.Cells[s.Off+i])
			}
			return x.ts.UF(a[0].(string), SBV, 64, args...)
		},
		"vTier":     func(x *Exec, fn *ssa.Function, a []Value) Value { return x.ts.BV(uint64(x.eng.Tier), 64) },
		"vSymbolic": func(x *Exec, fn *ssa.Function, a []Value) Value { return x.ts.True },
		"vLog":      func(x *Exec, fn *ssa.Function, a []Value) Value { return nil },
	}
	registerFEPrelude()
}

func (x *Exec) nextName(name string) string {
	k := x.ts.varSeq[name]
	x.ts.varSeq[name] = k + 1
	if k > 0 {
		return fmt.Sprintf("%s#%d", name, k)
	}
	return name
}

func (x *Exec) input(name string, w uint8, kind string) *Term {
	if x.concrete != nil {
		n := x.nextName(name)
		v, ok := x.concrete[n]
		if !ok {
			v = new(big.Int)
		}
		return x.ts.BVBig(v, w)
	}
	t := x.ts.Var(name, SBV, w)
	x.inputs = append(x.inputs, InputVar{Name: t.Name, Term: t, Kind: kind})
	return t
}

func (x *Exec) inputBool(name string) *Term {
	if x.concrete != nil {
		n := x.nextName(name)
		v, ok := x.concrete[n]
		return x.ts.Bool(ok && v.Sign() != 0)
	}
	t := x.ts.Var(name, SBool, 0)
	x.inputs = append(x.inputs, InputVar{Name: t.Name, Term: t, Kind: "bool"})
	return t
}

// applyStub implements the contract stubs a harness may install with vStub(function, kind).
func (x *Exec) applyStub(kind string, fn *ssa.Function, args []Value) Value {
	switch {
	case kind == "uf":
		// uninterpreted function of all scalar arguments (lane-discipline harnesses)
		ts := make([]*Term, 0, len(args))
		for _, a := range args {
			if t, ok := a.(*Term); ok {
				ts = append(ts, t)
			}
		}
		rs := fn.Signature.Results()
		if rs.Len() == 1 {
			return x.ts.UF(fn.Name(), SBV, intWidth(rs.At(0).Type()), ts...)
		}
		t := make(Tuple, rs.Len())
		for i := range t {
			t[i] = x.ts.UF(fmt.Sprintf("%s.%d", fn.Name(), i), SBV, intWidth(rs.At(i).Type()), ts...)
		}
		return t
	case strings.HasPrefix(kind, "fresh<"):
		// fresh value below k*args[idx]: "fresh<2*2" = result < 2*arg2
		var mul, idx int
		fmt.Sscanf(kind, "fresh<%d*%d", &mul, &idx)
		r := x.ts.Var("stub_"+fn.Name(), SBV, 64)
		bound := x.ts.Bin(OMul, x.term(args[idx]), x.ts.BV(uint64(mul), 64))
		x.addPath(x.ts.Cmp(OUlt, r, bound))
		return r
	case kind == "skip":
		return x.zeroResults(fn)
	case strings.HasPrefix(kind, "call:"):
		// replace by another harness-package function with the same signature
		target := kind[5:]
		if f := fn.Pkg.Func(target); f != nil {
			return x.call(f, args, nil)
		}
		panic(x.errf("stub target %s not found", target))
	}
	if h, ok := contractStubs[kind]; ok {
		return h(x, fn, args)
	}
	panic(x.errf("unknown stub kind %q for %s", kind, fn))
}

var contractStubs = map[string]intrinsic{}
