package ring

import (
	"math/big"
	"math/bits"
)

// C01-5: forward / inverse NTT against the definition
//     NTT(a)_j  = Σ_i a_i ψ^{(2·brv(j)+1)·i}            (ψ a primitive 2N-th root of unity mod q)
//     INTT(b)_i = N^-1 Σ_j b_j ψ^{-(2·brv(j)+1)·i}
// one obligation per output coordinate, all N input words symbolic; the definition matrix is computed natively
// from the primitive root with math/big (not from the NTT tables), the transform is the real code from SSA.

// VerifSetup_NTTMatrix returns the definition matrix (row j = output coordinate j).
func VerifSetup_NTTMatrix(n int, q uint64, inverse bool) [][]uint64 {
	s := VerifSetup_SubRing(n, q)
	bq := new(big.Int).SetUint64(q)
	psi := new(big.Int).Exp(new(big.Int).SetUint64(s.PrimitiveRoot), new(big.Int).SetUint64((q-1)/uint64(2*n)), bq)
	logN := bits.Len64(uint64(n)) - 1
	brv := func(x int) int { return int(bits.Reverse64(uint64(x)) >> (64 - logN)) }
	m := make([][]uint64, n)
	if !inverse {
		for j := 0; j < n; j++ {
			m[j] = make([]uint64, n)
			for i := 0; i < n; i++ {
				e := new(big.Int).SetInt64(int64((2*brv(j) + 1) * i))
				m[j][i] = new(big.Int).Exp(psi, e, bq).Uint64()
			}
		}
		return m
	}
	psiInv := new(big.Int).ModInverse(psi, bq)
	nInv := new(big.Int).ModInverse(big.NewInt(int64(n)), bq)
	for i := 0; i < n; i++ {
		m[i] = make([]uint64, n)
		for j := 0; j < n; j++ {
			e := new(big.Int).SetInt64(int64((2*brv(j) + 1) * i))
			v := new(big.Int).Exp(psiInv, e, bq)
			v.Mul(v, nInv)
			v.Mod(v, bq)
			m[i][j] = v.Uint64()
		}
	}
	return m
}

// VerifSetup_NTTModuli: NTT-friendly primes for ring degree n used by the transform harnesses.
func VerifSetup_NTTModuli(n int, tier int) []uint64 {
	var res []uint64
	for _, q := range VerifSetup_Moduli(tier) {
		if (q-1)%uint64(2*n) == 0 {
			res = append(res, q)
		}
	}
	if (tier == 0 || n >= 64) && len(res) > 3 {
		// (the thorough tier keeps every modulus up to N=32; the larger transforms run on the smallest, a middle and the
		// largest modulus: memory of the unrolled symbolic state)
		res = []uint64{res[0], res[len(res)/2], res[len(res)-1]}
	}
	return res
}

func vDot(row []uint64, a []uint64) *big.Int {
	acc := new(big.Int)
	for i := range row {
		acc.Add(acc, new(big.Int).Mul(vB(row[i]), vB(a[i])))
	}
	return acc
}

func vNTTCase(n int, q uint64) {
	s := VerifSetup_SubRing(n, q)
	m := VerifSetup_NTTMatrix(n, q, false)
	a := vU64s("a", n)
	in := make([]uint64, n)
	for i := range a {
		vAssume(a[i] < q)
		in[i] = a[i]
	}
	out := make([]uint64, n)
	s.NTTLazy(a, out)
	for j := 0; j < n; j++ {
		vAssert(out[j] <= 6*q-2, "NTTLazy-range")
		vAssert(vCong(vB(out[j]), vDot(m[j], in), q), "NTTLazy-definition")
	}
	out2 := make([]uint64, n)
	s.NTT(a, out2)
	for j := 0; j < n; j++ {
		vAssert(out2[j] < q, "NTT-range")
		vAssert(vCong(vB(out2[j]), vDot(m[j], in), q), "NTT-definition")
		vAssert(a[j] == in[j], "NTT-input-intact")
	}
}

func vINTTCase(n int, q uint64) {
	s := VerifSetup_SubRing(n, q)
	m := VerifSetup_NTTMatrix(n, q, true)
	b := vU64s("b", n)
	in := make([]uint64, n)
	for i := range b {
		vAssume(b[i] < q)
		in[i] = b[i]
	}
	out := make([]uint64, n)
	s.INTTLazy(b, out)
	for i := 0; i < n; i++ {
		vAssert(out[i] <= 2*q-1, "INTTLazy-range")
		vAssert(vCong(vB(out[i]), vDot(m[i], in), q), "INTTLazy-definition")
	}
	out2 := make([]uint64, n)
	s.INTT(b, out2)
	for i := 0; i < n; i++ {
		vAssert(out2[i] < q, "INTT-range")
		vAssert(vCong(vB(out2[i]), vDot(m[i], in), q), "INTT-definition")
	}
}

func VerifH_C01_FB_NTT16() {
	vConfig("backend", "int")
	for _, q := range VerifSetup_NTTModuli(16, vTier()) {
		vNTTCase(16, q)
	}

}

func VerifH_C01_FB_INTT16() {
	vConfig("backend", "int")
	for _, q := range VerifSetup_NTTModuli(16, vTier()) {
		vINTTCase(16, q)
	}

}

// VerifNative_MatVecMod returns m·v mod q.
func VerifNative_MatVecMod(m [][]uint64, v []uint64, q uint64) []uint64 {
	bq := new(big.Int).SetUint64(q)
	res := make([]uint64, len(m))
	for j := range m {
		acc := new(big.Int)
		for i := range v {
			acc.Add(acc, new(big.Int).Mul(new(big.Int).SetUint64(m[j][i]), new(big.Int).SetUint64(v[i])))
		}
		res[j] = acc.Mod(acc, bq).Uint64()
	}
	return res
}

// Concrete end-to-end runs (unit and boundary vectors) of the transforms against the definition matrix: executed by
// the engine from SSA and natively alike; they make definition-level defects replayable natively.
func VerifH_C01_NTTConcrete() {
	sizes := []int{8, 16, 32}
	if vTier() > 0 {
		sizes = []int{8, 16, 32, 64, 128}
	}
	for _, n := range sizes {
		for _, q := range VerifSetup_NTTModuli(n, 0) {
			s := VerifSetup_SubRing(n, q)
			fwd := VerifSetup_NTTMatrix(n, q, false)
			inv := VerifSetup_NTTMatrix(n, q, true)
			for tv := 0; tv < 6; tv++ {
				v := make([]uint64, n)
				switch tv {
				case 0:
					v[1] = 1
				case 1:
					v[n-1] = q - 1
				case 2:
					for i := range v {
						v[i] = q - 1
					}
				case 3:
					for i := range v {
						if i&1 == 0 {
							v[i] = q - 1
						}
					}
				case 4:
					for i := range v {
						v[i] = uint64(i*i+1) % q
					}
				case 5:
					v[n/2] = 1
					v[0] = q - 1
				}
				want := VerifNative_MatVecMod(fwd, v, q)
				wantInv := VerifNative_MatVecMod(inv, v, q)
				out := make([]uint64, n)
				s.NTT(v, out)
				lazy := make([]uint64, n)
				s.NTTLazy(v, lazy)
				iout := make([]uint64, n)
				s.INTT(v, iout)
				ilazy := make([]uint64, n)
				s.INTTLazy(v, ilazy)
				back := make([]uint64, n)
				s.INTT(out, back)
				for j := 0; j < n; j++ {
					vAssert(out[j] == want[j], "NTT-concrete-definition")
					vAssert(lazy[j] <= 6*q-2 && lazy[j]%q == want[j], "NTTLazy-concrete-definition-and-range")
					vAssert(iout[j] == wantInv[j], "INTT-concrete-definition")
					vAssert(ilazy[j] <= 2*q-1 && ilazy[j]%q == wantInv[j], "INTTLazy-concrete-definition-and-range")
					vAssert(back[j] == v[j], "INTT-of-NTT-is-identity-concrete")
				}
			}
		}
	}
}
