package ring

import "math/big"

// C02-2 (word level, CRT ghost): basis extension Q->P / P->Q and division by P (ModDown).  One coefficient carries an
// arbitrary centred integer; the real BasisExtender methods run on its residues (MRed under its exact contract, the
// float64 correction term under the rounding-error model of the engine: every conversion/operation off by at most one
// unit round-off).  The Chinese remainder theorem enters once, as vCRTLift: Σ y_i·(Q/q_i) - x' is shown divisible by
// every q_i (obligations), hence equals V·Q.

type vBECase struct {
	N    int
	Q, P []uint64
}

func VerifSetup_BEChains(tier int) []vBECase {
	g60 := NewNTTFriendlyPrimesGenerator(60, 128)
	g61 := NewNTTFriendlyPrimesGenerator(61, 128)
	g45 := NewNTTFriendlyPrimesGenerator(45, 128)
	var q60, p61, q45 []uint64
	for i := 0; i < 4; i++ {
		a, _ := g60.NextAlternatingPrime()
		b, _ := g61.NextDownstreamPrime()
		c, _ := g45.NextAlternatingPrime()
		q60, p61, q45 = append(q60, a), append(p61, b), append(q45, c)
	}
	res := []vBECase{
		{8, []uint64{97, 193}, []uint64{257}},
		{8, []uint64{q60[0], q45[0], q60[1]}, []uint64{p61[0], p61[1]}},
	}
	if tier > 0 {
		res = append(res, vBECase{8, []uint64{q60[0], q60[1], q60[2], q60[3]}, []uint64{p61[0], p61[1], p61[2]}},
			vBECase{8, []uint64{q45[0], q45[1], 12289, q60[0]}, []uint64{p61[3]}},
			vBECase{8, []uint64{q60[2]}, []uint64{q45[2], q45[3]}})
	}
	return res
}

func VerifSetup_BasisExtender(n int, q, p []uint64) *BasisExtender {
	rq, err := NewRing(n, q)
	if err != nil {
		panic(err)
	}
	rp, err := NewRing(n, p)
	if err != nil {
		panic(err)
	}
	return NewBasisExtender(rq, rp)
}

// vCentred assumes -floor(Q/2) <= x <= floor(Q/2)  (Q odd)
func vCentred(name string, Q *big.Int) *big.Int {
	x := vBig(name)
	h := new(big.Int).Rsh(Q, 1)
	vAssume(x.Cmp(new(big.Int).Neg(h)) >= 0 && x.Cmp(h) <= 0)
	return x
}

// vCongAll: out[j] ≡ v (mod p_j) for every limb of the ring view (coefficient 0).
func vCongAll(r *Ring, out Poly, v *big.Int) bool {
	ok := true
	for j, s := range r.SubRings[:r.level+1] {
		ok = ok && vCong(vB(out.Coeffs[j][0]), v, s.Modulus)
	}
	return ok
}

// vReconstruct returns V with Σ_i y_i·(Q/q_i) = xs + V·Q, where y_i = MRed(buf_i, (Q/q_i)^-1) are the words the
// extension computes from the shifted value xs in [0,Q) (buf holds its residues).
func vReconstruct(r, dst *Ring, buf Poly, muc ModUpConstants, xs *big.Int, id string) *big.Int {
	Q := vModulusOf(r)
	sum := new(big.Int)
	var mods []uint64
	for i, s := range r.SubRings[:r.level+1] {
		y := MRed(buf.Coeffs[i][0], muc.qoverqiinvqi[i], s.Modulus, s.MRedConstant)
		sum.Add(sum, new(big.Int).Mul(vB(y), new(big.Int).Div(Q, vB(s.Modulus))))
		mods = append(mods, s.Modulus)
	}
	var targets []uint64
	for _, s := range dst.SubRings[:dst.level+1] {
		targets = append(targets, s.Modulus)
	}
	return vCRTLift(new(big.Int).Sub(sum, xs), mods, targets, id)
}

// vMultSumConcrete discharges the multSum contract for one concrete table set (symbolic y and v).
func vMultSumConcrete(muc ModUpConstants, src, dst []*SubRing) {
	level := len(src) - 1
	var ys [8][32]uint64
	var v, res, rlo, rhi [8]uint64
	for i := 0; i <= level; i++ {
		ys[0][i] = vU64("y")
		vAssume(ys[0][i] < src[i].Modulus)
	}
	v[0] = vU64("v")
	vAssume(v[0] <= uint64(level+1))
	for j, s := range dst {
		p := s.Modulus
		multSum(level, &res, &rlo, &rhi, &v, &ys[0], &ys[1], &ys[2], &ys[3], &ys[4], &ys[5], &ys[6], &ys[7], p, s.MRedConstant, muc.vtimesqmodp[j], muc.qoverqimodp[j])
		want := new(big.Int)
		for i := 0; i <= level; i++ {
			want.Add(want, new(big.Int).Mul(vB(ys[0][i]), vB(muc.qoverqimodp[j][i])))
		}
		want.Add(want, vShl64(muc.vtimesqmodp[j][v[0]]))
		vAssert(vCong(vShl64(res[0]), want, p), "multSum-congruence")
	}
}

func VerifH_C02_MultSumContract() {
	vConfig("backend", "int")
	// the concrete tables of every chain used by a C02 harness: basis extender (both directions, every level) and
	// every table of the decomposer; y and the correction index v are symbolic
	chains := append(VerifSetup_BEChains(vTier()), vBECase{8, []uint64{97, 193, 257, 353, 449}, []uint64{577, 641, 673}})
	for ci, cs := range chains {
		if ci < len(chains)-1 {
			be := VerifSetup_BasisExtender(cs.N, cs.Q, cs.P)
			for lq := range cs.Q {
				vMultSumConcrete(be.constantsQtoP[lq], be.ringQ.SubRings[:lq+1], be.ringP.SubRings)
			}
			for lp := range cs.P {
				vMultSumConcrete(be.constantsPtoQ[lp], be.ringP.SubRings[:lp+1], be.ringQ.SubRings)
			}
		}
		if len(cs.P) < 2 {
			continue
		}
		dec := VerifSetup_Decomposer(cs.N, cs.Q, cs.P)
		all := append(append([]*SubRing(nil), dec.ringQ.SubRings...), dec.ringP.SubRings...)
		for lp := range dec.ModUpConstants {
			nbPi := lp + 2
			for d := range dec.ModUpConstants[lp] {
				for k, muc := range dec.ModUpConstants[lp][d] {
					src := dec.ringQ.SubRings[d*nbPi : d*nbPi+k+2]
					// destination table: all Q moduli followed by the P moduli of this LevelP
					dst := append(append([]*SubRing(nil), dec.ringQ.SubRings...), dec.ringP.SubRings[:nbPi]...)
					_ = all
					vMultSumConcrete(muc, src, dst)
				}
			}
		}
	}
	vCover("multsum-reached")
}

func vModUpCase(be *BasisExtender, levelQ, levelP int, toP bool) {
	src, dst := be.ringQ.AtLevel(levelQ), be.ringP.AtLevel(levelP)
	if !toP {
		src, dst = be.ringP.AtLevel(levelP), be.ringQ.AtLevel(levelQ)
	}
	S := vModulusOf(src)
	x := vCentred("x", S)
	in := vRNSPoly(src, x, 0)
	out := dst.NewPoly()
	var muc ModUpConstants
	var buf Poly
	if toP {
		be.ModUpQtoP(levelQ, levelP, in, out)
		muc, buf = be.constantsQtoP[levelQ], be.buffQ
	} else {
		be.ModUpPtoQ(levelP, levelQ, in, out)
		muc, buf = be.constantsPtoQ[levelP], be.buffP
	}
	xs := new(big.Int).Add(x, new(big.Int).Rsh(S, 1))
	vReconstruct(src, dst, buf, muc, xs, "ModUp-CRT-reconstruction")
	e0 := vCongAll(dst, out, x)
	ep := vCongAll(dst, out, new(big.Int).Add(x, S))
	em := vCongAll(dst, out, new(big.Int).Sub(x, S))
	vAssert(e0 || ep || em, "ModUp-congruent-up-to-one-multiple-of-source-modulus")
	quarter := new(big.Int).Rsh(S, 2)
	small := x.Cmp(new(big.Int).Neg(quarter)) > 0 && x.Cmp(quarter) < 0
	vAssert(!small || e0, "ModUp-exact-below-quarter-of-source-modulus")
}

func VerifH_C02_ModUp() {
	vConfig("backend", "int")
	vStub("MRed", "contract:mred")
	vStub("multSum", "call:vStubMultSum")
	for _, cs := range VerifSetup_BEChains(vTier()) {
		be := VerifSetup_BasisExtender(cs.N, cs.Q, cs.P)
		for levelQ := 0; levelQ < len(cs.Q); levelQ++ {
			vModUpCase(be, levelQ, len(cs.P)-1, true)
		}
		for levelP := 0; levelP < len(cs.P); levelP++ {
			vModUpCase(be, len(cs.Q)-1, levelP, false)
		}
	}
	vCover("modup-reached")
}

// ModDown: x is a centred integer modulo QP given by its residues on both bases; the output must be the rounded
// quotient x/P (resp. x/Q) up to an error of at most one, the same on every limb.
//
//	kind 0: ModDownQPtoQ   kind 1: ModDownQPtoQNTT (transform stand-ins)   kind 2: ModDownQPtoP
func vModDownCase(be *BasisExtender, levelQ, levelP, kind int) {
	rq, rp := be.ringQ.AtLevel(levelQ), be.ringP.AtLevel(levelP)
	Q, P := vModulusOf(rq), vModulusOf(rp)
	x := vCentred("x", new(big.Int).Mul(Q, P))
	inQ, inP := vRNSPoly(rq, x, 0), vRNSPoly(rp, x, 0)
	var out Poly
	var src, dst *Ring
	var muc ModUpConstants
	var buf Poly
	var S *big.Int // modulus divided out
	switch kind {
	case 0:
		out = rq.NewPoly()
		be.ModDownQPtoQ(levelQ, levelP, inQ, inP, out)
		src, dst, muc, buf, S = rp, rq, be.constantsPtoQ[levelP], be.buffP, P
	case 1:
		out = rq.NewPoly()
		rq.NTT(inQ, inQ)
		rp.NTT(inP, inP)
		be.ModDownQPtoQNTT(levelQ, levelP, inQ, inP, out)
		rq.INTT(out, out)
		src, dst, muc, buf, S = rp, rq, be.constantsPtoQ[levelP], be.buffP, P
	default:
		out = rp.NewPoly()
		be.ModDownQPtoP(levelQ, levelP, inQ, inP, out)
		src, dst, muc, buf, S = rq, rp, be.constantsQtoP[levelQ], be.buffQ, Q
	}
	h := new(big.Int).Rsh(S, 1)
	xs := new(big.Int).Mod(new(big.Int).Add(x, h), S) // the shifted residue of x modulo S whose words the extension sees
	vReconstruct(src, dst, buf, muc, xs, "ModDown-CRT-reconstruction")
	y := new(big.Int).Div(new(big.Int).Add(x, h), S) // rounded quotient
	ok := [3]bool{true, true, true}
	for i, s := range dst.SubRings[:dst.level+1] {
		o := vB(out.Coeffs[i][0])
		vAssert(out.Coeffs[i][0] < s.Modulus, "ModDown-output-reduced")
		for e := -1; e <= 1; e++ {
			want := new(big.Int).Add(y, big.NewInt(int64(e)))
			ok[e+1] = ok[e+1] && vCong(new(big.Int).Mul(o, S), new(big.Int).Mul(want, S), s.Modulus)
		}
	}
	vAssert(ok[0] || ok[1] || ok[2], "ModDown-rounded-quotient-up-to-one")
}

func VerifH_C02_ModDown() {
	vConfig("backend", "int")
	vStub("MRed", "contract:mred")
	vStub("multSum", "call:vStubMultSum")
	for _, cs := range VerifSetup_BEChains(vTier()) {
		be := VerifSetup_BasisExtender(cs.N, cs.Q, cs.P)
		for levelQ := 0; levelQ < len(cs.Q); levelQ++ {
			for levelP := 0; levelP < len(cs.P); levelP++ {
				if vTier() == 0 && levelP != len(cs.P)-1 && levelQ != len(cs.Q)-1 {
					continue
				}
				vModDownCase(be, levelQ, levelP, 0)
				vModDownCase(be, levelQ, levelP, 2)
			}
		}
		// a shallow copy of the extender (own buffers, shared constants) divides like the original
		if len(cs.P) <= 2 { // (the hardest chain is decided once above; repeating it on the copy is borderline at 300 s)
			cp := be.ShallowCopy()
			vModDownCase(cp, len(cs.Q)-1, len(cs.P)-1, 0)
			vModDownCase(cp, len(cs.Q)-1, len(cs.P)-1, 2)
		}
	}
	vCover("moddown-reached")
}

func VerifH_C02_ModDownNTT() {
	vConfig("backend", "int")
	vStub("MRed", "contract:mred")
	vStub("multSum", "call:vStubMultSum")
	vStubTransforms()
	for _, cs := range VerifSetup_BEChains(vTier()) {
		if len(cs.P) > 2 {
			// the chain with three 61-bit auxiliary primes is decided for the coefficient-domain ModDown; with the lazy
			// transform ranges on top the rounded-quotient query is still undecided after 300 s per solver: outside
			continue
		}
		be := VerifSetup_BasisExtender(cs.N, cs.Q, cs.P)
		for levelQ := 0; levelQ < len(cs.Q); levelQ++ {
			vModDownCase(be, levelQ, len(cs.P)-1, 1)
		}
	}
	vUnstubTransforms()
	vCover("moddownntt-reached")
}

// RNS gadget decomposition: digit d of x (mod Q) is the centred residue D of x modulo the d-th group Qg of nbPi
// primes, returned on every limb outside the group and on the P limbs.  Required: every such limb ≡ D + e·Qg for one
// e in {-1,0,1} with |D + e·Qg| < Qg (digit bounded by its digit modulus), and D ≡ x (mod Qg) – the latter makes the
// digits recombine to x against any gadget vector that is 1 modulo its own group and 0 modulo the others (CRT).
func VerifSetup_Decomposer(n int, q, p []uint64) *Decomposer {
	rq, err := NewRing(n, q)
	if err != nil {
		panic(err)
	}
	rp, err := NewRing(n, p)
	if err != nil {
		panic(err)
	}
	return NewDecomposer(rq, rp)
}

func vDecomposeCase(dec *Decomposer, levelQ, levelP, digit int) {
	rq, rp := dec.ringQ.AtLevel(levelQ), dec.ringP.AtLevel(levelP)
	nbPi := levelP + 1
	x := vBig("x")
	vAssume(vInRange(x, big.NewInt(0), vModulusOf(rq)))
	in := vRNSPoly(rq, x, 0)
	oq, op := rq.NewPoly(), rp.NewPoly()
	dec.DecomposeAndSplit(levelQ, levelP, nbPi, digit, in, oq, op)
	st, ed := digit*nbPi, digit*nbPi+nbPi
	if ed > levelQ+1 {
		ed = levelQ + 1
	}
	Qg := big.NewInt(1)
	var gmods []uint64
	for i := st; i < ed; i++ {
		Qg.Mul(Qg, vB(rq.SubRings[i].Modulus))
		gmods = append(gmods, rq.SubRings[i].Modulus)
	}
	H := new(big.Int).Rsh(Qg, 1)
	xs := new(big.Int).Mod(new(big.Int).Add(x, H), Qg)
	D := new(big.Int).Sub(xs, H)
	vAssert(vCong(D, x, gmods[0]), "Decompose-digit-congruent-to-input-modulo-its-group")
	var targets []uint64
	type limb struct {
		w uint64
		m uint64
	}
	var limbs []limb
	for j := 0; j <= levelQ; j++ {
		if ed-st > 1 && j >= st && j < ed {
			continue // own limbs of a multi-prime digit are left to the caller
		}
		limbs = append(limbs, limb{oq.Coeffs[j][0], rq.SubRings[j].Modulus})
		targets = append(targets, rq.SubRings[j].Modulus)
	}
	for j := 0; j <= levelP; j++ {
		limbs = append(limbs, limb{op.Coeffs[j][0], rp.SubRings[j].Modulus})
		targets = append(targets, rp.SubRings[j].Modulus)
	}
	if ed-st > 1 {
		// ghost: CRT reconstruction over the group from the words reconstructRNSCentered computes
		muc := dec.ModUpConstants[nbPi-2][digit][ed-st-2]
		sum := new(big.Int)
		for i, j := 0, st; j < ed; i, j = i+1, j+1 {
			s := rq.SubRings[j]
			hm := new(big.Int).Mod(H, vB(s.Modulus)).Uint64()
			y := MRed(in.Coeffs[j][0]+hm, muc.qoverqiinvqi[i], s.Modulus, s.MRedConstant)
			sum.Add(sum, new(big.Int).Mul(vB(y), new(big.Int).Div(Qg, vB(s.Modulus))))
		}
		vCRTLift(new(big.Int).Sub(sum, xs), gmods, targets, "Decompose-CRT-reconstruction")
	}
	ok := [3]bool{true, true, true}
	for _, lb := range limbs {
		for e := -1; e <= 1; e++ {
			want := new(big.Int).Add(D, new(big.Int).Mul(big.NewInt(int64(e)), Qg))
			bounded := new(big.Int).Abs(want).Cmp(Qg) < 0
			ok[e+1] = ok[e+1] && bounded && vCong(vB(lb.w), want, lb.m)
		}
	}
	// (the single-prime branch represents the residue (q-1)/2 as -(q+1)/2: congruent and below q, hence the same
	// statement for both branches)
	vAssert(ok[0] || ok[1] || ok[2], "Decompose-digit-on-every-limb-bounded-by-digit-modulus")
}

func VerifH_C02_Decompose() {
	vConfig("backend", "int")
	vStub("MRed", "contract:mred")
	vStub("multSum", "call:vStubMultSum")
	// plus five Q primes with three P primes: partial last RNS digits made of two primes (levelQ = 1, 4)
	chains := append(VerifSetup_BEChains(vTier()), vBECase{8, []uint64{97, 193, 257, 353, 449}, []uint64{577, 641, 673}})
	for _, cs := range chains {
		if len(cs.P) < 2 {
			continue
		}
		dec := VerifSetup_Decomposer(cs.N, cs.Q, cs.P)
		levelP := len(cs.P) - 1
		for levelQ := 0; levelQ < len(cs.Q); levelQ++ {
			nd := (levelQ + levelP + 1) / (levelP + 1)
			for d := 0; d < nd; d++ {
				vDecomposeCase(dec, levelQ, levelP, d)
			}
		}
	}
	vCover("decompose-reached")
}

// Power-of-two gadget decomposition (ring.MaskVec as used by the key switch): digits of width pw2 of a coefficient
// c < q recombine to c against the powers 2^(k·pw2), each digit is below 2^pw2, for ceil(bitlen(q)/pw2) digits.
func VerifH_C02_PowerOfTwoDigits() {
	for _, q := range VerifSetup_Moduli(vTier()) {
		for _, pw2 := range []int{1, 7, 16, 30, 45, 60} {
			bl := 0
			for t := q; t > 0; t >>= 1 {
				bl++
			}
			nd := (bl + pw2 - 1) / pw2
			in := make([]uint64, 8)
			in[3] = vU64("c")
			vAssume(in[3] < q)
			mask := uint64(1)<<uint(pw2) - 1
			var sum uint64
			out := make([]uint64, 8)
			for k := 0; k < nd; k++ {
				MaskVec(in, k*pw2, mask, out)
				vAssert(out[3] <= mask, "pow2-digit-below-base")
				sum += out[3] << uint(k*pw2)
			}
			vAssert(sum == in[3], "pow2-digits-recombine")
		}
	}
	vCover("pow2-reached")
}
