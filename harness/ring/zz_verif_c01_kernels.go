package ring

import "math/big"

// C01-1: scalar reduction kernels against their mathematical definition (radix-multiplied congruences) and
// documented output ranges, for every modulus of the set 𝒬, all 64-bit inputs inside the documented range.

func VerifH_C01_MRed() {
	vConfig("backend", "int")
	for _, q := range VerifSetup_Moduli(vTier()) {
		c := VerifSetup_Consts(q)
		x, y := vU64("x"), vU64("y")
		vAssume(y < q) // then x*y < q*2^64 for every 64-bit x
		r := MRed(x, y, q, c[2])
		vAssert(r < q, "MRed-range")
		vAssert(vCong(vShl64(r), new(big.Int).Mul(vB(x), vB(y)), q), "MRed-congruence")
		rl := MRedLazy(x, y, q, c[2])
		vAssert(rl < 2*q && rl > 0, "MRedLazy-range")
		vAssert(vCong(vShl64(rl), new(big.Int).Mul(vB(x), vB(y)), q), "MRedLazy-congruence")
	}
	vCover("MRed-reached")
}

func VerifH_C01_BRed() {
	vConfig("backend", "int")
	for _, q := range VerifSetup_Moduli(vTier()) {
		c := VerifSetup_Consts(q)
		bc := [2]uint64{c[0], c[1]}
		x, y := vU64("x"), vU64("y")
		vAssume(y < q)
		r := BRed(x, y, q, bc)
		vAssert(r < q, "BRed-range")
		vAssert(vCong(vB(r), new(big.Int).Mul(vB(x), vB(y)), q), "BRed-congruence")
		rl := BRedLazy(x, y, q, bc)
		vAssert(rl < 2*q, "BRedLazy-range")
		vAssert(vCong(vB(rl), new(big.Int).Mul(vB(x), vB(y)), q), "BRedLazy-congruence")
	}
}

func VerifH_C01_BRedAdd() {
	vConfig("backend", "int")
	for _, q := range VerifSetup_Moduli(vTier()) {
		c := VerifSetup_Consts(q)
		bc := [2]uint64{c[0], c[1]}
		a := vU64("a")
		r := BRedAdd(a, q, bc)
		vAssert(r < q, "BRedAdd-range")
		vAssert(vCong(vB(r), vB(a), q), "BRedAdd-congruence")
		rl := BRedAddLazy(a, q, bc)
		vAssert(rl < 2*q, "BRedAddLazy-range")
		vAssert(vCong(vB(rl), vB(a), q), "BRedAddLazy-congruence")
	}
}

func VerifH_C01_MForm() {
	vConfig("backend", "int")
	for _, q := range VerifSetup_Moduli(vTier()) {
		c := VerifSetup_Consts(q)
		bc := [2]uint64{c[0], c[1]}
		a := vU64("a")
		_ = a
		r := MForm(a, q, bc)
		vAssert(r < q, "MForm-range")
		vAssert(vCong(vB(r), vShl64(a), q), "MForm-congruence")
		rl := MFormLazy(a, q, bc)
		vAssert(rl < 2*q, "MFormLazy-range")
		vAssert(vCong(vB(rl), vShl64(a), q), "MFormLazy-congruence")
		// inverse direction
		b := vU64("b")
		ri := IMForm(b, q, c[2])
		vAssert(ri < q, "IMForm-range")
		vAssert(vCong(vShl64(ri), vB(b), q), "IMForm-congruence")
		ril := IMFormLazy(b, q, c[2])
		vAssert(ril < 2*q && ril > 0, "IMFormLazy-range")
		vAssert(vCong(vShl64(ril), vB(b), q), "IMFormLazy-congruence")
	}
}

func VerifH_C01_CRed() {
	// modulus symbolic: CRed is linear in q
	q := vU64("q")
	a := vU64("a")
	vAssume(q > 0 && q < 1<<63)
	vAssume(a < 2*q)
	r := CRed(a, q)
	vAssert(r < q, "CRed-range")
	vAssert(r == a || r == a-q, "CRed-value")
	// unrestricted input: one conditional subtraction, nothing else
	b := vU64("b")
	rb := CRed(b, q)
	vAssert((b >= q && rb == b-q) || (b < q && rb == b), "CRed-any-input-subtracts-q-at-most-once")
}
