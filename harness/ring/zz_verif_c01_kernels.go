package ring

import "math/big"

// C01-1: scalar reduction kernels against their mathematical definition (radix-multiplied congruences) and
// documented output ranges, for every modulus of the set 𝒬, all 64-bit inputs inside the documented range.

func vB(x uint64) *big.Int { return new(big.Int).SetUint64(x) }

func vShl64(x uint64) *big.Int { return new(big.Int).Lsh(vB(x), 64) }

func VerifH_C01_MRed() {
	vConfig("backend", "int")
	for _, q := range VerifSetup_Moduli(vTier()) {
		c := VerifSetup_Consts(q)
		x, y := vU64("x"), vU64("y")
		vAssume(y < q) // then x*y < q*2^64 for every 64-bit x
		r := MRed(x, y, q, c[2])
		vAssert(r < q, "MRed-range")
		vAssert(vCong(vShl64(r), new(big.Int).Mul(vB(x), vB(y)), q), "MRed-congruence")
		rl := MRedLazy(x, y, q, c[2])
		vAssert(rl < 2*q && rl > 0, "MRedLazy-range")
		vAssert(vCong(vShl64(rl), new(big.Int).Mul(vB(x), vB(y)), q), "MRedLazy-congruence")
	}
	vCover("MRed-reached")
}
