package ring

import (
	"math/big"
	"math/bits"
)

// C01-5 (stage cut): the transform functions are executed once from SSA; every time control reaches the head of
// the outer stage loop the harness (a) reads off, from the symbolic contents of the working vector, the concrete
// linear map of the stage just executed (vLinearProbe evaluates the real-code terms on unit vectors), (b) proves
// with the solver that the stage IS that linear map modulo q for every input inside the range invariant and that
// its outputs satisfy the next range invariant (searched: tightest multiple of q), and (c) replaces the vector by
// fresh values under that invariant.  The concrete stage matrices are multiplied modulo q (natively) and compared
// with the definition matrix.  Stage lemmas + matrix product = definition, for every input.

// VerifNative_MatMulMod returns a·b mod q.
func VerifNative_MatMulMod(a, b [][]uint64, q uint64) [][]uint64 {
	n := len(a)
	bq := new(big.Int).SetUint64(q)
	res := make([][]uint64, n)
	t := new(big.Int)
	for i := 0; i < n; i++ {
		res[i] = make([]uint64, len(b[0]))
		for k := 0; k < len(b); k++ {
			if a[i][k] == 0 {
				continue
			}
			for j := 0; j < len(b[0]); j++ {
				if b[k][j] == 0 {
					continue
				}
				t.Mul(new(big.Int).SetUint64(a[i][k]), new(big.Int).SetUint64(b[k][j]))
				t.Add(t, new(big.Int).SetUint64(res[i][j]))
				t.Mod(t, bq)
				res[i][j] = t.Uint64()
			}
		}
	}
	return res
}

func vIdentity(n int) [][]uint64 {
	m := make([][]uint64, n)
	for i := range m {
		m[i] = make([]uint64, n)
		m[i][i] = 1
	}
	return m
}

// vStageLemma proves that cur is the linear image (mod q) of src and returns the concrete stage matrix.
func vStageLemma(cur, src []uint64, q uint64, id string) [][]uint64 {
	n := len(cur)
	m := make([][]uint64, n)
	for j := 0; j < n; j++ {
		c := vLinearProbe(cur[j], src, q)
		acc := new(big.Int).SetUint64(c[n])
		for i := 0; i < n; i++ {
			if c[i] != 0 {
				acc.Add(acc, new(big.Int).Mul(vB(c[i]), vB(src[i])))
			}
		}
		vLemma(vCong(vShl64(cur[j]), new(big.Int).Lsh(acc, 64), q), id+"-stage-is-linear-map")
		vLemma(c[n] == 0, id+"-stage-has-no-offset")
		m[j] = c[:n]
	}
	return m
}

// vTightBound picks the range invariant of a stage: the upper bound given by the engine's interval analysis
// (proved as a lemma by the solver); falls back to a search over multiples of q.
func vTightBound(cur []uint64, q uint64, id string) uint64 {
	var hi uint64
	for j := range cur {
		if b := vUpperBound(cur[j]); b > hi {
			hi = b
		}
	}
	if hi/q < 16 {
		vLemma(vAllLE(cur, hi), id+"-stage-range-invariant")
		return hi
	}
	for c := uint64(1); c <= 10; c++ {
		if vProves(vAllLE(cur, c*q-1)) {
			vLemma(vAllLE(cur, c*q-1), id+"-stage-range-invariant")
			return c*q - 1
		}
	}
	vLemma(vAllLE(cur, 10*q-1), id+"-stage-range-invariant")
	return 10*q - 1
}

func vStagedTransform(id, fnName string, loopIdx, n int, q uint64, run func(in, out []uint64), docBound uint64, def [][]uint64, inPlace bool) {
	in := vU64s("a", n)
	for i := range in {
		vAssume(in[i] < q)
	}
	src := make([]uint64, n)
	copy(src, in)
	out := make([]uint64, n)
	if inPlace {
		out = in
	}
	total := vIdentity(n)
	vStub("MRedLazy", "contract:mredlazy")
	vCutLoop(fnName, loopIdx, func(k int) {
		m := vStageLemma(out, src, q, id)
		total = VerifNative_MatMulMod(m, total, q)
		b := vTightBound(out, q, id)
		fresh := vU64s("s", n)
		for j := range fresh {
			vAssume(fresh[j] <= b)
		}
		copy(out, fresh)
		copy(src, fresh)
	})
	run(in, out)
	vUncut(fnName)
	m := vStageLemma(out, src, q, id)
	total = VerifNative_MatMulMod(m, total, q)
	vLemma(vAllLE(out, docBound), id+"-documented-output-range")
	for j := 0; j < n; j++ { // one lemma per row (concrete matrices)
		row := true
		for i := 0; i < n; i++ {
			row = row && total[j][i] == def[j][i]
		}
		vLemma(row, id+"-composed-stage-matrices-equal-definition")
	}
	vUnstub("MRedLazy")
	vCover(id + "-reached")
	vForget() // the transforms / moduli are independent cases (fresh symbols each)
	// end-to-end witness for a refuted stage lemma (native replay only): the real transform on a deterministic
	// battery of inputs, compared with the definition matrix and the documented output range
	vSearch(id, 1<<14, func(rnd func() uint64) bool {
		a, b := make([]uint64, n), make([]uint64, n)
		mode := rnd() % 4
		for i := range a {
			switch r := rnd(); {
			case mode == 0 || r%8 < 3:
				a[i] = rnd() % q
			case r%8 < 6:
				a[i] = q - 1 - (rnd()%4)*(rnd()%4)
			default:
				a[i] = rnd() % 4
			}
		}
		c := make([]uint64, n)
		copy(c, a)
		if inPlace {
			run(c, c)
			b = c
		} else {
			run(c, b)
		}
		for j := 0; j < n; j++ {
			var acc uint64
			for i := 0; i < n; i++ {
				hi, lo := bits.Mul64(def[j][i], a[i])
				_, r := bits.Div64(hi, lo, q)
				if acc += r; acc >= q {
					acc -= q
				}
			}
			if b[j] > docBound || b[j]%q != acc {
				vObserve("search-n", uint64(n))
				vObserve("search-q", q)
				vObserve("search-slot", uint64(j))
				vObserve("search-got", b[j])
				vObserve("search-want-mod-q", acc)
				return true
			}
		}
		return false
	})
}

func vStagedNTTs(n int, q uint64) {
	s := VerifSetup_SubRing(n, q)
	fwd := VerifSetup_NTTMatrix(n, q, false)
	inv := VerifSetup_NTTMatrix(n, q, true)
	fn, ifn := "nttUnrolled16Lazy", "inttLazyUnrolled16"
	if n < MinimumRingDegreeForLoopUnrolledNTT {
		fn, ifn = "nttLazy", "inttLazy"
	}
	vStagedTransform("NTTLazy", fn, 1, n, q, func(a, b []uint64) { s.NTTLazy(a, b) }, 6*q-2, fwd, false)
	vStagedTransform("NTT", fn, 1, n, q, func(a, b []uint64) { s.NTT(a, b) }, q-1, fwd, false)
	vStagedTransform("INTTLazy", ifn, 1, n, q, func(a, b []uint64) { s.INTTLazy(a, b) }, 2*q-1, inv, false)
	vStagedTransform("INTT", ifn, 1, n, q, func(a, b []uint64) { s.INTT(a, b) }, q-1, inv, false)
}

func VerifH_C01_NTTStages() {
	vConfig("backend", "int")
	sizes := []int{16, 32}
	if vTier() > 0 {
		sizes = []int{16, 32, 64, 128}
	}
	for _, n := range sizes {
		for _, q := range VerifSetup_NTTModuli(n, vTier()) {
			vStagedNTTs(n, q)
		}
	}
}

// Conjugate-invariant transforms (Z[X+X^-1]): same stage-cut argument.  The definition matrix is the library's own
// transform applied natively to the unit vectors: what is decided is that the transform IS that linear map modulo q for
// EVERY input (no lane overflows or drops a reduction on particular data) with the documented output range.
func VerifSetup_CISubRing(n int, q uint64) *SubRing {
	r, err := NewRingConjugateInvariant(n, []uint64{q})
	if err != nil {
		panic(err)
	}
	return r.SubRings[0]
}

func VerifSetup_CIMatrix(n int, q uint64, inverse bool) [][]uint64 {
	s := VerifSetup_CISubRing(n, q)
	m := make([][]uint64, n)
	for j := range m {
		m[j] = make([]uint64, n)
	}
	for i := 0; i < n; i++ {
		e, out := make([]uint64, n), make([]uint64, n)
		e[i] = 1
		if inverse {
			s.INTT(e, out)
		} else {
			s.NTT(e, out)
		}
		for j := 0; j < n; j++ {
			m[j][i] = out[j]
		}
	}
	return m
}

func VerifSetup_CIModuli(n int, tier int) []uint64 {
	var res []uint64
	for _, q := range VerifSetup_Moduli(1) {
		if (q-1)%uint64(4*n) == 0 {
			res = append(res, q)
		}
	}
	if len(res) > 2 && (tier == 0 || n >= 64) {
		res = []uint64{res[0], res[len(res)-1]}
	}
	return res
}

func VerifH_C01_NTTStagesConjugateInvariant() {
	vConfig("backend", "int")
	sizes := []int{8, 16, 32}
	if vTier() > 0 {
		sizes = []int{8, 16, 32, 64}
	}
	for _, n := range sizes {
		for _, q := range VerifSetup_CIModuli(n, vTier()) {
			s := VerifSetup_CISubRing(n, q)
			fwd := VerifSetup_CIMatrix(n, q, false)
			inv := VerifSetup_CIMatrix(n, q, true)
			fn, ifn := "nttConjugateInvariantLazyUnrolled16", "inttConjugateInvariantLazyUnrolled16"
			if n < MinimumRingDegreeForLoopUnrolledNTT {
				fn, ifn = "nttConjugateInvariantLazy", "inttConjugateInvariantLazy"
			}
			vStagedTransform("CI-NTTLazy", fn, 1, n, q, func(a, b []uint64) { s.NTTLazy(a, b) }, 6*q-2, fwd, false)
			vStagedTransform("CI-NTT", fn, 1, n, q, func(a, b []uint64) { s.NTT(a, b) }, q-1, fwd, false)
			vStagedTransform("CI-INTTLazy", ifn, 1, n, q, func(a, b []uint64) { s.INTTLazy(a, b) }, 2*q-1, inv, false)
			vStagedTransform("CI-INTT", ifn, 1, n, q, func(a, b []uint64) { s.INTT(a, b) }, q-1, inv, false)
		}
	}
}
