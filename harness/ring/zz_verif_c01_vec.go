package ring

import "math/big"

// C01-2/3: the 8-way unrolled vector kernels behind the SubRing methods.
//   lane discipline: every output word equals the lane expression applied to the words of the SAME index
//                    (two trips of the unrolled loop, all 16 lanes), inputs are left untouched;
//   lane arithmetic: two lanes (one per trip) are checked against the documented semantics
//                    (congruence modulo q – radix-multiplied for Montgomery products – and output range).

// VerifSetup_SubRing builds a real SubRing (tables, constants) natively.
func VerifSetup_SubRing(n int, q uint64) *SubRing {
	s, err := NewSubRing(n, q)
	if err != nil {
		panic(err)
	}
	if err := s.generateNTTConstants(); err != nil {
		panic(err)
	}
	return s
}

type vVecCase struct {
	name string
	wide bool // first operand ranges over all 64-bit words
	// documented lazy input ranges: p1 < lazy1·q, p2 < lazy2·q (0 means 1)
	lazy1, lazy2 uint64
	run          func(s *SubRing, p1, p2, p3 []uint64, a, b uint64)
	lane         func(s *SubRing, x, y, z, a, b uint64) uint64
	spec         func(s *SubRing, out, x, y, z, a, b uint64) bool
}

func vMulB(x, y uint64) *big.Int   { return new(big.Int).Mul(vB(x), vB(y)) }
func vAddB(a, b *big.Int) *big.Int { return new(big.Int).Add(a, b) }
func vSubB(a, b *big.Int) *big.Int { return new(big.Int).Sub(a, b) }

func vVecCases() []vVecCase {
	return []vVecCase{
		{name: "Add",
			run:  func(s *SubRing, p1, p2, p3 []uint64, a, b uint64) { s.Add(p1, p2, p3) },
			lane: func(s *SubRing, x, y, z, a, b uint64) uint64 { return CRed(x+y, s.Modulus) },
			spec: func(s *SubRing, o, x, y, z, a, b uint64) bool {
				return o < s.Modulus && vCong(vB(o), vAddB(vB(x), vB(y)), s.Modulus)
			}},
		{name: "AddLazy",
			run:  func(s *SubRing, p1, p2, p3 []uint64, a, b uint64) { s.AddLazy(p1, p2, p3) },
			lane: func(s *SubRing, x, y, z, a, b uint64) uint64 { return x + y },
			spec: func(s *SubRing, o, x, y, z, a, b uint64) bool { return vB(o).Cmp(vAddB(vB(x), vB(y))) == 0 }},
		{name: "Sub",
			run:  func(s *SubRing, p1, p2, p3 []uint64, a, b uint64) { s.Sub(p1, p2, p3) },
			lane: func(s *SubRing, x, y, z, a, b uint64) uint64 { return CRed((x+s.Modulus)-y, s.Modulus) },
			spec: func(s *SubRing, o, x, y, z, a, b uint64) bool {
				return o < s.Modulus && vCong(vB(o), vSubB(vB(x), vB(y)), s.Modulus)
			}},
		{name: "SubLazy",
			run:  func(s *SubRing, p1, p2, p3 []uint64, a, b uint64) { s.SubLazy(p1, p2, p3) },
			lane: func(s *SubRing, x, y, z, a, b uint64) uint64 { return x + s.Modulus - y },
			spec: func(s *SubRing, o, x, y, z, a, b uint64) bool {
				return o < 2*s.Modulus && vCong(vB(o), vSubB(vB(x), vB(y)), s.Modulus)
			}},
		{name: "Neg",
			run:  func(s *SubRing, p1, p2, p3 []uint64, a, b uint64) { s.Neg(p1, p3) },
			lane: func(s *SubRing, x, y, z, a, b uint64) uint64 { return s.Modulus - x },
			spec: func(s *SubRing, o, x, y, z, a, b uint64) bool {
				return o <= s.Modulus && vCong(vAddB(vB(o), vB(x)), new(big.Int), s.Modulus)
			}},
		{name: "Reduce", wide: true,
			run:  func(s *SubRing, p1, p2, p3 []uint64, a, b uint64) { s.Reduce(p1, p3) },
			lane: func(s *SubRing, x, y, z, a, b uint64) uint64 { return BRedAdd(x, s.Modulus, s.BRedConstant) },
			spec: func(s *SubRing, o, x, y, z, a, b uint64) bool { return o < s.Modulus && vCong(vB(o), vB(x), s.Modulus) }},
		{name: "ReduceLazy", wide: true,
			run:  func(s *SubRing, p1, p2, p3 []uint64, a, b uint64) { s.ReduceLazy(p1, p3) },
			lane: func(s *SubRing, x, y, z, a, b uint64) uint64 { return BRedAddLazy(x, s.Modulus, s.BRedConstant) },
			spec: func(s *SubRing, o, x, y, z, a, b uint64) bool {
				return o < 2*s.Modulus && vCong(vB(o), vB(x), s.Modulus)
			}},
		{name: "MulCoeffsLazy",
			run:  func(s *SubRing, p1, p2, p3 []uint64, a, b uint64) { s.MulCoeffsLazy(p1, p2, p3) },
			lane: func(s *SubRing, x, y, z, a, b uint64) uint64 { return x * y },
			spec: func(s *SubRing, o, x, y, z, a, b uint64) bool { return true }},
		{name: "MulCoeffsLazyThenAddLazy",
			run:  func(s *SubRing, p1, p2, p3 []uint64, a, b uint64) { s.MulCoeffsLazyThenAddLazy(p1, p2, p3) },
			lane: func(s *SubRing, x, y, z, a, b uint64) uint64 { return z + x*y },
			spec: func(s *SubRing, o, x, y, z, a, b uint64) bool { return true }},
		{name: "MulCoeffsBarrett",
			run:  func(s *SubRing, p1, p2, p3 []uint64, a, b uint64) { s.MulCoeffsBarrett(p1, p2, p3) },
			lane: func(s *SubRing, x, y, z, a, b uint64) uint64 { return BRed(x, y, s.Modulus, s.BRedConstant) },
			spec: func(s *SubRing, o, x, y, z, a, b uint64) bool {
				return o < s.Modulus && vCong(vB(o), vMulB(x, y), s.Modulus)
			}},
		{name: "MulCoeffsBarrettLazy",
			run:  func(s *SubRing, p1, p2, p3 []uint64, a, b uint64) { s.MulCoeffsBarrettLazy(p1, p2, p3) },
			lane: func(s *SubRing, x, y, z, a, b uint64) uint64 { return BRedLazy(x, y, s.Modulus, s.BRedConstant) },
			spec: func(s *SubRing, o, x, y, z, a, b uint64) bool {
				return o < 2*s.Modulus && vCong(vB(o), vMulB(x, y), s.Modulus)
			}},
		{name: "MulCoeffsBarrettThenAdd",
			run: func(s *SubRing, p1, p2, p3 []uint64, a, b uint64) { s.MulCoeffsBarrettThenAdd(p1, p2, p3) },
			lane: func(s *SubRing, x, y, z, a, b uint64) uint64 {
				return CRed(z+BRed(x, y, s.Modulus, s.BRedConstant), s.Modulus)
			},
			spec: func(s *SubRing, o, x, y, z, a, b uint64) bool {
				return o < s.Modulus && vCong(vB(o), vAddB(vB(z), vMulB(x, y)), s.Modulus)
			}},
		{name: "MulCoeffsBarrettThenAddLazy",
			run:  func(s *SubRing, p1, p2, p3 []uint64, a, b uint64) { s.MulCoeffsBarrettThenAddLazy(p1, p2, p3) },
			lane: func(s *SubRing, x, y, z, a, b uint64) uint64 { return z + BRed(x, y, s.Modulus, s.BRedConstant) },
			spec: func(s *SubRing, o, x, y, z, a, b uint64) bool {
				return o < 2*s.Modulus && vCong(vB(o), vAddB(vB(z), vMulB(x, y)), s.Modulus)
			}},
		{name: "MulCoeffsMontgomery",
			run:  func(s *SubRing, p1, p2, p3 []uint64, a, b uint64) { s.MulCoeffsMontgomery(p1, p2, p3) },
			lane: func(s *SubRing, x, y, z, a, b uint64) uint64 { return MRed(x, y, s.Modulus, s.MRedConstant) },
			spec: func(s *SubRing, o, x, y, z, a, b uint64) bool {
				return o < s.Modulus && vCong(vShl64(o), vMulB(x, y), s.Modulus)
			}},
		{name: "MulCoeffsMontgomeryLazy",
			run:  func(s *SubRing, p1, p2, p3 []uint64, a, b uint64) { s.MulCoeffsMontgomeryLazy(p1, p2, p3) },
			lane: func(s *SubRing, x, y, z, a, b uint64) uint64 { return MRedLazy(x, y, s.Modulus, s.MRedConstant) },
			spec: func(s *SubRing, o, x, y, z, a, b uint64) bool {
				return o < 2*s.Modulus && vCong(vShl64(o), vMulB(x, y), s.Modulus)
			}},
		{name: "MulCoeffsMontgomeryThenAdd",
			run: func(s *SubRing, p1, p2, p3 []uint64, a, b uint64) { s.MulCoeffsMontgomeryThenAdd(p1, p2, p3) },
			lane: func(s *SubRing, x, y, z, a, b uint64) uint64 {
				return CRed(z+MRed(x, y, s.Modulus, s.MRedConstant), s.Modulus)
			},
			spec: func(s *SubRing, o, x, y, z, a, b uint64) bool {
				return o < s.Modulus && vCong(vShl64(o), vAddB(vShl64(z), vMulB(x, y)), s.Modulus)
			}},
		{name: "MulCoeffsMontgomeryThenAddLazy",
			run:  func(s *SubRing, p1, p2, p3 []uint64, a, b uint64) { s.MulCoeffsMontgomeryThenAddLazy(p1, p2, p3) },
			lane: func(s *SubRing, x, y, z, a, b uint64) uint64 { return z + MRed(x, y, s.Modulus, s.MRedConstant) },
			spec: func(s *SubRing, o, x, y, z, a, b uint64) bool {
				return o < 2*s.Modulus && vCong(vShl64(o), vAddB(vShl64(z), vMulB(x, y)), s.Modulus)
			}},
		{name: "MulCoeffsMontgomeryLazyThenAddLazy",
			run:  func(s *SubRing, p1, p2, p3 []uint64, a, b uint64) { s.MulCoeffsMontgomeryLazyThenAddLazy(p1, p2, p3) },
			lane: func(s *SubRing, x, y, z, a, b uint64) uint64 { return z + MRedLazy(x, y, s.Modulus, s.MRedConstant) },
			spec: func(s *SubRing, o, x, y, z, a, b uint64) bool {
				return o <= 3*s.Modulus-2 && vCong(vShl64(o), vAddB(vShl64(z), vMulB(x, y)), s.Modulus)
			}},
		{name: "MulCoeffsMontgomeryThenSub",
			run: func(s *SubRing, p1, p2, p3 []uint64, a, b uint64) { s.MulCoeffsMontgomeryThenSub(p1, p2, p3) },
			lane: func(s *SubRing, x, y, z, a, b uint64) uint64 {
				return CRed(z+(s.Modulus-MRed(x, y, s.Modulus, s.MRedConstant)), s.Modulus)
			},
			spec: func(s *SubRing, o, x, y, z, a, b uint64) bool {
				return o <= s.Modulus && vCong(vShl64(o), vSubB(vShl64(z), vMulB(x, y)), s.Modulus)
			}},
		{name: "MulCoeffsMontgomeryThenSubLazy",
			run: func(s *SubRing, p1, p2, p3 []uint64, a, b uint64) { s.MulCoeffsMontgomeryThenSubLazy(p1, p2, p3) },
			lane: func(s *SubRing, x, y, z, a, b uint64) uint64 {
				return z + (s.Modulus - MRed(x, y, s.Modulus, s.MRedConstant))
			},
			spec: func(s *SubRing, o, x, y, z, a, b uint64) bool {
				return o <= 2*s.Modulus-1 && vCong(vShl64(o), vSubB(vShl64(z), vMulB(x, y)), s.Modulus)
			}},
		{name: "MulCoeffsMontgomeryLazyThenSubLazy",
			run: func(s *SubRing, p1, p2, p3 []uint64, a, b uint64) { s.MulCoeffsMontgomeryLazyThenSubLazy(p1, p2, p3) },
			lane: func(s *SubRing, x, y, z, a, b uint64) uint64 {
				return z + ((s.Modulus << 1) - MRedLazy(x, y, s.Modulus, s.MRedConstant))
			},
			spec: func(s *SubRing, o, x, y, z, a, b uint64) bool {
				return o <= 3*s.Modulus-2 && vCong(vShl64(o), vSubB(vShl64(z), vMulB(x, y)), s.Modulus)
			}},
		{name: "MulCoeffsMontgomeryLazyThenNeg",
			run: func(s *SubRing, p1, p2, p3 []uint64, a, b uint64) { s.MulCoeffsMontgomeryLazyThenNeg(p1, p2, p3) },
			lane: func(s *SubRing, x, y, z, a, b uint64) uint64 {
				return (s.Modulus << 1) - MRedLazy(x, y, s.Modulus, s.MRedConstant)
			},
			spec: func(s *SubRing, o, x, y, z, a, b uint64) bool {
				return o <= 2*s.Modulus-1 && vCong(vShl64(o), vSubB(new(big.Int), vMulB(x, y)), s.Modulus)
			}},
		{name: "AddLazyThenMulScalarMontgomery",
			run:  func(s *SubRing, p1, p2, p3 []uint64, a, b uint64) { s.AddLazyThenMulScalarMontgomery(p1, p2, a, p3) },
			lane: func(s *SubRing, x, y, z, a, b uint64) uint64 { return MRed(x+y, a, s.Modulus, s.MRedConstant) },
			spec: func(s *SubRing, o, x, y, z, a, b uint64) bool {
				return o < s.Modulus && vCong(vShl64(o), vMulB(x+y, a), s.Modulus)
			}},
		{name: "AddScalarLazyThenMulScalarMontgomery",
			run: func(s *SubRing, p1, p2, p3 []uint64, a, b uint64) {
				s.AddScalarLazyThenMulScalarMontgomery(p1, a, b, p3)
			},
			lane: func(s *SubRing, x, y, z, a, b uint64) uint64 { return MRed(x+a, b, s.Modulus, s.MRedConstant) },
			spec: func(s *SubRing, o, x, y, z, a, b uint64) bool {
				return o < s.Modulus && vCong(vShl64(o), vMulB(x+a, b), s.Modulus)
			}},
		{name: "AddScalar",
			run:  func(s *SubRing, p1, p2, p3 []uint64, a, b uint64) { s.AddScalar(p1, a, p3) },
			lane: func(s *SubRing, x, y, z, a, b uint64) uint64 { return CRed(x+a, s.Modulus) },
			spec: func(s *SubRing, o, x, y, z, a, b uint64) bool {
				return o < s.Modulus && vCong(vB(o), vAddB(vB(x), vB(a)), s.Modulus)
			}},
		{name: "AddScalarLazy",
			run:  func(s *SubRing, p1, p2, p3 []uint64, a, b uint64) { s.AddScalarLazy(p1, a, p3) },
			lane: func(s *SubRing, x, y, z, a, b uint64) uint64 { return x + a },
			spec: func(s *SubRing, o, x, y, z, a, b uint64) bool { return vB(o).Cmp(vAddB(vB(x), vB(a))) == 0 }},
		{name: "AddScalarLazyThenNegTwoModulusLazy", lazy1: 2,
			run:  func(s *SubRing, p1, p2, p3 []uint64, a, b uint64) { s.AddScalarLazyThenNegTwoModulusLazy(p1, a, p3) },
			lane: func(s *SubRing, x, y, z, a, b uint64) uint64 { return a + (s.Modulus << 1) - x },
			spec: func(s *SubRing, o, x, y, z, a, b uint64) bool {
				return o < 3*s.Modulus && vCong(vB(o), vSubB(vB(a), vB(x)), s.Modulus)
			}},
		{name: "SubScalar",
			run:  func(s *SubRing, p1, p2, p3 []uint64, a, b uint64) { s.SubScalar(p1, a, p3) },
			lane: func(s *SubRing, x, y, z, a, b uint64) uint64 { return CRed(x+s.Modulus-a, s.Modulus) },
			spec: func(s *SubRing, o, x, y, z, a, b uint64) bool {
				return o < s.Modulus && vCong(vB(o), vSubB(vB(x), vB(a)), s.Modulus)
			}},
		{name: "MulScalarMontgomery",
			run:  func(s *SubRing, p1, p2, p3 []uint64, a, b uint64) { s.MulScalarMontgomery(p1, a, p3) },
			lane: func(s *SubRing, x, y, z, a, b uint64) uint64 { return MRed(x, a, s.Modulus, s.MRedConstant) },
			spec: func(s *SubRing, o, x, y, z, a, b uint64) bool {
				return o < s.Modulus && vCong(vShl64(o), vMulB(x, a), s.Modulus)
			}},
		{name: "MulScalarMontgomeryLazy",
			run:  func(s *SubRing, p1, p2, p3 []uint64, a, b uint64) { s.MulScalarMontgomeryLazy(p1, a, p3) },
			lane: func(s *SubRing, x, y, z, a, b uint64) uint64 { return MRedLazy(x, a, s.Modulus, s.MRedConstant) },
			spec: func(s *SubRing, o, x, y, z, a, b uint64) bool {
				return o < 2*s.Modulus && vCong(vShl64(o), vMulB(x, a), s.Modulus)
			}},
		{name: "MulScalarMontgomeryThenAdd",
			run: func(s *SubRing, p1, p2, p3 []uint64, a, b uint64) { s.MulScalarMontgomeryThenAdd(p1, a, p3) },
			lane: func(s *SubRing, x, y, z, a, b uint64) uint64 {
				return CRed(z+MRed(x, a, s.Modulus, s.MRedConstant), s.Modulus)
			},
			spec: func(s *SubRing, o, x, y, z, a, b uint64) bool {
				return o < s.Modulus && vCong(vShl64(o), vAddB(vShl64(z), vMulB(x, a)), s.Modulus)
			}},
		{name: "MulScalarMontgomeryThenAddScalar",
			run: func(s *SubRing, p1, p2, p3 []uint64, a, b uint64) { s.MulScalarMontgomeryThenAddScalar(p1, a, b, p3) },
			lane: func(s *SubRing, x, y, z, a, b uint64) uint64 {
				return CRed(MRed(x, b, s.Modulus, s.MRedConstant)+a, s.Modulus)
			},
			spec: func(s *SubRing, o, x, y, z, a, b uint64) bool {
				return o < s.Modulus && vCong(vShl64(o), vAddB(vShl64(a), vMulB(x, b)), s.Modulus)
			}},
		{name: "SubThenMulScalarMontgomeryTwoModulus", lazy1: 6, lazy2: 2, // p1: NTTLazy output, p2 in [0, 2q)
			run: func(s *SubRing, p1, p2, p3 []uint64, a, b uint64) {
				s.SubThenMulScalarMontgomeryTwoModulus(p1, p2, a, p3)
			},
			lane: func(s *SubRing, x, y, z, a, b uint64) uint64 {
				return MRed((s.Modulus<<1)-y+x, a, s.Modulus, s.MRedConstant)
			},
			spec: func(s *SubRing, o, x, y, z, a, b uint64) bool {
				return o < s.Modulus && vCong(vShl64(o), vMulB((s.Modulus<<1)-y+x, a), s.Modulus)
			}},
		{name: "MForm", wide: true,
			run:  func(s *SubRing, p1, p2, p3 []uint64, a, b uint64) { s.MForm(p1, p3) },
			lane: func(s *SubRing, x, y, z, a, b uint64) uint64 { return MForm(x, s.Modulus, s.BRedConstant) },
			spec: func(s *SubRing, o, x, y, z, a, b uint64) bool {
				return o < s.Modulus && vCong(vB(o), vShl64(x), s.Modulus)
			}},
		{name: "MFormLazy", wide: true,
			run:  func(s *SubRing, p1, p2, p3 []uint64, a, b uint64) { s.MFormLazy(p1, p3) },
			lane: func(s *SubRing, x, y, z, a, b uint64) uint64 { return MFormLazy(x, s.Modulus, s.BRedConstant) },
			spec: func(s *SubRing, o, x, y, z, a, b uint64) bool {
				return o < 2*s.Modulus && vCong(vB(o), vShl64(x), s.Modulus)
			}},
		{name: "IMForm", wide: true,
			run:  func(s *SubRing, p1, p2, p3 []uint64, a, b uint64) { s.IMForm(p1, p3) },
			lane: func(s *SubRing, x, y, z, a, b uint64) uint64 { return IMForm(x, s.Modulus, s.MRedConstant) },
			spec: func(s *SubRing, o, x, y, z, a, b uint64) bool {
				return o < s.Modulus && vCong(vShl64(o), vB(x), s.Modulus)
			}},
	}
}

func vRunVecCase(c vVecCase, q uint64, concreteScalars bool) {
	const n = 16
	s := VerifSetup_SubRing(n, q)
	p1, p2, p3 := vU64s("p1", n), vU64s("p2", n), vU64s("p3", n)
	a, b := vU64("a"), vU64("b")
	if concreteScalars {
		// concrete scalars make every product linear: a counterexample of the lane checks is then an exact model
		// (with a symbolic scalar the product is an abstract value and a model may not replay)
		a, b = 0x9e3779b97f4a7c15%q, 0xc2b2ae3d27d4eb4f%q
	}
	vAssume(a < q)
	vAssume(b < q)
	var x, y, z [n]uint64
	for j := 0; j < n; j++ {
		l1, l2 := c.lazy1, c.lazy2
		if l1 == 0 {
			l1 = 1
		}
		if l2 == 0 {
			l2 = 1
		}
		if !c.wide {
			vAssume(p1[j] < l1*q)
		}
		vAssume(p2[j] < l2*q)
		vAssume(p3[j] < q)
		x[j], y[j], z[j] = p1[j], p2[j], p3[j]
	}
	c.run(s, p1, p2, p3, a, b)
	for j := 0; j < n; j++ {
		vAssert(p3[j] == c.lane(s, x[j], y[j], z[j], a, b), c.name+"-lane-discipline")
		vAssert(p1[j] == x[j] && p2[j] == y[j], c.name+"-inputs-intact")
	}
	for _, j := range []int{3, 12} {
		vAssert(c.spec(s, p3[j], x[j], y[j], z[j], a, b), c.name+"-lane-semantics")
	}
}

func VerifH_C01_VecOps() {
	vConfig("backend", "int")
	for _, q := range VerifSetup_Moduli(vTier()) {
		if q < 1<<20 && vTier() == 0 {
			continue
		}
		for _, c := range vVecCases() {
			vRunVecCase(c, q, false)
			vForget() // the cases are independent (fresh symbols each)
			if c.lazy1 != 0 || c.lazy2 != 0 {
				vRunVecCase(c, q, true)
				vForget()
			}
		}
	}
	vCover("vecops-reached")
}

// ZeroVec and MaskVec (used by the power-of-two gadget decomposition).
func VerifH_C01_MaskVec() {
	const n = 16
	p1, p2 := vU64s("p1", n), vU64s("p2", n)
	var x [n]uint64
	copy(x[:], p1)
	w := vInt("w")
	vAssume(w >= 0 && w < 64)
	mask := vU64("mask")
	MaskVec(p1, w, mask, p2)
	for j := 0; j < n; j++ {
		vAssert(p2[j] == (x[j]>>uint(w))&mask, "MaskVec-lane")
		vAssert(p1[j] == x[j], "MaskVec-input-intact")
	}
	ZeroVec(p2)
	for j := 0; j < n; j++ {
		vAssert(p2[j] == 0, "ZeroVec-lane")
	}
}
