package ring

import (
	"math/big"
	"math/bits"
)

// Engine-only stand-ins shared by the word-level harnesses of several properties (C02, C07): transforms as identity up
// to the documented lazy range, multSum through its contract (both justified and discharged in the C02 harnesses).

// stand-ins for the transforms (engine only): identity on reduced values, output anywhere in the documented range.
func vStubNTT(s *SubRing, p1, p2 []uint64) {
	for j := range p1 {
		p2[j] = p1[j] % s.Modulus
	}
}

func vStubNTTLazy(s *SubRing, p1, p2 []uint64) {
	for j := range p1 {
		p2[j] = p1[j] % s.Modulus
	}
	k := vU64("nttlazy.k")
	p2[0] += (k % 6) * s.Modulus // [0, 6q-2] documented
}

// INTTLazy: documented range [0, 2q-1].  The implementation's last step is MRedLazy(v, N^-1) (N < 16) or MRed
// (N >= 16) of a value v < 2q, so an unreduced output r+q only occurs with r <= hi64(v·N^-1) <= (2q·q)>>64 (< q/4
// for q < 2^61); VerifH_C02_INTTLazyRange discharges that bound on the real MRedLazy.  DivRoundByLastModulusNTT is only
// correct under this tighter, actual range, so the stand-in uses it.
func vStubINTTLazy(s *SubRing, p1, p2 []uint64) {
	for j := range p1 {
		p2[j] = p1[j] % s.Modulus
	}
	k := vU64("inttlazy.k") & 1
	hi, _ := bits.Mul64(2*s.Modulus, s.Modulus)
	if p2[0] > hi {
		k = 0
	}
	p2[0] += k * s.Modulus
}

func vStubTransforms() {
	const pfx = "(*github.com/tuneinsight/lattigo/v6/ring.SubRing)."
	vStub(pfx+"NTT", "call:vStubNTT")
	vStub(pfx+"INTT", "call:vStubNTT")
	vStub(pfx+"NTTLazy", "call:vStubNTTLazy")
	vStub(pfx+"INTTLazy", "call:vStubINTTLazy")
}

func vUnstubTransforms() {
	const pfx = "(*github.com/tuneinsight/lattigo/v6/ring.SubRing)."
	vUnstub(pfx + "NTT")
	vUnstub(pfx + "INTT")
	vUnstub(pfx + "NTTLazy")
	vUnstub(pfx + "INTTLazy")
}

// vStubMultSum is the contract of multSum (engine only; discharged on the real multSum by VerifH_C02_MultSumContract):
//
//	res[l] ≡ Σ_i y_l[i]·(qoverqimodp[i]·2^-64) + vtimesqmodp[v[l]]  (mod q),   res[l] < 2^64 (no wrap).
//
// The representative returned is the reduced one plus an arbitrary multiple (0..3) of q: consumers may rely on the
// congruence only (the real function documents [0, 2q-1], which does not hold for its vtimesqmodp term: values up to
// 3q-2 occur; none of the callers depends on it).
func vStubMultSum(level int, res, rlo, rhi, v *[8]uint64, y0, y1, y2, y3, y4, y5, y6, y7 *[32]uint64, q, qInv uint64, vtimesqmodp, qoverqimodp []uint64) {
	ys := [8]*[32]uint64{y0, y1, y2, y3, y4, y5, y6, y7}
	bred := GenBRedConstant(q)
	for l := 0; l < 8; l++ {
		acc := new(big.Int)
		for i := 0; i <= level; i++ {
			acc.Add(acc, new(big.Int).Mul(vB(ys[l][i]), vB(IMForm(qoverqimodp[i], q, qInv))))
		}
		vi := v[l]
		vAssert(vi < uint64(len(vtimesqmodp)), "multSum-correction-index-in-range")
		var corr uint64
		for k := range vtimesqmodp {
			corr = vIte64(vi == uint64(k), vtimesqmodp[k], corr)
		}
		acc.Add(acc, vB(corr))
		res[l] = acc.Mod(acc, vB(q)).Uint64()
	}
	_ = bred
	res[0] += (vU64("multsum.k") & 3) * q
}

// VerifGhostSum returns Σ_i y_i·(Q/q_i) for the words y_i = MRed(buf_i, (Q/q_i)^-1) a basis extension computes from
// the residues in buf (coefficient 0), together with the source moduli: the argument of the CRT lift of the ghost.
func VerifGhostSum(r *Ring, buf Poly, muc ModUpConstants) (*big.Int, []uint64) {
	Q := big.NewInt(1)
	for _, s := range r.SubRings[:r.level+1] {
		Q.Mul(Q, new(big.Int).SetUint64(s.Modulus))
	}
	sum := new(big.Int)
	var mods []uint64
	for i, s := range r.SubRings[:r.level+1] {
		y := MRed(buf.Coeffs[i][0], muc.qoverqiinvqi[i], s.Modulus, s.MRedConstant)
		sum.Add(sum, new(big.Int).Mul(new(big.Int).SetUint64(y), new(big.Int).Div(Q, new(big.Int).SetUint64(s.Modulus))))
		mods = append(mods, s.Modulus)
	}
	return sum, mods
}
