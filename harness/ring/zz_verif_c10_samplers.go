package ring

import "encoding/binary"

// C10 (ring samplers): the copies a sampler hands out.
//   - UniformSampler.WithPRNG: the re-keyed copy reproduces the stream of its own generator (it does not go on reading
//     the bytes its parent had buffered) and reading from it leaves the parent's stream untouched; every stream byte is
//     symbolic (candidates assumed accepted: rejection is a C17 harness).
//   - AtLevel views of the Gaussian and ternary samplers sample from the distribution and in the representation
//     (Montgomery or not) of the sampler they come from: decided on the fields that determine the output of Read.

type vStream10 struct {
	data []byte
	pos  int
}

func (s *vStream10) Read(p []byte) (int, error) {
	for i := range p {
		p[i] = s.data[s.pos%len(s.data)]
		s.pos++
	}
	return len(p), nil
}

func VerifSetup_SamplerRing10() *Ring {
	r, err := NewRing(16, []uint64{97, 193})
	if err != nil {
		panic(err)
	}
	return r
}

func VerifH_C10_UniformWithPRNG() {
	r := VerifSetup_SamplerRing10().AtLevel(0)
	n := r.N()
	s := vBytes("s", 2048)
	k := vBytes("k", 2048)
	mask := r.SubRings[0].Mask
	for i := 0; i < 8*n; i++ {
		vAssume(binary.BigEndian.Uint64(s[8*i:8*i+8])&mask < 97)
		vAssume(binary.BigEndian.Uint64(k[8*i:8*i+8])&mask < 97)
	}
	parent := NewUniformSampler(&vStream10{data: s}, r)
	twin := NewUniformSampler(&vStream10{data: s}, r)
	p0, t0 := r.NewPoly(), r.NewPoly()
	parent.Read(p0) // the parent's buffer is now partially consumed
	twin.Read(t0)
	child := parent.WithPRNG(&vStream10{data: k})
	fresh := NewUniformSampler(&vStream10{data: k}, r)
	pc, pf := r.NewPoly(), r.NewPoly()
	child.Read(pc)
	fresh.Read(pf)
	for i := 0; i < n; i++ {
		vAssert(pc.Coeffs[0][i] == pf.Coeffs[0][i], "rekeyed-copy-reproduces-the-stream-of-its-own-generator")
	}
	p1, t1 := r.NewPoly(), r.NewPoly()
	parent.Read(p1)
	twin.Read(t1)
	for i := 0; i < n; i++ {
		vAssert(p1.Coeffs[0][i] == t1.Coeffs[0][i], "parent-stream-unaffected-by-reads-of-the-rekeyed-copy")
	}
	vCover("C10-uniform-withprng-reached")
}

func VerifH_C10_SamplerLevelViews() {
	r := VerifSetup_SamplerRing10()
	for _, mont := range []bool{false, true} {
		tag := "standard"
		if mont {
			tag = "montgomery"
		}
		xe := DiscreteGaussian{Sigma: 12.5, Bound: 75}
		g := NewGaussianSampler(&vStream10{data: make([]byte, 64)}, r, xe, mont)
		for level := 0; level <= r.Level(); level++ {
			v, ok := g.AtLevel(level).(*GaussianSampler)
			vAssert(ok && v != g, tag+"-gaussian-level-view-is-a-new-sampler")
			if ok {
				vAssert(v.montgomery == mont, tag+"-gaussian-level-view-keeps-the-representation")
				vAssert(v.xe == xe, tag+"-gaussian-level-view-keeps-the-distribution")
				vAssert(v.baseRing.Level() == level, tag+"-gaussian-level-view-is-at-the-requested-level")
			}
		}
		for _, X := range []Ternary{{P: 0.5}, {H: 5}} {
			ts, err := NewTernarySampler(&vStream10{data: make([]byte, 64)}, r, X, mont)
			vAssert(err == nil, tag+"-ternary-sampler-created")
			for level := 0; level <= r.Level(); level++ {
				v, ok := ts.AtLevel(level).(*TernarySampler)
				vAssert(ok && v != ts, tag+"-ternary-level-view-is-a-new-sampler")
				if ok {
					same := v.hw == ts.hw && v.invDensity == ts.invDensity && v.matrixProba == ts.matrixProba && len(v.matrixValues) == len(ts.matrixValues)
					for i := range ts.matrixValues {
						same = same && i < len(v.matrixValues) && v.matrixValues[i] == ts.matrixValues[i]
					}
					vAssert(same, tag+"-ternary-level-view-keeps-distribution-and-representation")
					vAssert(v.baseRing.Level() == level, tag+"-ternary-level-view-is-at-the-requested-level")
				}
			}
		}
	}
	vCover("C10-sampler-level-views-reached")
}
