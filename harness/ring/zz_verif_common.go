package ring

import "math/big"

func vB(x uint64) *big.Int { return new(big.Int).SetUint64(x) }

func vShl64(x uint64) *big.Int { return new(big.Int).Lsh(vB(x), 64) }

func VerifSetup_Ring(n int, moduli []uint64) *Ring {
	r, err := NewRing(n, moduli)
	if err != nil {
		panic(err)
	}
	return r
}

// Shared native set-up helpers for the ring-package harnesses (executed natively, results imported).

// VerifSetup_Consts returns {BRedConstant[0], BRedConstant[1], MRedConstant} computed by the real generators.
func VerifSetup_Consts(q uint64) [3]uint64 {
	b := GenBRedConstant(q)
	return [3]uint64{b[0], b[1], GenMRedConstant(q)}
}

// VerifSetup_Moduli returns the modulus set 𝒬 for the word-level harnesses: small NTT-friendly primes and, per
// bit size, primes produced by lattigo's own generator (both classes q>2^k and q<2^k), plus the largest
// NTT-friendly primes below 2^61.
func VerifSetup_Moduli(tier int) []uint64 {
	res := []uint64{97, 257, 12289}
	sizes := []int{30, 55, 60}
	per := 1
	if tier > 0 {
		res = append(res, 193, 769, 7681, 65537)
		sizes = []int{20, 30, 40, 45, 50, 55, 56, 58, 59, 60}
		per = 2
	}
	for _, b := range sizes {
		g := NewNTTFriendlyPrimesGenerator(uint64(b), 128)
		for i := 0; i < per; i++ {
			if p, err := g.NextUpstreamPrime(); err == nil {
				res = append(res, p)
			}
			if p, err := g.NextDownstreamPrime(); err == nil {
				res = append(res, p)
			}
		}
	}
	// the largest NTT-friendly (for N<=64) prime below 2^61
	g := NewNTTFriendlyPrimesGenerator(61, 128)
	if p, err := g.NextDownstreamPrime(); err == nil {
		res = append(res, p)
	}
	return res
}
