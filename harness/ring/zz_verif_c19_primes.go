package ring

// C19 (prime generator; concrete): NTT-friendly prime generators return, for every bit size, distinct primes congruent
// to 1 modulo the requested root order, in strictly monotone order per direction, within the requested bit size
// window (downstream below 2^b+1... upstream above), and the alternating generator interleaves both without repeats.

func VerifSetup_GenPrimes(bits int, nthRoot uint64, dir, count int) []uint64 {
	g := NewNTTFriendlyPrimesGenerator(uint64(bits), nthRoot)
	var res []uint64
	for i := 0; i < count; i++ {
		var p uint64
		var err error
		switch dir {
		case 0:
			p, err = g.NextDownstreamPrime()
		case 1:
			p, err = g.NextUpstreamPrime()
		default:
			p, err = g.NextAlternatingPrime()
		}
		if err != nil {
			break
		}
		res = append(res, p)
	}
	return res
}

func VerifSetup_IsPrime(x uint64) bool { return IsPrime(x) }

func VerifH_C19_PrimeGenerator() {
	for _, bits := range []int{8, 12, 16, 17, 20, 30, 45, 60} {
		nth := uint64(32)
		tag := "bits" + string(rune('0'+bits/10)) + string(rune('0'+bits%10))
		for dir := 0; dir < 3; dir++ {
			ps := VerifSetup_GenPrimes(bits, nth, dir, 6)
			dtag := tag + []string{"-downstream", "-upstream", "-alternating"}[dir]
			seen := map[uint64]bool{}
			ok, distinct, mono := true, true, true
			for i, p := range ps {
				ok = ok && p%nth == 1 && VerifSetup_IsPrime(p)
				if seen[p] {
					distinct = false
				}
				seen[p] = true
				if i > 0 && dir == 0 && !(p < ps[i-1]) {
					mono = false
				}
				if i > 0 && dir == 1 && !(p > ps[i-1]) {
					mono = false
				}
			}
			vAssert(ok, dtag+"-every-value-is-a-prime-congruent-to-1-mod-the-root-order")
			vAssert(distinct, dtag+"-no-prime-is-returned-twice")
			vAssert(mono, dtag+"-sequence-is-strictly-monotone")
			if bits >= 16 {
				vAssert(len(ps) == 6, dtag+"-six-primes-available")
			}
			for _, p := range ps {
				lo, hi := uint64(1)<<uint(bits-1), uint64(1)<<uint(bits+1)
				vAssert(p > lo && p < hi, dtag+"-prime-within-one-bit-of-the-requested-size")
			}
		}
	}
	vCover("C19-primegen-reached")
}

// A ring is accepted only over primes congruent to 1 modulo its NthRoot (2N in the standard ring, 4N in the
// conjugate-invariant one): primes that are 1 modulo half of it are refused, NTT-friendly ones accepted; the
// transform tables of an accepted ring are those of the definition (C01).
func VerifSetup_TryRing(n int, q uint64, ci bool) bool {
	var err error
	if ci {
		_, err = NewRingConjugateInvariant(n, []uint64{q})
	} else {
		_, err = NewRing(n, []uint64{q})
	}
	return err == nil
}

func VerifH_C19_RingAcceptsOnlyNTTFriendlyPrimes() {
	// 113 = 1 mod 16, not 1 mod 32; 97 = 1 mod 32, not 1 mod 64; 193 = 1 mod 64; 12289 = 1 mod 4096; 65 is not prime
	vAssert(!VerifSetup_TryRing(16, 113, false), "standard-ring-N16-refuses-a-prime-that-is-1-mod-N-only")
	vAssert(VerifSetup_TryRing(16, 97, false), "standard-ring-N16-accepts-a-prime-that-is-1-mod-2N")
	vAssert(!VerifSetup_TryRing(16, 97, true), "conjugate-invariant-ring-N16-refuses-a-prime-that-is-1-mod-2N-only")
	vAssert(VerifSetup_TryRing(16, 193, true), "conjugate-invariant-ring-N16-accepts-a-prime-that-is-1-mod-4N")
	vAssert(!VerifSetup_TryRing(32, 97, false), "standard-ring-N32-refuses-a-prime-that-is-1-mod-N-only")
	vAssert(VerifSetup_TryRing(2048, 12289, false) && !VerifSetup_TryRing(4096, 12289, false), "standard-ring-boundary-for-12289")
	vCover("C19-ring-acceptance-reached")
}
