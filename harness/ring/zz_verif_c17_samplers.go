package ring

import (
	"encoding/binary"
	"math/big"
)

// C17 (word level): the samplers as deterministic functions of their byte source.  The source is a harness PRNG
// returning arbitrary (symbolic) bytes; rejection loops are kept straight-line by assuming the candidates of the
// main harnesses accepted (a separate harness covers one rejection).  Decided for every byte stream within the bound:
//   uniform:  every coefficient is the masked candidate, below q_i; ReadAndAdd adds modulo q_i; a level view writes
//             only its limbs and continues the shared stream;
//   gaussian: (normFloat64 replaced by an arbitrary norm below the bound and an arbitrary sign; float64 arithmetic
//             under the rounding-error model) all limbs hold the residues of ONE integer x with |x| <= round(bound);
//   ternary:  p = 1/2 and fixed Hamming weight: all limbs encode one x in {-1,0,1} (Montgomery or plain), exactly H
//             non-zeros, read-and-add leaves the other coefficients alone;
//   two samplers fed the same stream with the same calls produce identical polynomials.
// Statistical clauses (mean, standard deviation, sign balance, density) are outside: not decidable by a solver.

// vStream is the harness PRNG.
type vStream struct {
	data []byte
	pos  int
}

func (s *vStream) Read(p []byte) (int, error) {
	if s.pos+len(p) > len(s.data) {
		panic("VERIF-STREAM: harness byte stream exhausted")
	}
	copy(p, s.data[s.pos:s.pos+len(p)])
	s.pos += len(p)
	return len(p), nil
}

func vSamplerRing(moduli []uint64) *Ring {
	return VerifSetup_Ring(8, moduli)
}

func vSamplerChains() [][]uint64 {
	m := VerifSetup_Moduli(0)
	return [][]uint64{{97, 12289, m[len(m)-1]}, {m[3], 257}}
}

func VerifH_C17_Uniform() {
	for ci, moduli := range vSamplerChains() {
		r := vSamplerRing(moduli)
		n := r.N()
		tag := "chain" + string(rune('0'+ci))
		src := &vStream{data: vBytes("s", 2048)}
		u := NewUniformSampler(src, r)
		// assume the first n*(L+1) candidates of the buffer accepted, and the next n for the level-0 view
		cand := func(k int) uint64 { return binary.BigEndian.Uint64(src.data[8*k : 8*k+8]) }
		k := 0
		for j := range moduli {
			for i := 0; i < n; i++ {
				vAssume(cand(k)&r.SubRings[j].Mask < moduli[j])
				k++
			}
		}
		for i := 0; i < 2*n; i++ {
			vAssume(cand(k+i)&r.SubRings[0].Mask < moduli[0])
		}
		p := r.NewPoly()
		u.Read(p)
		k = 0
		for j := range moduli {
			for i := 0; i < n; i++ {
				vAssert(p.Coeffs[j][i] == cand(k)&r.SubRings[j].Mask, tag+"-uniform-coefficient-is-the-masked-candidate")
				vAssert(p.Coeffs[j][i] < moduli[j], tag+"-uniform-coefficient-below-modulus")
				k++
			}
		}
		// level view: only limb 0 written, stream continues where the base sampler stopped
		q := r.NewPoly()
		q.Coeffs[1][3] = 5
		u.AtLevel(0).Read(q)
		for i := 0; i < n; i++ {
			vAssert(q.Coeffs[0][i] == cand(k)&r.SubRings[0].Mask, tag+"-uniform-level-view-continues-the-shared-stream")
			k++
		}
		vAssert(q.Coeffs[1][3] == 5 && q.Coeffs[1][0] == 0, tag+"-uniform-level-view-leaves-upper-limbs-untouched")
		// read-and-add on the base sampler's level-0 view
		a := r.AtLevel(0).NewPoly()
		a.Coeffs[0][2] = vU64("a")
		vAssume(a.Coeffs[0][2] < moduli[0])
		a0 := a.Coeffs[0][2]
		u.AtLevel(0).ReadAndAdd(a)
		c := cand(k+2) & r.SubRings[0].Mask
		vAssert(a.Coeffs[0][2] < moduli[0] && (a.Coeffs[0][2] == a0+c || a.Coeffs[0][2]+moduli[0] == a0+c), tag+"-uniform-ReadAndAdd-adds-modulo-q")
		// same stream, same calls: identical output
		src2 := &vStream{data: src.data}
		u2 := NewUniformSampler(src2, r)
		p2 := r.NewPoly()
		u2.Read(p2)
		for j := range moduli {
			for i := 0; i < n; i++ {
				vAssert(p2.Coeffs[j][i] == p.Coeffs[j][i], tag+"-uniform-same-stream-same-polynomial")
			}
		}
	}
	vCover("C17-uniform-reached")
}

// one rejected candidate: the next one is taken, nothing is skipped or reused
func VerifH_C17_UniformRejection() {
	r := vSamplerRing([]uint64{97})
	src := &vStream{data: vBytes("s", 1024)}
	cand := func(k int) uint64 { return binary.BigEndian.Uint64(src.data[8*k:8*k+8]) & r.SubRings[0].Mask }
	vAssume(cand(0) < 97 && cand(1) >= 97 && cand(2) < 97)
	for k := 3; k < 9; k++ {
		vAssume(cand(k) < 97)
	}
	p := r.NewPoly()
	NewUniformSampler(src, r).Read(p)
	vAssert(p.Coeffs[0][0] == cand(0) && p.Coeffs[0][1] == cand(2) && p.Coeffs[0][2] == cand(3) && p.Coeffs[0][7] == cand(8), "uniform-rejected-candidate-is-skipped-and-the-next-one-used")
}

// stand-in for the ziggurat: an arbitrary norm k/2^20 in [0, 64) and an arbitrary sign bit (engine only)
// vNormCalls counts the draws of one case: the first candidate of the first coefficient is arbitrary (the real
// acceptance test decides; one rejection is explored), every later draw is an accepted one.
var vNormCalls int

// vNormFree enables the arbitrary first candidate (doubles the path count of a case)
var vNormFree bool

func vStubNormFloat64(g *GaussianSampler) (float64, uint64) {
	k := vU64("norm")
	vNormCalls++
	if vNormCalls == 1 && vNormFree {
		vAssume(k < 1<<26)
		return float64(k) / float64(1<<20), vU64("sign") & 1
	}
	// accepted samples only (norm*sigma <= bound with a 2^-20 relative margin, so that the float comparison in the
	// sampler is decided whatever the rounding); rejected candidates simply loop
	lim := uint64(g.xe.Bound / g.xe.Sigma * float64(1<<20) * (1 - 1.0/float64(1<<20)))
	vAssume(k <= lim && k < 1<<26)
	return float64(k) / float64(1<<20), vU64("sign") & 1
}

func vCentredOf(w, q uint64) *big.Int {
	x := new(big.Int).Mod(vB(w), vB(q))
	if x.Cmp(new(big.Int).Rsh(vB(q), 1)) > 0 {
		x.Sub(x, vB(q))
	}
	return x
}

func vGaussianCase(moduli []uint64, sigma, bound float64, add bool, tag string) {
	r := vSamplerRing(moduli)
	src := &vStream{data: vBytes("s", 1024)}
	g := NewGaussianSampler(src, r, DiscreteGaussian{Sigma: sigma, Bound: bound}, false)
	p := r.NewPoly()
	vNormCalls = 0
	var a0 [8]uint64
	if add {
		for j := range moduli {
			p.Coeffs[j][1] = 3 % moduli[j]
		}
		a0[1] = 3
		g.ReadAndAdd(p)
	} else {
		g.Read(p)
	}
	B := new(big.Int)
	new(big.Float).SetFloat64(bound + 0.5).Int(B)
	// native witness for a refuted bound (the solver's norm enters through the stand-in, which does not exist
	// natively): the real sampler on pseudo-random streams
	vSearch(tag, 1<<12, func(rnd func() uint64) bool {
		buf := make([]byte, 1<<14)
		for i := range buf {
			buf[i] = byte(rnd() >> 32)
		}
		gs := NewGaussianSampler(&vStream{data: buf}, r, DiscreteGaussian{Sigma: sigma, Bound: bound}, false)
		q := r.NewPoly()
		gs.Read(q)
		for i := 0; i < r.N(); i++ {
			if x := vCentredOf(q.Coeffs[0][i], moduli[0]); new(big.Int).Abs(x).Cmp(B) > 0 {
				vObserve("search-coefficient", uint64(i))
				vObserve("search-abs-value", new(big.Int).Abs(x).Uint64())
				return true
			}
		}
		return false
	})
	for i := 0; i < 2; i++ { // two coefficients carry symbolic samples (path count), the others follow the same code
		x := vCentredOf(p.Coeffs[0][i], moduli[0])
		x.Sub(x, vB(a0[i]))
		vAssert(new(big.Int).Abs(x).Cmp(B) <= 0, tag+"-gaussian-sample-within-the-bound")
		for j := range moduli {
			vAssert(vCong(vB(p.Coeffs[j][i]), new(big.Int).Add(x, vB(a0[i])), moduli[j]), tag+"-gaussian-one-integer-on-every-limb")
			if add {
				vAssert(p.Coeffs[j][i] < moduli[j], tag+"-gaussian-ReadAndAdd-result-reduced")
			} else {
				vAssert(p.Coeffs[j][i] <= moduli[j], tag+"-gaussian-coefficient-in-range")
			}
		}
	}
}

// Montgomery output through level views: a sampler created for Montgomery output returns the Montgomery form of a
// bounded sample (one integer on every limb) - read directly and through AtLevel views.
func VerifH_C17_GaussianMontgomeryLevelViews() {
	vConfig("backend", "int")
	vStub("(*github.com/tuneinsight/lattigo/v6/ring.GaussianSampler).normFloat64", "call:vStubNormFloat64")
	moduli := []uint64{12289, 257}
	r := vSamplerRing(moduli)
	xe := DiscreteGaussian{Sigma: 3.2, Bound: 19.2}
	B := big.NewInt(19)
	vNormFree = false
	for _, level := range []int{-1, 1, 0} { // -1: direct read
		tag := "montgomery-direct"
		if level >= 0 {
			tag = "montgomery-AtLevel" + string(rune('0'+level))
		}
		var g Sampler = NewGaussianSampler(&vStream{data: vBytes("s", 1024)}, r, xe, true)
		top := len(moduli) - 1
		if level >= 0 {
			g = g.AtLevel(level)
			top = level
		}
		lv := level
		vSearch(tag, 256, func(rnd func() uint64) bool { // native witness: the real normal deviates on random streams
			buf := make([]byte, 4096)
			for i := range buf {
				buf[i] = byte(rnd() >> 32)
			}
			var gs Sampler = NewGaussianSampler(&vStream{data: buf}, r, xe, true)
			if lv >= 0 {
				gs = gs.AtLevel(lv)
			}
			q := r.NewPoly()
			gs.Read(q)
			for i := 0; i < r.N(); i++ {
				if x := vCentredOf(IMForm(q.Coeffs[0][i], moduli[0], r.SubRings[0].MRedConstant), moduli[0]); new(big.Int).Abs(x).Cmp(B) > 0 {
					return true
				}
			}
			return false
		})
		a := r.NewPoly()
		vNormCalls = 0
		g.Read(a)
		for i := 0; i < 2; i++ {
			x := vCentredOf(IMForm(a.Coeffs[0][i], moduli[0], r.SubRings[0].MRedConstant), moduli[0])
			vAssert(new(big.Int).Abs(x).Cmp(B) <= 0, tag+"-sample-is-the-Montgomery-form-of-a-value-within-the-bound")
			for j := 0; j <= top; j++ {
				vAssert(vCong(vB(IMForm(a.Coeffs[j][i], moduli[j], r.SubRings[j].MRedConstant)), x, moduli[j]), tag+"-one-integer-on-every-limb")
			}
		}
	}
	vCover("C17-gaussian-montgomery-reached")
}

func VerifH_C17_Gaussian() {
	vConfig("backend", "int")
	vStub("(*github.com/tuneinsight/lattigo/v6/ring.GaussianSampler).normFloat64", "call:vStubNormFloat64")
	m := VerifSetup_Moduli(0)
	big60 := m[len(m)-1]
	vGaussianCase([]uint64{big60, 12289, 257}, 3.2, 19.2, false, "sigma3.2")
	vGaussianCase([]uint64{big60, 12289, 257}, 3.2, 19.2, true, "sigma3.2-add")
	// flooding noise larger than a small modulus of the chain: sigma 2^20, bound 6*2^20, moduli 60-bit and 12289
	vGaussianCase([]uint64{big60, 12289}, 1048576, 6291456, false, "sigma2^20-small-modulus")
	vCover("C17-gaussian-reached")
}

// The acceptance test of the rejection loop itself: the first candidate is an arbitrary norm (accepted or rejected by
// the real comparison), the bound is the default one and two that are small against sigma and not integers
// (fractional part below and above one half).
func vGaussianAcceptance(sigma, bound float64, tag string) {
	vConfig("backend", "int")
	vStub("(*github.com/tuneinsight/lattigo/v6/ring.GaussianSampler).normFloat64", "call:vStubNormFloat64")
	m := VerifSetup_Moduli(0)
	vNormFree = true
	vGaussianCase([]uint64{m[len(m)-1], 257}, sigma, bound, false, tag)
	vNormFree = false
	vCover("C17-gaussian-acceptance-reached")
}

func VerifH_C17_GaussianAcceptanceDefault() { vGaussianAcceptance(3.2, 19.2, "accept-sigma3.2-bound19.2") }
func VerifH_C17_GaussianAcceptanceLowFraction() {
	vGaussianAcceptance(3.2, 2.2, "accept-sigma3.2-bound2.2")
}
func VerifH_C17_GaussianAcceptanceHighFraction() {
	vGaussianAcceptance(3.2, 2.7, "accept-sigma3.2-bound2.7")
}

func VerifH_C17_TernaryHalf() {
	for mi, mont := range []bool{false, true} {
		moduli := vSamplerChains()[0]
		r := vSamplerRing(moduli)
		n := r.N()
		tag := []string{"plain", "montgomery"}[mi]
		src := &vStream{data: vBytes("s", 64)}
		ts, err := NewTernarySampler(src, r, Ternary{P: 0.5}, mont)
		vAssert(err == nil, tag+"-ternary-sampler-created")
		p := r.NewPoly()
		ts.Read(p)
		for i := 0; i < n; i++ {
			var w0 uint64
			for j, q := range moduli {
				w := p.Coeffs[j][i]
				if mont {
					w = IMForm(w, q, r.SubRings[j].MRedConstant)
				}
				vAssert(w == 0 || w == 1 || w == q-1, tag+"-ternary-value-in-{-1,0,1}")
				cls := vIte64(w == 0, 0, vIte64(w == 1, 1, 2))
				if j == 0 {
					w0 = cls
				}
				vAssert(cls == w0, tag+"-ternary-one-integer-on-every-limb")
			}
		}
		// the whole support is possible for every coefficient (+1 and -1: no sign is excluded), and the sign is not
		// tied to the neighbouring coefficient
		for _, i := range []int{0, n - 1} {
			w := p.Coeffs[0][i]
			if mont {
				w = IMForm(w, moduli[0], r.SubRings[0].MRedConstant)
			}
			vReach(w == 1, tag+"-ternary-plus-one-possible")
			vReach(w == moduli[0]-1, tag+"-ternary-minus-one-possible")
			vReach(w == 0, tag+"-ternary-zero-possible")
		}
		vSearchNone(tag+"-ternary", 64, func(rnd func() uint64) bool {
			buf := make([]byte, 64)
			for i := range buf {
				buf[i] = byte(rnd() >> 32)
			}
			tn, _ := NewTernarySampler(&vStream{data: buf}, r, Ternary{P: 0.5}, mont)
			q := r.NewPoly()
			tn.Read(q)
			seen := [3]bool{}
			for i := 0; i < n; i++ {
				w := q.Coeffs[0][i]
				if mont {
					w = IMForm(w, moduli[0], r.SubRings[0].MRedConstant)
				}
				switch w {
				case 0:
					seen[0] = true
				case 1:
					seen[1] = true
				case moduli[0] - 1:
					seen[2] = true
				}
			}
			return seen[0] && seen[1] && seen[2]
		})
		// same stream on a level view: limb 0 identical, upper limbs untouched
		src2 := &vStream{data: src.data}
		ts2, _ := NewTernarySampler(src2, r, Ternary{P: 0.5}, mont)
		p2 := r.NewPoly()
		ts2.AtLevel(0).Read(p2)
		for i := 0; i < n; i++ {
			vAssert(p2.Coeffs[0][i] == p.Coeffs[0][i], tag+"-ternary-same-stream-same-polynomial-on-level-view")
			vAssert(p2.Coeffs[1][i] == 0, tag+"-ternary-level-view-leaves-upper-limbs-untouched")
		}
	}
	vCover("C17-ternary-half-reached")
}

func vTernarySparseCase(h int, add bool, tag string) {
	moduli := []uint64{97, 257}
	r := vSamplerRing(moduli)
	n := r.N()
	src := &vStream{data: vBytes("s", 1+4*h)}
	ts, err := NewTernarySampler(src, r, Ternary{H: h}, false)
	vAssert(err == nil, tag+"-ternary-sampler-created")
	// no rejection: candidate i (4 bytes, big endian, masked) below n-i
	for i := 0; i < h; i++ {
		c := uint64(binary.BigEndian.Uint32(src.data[1+4*i : 5+4*i]))
		mask := uint64(1)<<uint(vBitLen(uint64(n-i))) - 1
		vAssume(c&mask < uint64(n-i))
	}
	p := r.NewPoly()
	if add {
		for j, q := range moduli {
			for i := 0; i < n; i++ {
				p.Coeffs[j][i] = 5 % q
			}
		}
		ts.ReadAndAdd(p)
	} else {
		for j := range moduli { // dirty polynomial: Read must overwrite every coefficient
			for i := 0; i < n; i++ {
				p.Coeffs[j][i] = 7
			}
		}
		ts.Read(p)
	}
	var base uint64
	if add {
		base = 5
	}
	nz := uint64(0)
	for i := 0; i < n; i++ {
		w0 := (p.Coeffs[0][i] + moduli[0] - base) % moduli[0]
		w1 := (p.Coeffs[1][i] + moduli[1] - base) % moduli[1]
		vAssert((w0 == 0 && w1 == 0) || (w0 == 1 && w1 == 1) || (w0 == moduli[0]-1 && w1 == moduli[1]-1), tag+"-sparse-ternary-one-value-of-{-1,0,1}-on-every-limb")
		nz += vIte64(w0 != 0, 1, 0)
	}
	vAssert(nz == uint64(h), tag+"-sparse-ternary-exact-hamming-weight")
}

func vBitLen(x uint64) int {
	n := 0
	for ; x > 0; x >>= 1 {
		n++
	}
	return n
}

func VerifH_C17_TernarySparse() {
	vTernarySparseCase(1, false, "H1")
	vTernarySparseCase(2, false, "H2")
	vTernarySparseCase(1, true, "H1-ReadAndAdd")
	if vTier() > 0 {
		vTernarySparseCase(3, false, "H3")
		vTernarySparseCase(2, true, "H2-ReadAndAdd")
	}
	vCover("C17-ternary-sparse-reached")
}

// Flooding noise above a small modulus of the chain, on a concrete stream through the real ziggurat (no stand-in):
// the ziggurat word j = 0x600f1b02 (strip 2, accepted at once) gives |x| = round(0.27*sigma) > q_1 = 12289 for
// sigma = 2^20; both signs.  (The symbolic harness above finds the same violation for arbitrary norms; this one makes
// it reproducible natively.)
func VerifH_C17_GaussianFloodingConcrete() {
	m := VerifSetup_Moduli(0)
	moduli := []uint64{m[len(m)-1], 12289}
	r := vSamplerRing(moduli)
	data := make([]byte, 1024)
	for i := 0; i < 8; i++ {
		copy(data[8*i:], []byte{0x02, 0x1b, 0x0f, 0x60})
		if i&1 == 1 {
			data[8*i+3] |= 0x80
		}
	}
	g := NewGaussianSampler(&vStream{data: data}, r, DiscreteGaussian{Sigma: 1048576, Bound: 6291456}, false)
	p := r.NewPoly()
	g.Read(p)
	for i := 0; i < 8; i++ {
		x := vCentredOf(p.Coeffs[0][i], moduli[0])
		vAssert(new(big.Int).Abs(x).Cmp(big.NewInt(6291457)) <= 0, "flooding-gaussian-sample-within-the-bound")
		vAssert(vCong(vB(p.Coeffs[1][i]), x, moduli[1]), "flooding-gaussian-one-integer-on-every-limb")
	}
}

// A sampler re-keyed with WithPRNG on a parent that has already been used behaves as a fresh sampler on the new
// source (it reproduces the stream of its key), and the parent continues its own stream as if the child did not exist.
func VerifH_C17_UniformRekeyed() {
	moduli := []uint64{97}
	r := vSamplerRing(moduli)
	n := r.N()
	s := vBytes("s", 2048)
	k := vBytes("k", 2048)
	mask := r.SubRings[0].Mask
	for i := 0; i < 8*n; i++ { // candidates accepted (rejection is VerifH_C17_UniformRejection)
		vAssume(binary.BigEndian.Uint64(s[8*i:8*i+8])&mask < 97)
		vAssume(binary.BigEndian.Uint64(k[8*i:8*i+8])&mask < 97)
	}
	parent := NewUniformSampler(&vStream{data: s}, r)
	twin := NewUniformSampler(&vStream{data: s}, r)
	p0, t0 := r.NewPoly(), r.NewPoly()
	parent.Read(p0)
	twin.Read(t0)
	child := parent.WithPRNG(&vStream{data: k})
	fresh := NewUniformSampler(&vStream{data: k}, r)
	pc, pf := r.NewPoly(), r.NewPoly()
	child.Read(pc)
	fresh.Read(pf)
	p1, t1 := r.NewPoly(), r.NewPoly()
	parent.Read(p1)
	twin.Read(t1)
	child.Read(pc)
	fresh.Read(pf)
	for i := 0; i < n; i++ {
		vAssert(pc.Coeffs[0][i] == pf.Coeffs[0][i], "rekeyed-sampler-reproduces-the-stream-of-its-key")
		vAssert(p1.Coeffs[0][i] == t1.Coeffs[0][i], "parent-stream-unaffected-by-the-rekeyed-child")
	}
	vCover("C17-uniform-rekeyed-reached")
}


// RandUniform(prng, v, mask) returns a value of [0, v-1] for every byte stream: candidates equal to v are rejected like
// the ones above it.  Two candidates, the first at most v (so that the boundary is in the domain), the second below v.
func VerifH_C17_RandUniformSupport() {
	for ci, c := range [][2]uint64{{5, 7}, {6, 7}, {97, 127}, {1<<40 + 3, 1<<41 - 1}} {
		v, mask := c[0], c[1]
		s := vBytes("u"+string(rune('0'+ci)), 16)
		vAssume(binary.BigEndian.Uint64(s[0:8])&mask <= v)
		vAssume(binary.BigEndian.Uint64(s[8:16])&mask < v)
		got := RandUniform(&vStream{data: s}, v, mask)
		vAssert(got < v, "RandUniform-result-below-the-bound")
		first := binary.BigEndian.Uint64(s[0:8]) & mask
		want := first
		if first >= v {
			want = binary.BigEndian.Uint64(s[8:16]) & mask
		}
		vAssert(got == want, "RandUniform-returns-the-first-candidate-below-the-bound")
	}
	vCover("C17-randuniform-reached")
}
