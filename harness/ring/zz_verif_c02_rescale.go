package ring

import (
	"math/big"
	"math/bits"
)

// C02-1 (word level, CRT ghost): division by the last modulus.  One coefficient carries an arbitrary integer
// x in [0,Q) (a symbolic mathematical integer; its residues are the machine words the code sees), the real
// Ring.DivFloor/DivRoundByLastModulus{,Many}{,NTT} run on it, and every output limb must be the residue of the exact
// integer quotient.  The NTT variants run with the four SubRing transforms replaced by "identity up to the documented
// lazy output range" (vStubNTT*): they are linear and coefficient-wise commuting with scalar operations, which is
// what C01's NTT lemmas decide; what is decided here is the data flow, constants and lazy-range discipline around
// them.  Natively (validation run and replays) the real transforms run.

type vRNSCase struct {
	N      int
	Moduli []uint64
}

// VerifSetup_RNSChains returns the moduli chains for the word-level RNS harnesses.
func VerifSetup_RNSChains(tier int) []vRNSCase {
	g60 := NewNTTFriendlyPrimesGenerator(60, 128)
	g55 := NewNTTFriendlyPrimesGenerator(55, 128)
	g30 := NewNTTFriendlyPrimesGenerator(30, 128)
	nx := func(g NTTFriendlyPrimesGenerator, up bool) uint64 {
		var p uint64
		var err error
		if up {
			p, err = g.NextUpstreamPrime()
		} else {
			p, err = g.NextDownstreamPrime()
		}
		if err != nil {
			panic(err)
		}
		return p
	}
	a, b, c, d := nx(g60, true), nx(g60, false), nx(g55, true), nx(g30, true)
	g61 := NewNTTFriendlyPrimesGenerator(61, 128)
	e := nx(g61, false)
	res := []vRNSCase{
		{8, []uint64{97, 193, 257}},
		{8, []uint64{a, c, b}},
		{8, []uint64{d, 12289, e}},
	}
	if tier > 0 {
		res = append(res, vRNSCase{8, []uint64{a, b, c, d, e}}, vRNSCase{8, []uint64{257, a, 97, b}}, vRNSCase{16, []uint64{e, a, b}})
	}
	return res
}

// vRNSPoly builds a polynomial whose coefficient `lane` is x (given by residues), all others zero.
func vRNSPoly(r *Ring, x *big.Int, lane int) Poly {
	p := r.NewPoly()
	for i, s := range r.SubRings[:r.level+1] {
		p.Coeffs[i][lane] = new(big.Int).Mod(x, vB(s.Modulus)).Uint64()
	}
	return p
}

func vModulusOf(r *Ring) *big.Int {
	q := big.NewInt(1)
	for _, s := range r.SubRings[:r.level+1] {
		q.Mul(q, vB(s.Modulus))
	}
	return q
}

func vInRange(x, lo, hi *big.Int) bool { return x.Cmp(lo) >= 0 && x.Cmp(hi) < 0 }

func VerifH_C02_INTTLazyRange() {
	vConfig("backend", "int")
	seen := map[uint64]bool{}
	for _, cs := range VerifSetup_RNSChains(vTier()) {
		r := VerifSetup_Ring(cs.N, cs.Moduli)
		for _, s := range r.SubRings {
			if seen[s.Modulus] {
				continue
			}
			seen[s.Modulus] = true
			q := s.Modulus
			v := vU64("v")
			vAssume(v < 2*q)
			hi, _ := bits.Mul64(2*q, q)
			out := MRedLazy(v, s.NInv, q, s.MRedConstant)
			vAssert(out < q || out-q <= hi, "INTTLazy-final-step-range")
		}
	}
}

// vCheckQuot asserts that limb i<=lvl of p (coefficient 0) is y mod q_i, fully reduced.  d is the product of the
// moduli divided out (coprime to every remaining q_i), so  out == y mod q_i  <=>  out < q_i and d*out ≡ d*y (mod q_i);
// the congruence is stated in that cancellation-free form (and multiplied by the Montgomery radix), which keeps the
// query linear: the solver never has to discover a modular inverse.
func vCheckQuot(r *Ring, p Poly, y, d *big.Int, lvl int, id string) {
	for i := 0; i <= lvl; i++ {
		q := r.SubRings[i].Modulus
		out := p.Coeffs[i][0]
		vAssert(out < q, id+"-reduced")
		lhs := new(big.Int).Mul(vShl64(out), d)
		rhs := new(big.Int).Lsh(new(big.Int).Mul(y, d), 64)
		vAssert(vCong(lhs, rhs, q), id)
	}
}

func vDivCase(cs vRNSCase, level int, round, ntt bool, nb int, id string) {
	full := VerifSetup_Ring(cs.N, cs.Moduli)
	r := full.AtLevel(level)
	Q := vModulusOf(r)
	x := vBig("x")
	vAssume(vInRange(x, big.NewInt(0), Q))
	p0 := vRNSPoly(r, x, 0)
	p1, buff := r.NewPoly(), r.NewPoly()
	if ntt {
		r.NTT(p0, p0)
	}
	// expected quotient after nb divisions by the successive last moduli
	y, d := new(big.Int).Set(x), big.NewInt(1)
	for k := 0; k < nb; k++ {
		ql := vB(r.SubRings[level-k].Modulus)
		d.Mul(d, ql)
		if round {
			y.Add(y, new(big.Int).Rsh(ql, 1))
		}
		y.Div(y, ql)
	}
	switch {
	case nb == 1 && !ntt && !round:
		r.DivFloorByLastModulus(p0, p1)
	case nb == 1 && !ntt && round:
		r.DivRoundByLastModulus(p0, p1)
	case nb == 1 && ntt && !round:
		r.DivFloorByLastModulusNTT(p0, buff, p1)
	case nb == 1 && ntt && round:
		r.DivRoundByLastModulusNTT(p0, buff, p1)
	case !ntt && !round:
		r.DivFloorByLastModulusMany(nb, p0, buff, p1)
	case !ntt && round:
		r.DivRoundByLastModulusMany(nb, p0, buff, p1)
	case ntt && !round:
		r.DivFloorByLastModulusManyNTT(nb, p0, buff, p1)
	default:
		r.DivRoundByLastModulusManyNTT(nb, p0, buff, p1)
	}
	out := r.AtLevel(level - nb)
	if ntt {
		out.INTT(p1, p1)
	}
	vCheckQuot(out, p1, y, d, level-nb, id)
}

// VerifH_C02_KernelContracts discharges, for every modulus of the C02 chains, the exact contract under which the
// other C02 harnesses use MRed (vStub "contract:mred"): r < q and 2^64·r ≡ x·y (mod q) for every 64-bit x and y < q,
// which determines r = x·y·2^-64 mod q uniquely (q odd).
func VerifH_C02_KernelContracts() {
	vConfig("backend", "int")
	seen := map[uint64]bool{}
	var all []uint64
	for _, cs := range VerifSetup_RNSChains(vTier()) {
		all = append(all, cs.Moduli...)
	}
	for _, cs := range VerifSetup_BEChains(vTier()) {
		all = append(all, cs.Q...)
		all = append(all, cs.P...)
	}
	all = append(all, 97, 193, 257, 353, 449, 577, 641, 673) // the five-plus-three chain of the Decompose harness
	{
		for _, q := range all {
			if seen[q] {
				continue
			}
			seen[q] = true
			c := VerifSetup_Consts(q)
			x, y := vU64("x"), vU64("y")
			vAssume(y < q)
			r := MRed(x, y, q, c[2])
			vAssert(r < q, "MRed-range")
			vAssert(vCong(vShl64(r), new(big.Int).Mul(vB(x), vB(y)), q), "MRed-congruence")
		}
	}
	vCover("contracts-reached")
}

func VerifH_C02_DivByLastModulus() {
	vConfig("backend", "int")
	vStub("MRed", "contract:mred")
	for _, cs := range VerifSetup_RNSChains(vTier()) {
		for level := 1; level < len(cs.Moduli); level++ {
			vDivCase(cs, level, false, false, 1, "DivFloorByLastModulus-exact-floor")
			vDivCase(cs, level, true, false, 1, "DivRoundByLastModulus-exact-round")
		}
	}
	vCover("div-reached")
}

// vDivManyCase: nbRescales > 1 equals nb single divisions at successive levels, word for word (the single division
// is exact for every input at every level by vDivCase, and the quotient of a quotient composes in Z_Q).
func vDivManyCase(cs vRNSCase, level int, round, ntt bool, nb int, id string) {
	full := VerifSetup_Ring(cs.N, cs.Moduli)
	r := full.AtLevel(level)
	x := vBig("x")
	vAssume(vInRange(x, big.NewInt(0), vModulusOf(r)))
	a := vRNSPoly(r, x, 0)
	if ntt {
		r.NTT(a, a)
	}
	b := *a.CopyNew()
	p1, buff := r.NewPoly(), r.NewPoly()
	switch {
	case !ntt && !round:
		r.DivFloorByLastModulusMany(nb, a, buff, p1)
	case !ntt && round:
		r.DivRoundByLastModulusMany(nb, a, buff, p1)
	case ntt && !round:
		r.DivFloorByLastModulusManyNTT(nb, a, buff, p1)
	default:
		r.DivRoundByLastModulusManyNTT(nb, a, buff, p1)
	}
	// reference: nb single steps
	if ntt {
		r.INTT(b, b)
	}
	cur := r
	for k := 0; k < nb; k++ {
		o := cur.NewPoly()
		if round {
			cur.DivRoundByLastModulus(b, o)
		} else {
			cur.DivFloorByLastModulus(b, o)
		}
		b = o
		cur = cur.AtLevel(cur.Level() - 1)
	}
	if ntt {
		cur.NTT(b, b)
	}
	for i := 0; i <= level-nb; i++ {
		for j := 0; j < cs.N; j++ {
			vAssert(p1.Coeffs[i][j] == b.Coeffs[i][j], id)
		}
	}
}

func VerifH_C02_DivByLastModulusMany() {
	vConfig("backend", "int")
	vStub("MRed", "contract:mred")
	for _, cs := range VerifSetup_RNSChains(vTier()) {
		level := len(cs.Moduli) - 1
		for nb := 1; nb <= level; nb++ {
			if nb <= 1 {
				vDivCase(cs, level, false, false, nb, "DivFloorByLastModulusMany-exact-floor")
				vDivCase(cs, level, true, false, nb, "DivRoundByLastModulusMany-exact-round")
			} else {
				vDivManyCase(cs, level, false, false, nb, "DivFloorByLastModulusMany-is-repeated-division")
				vDivManyCase(cs, level, true, false, nb, "DivRoundByLastModulusMany-is-repeated-division")
			}
		}
	}
	vCover("divmany-reached")
}

func VerifH_C02_DivByLastModulusNTT() {
	vConfig("backend", "int")
	vStub("MRed", "contract:mred")
	vStubTransforms()
	for _, cs := range VerifSetup_RNSChains(vTier()) {
		level := len(cs.Moduli) - 1
		for nb := 1; nb <= level; nb++ {
			if nb <= 1 {
				vDivCase(cs, level, false, true, nb, "DivFloorByLastModulusNTT-exact-floor")
				vDivCase(cs, level, true, true, nb, "DivRoundByLastModulusNTT-exact-round")
			} else {
				vDivManyCase(cs, level, false, true, nb, "DivFloorByLastModulusManyNTT-is-repeated-division")
				vDivManyCase(cs, level, true, true, nb, "DivRoundByLastModulusManyNTT-is-repeated-division")
			}
		}
		if level > 1 {
			vDivCase(cs, level-1, false, true, 1, "DivFloorByLastModulusNTT-exact-floor")
			vDivCase(cs, level-1, true, true, 1, "DivRoundByLastModulusNTT-exact-round")
		}
	}
	vUnstubTransforms()
	vCover("divntt-reached")
}

// nbRescales = 0 copies the input (Poly.Equal on symbolic words forks a path per limb, hence its own small harness).
func VerifH_C02_DivByLastModulusManyZero() {
	vConfig("backend", "int")
	cs := VerifSetup_RNSChains(0)[1]
	vDivCase(cs, 1, false, false, 0, "DivFloorByLastModulusMany-zero-rescalings-is-identity")
	vStubTransforms()
	vDivCase(cs, 1, true, true, 0, "DivRoundByLastModulusManyNTT-zero-rescalings-is-identity")
	vUnstubTransforms()
}
