package ring

// C01-4 (algebraic slot model): Ring-level methods dispatch every limb to its own modulus and constants, touch only
// the limbs of the current level, and compute the documented ring operation.  Every coefficient is an atom (a free
// element of Z_{q_k}); the scalar kernels act through their C01-1 contracts; the vector kernels, SubRing and Ring
// methods are interpreted from SSA.  A limb processed with another limb's modulus is reported as VERIF-MODULUS.

func vAtomPoly(r *Ring, name string, class int) Poly {
	p := r.NewPoly()
	for k, s := range r.SubRings[:r.level+1] {
		copy(p.Coeffs[k], vAtoms(name+"."+string(rune('0'+k)), class, s.Modulus, r.N()))
	}
	return p
}

func vAssertPolyEq(r *Ring, a, b Poly, id string) {
	for k, s := range r.SubRings[:r.level+1] {
		vAssertEqMod(a.Coeffs[k], b.Coeffs[k], s.Modulus, id)
	}
}

func VerifH_C01_RingAlgebra() {
	moduli := []uint64{97, 193, 257}
	for level := 0; level < 3; level++ {
		full := VerifSetup_Ring(8, moduli)
		r := full.AtLevel(level)
		a, b, c := vAtomPoly(r, "a", vUniform), vAtomPoly(r, "b", vUniform), vAtomPoly(r, "c", vUniform)
		// (a+b)*c == a*c + b*c  (Montgomery products: c in Montgomery form)
		cm := r.NewPoly()
		r.MForm(c, cm)
		s, l, t1, t2, rhs := r.NewPoly(), r.NewPoly(), r.NewPoly(), r.NewPoly(), r.NewPoly()
		r.Add(a, b, s)
		r.MulCoeffsMontgomery(s, cm, l)
		r.MulCoeffsMontgomery(a, cm, t1)
		r.MulCoeffsMontgomery(b, cm, t2)
		r.Add(t1, t2, rhs)
		vAssertPolyEq(r, l, rhs, "Ring-distributive")
		// Barrett product equals Montgomery product with a Montgomery-form operand
		bar := r.NewPoly()
		r.MulCoeffsBarrett(a, c, bar)
		vAssertPolyEq(r, bar, t1, "Ring-Barrett-equals-Montgomery")
		// a - b + b == a ; -(−a) == a
		d, e := r.NewPoly(), r.NewPoly()
		r.Sub(a, b, d)
		r.Add(d, b, e)
		vAssertPolyEq(r, e, a, "Ring-sub-then-add")
		r.Neg(a, d)
		r.Neg(d, e)
		vAssertPolyEq(r, e, a, "Ring-double-negation")
		// MulCoeffsMontgomeryThenAdd / ThenSub accumulate
		acc := r.NewPoly()
		acc.Copy(t2)
		r.MulCoeffsMontgomeryThenAdd(a, cm, acc)
		vAssertPolyEq(r, acc, rhs, "Ring-MulThenAdd")
		r.MulCoeffsMontgomeryThenSub(a, cm, acc)
		vAssertPolyEq(r, acc, t2, "Ring-MulThenSub")
		// limbs above the level of the view are untouched
		big := vAtomPoly(full, "u", vJunk)
		keep := *big.CopyNew()
		r.Add(a, b, big)
		for k := level + 1; k < 3; k++ {
			vAssertEqMod(big.Coeffs[k], keep.Coeffs[k], moduli[k], "Ring-op-leaves-upper-limbs-untouched")
		}
	}
	vCover("ring-algebra-reached")
}
