package ring

import "math/big"

// C01-4 (algebraic slot model): Ring-level methods dispatch every limb to its own modulus and constants, touch only
// the limbs of the current level, and compute the documented ring operation.  Every coefficient is an atom (a free
// element of Z_{q_k}); the scalar kernels act through their C01-1 contracts; the vector kernels, SubRing and Ring
// methods are interpreted from SSA.  A limb processed with another limb's modulus is reported as VERIF-MODULUS.

func vAtomPoly(r *Ring, name string, class int) Poly {
	p := r.NewPoly()
	for k, s := range r.SubRings[:r.level+1] {
		copy(p.Coeffs[k], vAtoms(name+"."+string(rune('0'+k)), class, s.Modulus, r.N()))
	}
	return p
}

func vAssertPolyEq(r *Ring, a, b Poly, id string) {
	for k, s := range r.SubRings[:r.level+1] {
		vAssertEqMod(a.Coeffs[k], b.Coeffs[k], s.Modulus, id)
	}
}

func VerifH_C01_RingAlgebra() {
	moduli := []uint64{97, 193, 257}
	for level := 0; level < 3; level++ {
		full := VerifSetup_Ring(8, moduli)
		r := full.AtLevel(level)
		a, b, c := vAtomPoly(r, "a", vUniform), vAtomPoly(r, "b", vUniform), vAtomPoly(r, "c", vUniform)
		// (a+b)*c == a*c + b*c  (Montgomery products: c in Montgomery form)
		cm := r.NewPoly()
		r.MForm(c, cm)
		s, l, t1, t2, rhs := r.NewPoly(), r.NewPoly(), r.NewPoly(), r.NewPoly(), r.NewPoly()
		r.Add(a, b, s)
		r.MulCoeffsMontgomery(s, cm, l)
		r.MulCoeffsMontgomery(a, cm, t1)
		r.MulCoeffsMontgomery(b, cm, t2)
		r.Add(t1, t2, rhs)
		vAssertPolyEq(r, l, rhs, "Ring-distributive")
		// Barrett product equals Montgomery product with a Montgomery-form operand
		bar := r.NewPoly()
		r.MulCoeffsBarrett(a, c, bar)
		vAssertPolyEq(r, bar, t1, "Ring-Barrett-equals-Montgomery")
		// a - b + b == a ; -(−a) == a
		d, e := r.NewPoly(), r.NewPoly()
		r.Sub(a, b, d)
		r.Add(d, b, e)
		vAssertPolyEq(r, e, a, "Ring-sub-then-add")
		r.Neg(a, d)
		r.Neg(d, e)
		vAssertPolyEq(r, e, a, "Ring-double-negation")
		// MulCoeffsMontgomeryThenAdd / ThenSub accumulate
		acc := r.NewPoly()
		acc.Copy(t2)
		r.MulCoeffsMontgomeryThenAdd(a, cm, acc)
		vAssertPolyEq(r, acc, rhs, "Ring-MulThenAdd")
		r.MulCoeffsMontgomeryThenSub(a, cm, acc)
		vAssertPolyEq(r, acc, t2, "Ring-MulThenSub")
		// scalar operations with scalars below, between and above the moduli (and near 2^64): the scalar acts through
		// its residue modulo every prime
		for si, sc := range []uint64{5, 100, 1000003, 1<<63 + 12345, 1<<64 - 1} {
			tag := "Ring-scalar" + string(rune('0'+si))
			sp := r.NewPoly() // the constant polynomial sc (residues), in Montgomery form for the product
			for k, sub := range r.SubRings[:level+1] {
				for i := range sp.Coeffs[k] {
					sp.Coeffs[k][i] = MForm(sc%sub.Modulus, sub.Modulus, sub.BRedConstant)
				}
			}
			prod, o1, o2 := r.NewPoly(), r.NewPoly(), r.NewPoly()
			r.MulCoeffsMontgomery(a, sp, prod)
			r.MulScalar(a, sc, o1)
			vAssertPolyEq(r, o1, prod, tag+"-MulScalar")
			o1.Copy(b)
			r.MulScalarThenAdd(a, sc, o1)
			r.Add(b, prod, o2)
			vAssertPolyEq(r, o1, o2, tag+"-MulScalarThenAdd")
			o1.Copy(b)
			r.MulScalarThenSub(a, sc, o1)
			r.Sub(b, prod, o2)
			vAssertPolyEq(r, o1, o2, tag+"-MulScalarThenSub")
			cst := r.NewPoly()
			r.IMForm(sp, cst)
			r.AddScalar(a, sc, o1)
			r.Add(a, cst, o2)
			vAssertPolyEq(r, o1, o2, tag+"-AddScalar")
			r.SubScalar(a, sc, o1)
			r.Sub(a, cst, o2)
			vAssertPolyEq(r, o1, o2, tag+"-SubScalar")
		}
		// big-integer scalars, negative ones and ones beyond the product of the moduli included: they act through their
		// (non-negative) residue modulo every prime
		hugeS, _ := new(big.Int).SetString("-123456789012345678901234567890123", 10)
		for si, bs := range []*big.Int{big.NewInt(5), big.NewInt(-5), big.NewInt(-1 << 62), hugeS, new(big.Int).Neg(hugeS)} {
			tag := "Ring-bigint-scalar" + string(rune('0'+si))
			cst, cm := r.NewPoly(), r.NewPoly()
			for k, sub := range r.SubRings[:level+1] {
				res := new(big.Int).Mod(bs, new(big.Int).SetUint64(sub.Modulus)).Uint64()
				for i := range cst.Coeffs[k] {
					cst.Coeffs[k][i] = res
				}
			}
			r.MForm(cst, cm)
			o1, o2 := r.NewPoly(), r.NewPoly()
			r.AddScalarBigint(a, bs, o1)
			r.Add(a, cst, o2)
			vAssertPolyEq(r, o1, o2, tag+"-AddScalarBigint")
			r.SubScalarBigint(a, bs, o1)
			r.Sub(a, cst, o2)
			vAssertPolyEq(r, o1, o2, tag+"-SubScalarBigint")
			r.MulScalarBigint(a, bs, o1)
			r.MulCoeffsMontgomery(a, cm, o2)
			vAssertPolyEq(r, o1, o2, tag+"-MulScalarBigint")
			o1.Copy(b)
			r.MulScalarBigintThenAdd(a, bs, o1)
			r.Add(b, o2, o2)
			vAssertPolyEq(r, o1, o2, tag+"-MulScalarBigintThenAdd")
		}
		// multiplication by X^k in Z[X]/(X^N+1) for every residue of k modulo 2N and beyond (negative, multiples of N)
		n := r.N()
		for _, k := range []int{0, 1, n - 1, n, n + 1, 2*n - 1, 2 * n, 2*n + 3, -1, -n, -n - 2, 5 * n} {
			o := r.NewPoly()
			r.MultByMonomial(a, k, o)
			want := r.NewPoly()
			kk := ((k % (2 * n)) + 2*n) % (2 * n)
			for i := 0; i < n; i++ {
				j := (i + kk) % (2 * n)
				for l, sub := range r.SubRings[:level+1] {
					if j < n {
						want.Coeffs[l][j] = a.Coeffs[l][i]
					} else {
						want.Coeffs[l][j-n] = sub.Modulus - a.Coeffs[l][i]
					}
				}
			}
			vAssertPolyEq(r, o, want, "Ring-MultByMonomial-k"+vItoaR(k))
		}
		// limbs above the level of the view are untouched
		big := vAtomPoly(full, "u", vJunk)
		keep := *big.CopyNew()
		r.Add(a, b, big)
		for k := level + 1; k < 3; k++ {
			vAssertEqMod(big.Coeffs[k], keep.Coeffs[k], moduli[k], "Ring-op-leaves-upper-limbs-untouched")
		}
	}
	vCover("ring-algebra-reached")
}

func vItoaR(n int) string {
	if n == 0 {
		return "0"
	}
	neg := n < 0
	if neg {
		n = -n
	}
	t := ""
	for n > 0 {
		t = string(rune('0'+n%10)) + t
		n /= 10
	}
	if neg {
		t = "m" + t
	}
	return t
}
