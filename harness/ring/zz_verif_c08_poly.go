package ring

import (
	"github.com/tuneinsight/lattigo/v6/utils/buffer"
)

// C08 (ring.Poly): write/read round trip, announced size, truncated streams, corrupted headers.

func vSymPoly(name string, n, level int) Poly {
	p := NewPoly(n, level)
	for i := range p.Coeffs {
		copy(p.Coeffs[i], vU64s(name, n))
	}
	return p
}

func vPolyEq(a, b Poly) bool {
	if len(a.Coeffs) != len(b.Coeffs) {
		return false
	}
	ok := true
	for i := range a.Coeffs {
		if len(a.Coeffs[i]) != len(b.Coeffs[i]) {
			return false
		}
		for j := range a.Coeffs[i] {
			ok = ok && a.Coeffs[i][j] == b.Coeffs[i][j]
		}
	}
	return ok
}

func VerifH_C08_PolyRoundTrip() {
	p := vSymPoly("c", 8, 1)
	size := p.BinarySize()
	buf := buffer.NewBufferSize(size)
	n, err := p.WriteTo(buf)
	vAssert(err == nil, "Poly-WriteTo-no-error")
	vAssert(int(n) == size, "Poly-WriteTo-writes-BinarySize-bytes")
	// fresh receiver
	var q Poly
	m, err := q.ReadFrom(buffer.NewBuffer(buf.Bytes()))
	vAssert(err == nil, "Poly-ReadFrom-no-error")
	vAssert(int(m) == size, "Poly-ReadFrom-consumes-BinarySize-bytes")
	vAssert(vPolyEq(p, q), "Poly-roundtrip-equal")
	// receiver that held a larger / different value before
	r := vSymPoly("old", 8, 2)
	m, err = r.ReadFrom(buffer.NewBuffer(buf.Bytes()))
	vAssert(err == nil && int(m) == size, "Poly-ReadFrom-reused-receiver-ok")
	vAssert(vPolyEq(p, r), "Poly-roundtrip-into-reused-receiver-equal")
	// MarshalBinary / UnmarshalBinary entry points
	data, err := p.MarshalBinary()
	vAssert(err == nil && len(data) == size, "Poly-MarshalBinary-size")
	var u Poly
	err = u.UnmarshalBinary(data)
	vAssert(err == nil && vPolyEq(p, u), "Poly-UnmarshalBinary-roundtrip")
	vCover("Poly-roundtrip-reached")
}

func VerifH_C08_PolyTruncated() {
	p := vSymPoly("c", 8, 0)
	size := p.BinarySize()
	buf := buffer.NewBufferSize(size)
	p.WriteTo(buf)
	data := buf.Bytes()
	for cut := 0; cut < size; cut++ {
		var q Poly
		_, err := q.ReadFrom(buffer.NewBuffer(data[:cut]))
		vAssert(err != nil, "Poly-ReadFrom-truncated-stream-returns-error")
	}
}

// Corrupted length fields: the 8-byte row count and the 8-byte row length of the encoding are replaced by arbitrary
// values (classes: small, negative/huge).  ReadFrom must return (an error or a value), never panic or allocate
// without bound.  Outside the bound: corrupted lengths between 17 and 2^32.
func VerifH_C08_PolyCorruptedHeader() {
	p := vSymPoly("c", 8, 0)
	size := p.BinarySize()
	buf := buffer.NewBufferSize(size)
	p.WriteTo(buf)
	data := buf.Bytes()
	for _, off := range []int{0, 8} {
		for class := 0; class < 3; class++ {
			bad := make([]byte, size)
			copy(bad, data)
			h := vU64("hdr")
			id := "Poly-ReadFrom-corrupted-small-length-does-not-panic"
			switch class {
			case 0:
				vAssume(h <= 16)
			case 1:
				vAssume(h >= 1<<63) // negative as int
				id = "Poly-ReadFrom-corrupted-negative-length-does-not-panic"
			case 2:
				vAssume(h >= 1<<32 && h < 1<<63)
				id = "Poly-ReadFrom-corrupted-huge-length-does-not-allocate-without-bound"
			}
			for i := 0; i < 8; i++ {
				bad[off+i] = byte(h >> (8 * uint(i)))
			}
			var q Poly
			panicked := vPanics(func() { q.ReadFrom(buffer.NewBuffer(bad)) })
			vAssert(!panicked, id)
		}
	}
}
