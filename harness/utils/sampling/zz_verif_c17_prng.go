package sampling

// C17 (keyed generator): Key() returns the key that reproduces the stream; natively (the XOF itself is opaque to the
// engine) equal keys give equal streams, Reset replays, distinct keys differ.

func VerifSetup_KeyedPRNG(key []byte) *KeyedPRNG {
	p, err := NewKeyedPRNG(key)
	if err != nil {
		panic(err)
	}
	return p
}

// VerifSetup_KeyAfterWipe: the generator is keyed from a buffer that the caller then overwrites; returns Key().
func VerifSetup_KeyAfterWipe(key []byte) []byte {
	buf := append([]byte(nil), key...)
	p, err := NewKeyedPRNG(buf)
	if err != nil {
		panic(err)
	}
	for i := range buf {
		buf[i] = 0xAA
	}
	return p.Key()
}

func vBytesEq(a, b []byte) bool {
	if len(a) != len(b) {
		return false
	}
	for i := range a {
		if a[i] != b[i] {
			return false
		}
	}
	return true
}

func VerifH_C17_KeyedPRNG() {
	key := []byte{1, 2, 3, 4, 5, 6, 7, 8, 9, 10, 11, 12, 13, 14, 15, 16}
	p1 := VerifSetup_KeyedPRNG(key)
	vAssert(vBytesEq(p1.Key(), key), "KeyedPRNG-Key-returns-the-seeding-key")
	k := p1.Key()
	k[0] ^= 1
	vAssert(vBytesEq(p1.Key(), key), "KeyedPRNG-Key-returns-a-copy")
	vAssert(vBytesEq(VerifSetup_KeyAfterWipe(key), key), "KeyedPRNG-keeps-its-own-copy-of-the-seeding-key")
	if !vSymbolic() {
		p2 := VerifSetup_KeyedPRNG(p1.Key())
		a, b := make([]byte, 96), make([]byte, 96)
		p1.Read(a)
		p2.Read(b)
		vAssert(vBytesEq(a, b), "KeyedPRNG-same-key-same-stream")
		p1.Reset()
		c := make([]byte, 96)
		p1.Read(c)
		vAssert(vBytesEq(a, c), "KeyedPRNG-Reset-replays-the-stream")
		p3 := VerifSetup_KeyedPRNG(k)
		d := make([]byte, 96)
		p3.Read(d)
		vAssert(!vBytesEq(a, d), "KeyedPRNG-distinct-keys-distinct-streams")
	}
}

// A randomly keyed generator hands out, with Key(), the key that reproduces its stream (stream comparison natively only).
func VerifH_C17_RandomlyKeyedPRNGIsReproducible() {
	p, err := NewPRNG()
	vAssert(err == nil && p != nil, "NewPRNG-no-error")
	if err != nil || p == nil {
		return
	}
	vAssert(len(p.Key()) == 64, "NewPRNG-key-has-64-bytes")
	if !vSymbolic() { // (the extendable output function is opaque to the engine: native validation run only)
		q := VerifSetup_KeyedPRNG(p.Key())
		a, b := make([]byte, 48), make([]byte, 48)
		p.Read(a)
		q.Read(b)
		vAssert(vBytesEq(a, b), "NewPRNG-stream-is-reproduced-by-a-generator-keyed-with-its-Key")
	}
}
