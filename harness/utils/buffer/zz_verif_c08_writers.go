package buffer

import "encoding/binary"

// C08 (stream level): the scalar and slice writers of every element width on a BOUNDED-BUFFER writer (the shape of
// bufio.Writer: AvailableBuffer is the free tail of a fixed-size buffer, Write appends and flushes when full), for
// every buffer size 8..19 - in particular sizes that are not a multiple of the element width - and every fill state
// the preceding writes leave behind.  Decided for arbitrary (symbolic) values: no panic, no error, exactly the
// announced number of bytes, and the sink receives the little-endian bytes of the values in order.

type vSink struct {
	buf  []byte // fixed capacity
	n    int
	sink []byte
}

func (w *vSink) Available() int          { return cap(w.buf) - w.n }
func (w *vSink) AvailableBuffer() []byte { return w.buf[w.n:][:0] }
func (w *vSink) Flush() error {
	w.sink = append(w.sink, w.buf[:w.n]...)
	w.n = 0
	return nil
}
func (w *vSink) Write(p []byte) (int, error) {
	total := len(p)
	for len(p) > w.Available() {
		if w.n == 0 { // large write: straight to the sink, as bufio does
			w.sink = append(w.sink, p...)
			return total, nil
		}
		k := copy(w.buf[w.n:cap(w.buf)], p)
		w.n += k
		p = p[k:]
		w.Flush()
	}
	k := copy(w.buf[w.n:cap(w.buf)], p)
	w.n += k
	return total, nil
}

func VerifH_C08_WritersBoundedBuffer() {
	for size := 8; size <= 19; size++ {
		for pre := 0; pre < 8; pre++ { // bytes already in the buffer: every alignment of the next write
			tag := "size" + vItoaB(size) + "-pre" + vItoaB(pre)
			w := &vSink{buf: make([]byte, size)}
			var want []byte
			for i := 0; i < pre; i++ {
				b := vU8("p")
				_, err := WriteUint8(w, b)
				vAssert(err == nil, tag+"-WriteUint8-no-error")
				want = append(want, b)
			}
			v64, v32, v16 := vU64("a"), vU32("b"), vU16("c")
			var n64, n32, n16 int64
			var e64, e32, e16 error
			panicked := vPanics(func() {
				n64, e64 = WriteUint64(w, v64)
				n32, e32 = WriteUint32(w, v32)
				n16, e16 = WriteUint16(w, v16)
			})
			vAssert(!panicked, tag+"-scalar-writers-do-not-panic")
			if panicked {
				continue
			}
			vAssert(e64 == nil && e32 == nil && e16 == nil, tag+"-scalar-writers-no-error")
			vAssert(n64 == 8 && n32 == 4 && n16 == 2, tag+"-scalar-writers-announce-the-bytes-written")
			want = binary.LittleEndian.AppendUint64(want, v64)
			want = binary.LittleEndian.AppendUint32(want, v32)
			want = binary.LittleEndian.AppendUint16(want, v16)
			s64 := []uint64{vU64("s"), vU64("s"), vU64("s")}
			var ns int64
			var es error
			panicked = vPanics(func() { ns, es = WriteUint64Slice(w, s64) })
			vAssert(!panicked, tag+"-WriteUint64Slice-does-not-panic")
			if panicked {
				continue
			}
			vAssert(es == nil && ns == 24, tag+"-WriteUint64Slice-no-error-and-size")
			for _, v := range s64 {
				want = binary.LittleEndian.AppendUint64(want, v)
			}
			vAssert(w.Flush() == nil, tag+"-Flush-no-error")
			ok := len(w.sink) == len(want)
			if ok {
				for i := range want {
					ok = ok && w.sink[i] == want[i]
				}
			}
			vAssert(ok, tag+"-sink-holds-the-little-endian-bytes-in-order")
		}
	}
	vCover("C08-writers-reached")
}
