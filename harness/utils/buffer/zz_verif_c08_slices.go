package buffer

import "io"

// C08 (stream level): the slice readers of every element width on a BOUNDED-BUFFER reader (the shape of bufio.Reader:
// Peek beyond the end of the stream is an error, Peek beyond the buffer size is an error).  The stream holds arbitrary
// (symbolic) bytes and ends exactly after the slice: every length 0..3·Size/width must be decoded completely and
// exactly 'width·len' bytes consumed; a stream that ends inside the slice must yield an error, never a panic or a hang.

type vBounded struct {
	data []byte
	pos  int
	size int
}

func (r *vBounded) Size() int { return r.size }

func (r *vBounded) Read(p []byte) (int, error) {
	if len(p) == 0 {
		return 0, nil
	}
	if r.pos >= len(r.data) {
		return 0, io.EOF
	}
	n := copy(p, r.data[r.pos:])
	r.pos += n
	return n, nil
}

func (r *vBounded) Peek(n int) ([]byte, error) {
	if n < 0 {
		return nil, io.ErrShortBuffer
	}
	if n > r.size {
		return r.data[r.pos:min(len(r.data), r.pos+r.size)], io.ErrShortBuffer
	}
	if r.pos+n > len(r.data) {
		return r.data[r.pos:], io.EOF
	}
	return r.data[r.pos : r.pos+n], nil
}

func (r *vBounded) Discard(n int) (int, error) {
	if r.pos+n > len(r.data) {
		d := len(r.data) - r.pos
		r.pos = len(r.data)
		return d, io.EOF
	}
	r.pos += n
	return n, nil
}

func VerifH_C08_SliceReadersBoundedBuffer() {
	const size = 16
	for _, width := range []int{1, 2, 4, 8} {
		for n := 0; n <= 3*size/width+1; n++ {
			tag := "w" + string(rune('0'+width)) + "-len" + vItoaB(n)
			data := vBytes("s", n*width)
			r := &vBounded{data: data, size: size}
			var cnt int64
			var err error
			ok := true
			switch width {
			case 1:
				c := make([]uint8, n)
				cnt, err = ReadUint8Slice(r, c)
				for i := range c {
					ok = ok && c[i] == data[i]
				}
			case 2:
				c := make([]uint16, n)
				cnt, err = ReadUint16Slice(r, c)
				for i := range c {
					ok = ok && c[i] == uint16(data[2*i])|uint16(data[2*i+1])<<8
				}
			case 4:
				c := make([]uint32, n)
				cnt, err = ReadUint32Slice(r, c)
				for i := range c {
					ok = ok && c[i] == uint32(data[4*i])|uint32(data[4*i+1])<<8|uint32(data[4*i+2])<<16|uint32(data[4*i+3])<<24
				}
			default:
				c := make([]uint64, n)
				cnt, err = ReadUint64Slice(r, c)
				for i := range c {
					var v uint64
					for b := 0; b < 8; b++ {
						v |= uint64(data[8*i+b]) << uint(8*b)
					}
					ok = ok && c[i] == v
				}
			}
			vAssert(err == nil, tag+"-valid-stream-ending-after-the-slice-is-accepted")
			vAssert(ok, tag+"-every-element-decoded-little-endian")
			vAssert(cnt == int64(n*width) && r.pos == n*width, tag+"-exactly-the-slice-is-consumed")
		}
		// the stream ends inside the slice
		for _, n := range []int{1, 3, size/width + 1} {
			short := &vBounded{data: vBytes("t", n*width-1), size: size}
			var err error
			p := vPanics(func() {
				switch width {
				case 1:
					_, err = ReadUint8Slice(short, make([]uint8, n))
				case 2:
					_, err = ReadUint16Slice(short, make([]uint16, n))
				case 4:
					_, err = ReadUint32Slice(short, make([]uint32, n))
				default:
					_, err = ReadUint64Slice(short, make([]uint64, n))
				}
			})
			vAssert(!p && err != nil, "w"+string(rune('0'+width))+"-truncated-slice-is-an-error")
		}
	}
	vCover("C08-slices-reached")
}

func vItoaB(n int) string {
	if n == 0 {
		return "0"
	}
	s := ""
	for n > 0 {
		s = string(rune('0'+n%10)) + s
		n /= 10
	}
	return s
}
