package rgsw

import (
	"math/big"

	"github.com/tuneinsight/lattigo/v6/core/rlwe"
	"github.com/tuneinsight/lattigo/v6/ring"
)

// Shared set-up of the rgsw harnesses.

type vCtx struct {
	Params rlwe.Parameters
	Kgen   *rlwe.KeyGenerator
	Sk     *rlwe.SecretKey
	Enc    *Encryptor
	Dec    *rlwe.Decryptor
	Eval   *Evaluator
}

type vCase struct {
	lit, nat          rlwe.ParametersLiteral
	levelQ, levelP, w int
	name              string
}

func vCases() []vCase {
	return []vCase{
		{rlwe.ParametersLiteral{LogN: 4, Q: []uint64{97, 193}, P: []uint64{257}, NTTFlag: true}, rlwe.ParametersLiteral{LogN: 4, LogQ: []int{45, 35}, LogP: []int{40}, NTTFlag: true}, 1, 0, 0, "singleP"},
		{rlwe.ParametersLiteral{LogN: 4, Q: []uint64{97, 12289, 193}, P: []uint64{257, 769}, NTTFlag: true}, rlwe.ParametersLiteral{LogN: 4, LogQ: []int{45, 35, 35}, LogP: []int{40, 40}, NTTFlag: true}, 2, 1, 0, "multipleP"},
		{rlwe.ParametersLiteral{LogN: 4, Q: []uint64{97, 193}, NTTFlag: true}, rlwe.ParametersLiteral{LogN: 4, LogQ: []int{45, 35}, NTTFlag: true}, 1, -1, 4, "noP-bitdecomp"},
		{rlwe.ParametersLiteral{LogN: 4, Q: []uint64{12289}, NTTFlag: true}, rlwe.ParametersLiteral{LogN: 4, Q: []uint64{0x7fff801}, NTTFlag: true}, 0, -1, 7, "32bit-path"},
		{rlwe.ParametersLiteral{LogN: 4, Q: []uint64{12289}, NTTFlag: true}, rlwe.ParametersLiteral{LogN: 4, Q: []uint64{0x7fff801}, NTTFlag: true}, 0, -1, 2, "32bit-path-narrow-digits"},
		{rlwe.ParametersLiteral{LogN: 4, Q: []uint64{0x1fffffc1}, NTTFlag: true}, rlwe.ParametersLiteral{LogN: 4, Q: []uint64{0x1fffffc1}, NTTFlag: true}, 0, -1, 2, "32bit-path-29bit-prime-narrow-digits"},
		// a single small Q with one auxiliary prime: NOT the 32-bit path (it ignores P)
		{rlwe.ParametersLiteral{LogN: 4, Q: []uint64{12289}, P: []uint64{257}, NTTFlag: true}, rlwe.ParametersLiteral{LogN: 4, Q: []uint64{0x7fff801}, LogP: []int{30}, NTTFlag: true}, 0, 0, 7, "smallQ-oneP-bitdecomp"},
		{rlwe.ParametersLiteral{LogN: 4, Q: []uint64{12289}, P: []uint64{257}, NTTFlag: true}, rlwe.ParametersLiteral{LogN: 4, Q: []uint64{0x7fff801}, LogP: []int{30}, NTTFlag: true}, 0, 0, 0, "smallQ-oneP"},
		// (a single small Q without P and without power-of-two digits is not a usable parameterisation: one digit of the
		// size of q makes the key-switch noise as large as q, whichever path computes it - not included)
	}
}

func VerifSetup_Ctx(i int, algebraic bool) *vCtx {
	cs := vCases()[i]
	lit := cs.nat
	if algebraic {
		lit = cs.lit
	}
	params, err := rlwe.NewParametersFromLiteral(lit)
	if err != nil {
		panic(err)
	}
	c := &vCtx{Params: params, Kgen: rlwe.NewKeyGenerator(params)}
	c.Sk = rlwe.NewSecretKey(params)
	c.Enc = NewEncryptor(params, c.Sk)
	c.Dec = rlwe.NewDecryptor(params, c.Sk)
	c.Eval = NewEvaluator(params, nil)
	return c
}

func vFillAtoms(r *ring.Ring, p ring.Poly, name string, class int) {
	for k, s := range r.SubRings[:r.Level()+1] {
		copy(p.Coeffs[k], vAtoms(name+"."+string(rune('0'+k)), class, s.Modulus, r.N()))
	}
}

func vAssertNoiseFree(r *ring.Ring, a, b ring.Poly, isNTT bool, logBound int, id string) {
	if vIsAlgebraic() {
		for k, s := range r.SubRings[:r.Level()+1] {
			vAssertNoiseFreeMod(a.Coeffs[k], b.Coeffs[k], s.Modulus, id)
		}
		return
	}
	d := r.NewPoly()
	r.Sub(a, b, d)
	if isNTT {
		r.INTT(d, d)
	}
	coeffs := make([]*big.Int, r.N())
	for i := range coeffs {
		coeffs[i] = new(big.Int)
	}
	r.PolyToBigintCentered(d, 1, coeffs)
	bound := new(big.Int).Lsh(big.NewInt(1), uint(logBound))
	ok := true
	for _, c := range coeffs {
		if c.CmpAbs(bound) >= 0 {
			ok = false
		}
	}
	vAssert(ok, id)
}
