package rgsw

import (
	"github.com/tuneinsight/lattigo/v6/core/rlwe"
)

// C09 (external product): the product into a distinct output equals the in-place product coefficient for coefficient
// (the same deterministic computation on the same inputs), and neither the RLWE operand nor the RGSW ciphertext is
// modified by the out-of-place call; for every decomposition path with and without auxiliary primes.

func VerifH_C09_ExternalProductAliasing() {
	vConfig("algebraic-samplers", "1")
	for i, cs := range vCases() {
		if cs.name == "32bit-path-29bit-prime-narrow-digits" {
			continue // recorded defect F23 of that path (C20)
		}
		c := VerifSetup_Ctx(i, vIsAlgebraic())
		c.Kgen.GenSecretKey(c.Sk)
		params := c.Params
		tag := cs.name
		rQ := params.RingQ().AtLevel(cs.levelQ)
		g := rlwe.NewPlaintext(params, cs.levelQ)
		g.IsNTT = true
		vFillAtoms(rQ, g.Value, "g", vMessage)
		gsw := NewCiphertext(params, cs.levelQ, cs.levelP, cs.w)
		vAssert(c.Enc.Encrypt(g, gsw) == nil, tag+"-RGSW-encrypt-no-error")
		ct := rlwe.NewCiphertext(params, 1, cs.levelQ)
		ct.IsNTT = true
		for j := range ct.Value {
			vFillAtoms(rQ, ct.Value[j], "c"+string(rune('0'+j)), vUniform)
		}
		keep := ct.CopyNew()
		snap := vSnapshot(gsw)
		// distinct output that held other data
		out := rlwe.NewCiphertext(params, 1, cs.levelQ)
		out.IsNTT = true
		for j := range out.Value {
			vFillAtoms(rQ, out.Value[j], "junk"+string(rune('0'+j)), vUniform)
		}
		c.Eval.ExternalProduct(ct, gsw, out)
		vAssertUnchanged(snap, tag+"-RGSW-operand-unchanged")
		inpl := keep.CopyNew()
		c.Eval.ExternalProduct(inpl, gsw, inpl)
		for j := range ct.Value {
			for k, s := range rQ.SubRings[:cs.levelQ+1] {
				vAssertEqMod(ct.Value[j].Coeffs[k], keep.Value[j].Coeffs[k], s.Modulus, tag+"-RLWE-operand-unchanged-by-the-out-of-place-product")
				vAssertEqMod(out.Value[j].Coeffs[k], inpl.Value[j].Coeffs[k], s.Modulus, tag+"-distinct-output-equals-the-in-place-product")
			}
		}
	}
	vCover("C09-external-product-reached")
}
