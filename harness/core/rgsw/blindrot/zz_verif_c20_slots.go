package blindrot

import (
	"math"

	"github.com/tuneinsight/lattigo/v6/core/rgsw"
	"github.com/tuneinsight/lattigo/v6/core/rlwe"
	"github.com/tuneinsight/lattigo/v6/ring"
	"github.com/tuneinsight/lattigo/v6/utils"
)

// C20 (blind rotation, front end of Evaluate): the LWE sample handed to the accumulation loop for a requested slot.
// Engine: the real Evaluate from SSA; the mod-switched mask polynomial is an arbitrary vector of words below 2N (the
// mod-switch stand-in writes symbols, the body polynomial stays concrete: it only selects a monomial) and
// BlindRotateCore is replaced by a recorder.  Decided for every mask polynomial a: the vector handed over for slot i is
// (a_i, a_{i-1}, .., a_0, -a_{N-1}, .., -a_{i+1}) mod 2N, the vector whose inner product with the secret is the i-th
// coefficient of a·s, for a request that leaves gaps between the slots (0, 1, 2, 5, 9, 15) and one that does not start
// at slot 0.  Natively (replay / validation): the real evaluation with real keys decrypts, slot by slot, to the value of
// that slot.

var vRecordedA [][]uint64
var vSwitchedA []uint64
var vNLWE int

func vStubModSwitch(eval *Evaluator, level int, polQ, pol2N ring.Poly, makeOdd bool) {
	twoN := uint64(eval.paramsBR.N() << 1)
	if makeOdd {
		vSwitchedA = make([]uint64, vNLWE)
		for i := 0; i < vNLWE; i++ {
			x := vU64("a2N." + vItoa(len(vRecordedA)) + "." + vItoa(i))
			vAssume(x < twoN)
			pol2N.Coeffs[0][i] = x
			vSwitchedA[i] = x
		}
		return
	}
	for i := 0; i < vNLWE; i++ {
		pol2N.Coeffs[0][i] = uint64(3*i+1) & (twoN - 1)
	}
}

func vStubCore(eval *Evaluator, a []uint64, acc *rlwe.Ciphertext, BRK BlindRotationEvaluationKeySet) error {
	vRecordedA = append(vRecordedA, append([]uint64{}, a[:vNLWE]...))
	return nil
}

var vSlotRequests = [][]int{{0, 1, 2, 5, 9, 15}, {3, 4, 12}}

func vSlotID(ri, idx int) string {
	return "request" + vItoa(ri) + "-slot" + vItoa(idx) + "-blind-rotation-uses-the-LWE-sample-of-its-slot"
}

func VerifH_C20_EvaluateSlotExtraction() {
	if !vIsAlgebraic() {
		vEvaluateSlotsNative()
		return
	}
	c := VerifSetup_BRCtx(true)
	pBR, pLWE := c.ParamsBR, c.ParamsLWE
	vNLWE = pLWE.N()
	brk := MemBlindRotationEvaluationKeySet{}
	for range vLWESecret {
		brk.BlindRotationKeys = append(brk.BlindRotationKeys, rgsw.NewCiphertext(pBR, pBR.MaxLevelQ(), pBR.MaxLevelP(), 0))
	}
	const pfx = "github.com/tuneinsight/lattigo/v6/core/rgsw/blindrot."
	vStub("(*"+pfx+"Evaluator).modSwitchRLWETo2NLvl", "call:"+pfx+"vStubModSwitch")
	vStub("(*"+pfx+"Evaluator).BlindRotateCore", "call:"+pfx+"vStubCore")
	mask := uint64(pBR.N()<<1) - 1
	for ri, req := range vSlotRequests {
		vRecordedA = nil
		ct := rlwe.NewCiphertext(pLWE, 1, pLWE.MaxLevel())
		ct.IsNTT = false
		tp := pBR.RingQ().NewPoly()
		polys := map[int]*ring.Poly{}
		for _, idx := range req {
			polys[idx] = &tp
		}
		res, err := c.Eval.Evaluate(ct, polys, brk)
		vAssert(err == nil && len(res) == len(req) && len(vRecordedA) == len(req), "request"+vItoa(ri)+"-one-rotation-per-requested-slot")
		if len(vRecordedA) != len(req) {
			continue
		}
		a := vSwitchedA
		for k, idx := range req {
			_, has := res[idx]
			ok := has
			for j := 0; j < vNLWE; j++ {
				want := a[(idx-j+vNLWE)%vNLWE]
				if j > idx {
					want = -want & mask
				}
				ok = ok && vRecordedA[k][j] == want
			}
			vAssert(ok, vSlotID(ri, idx))
		}
	}
	vUnstub("(*" + pfx + "Evaluator).modSwitchRLWETo2NLvl")
	vUnstub("(*" + pfx + "Evaluator).BlindRotateCore")
	vCover("C20-evaluate-slot-extraction-reached")
}

// native counterpart: real keys, identity test polynomial, slot values far apart between neighbouring slots
func vEvaluateSlotsNative() {
	pBR, err := rlwe.NewParametersFromLiteral(rlwe.ParametersLiteral{LogN: 9, Q: []uint64{0x7fff801}, NTTFlag: true})
	if err != nil {
		panic(err)
	}
	pLWE, err := rlwe.NewParametersFromLiteral(rlwe.ParametersLiteral{LogN: 4, Q: []uint64{0x3001}, NTTFlag: true})
	if err != nil {
		panic(err)
	}
	scaleLWE := float64(pLWE.Q()[0]) / 4.0
	scaleBR := float64(pBR.Q()[0]) / 4.0
	tp := InitTestPolynomial(func(x float64) float64 { return x }, rlwe.NewScale(scaleBR), pBR.RingQ(), -1, 1)
	n := pLWE.N()
	values := make([]float64, n)
	for i := range values {
		values[i] = -0.75 + 1.5*float64((i*7)%n)/float64(n-1)
	}
	skLWE := rlwe.NewKeyGenerator(pLWE).GenSecretKeyNew()
	pt := rlwe.NewPlaintext(pLWE, pLWE.MaxLevel())
	for i, v := range values {
		if v < 0 {
			pt.Value.Coeffs[0][i] = pLWE.Q()[0] - uint64(-v*scaleLWE)
		} else {
			pt.Value.Coeffs[0][i] = uint64(v * scaleLWE)
		}
	}
	pLWE.RingQ().NTT(pt.Value, pt.Value)
	ct := rlwe.NewCiphertext(pLWE, 1, pLWE.MaxLevel())
	if err := rlwe.NewEncryptor(pLWE, skLWE).Encrypt(pt, ct); err != nil {
		panic(err)
	}
	eval := NewEvaluator(pBR, pLWE)
	skBR := rlwe.NewKeyGenerator(pBR).GenSecretKeyNew()
	brk := GenEvaluationKeyNew(pBR, skBR, pLWE, skLWE, rlwe.EvaluationKeyParameters{BaseTwoDecomposition: utils.Pointy(7)})
	dec := rlwe.NewDecryptor(pBR, skBR)
	q := pBR.Q()[0]
	for ri, req := range vSlotRequests {
		polys := map[int]*ring.Poly{}
		for _, idx := range req {
			polys[idx] = &tp
		}
		res, err := eval.Evaluate(ct, polys, brk)
		vAssert(err == nil && len(res) == len(req), "request"+vItoa(ri)+"-one-rotation-per-requested-slot")
		for _, idx := range req {
			out, has := res[idx]
			ok := has
			if has {
				p := rlwe.NewPlaintext(pBR, pBR.MaxLevel())
				dec.Decrypt(out, p)
				if p.IsNTT {
					pBR.RingQ().INTT(p.Value, p.Value)
				}
				cf := p.Value.Coeffs[0][0]
				v := float64(cf) / scaleBR
				if cf >= q>>1 {
					v = -float64(q-cf) / scaleBR
				}
				ok = math.Abs(v-values[idx]) <= 0.25
			}
			vAssert(ok, vSlotID(ri, idx))
		}
	}
}
