package blindrot

import (
	"math/big"

	"github.com/tuneinsight/lattigo/v6/core/rgsw"
	"github.com/tuneinsight/lattigo/v6/core/rlwe"
	"github.com/tuneinsight/lattigo/v6/ring"
)

// C20 (blind rotation, the accumulation loop; algebraic slot model, modular).
//  (1) Key-set lemma: the real GenEvaluationKeyNew, for a concrete ternary LWE secret, produces for every j an RGSW
//      ciphertext that multiplies a phase by X^{s_j} under the real ExternalProduct (one key of each secret value), and
//      Galois keys under which the real Automorphism applies sigma_g^k and sigma_{-g} to the phase.
//  (2) Control logic: the real BlindRotateCore (discrete-log sets, window bookkeeping, order of products and
//      automorphisms) is executed from SSA with ExternalProduct and Automorphism replaced by exactly those two effects
//      on a noise-free accumulator whose coefficients are atoms.  Decided for every accumulator value: the accumulator
//      leaves the loop as sigma_{(-g)^-1}(acc)·X^{<a,s>} - what Evaluate documents (f(X^{-g})X^{-gb} -> f(X)X^{b+<a,s>}) -
//      for mask vectors that exercise the negative and the positive set, zero entries, repeated discrete logarithms, gaps
//      longer than the window (N = 32: window 10 < N/2) and every odd residue.
// Chaining real external products symbolically is not tractable (every product re-decomposes the previous result);
// the composition is justified by (1) + C20 external product + C04 automorphisms.  LWE mod-switch and table layout:
// VerifH_C20_TestPolynomial.

type vBRCtx struct {
	ParamsBR, ParamsLWE rlwe.Parameters
	SkBR, SkLWE         *rlwe.SecretKey
	Kgen                *rlwe.KeyGenerator
	Dec                 *rlwe.Decryptor
	Eval                *Evaluator
}

var vLWESecret = []int64{1, 0, -1, 1, 0, 0, -1, 1, 1, -1, 0, 0, 1, 0, -1, 0}

func VerifSetup_BRCtx(algebraic bool) *vBRCtx {
	litBR := rlwe.ParametersLiteral{LogN: 5, LogQ: []int{45, 35}, LogP: []int{40}, NTTFlag: true}
	if algebraic {
		litBR = rlwe.ParametersLiteral{LogN: 5, Q: []uint64{193, 257}, P: []uint64{769}, NTTFlag: true}
	}
	pBR, err := rlwe.NewParametersFromLiteral(litBR)
	if err != nil {
		panic(err)
	}
	pLWE, err := rlwe.NewParametersFromLiteral(rlwe.ParametersLiteral{LogN: 4, Q: []uint64{12289}, NTTFlag: true})
	if err != nil {
		panic(err)
	}
	c := &vBRCtx{ParamsBR: pBR, ParamsLWE: pLWE, Kgen: rlwe.NewKeyGenerator(pBR)}
	c.SkBR = rlwe.NewSecretKey(pBR)
	c.SkLWE = rlwe.NewSecretKey(pLWE)
	rL := pLWE.RingQ()
	for k, s := range rL.SubRings {
		for i, v := range vLWESecret {
			c.SkLWE.Value.Q.Coeffs[k][i] = uint64(v+int64(s.Modulus)) % s.Modulus
		}
	}
	rL.NTT(c.SkLWE.Value.Q, c.SkLWE.Value.Q)
	rL.MForm(c.SkLWE.Value.Q, c.SkLWE.Value.Q)
	c.Dec = rlwe.NewDecryptor(pBR, c.SkBR)
	c.Eval = NewEvaluator(pBR, pLWE)
	return c
}

func vItoa(n int) string {
	if n == 0 {
		return "0"
	}
	s := ""
	for n > 0 {
		s = string(rune('0'+n%10)) + s
		n /= 10
	}
	return s
}

func vAtomCt(c *vBRCtx, name string, trivial bool) *rlwe.Ciphertext {
	pBR := c.ParamsBR
	r := pBR.RingQ()
	ct := rlwe.NewCiphertext(pBR, 1, r.Level())
	for i := range ct.Value {
		if trivial && i == 1 {
			continue
		}
		for k, s := range r.SubRings {
			copy(ct.Value[i].Coeffs[k], vAtoms(name+"."+vItoa(i)+"."+vItoa(k), vUniform, s.Modulus, pBR.N()))
		}
	}
	ct.IsNTT = true
	return ct
}

func vMulMonomial(r *ring.Ring, p ring.Poly, e int, out ring.Poly) {
	twoN := 2 * r.N()
	e = ((e % twoN) + twoN) % twoN
	mono := r.NewMonomialXi(e)
	r.NTT(mono, mono)
	r.MForm(mono, mono)
	r.MulCoeffsMontgomery(p, mono, out)
}

// ---- (1) key-set lemma

func VerifH_C20_BlindRotationKeySet() {
	vConfig("algebraic-samplers", "1")
	c := VerifSetup_BRCtx(vIsAlgebraic())
	c.Kgen.GenSecretKey(c.SkBR)
	pBR := c.ParamsBR
	r := pBR.RingQ()
	brk := GenEvaluationKeyNew(pBR, c.SkBR, c.ParamsLWE, c.SkLWE)
	vAssert(len(brk.BlindRotationKeys) == len(vLWESecret), "one-RGSW-key-per-LWE-coefficient")
	evalR := rgsw.NewEvaluator(pBR, nil)
	seen := map[int64]bool{}
	for j, sj := range vLWESecret {
		if seen[sj] {
			continue
		}
		seen[sj] = true
		tag := "key" + vItoa(j)
		ct := vAtomCt(c, "k"+vItoa(j), false)
		in := rlwe.NewPlaintext(pBR, r.Level())
		c.Dec.Decrypt(ct, in)
		evalR.ExternalProduct(ct, brk.BlindRotationKeys[j], ct)
		out := rlwe.NewPlaintext(pBR, r.Level())
		c.Dec.Decrypt(ct, out)
		want := r.NewPoly()
		vMulMonomial(r, in.Value, int(sj), want)
		vAssertNoiseFree(r, out.Value, want, 40, tag+"-external-product-with-the-j-th-key-multiplies-by-X^s_j")
	}
	evk, err := brk.GetEvaluationKeySet()
	vAssert(err == nil, "evaluation-key-set-available")
	evalA := rlwe.NewEvaluator(pBR, evk)
	gals := []uint64{pBR.GaloisElement(1), pBR.GaloisElement(windowSize), r.NthRoot() - ring.GaloisGen}
	if vTier() > 0 {
		gals = nil
		for k := 1; k <= windowSize; k++ {
			gals = append(gals, pBR.GaloisElement(k))
		}
		gals = append(gals, r.NthRoot()-ring.GaloisGen)
	}
	for gi, g := range gals {
		tag := "galois" + vItoa(gi)
		ct := vAtomCt(c, "g"+vItoa(gi), false)
		in := rlwe.NewPlaintext(pBR, r.Level())
		c.Dec.Decrypt(ct, in)
		vAssert(evalA.Automorphism(ct, g, ct) == nil, tag+"-the-key-set-holds-the-Galois-key")
		out := rlwe.NewPlaintext(pBR, r.Level())
		c.Dec.Decrypt(ct, out)
		want := r.NewPoly()
		r.AutomorphismNTT(in.Value, g, want)
		vAssertNoiseFree(r, out.Value, want, 40, tag+"-automorphism-under-the-key-set-applies-sigma")
	}
	vCover("C20-blind-rotation-key-set-reached")
}

// ---- (2) control logic with the two effects as stand-ins

var vGhostKeys map[*rgsw.Ciphertext]int64

func vStubExternalProduct(eval rgsw.Evaluator, op0 *rlwe.Ciphertext, op1 *rgsw.Ciphertext, opOut *rlwe.Ciphertext) {
	s, ok := vGhostKeys[op1]
	if !ok {
		panic("VERIF-GHOST: external product with a key that is not a blind-rotation key")
	}
	r := eval.GetRLWEParameters().RingQ().AtLevel(op0.Level())
	for i := range op0.Value {
		vMulMonomial(r, op0.Value[i], int(s), opOut.Value[i])
	}
}

func vStubAutomorphism(eval rlwe.Evaluator, ctIn *rlwe.Ciphertext, galEl uint64, opOut *rlwe.Ciphertext) error {
	r := eval.GetRLWEParameters().RingQ().AtLevel(ctIn.Level())
	for i := range ctIn.Value {
		tmp := r.NewPoly()
		r.AutomorphismNTT(ctIn.Value[i], galEl, tmp)
		opOut.Value[i].CopyLvl(ctIn.Level(), tmp)
	}
	return nil
}

var vBRMasks = [][]uint64{
	{1, 3, 63, 0, 5, 59, 9, 17, 0, 0, 7, 0, 0, 25, 0, 1},           // both sets, zero entries
	{5, 5, 59, 59, 1, 63, 0, 0, 5, 59, 0, 0, 0, 0, 0, 0},           // repeated discrete logarithms
	{25, 0, 0, 0, 0, 0, 0, 39, 0, 0, 0, 0, 0, 0, 0, 0},             // gaps longer than the window
	{0, 0, 0, 0, 0, 0, 0, 0, 0, 0, 0, 0, 0, 0, 0, 0},               // nothing to rotate
	{13, 19, 21, 11, 29, 3, 23, 15, 33, 31, 47, 49, 37, 55, 5, 27}, // sixteen different odd residues
	{61, 57, 53, 51, 45, 43, 41, 35, 63, 1, 7, 9, 17, 25, 39, 59},  // the other sixteen (incl. 1 and -1)
}

// vBRWant = sigma_{(-g)^-1}(in) * X^{<a,s>}
func vBRWant(r *ring.Ring, in ring.Poly, a []uint64) ring.Poly {
	twoN := uint64(2 * r.N())
	hInv := new(big.Int).ModInverse(new(big.Int).SetUint64(twoN-ring.GaloisGen), new(big.Int).SetUint64(twoN)).Uint64()
	e := int64(0)
	for j, aj := range a {
		e += int64(aj) * vLWESecret[j]
	}
	want := r.NewPoly()
	r.AutomorphismNTT(in, hInv, want)
	vMulMonomial(r, want, int(((e%int64(twoN))+int64(twoN))%int64(twoN)), want)
	return want
}

// native counterpart (replay / validation): the real loop with real keys on a noise-free accumulator
func vBlindRotateCoreNative() {
	c := VerifSetup_BRCtx(false)
	c.Kgen.GenSecretKey(c.SkBR)
	pBR := c.ParamsBR
	r := pBR.RingQ()
	brk := GenEvaluationKeyNew(pBR, c.SkBR, c.ParamsLWE, c.SkLWE)
	for mi, a := range vBRMasks {
		tag := "mask" + vItoa(mi)
		acc := rlwe.NewCiphertext(pBR, 1, r.Level())
		acc.IsNTT = true
		for k, s := range r.SubRings {
			for i := 0; i < pBR.N(); i++ {
				// (a message far above the noise: 2^50·(1+i²+mask index), the same integer on every limb)
				v := new(big.Int).Lsh(big.NewInt(int64(1+i*i+mi)), 50)
				acc.Value[0].Coeffs[k][i] = v.Mod(v, new(big.Int).SetUint64(s.Modulus)).Uint64()
			}
		}
		r.NTT(acc.Value[0], acc.Value[0])
		in := r.NewPoly()
		in.Copy(acc.Value[0])
		vAssert(c.Eval.BlindRotateCore(a, acc, brk) == nil, tag+"-BlindRotateCore-no-error")
		out := rlwe.NewPlaintext(pBR, r.Level())
		c.Dec.Decrypt(acc, out)
		vAssertNoiseFree(r, out.Value, vBRWant(r, in, a), 50, tag+"-accumulator-is-rotated-by-the-inner-product-of-mask-and-secret")
	}
}

func VerifH_C20_BlindRotateCoreControl() {
	if !vIsAlgebraic() {
		vBlindRotateCoreNative()
		return
	}
	c := VerifSetup_BRCtx(vIsAlgebraic())
	pBR := c.ParamsBR
	r := pBR.RingQ()
	// allocated (not generated) keys: only their identity matters under the stand-ins
	brk := MemBlindRotationEvaluationKeySet{}
	vGhostKeys = map[*rgsw.Ciphertext]int64{}
	for j := range vLWESecret {
		k := rgsw.NewCiphertext(pBR, pBR.MaxLevelQ(), pBR.MaxLevelP(), 0)
		brk.BlindRotationKeys = append(brk.BlindRotationKeys, k)
		vGhostKeys[k] = vLWESecret[j]
	}
	const pfx = "github.com/tuneinsight/lattigo/v6/core/rgsw/blindrot."
	vStub("(github.com/tuneinsight/lattigo/v6/core/rgsw.Evaluator).ExternalProduct", "call:"+pfx+"vStubExternalProduct")
	vStub("(github.com/tuneinsight/lattigo/v6/core/rlwe.Evaluator).Automorphism", "call:"+pfx+"vStubAutomorphism")
	masks := vBRMasks
	for mi, a := range masks {
		tag := "mask" + vItoa(mi)
		acc := vAtomCt(c, "acc"+vItoa(mi), true)
		in := r.NewPoly()
		in.Copy(acc.Value[0])
		vAssert(c.Eval.BlindRotateCore(a, acc, brk) == nil, tag+"-BlindRotateCore-no-error")
		want := vBRWant(r, in, a)
		for k, s := range r.SubRings {
			vAssertEqMod(acc.Value[0].Coeffs[k], want.Coeffs[k], s.Modulus, tag+"-accumulator-is-rotated-by-the-inner-product-of-mask-and-secret")
		}
	}
	vUnstub("(github.com/tuneinsight/lattigo/v6/core/rgsw.Evaluator).ExternalProduct")
	vUnstub("(github.com/tuneinsight/lattigo/v6/core/rlwe.Evaluator).Automorphism")
	vCover("C20-blind-rotate-core-reached")
}

func vAssertNoiseFree(r *ring.Ring, a, b ring.Poly, logBound int, id string) {
	if vIsAlgebraic() {
		for k, s := range r.SubRings[:r.Level()+1] {
			vAssertNoiseFreeMod(a.Coeffs[k], b.Coeffs[k], s.Modulus, id)
		}
		return
	}
	d := r.NewPoly()
	r.Sub(a, b, d)
	r.INTT(d, d)
	coeffs := make([]*big.Int, r.N())
	for i := range coeffs {
		coeffs[i] = new(big.Int)
	}
	r.PolyToBigintCentered(d, 1, coeffs)
	bound := new(big.Int).Lsh(big.NewInt(1), uint(logBound))
	ok := true
	for _, c := range coeffs {
		if c.CmpAbs(bound) >= 0 {
			ok = false
		}
	}
	vAssert(ok, id)
}
