package blindrot

import (
	"math/big"

	"github.com/tuneinsight/lattigo/v6/core/rlwe"
	"github.com/tuneinsight/lattigo/v6/ring"
)

// C20 (blind rotation, the accumulation loop; algebraic slot model): the real GenEvaluationKeyNew (RGSW encryptions of
// X^{s_j} for a concrete ternary LWE secret, Galois keys of the window and of -g) and the real BlindRotateCore
// (discrete-log sets, windowed automorphisms, in-place external products) are executed from SSA on an accumulator
// whose coefficients are atoms.  Decided for every accumulator, key, mask and error value: the accumulator leaves the
// loop as  sigma_{(-g)^-1}(acc) * X^{<a,s>}  (what Evaluate documents: f(X^{-g}) X^{-g b}  ->  f(X) X^{b + <a,s>}),
// for mask vectors a that exercise the negative and the positive set, zero entries, several entries with the same
// discrete logarithm and gaps longer than the window.  The LWE mod-switch and the table layout are separate
// (VerifH_C20_TestPolynomial); ring degrees above 16 are outside.

type vBRCtx struct {
	ParamsBR, ParamsLWE rlwe.Parameters
	SkBR, SkLWE         *rlwe.SecretKey
	Kgen                *rlwe.KeyGenerator
	Dec                 *rlwe.Decryptor
	Eval                *Evaluator
}

var vLWESecret = []int64{1, 0, -1, 1, 0, 0, -1, 1, 1, -1, 0, 0, 1, 0, -1, 0}

func VerifSetup_BRCtx(algebraic bool) *vBRCtx {
	litBR := rlwe.ParametersLiteral{LogN: 4, LogQ: []int{45, 35}, LogP: []int{40}, NTTFlag: true}
	if algebraic {
		litBR = rlwe.ParametersLiteral{LogN: 4, Q: []uint64{97, 193}, P: []uint64{257}, NTTFlag: true}
	}
	pBR, err := rlwe.NewParametersFromLiteral(litBR)
	if err != nil {
		panic(err)
	}
	pLWE, err := rlwe.NewParametersFromLiteral(rlwe.ParametersLiteral{LogN: 4, Q: []uint64{12289}, NTTFlag: true})
	if err != nil {
		panic(err)
	}
	c := &vBRCtx{ParamsBR: pBR, ParamsLWE: pLWE, Kgen: rlwe.NewKeyGenerator(pBR)}
	c.SkBR = rlwe.NewSecretKey(pBR)
	c.SkLWE = rlwe.NewSecretKey(pLWE)
	// the concrete LWE secret, in the representation of a secret key (NTT, Montgomery)
	rL := pLWE.RingQ()
	for k, s := range rL.SubRings {
		for i, v := range vLWESecret {
			c.SkLWE.Value.Q.Coeffs[k][i] = uint64((v + int64(s.Modulus))) % s.Modulus
		}
	}
	rL.NTT(c.SkLWE.Value.Q, c.SkLWE.Value.Q)
	rL.MForm(c.SkLWE.Value.Q, c.SkLWE.Value.Q)
	c.Dec = rlwe.NewDecryptor(pBR, c.SkBR)
	c.Eval = NewEvaluator(pBR, pLWE)
	return c
}

func vItoa(n int) string {
	if n == 0 {
		return "0"
	}
	s := ""
	for n > 0 {
		s = string(rune('0'+n%10)) + s
		n /= 10
	}
	return s
}

func VerifH_C20_BlindRotateCore() {
	vConfig("algebraic-samplers", "1")
	c := VerifSetup_BRCtx(vIsAlgebraic())
	c.Kgen.GenSecretKey(c.SkBR)
	pBR := c.ParamsBR
	brk := GenEvaluationKeyNew(pBR, c.SkBR, c.ParamsLWE, c.SkLWE)
	r := pBR.RingQ()
	level := r.Level()
	n := pBR.N()
	twoN := uint64(2 * n)
	masks := [][]uint64{
		{1, 3, 31, 0, 5, 27, 9, 17, 0, 0, 7, 0, 0, 25, 0, 1},        // both sets, zero entries
		{5, 5, 27, 27, 1, 31, 0, 0, 5, 27, 0, 0, 0, 0, 0, 0},        // repeated discrete logarithms
		{25, 0, 0, 0, 0, 0, 0, 7, 0, 0, 0, 0, 0, 0, 0, 0},           // long gaps between occupied sets
		{0, 0, 0, 0, 0, 0, 0, 0, 0, 0, 0, 0, 0, 0, 0, 0},            // nothing to rotate
		{13, 19, 21, 11, 29, 3, 23, 15, 1, 31, 17, 9, 7, 25, 5, 27}, // every odd residue once
	}
	if vTier() == 0 {
		masks = masks[:3]
	}
	hInv := new(big.Int).ModInverse(new(big.Int).SetUint64(twoN-ring.GaloisGen), new(big.Int).SetUint64(twoN)).Uint64()
	for mi, a := range masks {
		tag := "mask" + vItoa(mi)
		acc := rlwe.NewCiphertext(pBR, 1, level)
		for i := range acc.Value {
			for k, s := range r.SubRings[:level+1] {
				copy(acc.Value[i].Coeffs[k], vAtoms("acc"+vItoa(mi)+"."+vItoa(i)+"."+vItoa(k), vUniform, s.Modulus, n))
			}
		}
		acc.IsNTT = true
		in := rlwe.NewPlaintext(pBR, level)
		c.Dec.Decrypt(acc, in)
		vAssert(c.Eval.BlindRotateCore(a, acc, brk) == nil, tag+"-BlindRotateCore-no-error")
		out := rlwe.NewPlaintext(pBR, level)
		c.Dec.Decrypt(acc, out)
		// <a,s> mod 2N
		e := int64(0)
		for j, aj := range a {
			e += int64(aj) * vLWESecret[j]
		}
		e = ((e % int64(twoN)) + int64(twoN)) % int64(twoN)
		want := r.NewPoly()
		r.AutomorphismNTT(in.Value, hInv, want)
		mono := r.NewMonomialXi(int(e))
		r.NTT(mono, mono)
		r.MForm(mono, mono)
		r.MulCoeffsMontgomery(want, mono, want)
		vAssertNoiseFree(r, out.Value, want, 40, tag+"-accumulator-is-rotated-by-the-inner-product-of-mask-and-secret")
	}
	vCover("C20-blind-rotate-core-reached")
}

func vAssertNoiseFree(r *ring.Ring, a, b ring.Poly, logBound int, id string) {
	if vIsAlgebraic() {
		for k, s := range r.SubRings[:r.Level()+1] {
			vAssertNoiseFreeMod(a.Coeffs[k], b.Coeffs[k], s.Modulus, id)
		}
		return
	}
	d := r.NewPoly()
	r.Sub(a, b, d)
	r.INTT(d, d)
	coeffs := make([]*big.Int, r.N())
	for i := range coeffs {
		coeffs[i] = new(big.Int)
	}
	r.PolyToBigintCentered(d, 1, coeffs)
	bound := new(big.Int).Lsh(big.NewInt(1), uint(logBound))
	ok := true
	for _, c := range coeffs {
		if c.CmpAbs(bound) >= 0 {
			ok = false
		}
	}
	vAssert(ok, id)
}
