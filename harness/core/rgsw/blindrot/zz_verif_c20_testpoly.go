package blindrot

import (
	"github.com/tuneinsight/lattigo/v6/core/rlwe"
	"github.com/tuneinsight/lattigo/v6/ring"
)

// C20 (blind rotation, table construction only; concrete): the test polynomial built for f on [a,b] holds, at the
// position the rotation by a discretised x in [-1,1] selects, the value round(scale·f(y)) with y the affine image of x
// in [a,b] - for symmetric and asymmetric intervals, identity and sign.  The rotation itself (LWE mod switch, RGSW
// accumulation over the secret's bits) is outside: ring degrees and float/discretisation bounds.

func VerifSetup_TestPolyRing() *ring.Ring {
	r, err := ring.NewRing(16, []uint64{0x7fff801})
	if err != nil {
		panic(err)
	}
	return r
}

func vRound(v float64) int64 {
	if v < 0 {
		return -int64(-v + 0.5)
	}
	return int64(v + 0.5)
}

func VerifH_C20_TestPolynomial() {
	r := VerifSetup_TestPolyRing()
	q := r.SubRings[0].Modulus
	n := r.N()
	scale := rlwe.NewScale(1 << 10)
	type fn struct {
		name string
		f    func(float64) float64
	}
	fns := []fn{{"identity", func(x float64) float64 { return x }}, {"sign", func(x float64) float64 {
		if x < 0 {
			return -1
		}
		return 1
	}}}
	for _, iv := range [][2]float64{{-1, 1}, {0, 8}, {2, 10}, {-4, 1}} {
		a, b := iv[0], iv[1]
		for _, g := range fns {
			F := InitTestPolynomial(g.f, scale, r, a, b)
			r.INTT(F, F)
			ok := true
			for i := 0; i < n; i++ {
				// coefficient i <= N/2 is f at x = -2i/N; coefficient i > N/2 is -f at x = 2(N-i)/N
				x := -2.0 * float64(i) / float64(n)
				sgn := 1.0
				if i > n/2 {
					x = 2.0 * float64(n-i) / float64(n)
					sgn = -1.0
				}
				y := a + (x+1)*(b-a)/2
				want := vRound(sgn * g.f(y) * 1024)
				w := uint64(want)
				if want < 0 {
					w = q - uint64(-want)
				}
				ok = ok && F.Coeffs[0][i] == w%q
			}
			vAssert(ok, "test-polynomial-"+g.name+"-holds-f-at-the-affine-image-of-the-grid")
		}
	}
	vCover("C20-testpoly-reached")
}
