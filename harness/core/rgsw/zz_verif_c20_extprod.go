package rgsw

import (
	"github.com/tuneinsight/lattigo/v6/core/rlwe"
	"github.com/tuneinsight/lattigo/v6/ring"
)

// C20 (external product, algebraic slot model): RLWE(m) x RGSW(g) decrypts to m*g up to noise, through the real
// rgsw.Encryptor and rgsw.Evaluator.ExternalProduct: general path with one / several auxiliary primes, power-of-two
// decomposition without P, and the single-modulus 32-bit fast path (whose un-reduced 64-bit accumulation is tracked as
// a range obligation).  Blind rotation (LUT scaling, mod-switch) is outside.

func VerifH_C20_ExternalProduct() {
	vExternalProducts(0, 5)
	vExternalProducts(6, 8)
	vCover("C20-reached")
}

// The 32-bit fast path with a 29-bit modulus and 2-bit digits: 2*ceil(29/2) = 30 un-reduced products of up to
// q*(6q-2) are accumulated in a uint64.
func VerifH_C20_ExternalProduct32BitNarrowDigits() {
	vExternalProducts(5, 6)
}

func vExternalProducts(from, to int) {
	vConfig("algebraic-samplers", "1")
	for i, cs := range vCases() {
		if i < from || i >= to {
			continue
		}
		c := VerifSetup_Ctx(i, vIsAlgebraic())
		c.Kgen.GenSecretKey(c.Sk)
		params := c.Params
		tag := cs.name
		rQ := params.RingQ().AtLevel(cs.levelQ)
		// RGSW plaintext g: a small polynomial (here a monomial-like message with small coefficients)
		g := rlwe.NewPlaintext(params, cs.levelQ)
		g.IsNTT = true
		gCoeff := rQ.NewPoly()
		if vIsAlgebraic() {
			vFillAtoms(rQ, g.Value, "g", vMessage)
		} else {
			gCoeff.Coeffs[0][1] = 1 // g = X
			for k := range gCoeff.Coeffs {
				gCoeff.Coeffs[k][1] = 1
			}
			rQ.NTT(gCoeff, g.Value)
		}
		gsw := NewCiphertext(params, cs.levelQ, cs.levelP, cs.w)
		vAssert(c.Enc.Encrypt(g, gsw) == nil, tag+"-RGSW-encrypt-no-error")
		// RLWE ciphertext of an arbitrary message
		ct := rlwe.NewCiphertext(params, 1, cs.levelQ)
		ct.IsNTT = true
		for j := range ct.Value {
			vFillAtoms(rQ, ct.Value[j], "c"+string(rune('0'+j)), vUniform)
		}
		m := rlwe.NewPlaintext(params, cs.levelQ)
		c.Dec.Decrypt(ct, m)
		want := rQ.NewPoly()
		rQ.MulCoeffsBarrett(m.Value, g.Value, want)
		out := rlwe.NewCiphertext(params, 1, cs.levelQ)
		out.IsNTT = true
		for j := range out.Value { // the receiver held other data before
			vFillAtoms(rQ, out.Value[j], "junk"+string(rune('0'+j)), vUniform)
		}
		c.Eval.ExternalProduct(ct, gsw, out)
		got := rlwe.NewPlaintext(params, cs.levelQ)
		c.Dec.Decrypt(out, got)
		vAssertNoiseFree(rQ, got.Value, want, true, 22, tag+"-external-product-decrypts-to-m-times-g")
		// in place
		ct2 := ct.CopyNew()
		c.Eval.ExternalProduct(ct2, gsw, ct2)
		c.Dec.Decrypt(ct2, got)
		vAssertNoiseFree(rQ, got.Value, want, true, 22, tag+"-in-place-external-product-decrypts-to-m-times-g")
		// the RGSW plaintext given in the other representations (coefficient domain and / or Montgomery form)
		// (not on the case of the known finding F23: its external product overflows whatever the plaintext representation)
		for v := 1; v < 4 && cs.name != "32bit-path-29bit-prime-narrow-digits"; v++ {
			gv := rlwe.NewPlaintext(params, cs.levelQ)
			gv.Value.Copy(g.Value)
			gv.IsNTT, gv.IsMontgomery = v&1 == 0, v&2 != 0
			if !gv.IsNTT {
				rQ.INTT(gv.Value, gv.Value)
			}
			if gv.IsMontgomery {
				rQ.MForm(gv.Value, gv.Value)
			}
			name := tag + []string{"", "-coefficient-domain", "-montgomery", "-coefficient-domain-montgomery"}[v] + "-RGSW-plaintext"
			gswv := NewCiphertext(params, cs.levelQ, cs.levelP, cs.w)
			vAssert(c.Enc.Encrypt(gv, gswv) == nil, name+"-RGSW-encrypt-no-error")
			c.Eval.ExternalProduct(ct, gswv, out)
			c.Dec.Decrypt(out, got)
			vAssertNoiseFree(rQ, got.Value, want, true, 22, name+"-external-product-decrypts-to-m-times-g")
		}
	}
}

// RGSW ciphertexts add (ciphertext + ciphertext, ciphertext + plaintext) and multiply by X^a - 1 as their
// plaintexts do: the result, used in an external product, decrypts to m·(g1+g2), m·(g1+g3), m·g1·(X^a-1).
func vCopyRGSW(params rlwe.Parameters, cs vCase, src *Ciphertext) *Ciphertext {
	dst := NewCiphertext(params, cs.levelQ, cs.levelP, cs.w)
	dst.Value[0] = *src.Value[0].CopyNew()
	dst.Value[1] = *src.Value[1].CopyNew()
	return dst
}

func VerifH_C20_RGSWAlgebra() {
	vConfig("algebraic-samplers", "1")
	for i, cs := range vCases() {
		if i > 2 {
			continue
		}
		c := VerifSetup_Ctx(i, vIsAlgebraic())
		c.Kgen.GenSecretKey(c.Sk)
		params := c.Params
		tag := "algebra-" + cs.name
		rQ := params.RingQ().AtLevel(cs.levelQ)
		ringQP := params.RingQP().AtLevel(cs.levelQ, cs.levelP)
		newG := func(name string) (*rlwe.Plaintext, ring.Poly) {
			g := rlwe.NewPlaintext(params, cs.levelQ)
			g.IsNTT = true
			coef := rQ.NewPoly()
			if vIsAlgebraic() {
				vFillAtoms(rQ, coef, name, vMessage)
			} else {
				for k := range coef.Coeffs {
					coef.Coeffs[k][1] = 1
					coef.Coeffs[k][3] = 2
				}
			}
			rQ.NTT(coef, g.Value)
			return g, coef
		}
		g1, _ := newG("g1")
		g2, _ := newG("g2")
		g3, g3coef := newG("g3")
		gsw1 := NewCiphertext(params, cs.levelQ, cs.levelP, cs.w)
		gsw2 := NewCiphertext(params, cs.levelQ, cs.levelP, cs.w)
		vAssert(c.Enc.Encrypt(g1, gsw1) == nil && c.Enc.Encrypt(g2, gsw2) == nil, tag+"-RGSW-encrypt-no-error")
		ct := rlwe.NewCiphertext(params, 1, cs.levelQ)
		ct.IsNTT = true
		for j := range ct.Value {
			vFillAtoms(rQ, ct.Value[j], "c"+string(rune('0'+j)), vUniform)
		}
		m := rlwe.NewPlaintext(params, cs.levelQ)
		c.Dec.Decrypt(ct, m)
		check := func(gsw *Ciphertext, gsum ring.Poly, id string) {
			want := rQ.NewPoly()
			rQ.MulCoeffsBarrett(m.Value, gsum, want)
			out := rlwe.NewCiphertext(params, 1, cs.levelQ)
			out.IsNTT = true
			c.Eval.ExternalProduct(ct, gsw, out)
			got := rlwe.NewPlaintext(params, cs.levelQ)
			c.Dec.Decrypt(out, got)
			vAssertNoiseFree(rQ, got.Value, want, true, 24, id)
		}
		// ciphertext + ciphertext
		sum := vCopyRGSW(params, cs, gsw1)
		AddLazy(gsw2, ringQP, sum)
		Reduce(sum, ringQP, sum)
		gs := rQ.NewPoly()
		rQ.Add(g1.Value, g2.Value, gs)
		check(sum, gs, tag+"-sum-of-RGSW-ciphertexts-encrypts-the-sum")
		// ciphertext + plaintext
		pt3, err := NewPlaintext(params, g3coef, cs.levelQ, cs.levelP, cs.w)
		vAssert(err == nil, tag+"-RGSW-plaintext-created")
		sum2 := vCopyRGSW(params, cs, gsw1)
		AddLazy(pt3, ringQP, sum2)
		Reduce(sum2, ringQP, sum2)
		rQ.Add(g1.Value, g3.Value, gs)
		check(sum2, gs, tag+"-RGSW-ciphertext-plus-plaintext-encrypts-the-sum")
		// multiplication by X^a - 1 (a = 3)
		xm := ringQP.NewPoly()
		for k, s := range ringQP.RingQ.SubRings[:cs.levelQ+1] {
			xm.Q.Coeffs[k][0] = s.Modulus - 1
			xm.Q.Coeffs[k][3] = 1
		}
		if cs.levelP >= 0 {
			for k, s := range ringQP.RingP.SubRings[:cs.levelP+1] {
				xm.P.Coeffs[k][0] = s.Modulus - 1
				xm.P.Coeffs[k][3] = 1
			}
		}
		ringQP.NTT(xm, xm)
		ringQP.MForm(xm, xm)
		prod := NewCiphertext(params, cs.levelQ, cs.levelP, cs.w)
		MulByXPowAlphaMinusOneLazy(gsw1, xm, ringQP, prod)
		Reduce(prod, ringQP, prod)
		xq := rQ.NewPoly()
		rQ.IMForm(xm.Q, xq)
		rQ.MulCoeffsBarrett(g1.Value, xq, gs)
		check(prod, gs, tag+"-RGSW-times-X^a-minus-one-encrypts-the-product")
		// accumulating form on a non-zero receiver: gsw2 + gsw1·(X^a - 1)
		acc := vCopyRGSW(params, cs, gsw2)
		MulByXPowAlphaMinusOneThenAddLazy(gsw1, xm, ringQP, acc)
		Reduce(acc, ringQP, acc)
		rQ.Add(gs, g2.Value, gs)
		check(acc, gs, tag+"-RGSW-plus-RGSW-times-X^a-minus-one-encrypts-the-sum")
	}
	vCover("C20-algebra-reached")
}
