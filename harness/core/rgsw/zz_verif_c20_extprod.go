package rgsw

import (
	"math/big"

	"github.com/tuneinsight/lattigo/v6/core/rlwe"
	"github.com/tuneinsight/lattigo/v6/ring"
)

// C20 (external product, algebraic slot model): RLWE(m) x RGSW(g) decrypts to m*g up to noise, through the real
// rgsw.Encryptor and rgsw.Evaluator.ExternalProduct: general path with one / several auxiliary primes, power-of-two
// decomposition without P, and the single-modulus 32-bit fast path (whose un-reduced 64-bit accumulation is tracked as
// a range obligation).  Blind rotation (LUT scaling, mod-switch) is outside.

type vCtx struct {
	Params rlwe.Parameters
	Kgen   *rlwe.KeyGenerator
	Sk     *rlwe.SecretKey
	Enc    *Encryptor
	Dec    *rlwe.Decryptor
	Eval   *Evaluator
}

type vCase struct {
	lit, nat     rlwe.ParametersLiteral
	levelQ, levelP, w int
	name         string
}

func vCases() []vCase {
	return []vCase{
		{rlwe.ParametersLiteral{LogN: 4, Q: []uint64{97, 193}, P: []uint64{257}, NTTFlag: true}, rlwe.ParametersLiteral{LogN: 4, LogQ: []int{45, 35}, LogP: []int{40}, NTTFlag: true}, 1, 0, 0, "singleP"},
		{rlwe.ParametersLiteral{LogN: 4, Q: []uint64{97, 12289, 193}, P: []uint64{257, 769}, NTTFlag: true}, rlwe.ParametersLiteral{LogN: 4, LogQ: []int{45, 35, 35}, LogP: []int{40, 40}, NTTFlag: true}, 2, 1, 0, "multipleP"},
		{rlwe.ParametersLiteral{LogN: 4, Q: []uint64{97, 193}, NTTFlag: true}, rlwe.ParametersLiteral{LogN: 4, LogQ: []int{45, 35}, NTTFlag: true}, 1, -1, 4, "noP-bitdecomp"},
		{rlwe.ParametersLiteral{LogN: 4, Q: []uint64{12289}, NTTFlag: true}, rlwe.ParametersLiteral{LogN: 4, Q: []uint64{0x7fff801}, NTTFlag: true}, 0, -1, 7, "32bit-path"},
		{rlwe.ParametersLiteral{LogN: 4, Q: []uint64{12289}, NTTFlag: true}, rlwe.ParametersLiteral{LogN: 4, Q: []uint64{0x7fff801}, NTTFlag: true}, 0, -1, 2, "32bit-path-narrow-digits"},
		{rlwe.ParametersLiteral{LogN: 4, Q: []uint64{0x1fffffc1}, NTTFlag: true}, rlwe.ParametersLiteral{LogN: 4, Q: []uint64{0x1fffffc1}, NTTFlag: true}, 0, -1, 2, "32bit-path-29bit-prime-narrow-digits"},
	}
}

func VerifSetup_Ctx(i int, algebraic bool) *vCtx {
	cs := vCases()[i]
	lit := cs.nat
	if algebraic {
		lit = cs.lit
	}
	params, err := rlwe.NewParametersFromLiteral(lit)
	if err != nil {
		panic(err)
	}
	c := &vCtx{Params: params, Kgen: rlwe.NewKeyGenerator(params)}
	c.Sk = rlwe.NewSecretKey(params)
	c.Enc = NewEncryptor(params, c.Sk)
	c.Dec = rlwe.NewDecryptor(params, c.Sk)
	c.Eval = NewEvaluator(params, nil)
	return c
}

func vFillAtoms(r *ring.Ring, p ring.Poly, name string, class int) {
	for k, s := range r.SubRings[:r.Level()+1] {
		copy(p.Coeffs[k], vAtoms(name+"."+string(rune('0'+k)), class, s.Modulus, r.N()))
	}
}

func vAssertNoiseFree(r *ring.Ring, a, b ring.Poly, isNTT bool, logBound int, id string) {
	if vIsAlgebraic() {
		for k, s := range r.SubRings[:r.Level()+1] {
			vAssertNoiseFreeMod(a.Coeffs[k], b.Coeffs[k], s.Modulus, id)
		}
		return
	}
	d := r.NewPoly()
	r.Sub(a, b, d)
	if isNTT {
		r.INTT(d, d)
	}
	coeffs := make([]*big.Int, r.N())
	for i := range coeffs {
		coeffs[i] = new(big.Int)
	}
	r.PolyToBigintCentered(d, 1, coeffs)
	bound := new(big.Int).Lsh(big.NewInt(1), uint(logBound))
	ok := true
	for _, c := range coeffs {
		if c.CmpAbs(bound) >= 0 {
			ok = false
		}
	}
	vAssert(ok, id)
}

func VerifH_C20_ExternalProduct() {
	vExternalProducts(0, 5)
	vCover("C20-reached")
}

// The 32-bit fast path with a 29-bit modulus and 2-bit digits: 2*ceil(29/2) = 30 un-reduced products of up to
// q*(6q-2) are accumulated in a uint64.
func VerifH_C20_ExternalProduct32BitNarrowDigits() {
	vExternalProducts(5, 6)
}

func vExternalProducts(from, to int) {
	vConfig("algebraic-samplers", "1")
	for i, cs := range vCases() {
		if i < from || i >= to {
			continue
		}
		c := VerifSetup_Ctx(i, vIsAlgebraic())
		c.Kgen.GenSecretKey(c.Sk)
		params := c.Params
		tag := cs.name
		rQ := params.RingQ().AtLevel(cs.levelQ)
		// RGSW plaintext g: a small polynomial (here a monomial-like message with small coefficients)
		g := rlwe.NewPlaintext(params, cs.levelQ)
		g.IsNTT = true
		gCoeff := rQ.NewPoly()
		if vIsAlgebraic() {
			vFillAtoms(rQ, g.Value, "g", vMessage)
		} else {
			gCoeff.Coeffs[0][1] = 1 // g = X
			for k := range gCoeff.Coeffs {
				gCoeff.Coeffs[k][1] = 1
			}
			rQ.NTT(gCoeff, g.Value)
		}
		gsw := NewCiphertext(params, cs.levelQ, cs.levelP, cs.w)
		vAssert(c.Enc.Encrypt(g, gsw) == nil, tag+"-RGSW-encrypt-no-error")
		// RLWE ciphertext of an arbitrary message
		ct := rlwe.NewCiphertext(params, 1, cs.levelQ)
		ct.IsNTT = true
		for j := range ct.Value {
			vFillAtoms(rQ, ct.Value[j], "c"+string(rune('0'+j)), vUniform)
		}
		m := rlwe.NewPlaintext(params, cs.levelQ)
		c.Dec.Decrypt(ct, m)
		want := rQ.NewPoly()
		rQ.MulCoeffsBarrett(m.Value, g.Value, want)
		out := rlwe.NewCiphertext(params, 1, cs.levelQ)
		out.IsNTT = true
		c.Eval.ExternalProduct(ct, gsw, out)
		got := rlwe.NewPlaintext(params, cs.levelQ)
		c.Dec.Decrypt(out, got)
		vAssertNoiseFree(rQ, got.Value, want, true, 22, tag+"-external-product-decrypts-to-m-times-g")
		// in place
		ct2 := ct.CopyNew()
		c.Eval.ExternalProduct(ct2, gsw, ct2)
		c.Dec.Decrypt(ct2, got)
		vAssertNoiseFree(rQ, got.Value, want, true, 22, tag+"-in-place-external-product-decrypts-to-m-times-g")
	}
}
