package rgsw

import (
	"math/big"

	"github.com/tuneinsight/lattigo/v6/core/rlwe"
	"github.com/tuneinsight/lattigo/v6/ring"
)

// C20 (external product, algebraic slot model): RLWE(m) x RGSW(g) decrypts to m*g up to noise, through the real
// rgsw.Encryptor and rgsw.Evaluator.ExternalProduct: general path with one / several auxiliary primes, power-of-two
// decomposition without P, and the single-modulus 32-bit fast path (whose un-reduced 64-bit accumulation is tracked as
// a range obligation).  Blind rotation (LUT scaling, mod-switch) is outside.

type vCtx struct {
	Params rlwe.Parameters
	Kgen   *rlwe.KeyGenerator
	Sk     *rlwe.SecretKey
	Enc    *Encryptor
	Dec    *rlwe.Decryptor
	Eval   *Evaluator
}

type vCase struct {
	lit, nat          rlwe.ParametersLiteral
	levelQ, levelP, w int
	name              string
}

func vCases() []vCase {
	return []vCase{
		{rlwe.ParametersLiteral{LogN: 4, Q: []uint64{97, 193}, P: []uint64{257}, NTTFlag: true}, rlwe.ParametersLiteral{LogN: 4, LogQ: []int{45, 35}, LogP: []int{40}, NTTFlag: true}, 1, 0, 0, "singleP"},
		{rlwe.ParametersLiteral{LogN: 4, Q: []uint64{97, 12289, 193}, P: []uint64{257, 769}, NTTFlag: true}, rlwe.ParametersLiteral{LogN: 4, LogQ: []int{45, 35, 35}, LogP: []int{40, 40}, NTTFlag: true}, 2, 1, 0, "multipleP"},
		{rlwe.ParametersLiteral{LogN: 4, Q: []uint64{97, 193}, NTTFlag: true}, rlwe.ParametersLiteral{LogN: 4, LogQ: []int{45, 35}, NTTFlag: true}, 1, -1, 4, "noP-bitdecomp"},
		{rlwe.ParametersLiteral{LogN: 4, Q: []uint64{12289}, NTTFlag: true}, rlwe.ParametersLiteral{LogN: 4, Q: []uint64{0x7fff801}, NTTFlag: true}, 0, -1, 7, "32bit-path"},
		{rlwe.ParametersLiteral{LogN: 4, Q: []uint64{12289}, NTTFlag: true}, rlwe.ParametersLiteral{LogN: 4, Q: []uint64{0x7fff801}, NTTFlag: true}, 0, -1, 2, "32bit-path-narrow-digits"},
		{rlwe.ParametersLiteral{LogN: 4, Q: []uint64{0x1fffffc1}, NTTFlag: true}, rlwe.ParametersLiteral{LogN: 4, Q: []uint64{0x1fffffc1}, NTTFlag: true}, 0, -1, 2, "32bit-path-29bit-prime-narrow-digits"},
		// a single small Q with one auxiliary prime: NOT the 32-bit path (it ignores P)
		{rlwe.ParametersLiteral{LogN: 4, Q: []uint64{12289}, P: []uint64{257}, NTTFlag: true}, rlwe.ParametersLiteral{LogN: 4, Q: []uint64{0x7fff801}, LogP: []int{30}, NTTFlag: true}, 0, 0, 7, "smallQ-oneP-bitdecomp"},
		{rlwe.ParametersLiteral{LogN: 4, Q: []uint64{12289}, P: []uint64{257}, NTTFlag: true}, rlwe.ParametersLiteral{LogN: 4, Q: []uint64{0x7fff801}, LogP: []int{30}, NTTFlag: true}, 0, 0, 0, "smallQ-oneP"},
		// (a single small Q without P and without power-of-two digits is not a usable parameterisation: one digit of the
		// size of q makes the key-switch noise as large as q, whichever path computes it - not included)
	}
}

func VerifSetup_Ctx(i int, algebraic bool) *vCtx {
	cs := vCases()[i]
	lit := cs.nat
	if algebraic {
		lit = cs.lit
	}
	params, err := rlwe.NewParametersFromLiteral(lit)
	if err != nil {
		panic(err)
	}
	c := &vCtx{Params: params, Kgen: rlwe.NewKeyGenerator(params)}
	c.Sk = rlwe.NewSecretKey(params)
	c.Enc = NewEncryptor(params, c.Sk)
	c.Dec = rlwe.NewDecryptor(params, c.Sk)
	c.Eval = NewEvaluator(params, nil)
	return c
}

func vFillAtoms(r *ring.Ring, p ring.Poly, name string, class int) {
	for k, s := range r.SubRings[:r.Level()+1] {
		copy(p.Coeffs[k], vAtoms(name+"."+string(rune('0'+k)), class, s.Modulus, r.N()))
	}
}

func vAssertNoiseFree(r *ring.Ring, a, b ring.Poly, isNTT bool, logBound int, id string) {
	if vIsAlgebraic() {
		for k, s := range r.SubRings[:r.Level()+1] {
			vAssertNoiseFreeMod(a.Coeffs[k], b.Coeffs[k], s.Modulus, id)
		}
		return
	}
	d := r.NewPoly()
	r.Sub(a, b, d)
	if isNTT {
		r.INTT(d, d)
	}
	coeffs := make([]*big.Int, r.N())
	for i := range coeffs {
		coeffs[i] = new(big.Int)
	}
	r.PolyToBigintCentered(d, 1, coeffs)
	bound := new(big.Int).Lsh(big.NewInt(1), uint(logBound))
	ok := true
	for _, c := range coeffs {
		if c.CmpAbs(bound) >= 0 {
			ok = false
		}
	}
	vAssert(ok, id)
}

func VerifH_C20_ExternalProduct() {
	vExternalProducts(0, 5)
	vExternalProducts(6, 8)
	vCover("C20-reached")
}

// The 32-bit fast path with a 29-bit modulus and 2-bit digits: 2*ceil(29/2) = 30 un-reduced products of up to
// q*(6q-2) are accumulated in a uint64.
func VerifH_C20_ExternalProduct32BitNarrowDigits() {
	vExternalProducts(5, 6)
}

func vExternalProducts(from, to int) {
	vConfig("algebraic-samplers", "1")
	for i, cs := range vCases() {
		if i < from || i >= to {
			continue
		}
		c := VerifSetup_Ctx(i, vIsAlgebraic())
		c.Kgen.GenSecretKey(c.Sk)
		params := c.Params
		tag := cs.name
		rQ := params.RingQ().AtLevel(cs.levelQ)
		// RGSW plaintext g: a small polynomial (here a monomial-like message with small coefficients)
		g := rlwe.NewPlaintext(params, cs.levelQ)
		g.IsNTT = true
		gCoeff := rQ.NewPoly()
		if vIsAlgebraic() {
			vFillAtoms(rQ, g.Value, "g", vMessage)
		} else {
			gCoeff.Coeffs[0][1] = 1 // g = X
			for k := range gCoeff.Coeffs {
				gCoeff.Coeffs[k][1] = 1
			}
			rQ.NTT(gCoeff, g.Value)
		}
		gsw := NewCiphertext(params, cs.levelQ, cs.levelP, cs.w)
		vAssert(c.Enc.Encrypt(g, gsw) == nil, tag+"-RGSW-encrypt-no-error")
		// RLWE ciphertext of an arbitrary message
		ct := rlwe.NewCiphertext(params, 1, cs.levelQ)
		ct.IsNTT = true
		for j := range ct.Value {
			vFillAtoms(rQ, ct.Value[j], "c"+string(rune('0'+j)), vUniform)
		}
		m := rlwe.NewPlaintext(params, cs.levelQ)
		c.Dec.Decrypt(ct, m)
		want := rQ.NewPoly()
		rQ.MulCoeffsBarrett(m.Value, g.Value, want)
		out := rlwe.NewCiphertext(params, 1, cs.levelQ)
		out.IsNTT = true
		c.Eval.ExternalProduct(ct, gsw, out)
		got := rlwe.NewPlaintext(params, cs.levelQ)
		c.Dec.Decrypt(out, got)
		vAssertNoiseFree(rQ, got.Value, want, true, 22, tag+"-external-product-decrypts-to-m-times-g")
		// in place
		ct2 := ct.CopyNew()
		c.Eval.ExternalProduct(ct2, gsw, ct2)
		c.Dec.Decrypt(ct2, got)
		vAssertNoiseFree(rQ, got.Value, want, true, 22, tag+"-in-place-external-product-decrypts-to-m-times-g")
	}
}

// RGSW ciphertexts add (ciphertext + ciphertext, ciphertext + plaintext) and multiply by X^a - 1 as their
// plaintexts do: the result, used in an external product, decrypts to m·(g1+g2), m·(g1+g3), m·g1·(X^a-1).
func vCopyRGSW(params rlwe.Parameters, cs vCase, src *Ciphertext) *Ciphertext {
	dst := NewCiphertext(params, cs.levelQ, cs.levelP, cs.w)
	dst.Value[0] = *src.Value[0].CopyNew()
	dst.Value[1] = *src.Value[1].CopyNew()
	return dst
}

func VerifH_C20_RGSWAlgebra() {
	vConfig("algebraic-samplers", "1")
	for i, cs := range vCases() {
		if i > 2 {
			continue
		}
		c := VerifSetup_Ctx(i, vIsAlgebraic())
		c.Kgen.GenSecretKey(c.Sk)
		params := c.Params
		tag := "algebra-" + cs.name
		rQ := params.RingQ().AtLevel(cs.levelQ)
		ringQP := params.RingQP().AtLevel(cs.levelQ, cs.levelP)
		newG := func(name string) (*rlwe.Plaintext, ring.Poly) {
			g := rlwe.NewPlaintext(params, cs.levelQ)
			g.IsNTT = true
			coef := rQ.NewPoly()
			if vIsAlgebraic() {
				vFillAtoms(rQ, coef, name, vMessage)
			} else {
				for k := range coef.Coeffs {
					coef.Coeffs[k][1] = 1
					coef.Coeffs[k][3] = 2
				}
			}
			rQ.NTT(coef, g.Value)
			return g, coef
		}
		g1, _ := newG("g1")
		g2, _ := newG("g2")
		g3, g3coef := newG("g3")
		gsw1 := NewCiphertext(params, cs.levelQ, cs.levelP, cs.w)
		gsw2 := NewCiphertext(params, cs.levelQ, cs.levelP, cs.w)
		vAssert(c.Enc.Encrypt(g1, gsw1) == nil && c.Enc.Encrypt(g2, gsw2) == nil, tag+"-RGSW-encrypt-no-error")
		ct := rlwe.NewCiphertext(params, 1, cs.levelQ)
		ct.IsNTT = true
		for j := range ct.Value {
			vFillAtoms(rQ, ct.Value[j], "c"+string(rune('0'+j)), vUniform)
		}
		m := rlwe.NewPlaintext(params, cs.levelQ)
		c.Dec.Decrypt(ct, m)
		check := func(gsw *Ciphertext, gsum ring.Poly, id string) {
			want := rQ.NewPoly()
			rQ.MulCoeffsBarrett(m.Value, gsum, want)
			out := rlwe.NewCiphertext(params, 1, cs.levelQ)
			out.IsNTT = true
			c.Eval.ExternalProduct(ct, gsw, out)
			got := rlwe.NewPlaintext(params, cs.levelQ)
			c.Dec.Decrypt(out, got)
			vAssertNoiseFree(rQ, got.Value, want, true, 24, id)
		}
		// ciphertext + ciphertext
		sum := vCopyRGSW(params, cs, gsw1)
		AddLazy(gsw2, ringQP, sum)
		Reduce(sum, ringQP, sum)
		gs := rQ.NewPoly()
		rQ.Add(g1.Value, g2.Value, gs)
		check(sum, gs, tag+"-sum-of-RGSW-ciphertexts-encrypts-the-sum")
		// ciphertext + plaintext
		pt3, err := NewPlaintext(params, g3coef, cs.levelQ, cs.levelP, cs.w)
		vAssert(err == nil, tag+"-RGSW-plaintext-created")
		sum2 := vCopyRGSW(params, cs, gsw1)
		AddLazy(pt3, ringQP, sum2)
		Reduce(sum2, ringQP, sum2)
		rQ.Add(g1.Value, g3.Value, gs)
		check(sum2, gs, tag+"-RGSW-ciphertext-plus-plaintext-encrypts-the-sum")
		// multiplication by X^a - 1 (a = 3)
		xm := ringQP.NewPoly()
		for k, s := range ringQP.RingQ.SubRings[:cs.levelQ+1] {
			xm.Q.Coeffs[k][0] = s.Modulus - 1
			xm.Q.Coeffs[k][3] = 1
		}
		if cs.levelP >= 0 {
			for k, s := range ringQP.RingP.SubRings[:cs.levelP+1] {
				xm.P.Coeffs[k][0] = s.Modulus - 1
				xm.P.Coeffs[k][3] = 1
			}
		}
		ringQP.NTT(xm, xm)
		ringQP.MForm(xm, xm)
		prod := NewCiphertext(params, cs.levelQ, cs.levelP, cs.w)
		MulByXPowAlphaMinusOneLazy(gsw1, xm, ringQP, prod)
		Reduce(prod, ringQP, prod)
		xq := rQ.NewPoly()
		rQ.IMForm(xm.Q, xq)
		rQ.MulCoeffsBarrett(g1.Value, xq, gs)
		check(prod, gs, tag+"-RGSW-times-X^a-minus-one-encrypts-the-product")
	}
	vCover("C20-algebra-reached")
}
