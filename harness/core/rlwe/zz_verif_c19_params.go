package rlwe

import (
	"math/big"
	"github.com/tuneinsight/lattigo/v6/ring"
	"math/bits"
)

// C19: what the parameter constructors accept must be inside what the arithmetic layer supports.
// The lazy NTT (C01 stage invariants, proved there: intermediate values reach 8q-2) needs 8q <= 2^64, i.e. moduli of
// at most 61 bits - the "supported size" named by the property.

// VerifSetup_BoundaryPrimes: largest NTT-friendly (2N=128) primes below 2^60, 2^61, 2^62, 2^63 and the first above 2^61.
func VerifSetup_BoundaryPrimes() []uint64 {
	var res []uint64
	for _, b := range []uint64{60, 61, 62, 63} {
		g := ring.NewNTTFriendlyPrimesGenerator(b, 128)
		if p, err := g.NextDownstreamPrime(); err == nil {
			res = append(res, p)
		}
	}
	g := ring.NewNTTFriendlyPrimesGenerator(61, 128)
	if p, err := g.NextUpstreamPrime(); err == nil {
		res = append(res, p)
	}
	return res
}

func VerifH_C19_CheckModuliSizes() {
	// (1) for every 64-bit candidate and an arbitrary primality oracle: the accepted sizes (solver)
	vStub("IsPrime", "anybool")
	q := vU64("q")
	errQ := CheckModuli([]uint64{q}, nil)
	vAssert(vImplies(errQ == nil, q < 1<<62), "CheckModuli-accepts-Q-only-below-2^62")
	p := vU64("p")
	q2 := vU64("q2")
	errP := CheckModuli([]uint64{q2}, []uint64{p})
	vAssert(vImplies(errP == nil, p>>63 == 0), "CheckModuli-accepts-P-only-below-2^63")
	vUnstub("IsPrime")
	vCover("CheckModuli-reached")
}

func VerifH_C19_AcceptedWithinSupportedSize() {
	// (2) concrete boundary witnesses (real primes, real primality test): accepted => at most 61 bits
	for _, w := range VerifSetup_BoundaryPrimes() {
		bl := vItoa(bits.Len64(w))
		accQ := CheckModuli([]uint64{w}, nil) == nil
		vAssert(!accQ || w < 1<<61, "accepted-"+bl+"-bit-Q-modulus-within-supported-size")
		accP := CheckModuli([]uint64{12289}, []uint64{w}) == nil
		vAssert(!accP || w < 1<<61, "accepted-"+bl+"-bit-P-modulus-within-supported-size")
	}
}

// GenModuli (concrete requests, generator run natively): the primes generated for LogQ / LogP requests are distinct,
// congruent to 1 modulo 2N, within one bit of the requested size and never above 2^61 (the bound of the lazy NTT).
type vGen struct {
	Ok   bool
	Q, P []uint64
}

func VerifSetup_GenModuli(logNthRoot int, logQ, logP []int) vGen {
	q, p, err := GenModuli(logNthRoot, logQ, logP)
	return vGen{Ok: err == nil, Q: q, P: p}
}

func VerifH_C19_GenModuli() {
	// sizes above the documented maxima (60 bits for Q, 61 for P) are refused
	vAssert(!VerifSetup_GenModuli(5, []int{61}, nil).Ok, "GenModuli-refuses-61-bit-Q")
	vAssert(!VerifSetup_GenModuli(5, []int{60}, []int{62}).Ok, "GenModuli-refuses-62-bit-P")
	reqs := []struct {
		logQ, logP []int
	}{
		{[]int{60, 60}, []int{61}},
		{[]int{60, 45, 45}, []int{61, 61}},
		{[]int{55, 55, 55, 55}, nil},
		{[]int{30, 60, 30}, []int{30}},
		{[]int{60, 60, 60, 60, 60, 60}, []int{61, 61, 61}},
	}
	for ri, rq := range reqs {
		tag := "request" + vItoa(ri)
		g := VerifSetup_GenModuli(5, rq.logQ, rq.logP)
		vAssert(g.Ok && len(g.Q) == len(rq.logQ) && len(g.P) == len(rq.logP), tag+"-GenModuli-succeeds-with-the-requested-counts")
		if !g.Ok {
			continue
		}
		seen := map[uint64]bool{}
		check := func(ps []uint64, logs []int, what string) {
			for i, p := range ps {
				vAssert(!seen[p], tag+what+"-primes-are-distinct")
				seen[p] = true
				vAssert(p&31 == 1, tag+what+"-prime-is-1-mod-2N")
				vAssert(p < 1<<61, tag+what+"-prime-below-2^61")
				lo, hi := uint64(1)<<uint(logs[i]-1), uint64(1)<<uint(logs[i])
				hi += hi >> 1
				vAssert(p > lo && p < hi, tag+what+"-prime-close-to-the-requested-size")
			}
		}
		check(g.Q, rq.logQ, "-Q")
		check(g.P, rq.logP, "-P")
	}
	vCover("C19-genmoduli-reached")
}

// The literal of a parameter object describes the object: building parameters from p.ParametersLiteral() gives back
// the ring degree, the moduli, BOTH distributions (non-default secret and error distributions included), the ring
// type, the default scale and the NTT flag.  (The binary / JSON encodings serialize this literal.)
func VerifSetup_ParamsCase(i int) Parameters {
	lit := ParametersLiteral{LogN: 4, Q: []uint64{193, 12289}, P: []uint64{257}, NTTFlag: true, DefaultScale: NewScale(1 << 20)}
	switch i {
	case 1:
		lit.Xs, lit.Xe = ring.Ternary{H: 5}, ring.DiscreteGaussian{Sigma: 4.5, Bound: 27}
	case 2:
		lit.Xs = ring.Ternary{P: 0.25}
		lit.RingType = ring.ConjugateInvariant
	}
	p, err := NewParametersFromLiteral(lit)
	if err != nil {
		panic(err)
	}
	return p
}

func VerifH_C19_ParametersLiteralDescribesTheParameters() {
	for i, name := range []string{"defaults", "sparse-secret-wide-error", "quarter-density-secret-conjugate-invariant"} {
		c := struct{ name string }{name}
		p := VerifSetup_ParamsCase(i)
		lit := p.ParametersLiteral()
		vAssert(lit.Xs == p.Xs() && lit.Xe == p.Xe(), c.name+"-literal-carries-both-distributions")
		vAssert(lit.LogN == p.LogN() && lit.RingType == p.RingType() && lit.NTTFlag == p.NTTFlag(), c.name+"-literal-carries-degree-ring-type-and-NTT-flag")
		vAssert(len(lit.Q) == len(p.Q()) && len(lit.P) == len(p.P()), c.name+"-literal-carries-the-moduli")
		same := len(lit.Q) == len(p.Q()) && len(lit.P) == len(p.P()) && lit.DefaultScale.Cmp(p.DefaultScale()) == 0
		if same {
			for i, q := range p.Q() {
				same = same && lit.Q[i] == q
			}
			for i, q := range p.P() {
				same = same && lit.P[i] == q
			}
		}
		vAssert(same, c.name+"-literal-carries-the-moduli-and-the-default-scale")
	}
	vCover("C19-literal-reached")
}

// The overflow margins the lazy accumulations rely on: QiOverflowMargin(level) = floor(2^64 / max(q_0..q_level)) (the
// LARGEST prime at or below the level, not the prime of the level), PiOverflowMargin likewise; chains whose primes
// grow, shrink and alternate.
func VerifSetup_MarginParams(i int) Parameters {
	lits := []ParametersLiteral{
		{LogN: 4, Q: []uint64{2305843009213616129, 2305843009213554689, 1073479681, 12289}, P: []uint64{576460752303419393, 257}},
		{LogN: 4, Q: []uint64{12289, 1073479681, 2305843009213616129}, P: []uint64{257, 576460752303419393}},
		{LogN: 4, Q: []uint64{1073479681, 2305843009213616129, 12289, 2305843009213554689}, P: []uint64{769}},
	}
	p, err := NewParametersFromLiteral(lits[i])
	if err != nil {
		panic(err)
	}
	return p
}

func VerifH_C19_OverflowMargins() {
	two64 := new(big.Int).Lsh(big.NewInt(1), 64)
	for i := 0; i < 3; i++ {
		p := VerifSetup_MarginParams(i)
		tag := "chain" + vItoa(i)
		for kind, mods := range [][]uint64{p.Q(), p.P()} {
			var mx uint64
			for level, q := range mods {
				if q > mx {
					mx = q
				}
				want := new(big.Int).Quo(two64, new(big.Int).SetUint64(mx)).Int64()
				got := p.QiOverflowMargin(level)
				name := "-QiOverflowMargin"
				if kind == 1 {
					got = p.PiOverflowMargin(level)
					name = "-PiOverflowMargin"
				}
				// (the library computes the quotient in float64: exact up to 2^-52 relative; what matters is that
				// `got` values below the largest prime add up without wrapping, and that the margin is not understated)
				sum := new(big.Int).Mul(big.NewInt(int64(got)), new(big.Int).SetUint64(mx-1))
				vAssert(got > 0 && sum.Cmp(two64) < 0, tag+name+"-many-values-below-the-largest-prime-at-or-below-the-level-do-not-overflow")
				vAssert(int64(got) >= want-want>>50-1, tag+name+"-is-not-understated")
			}
		}
	}
	vCover("C19-margins-reached")
}
