package rlwe

import (
	"math/big"

	"github.com/tuneinsight/lattigo/v6/ring"
)

// Shared helpers of the rlwe harnesses (algebraic slot model).

// vCtx bundles natively constructed objects (parameters, key generator, encryptors, decryptor, evaluator).
type vCtx struct {
	Params Parameters
	Kgen   *KeyGenerator
	Sk     *SecretKey
	Sk2    *SecretKey
	Pk     *PublicKey
	EncSk  *Encryptor
	EncPk  *Encryptor
	Dec    *Decryptor
	Dec2   *Decryptor
	Eval   *Evaluator
}

var vParamSets = []ParametersLiteral{
	{LogN: 4, Q: []uint64{97, 193}, NTTFlag: true},
	{LogN: 4, Q: []uint64{97, 193}, P: []uint64{257}, NTTFlag: true},
	{LogN: 4, Q: []uint64{97, 12289, 193}, P: []uint64{257, 769}, NTTFlag: true},
	{LogN: 4, Q: []uint64{97, 193}, NTTFlag: false},
	{LogN: 4, Q: []uint64{97, 12289}, P: []uint64{257}, NTTFlag: false},
	{LogN: 4, Q: []uint64{97, 12289, 193, 65537}, P: []uint64{257, 769}, NTTFlag: true},
	{LogN: 4, Q: []uint64{257, 65537}, NTTFlag: true}, // primes just above a power of two
	// 61-bit Q primes (overflow margin 8) with 59-bit P primes (margin 32): the lazy accumulators of the gadget
	// product must be reduced every 4 digits modulo Q and every 16 modulo P
	{LogN: 4, Q: []uint64{2305843009213616129, 2305843009213554689, 2305843009213501441, 2305843009213489153, 2305843009213444097, 2305843009213317121, 2305843009213243393, 2305843009213173761}, P: []uint64{576460752303419393, 576460752303415297}, NTTFlag: true},
	// moduli of unequal bit-sizes: four 61-bit primes below a 30-bit prime at the top level (the overflow margin of the
	// lazy accumulators is the margin of the LARGEST prime at or below the level), one 59-bit P
	{LogN: 4, Q: []uint64{2305843009213616129, 2305843009213554689, 2305843009213501441, 2305843009213489153, 1073479681}, P: []uint64{576460752303419393}, NTTFlag: true},
}

// vNativeParamSets mirror the shapes of vParamSets with realistic prime sizes: the native replay of a harness runs on
// these, so that "small noise" is a meaningful check (with 7-bit primes every value is "small").
var vNativeParamSets = []ParametersLiteral{
	{LogN: 4, LogQ: []int{45, 35}, NTTFlag: true},
	{LogN: 4, LogQ: []int{45, 35}, LogP: []int{40}, NTTFlag: true},
	{LogN: 4, LogQ: []int{45, 35, 35}, LogP: []int{40, 40}, NTTFlag: true},
	{LogN: 4, LogQ: []int{45, 35}, NTTFlag: false},
	{LogN: 4, LogQ: []int{45, 35}, LogP: []int{40}, NTTFlag: false},
	{LogN: 4, LogQ: []int{45, 35, 35, 35}, LogP: []int{40, 40}, NTTFlag: true},
	{LogN: 4, Q: []uint64{1429365117217, 49719739886171393}, NTTFlag: true}, // primes in (2^k, 2^k*sqrt2): log2 rounds down
	// 61-bit Q primes (overflow margin 8) with 59-bit P primes (margin 32): the lazy accumulators of the gadget
	// product must be reduced every 4 digits modulo Q and every 16 modulo P
	{LogN: 8, Q: []uint64{2305843009213616129, 2305843009213554689, 2305843009213501441, 2305843009213489153, 2305843009213444097, 2305843009213317121, 2305843009213243393, 2305843009213173761}, P: []uint64{576460752303419393, 576460752303415297}, NTTFlag: true}, // natively N=256: the inverse NTT of an unreduced accumulator wraps only from 5 stages on
	// moduli of unequal bit-sizes: four 61-bit primes below a 30-bit prime at the top level (the overflow margin of the
	// lazy accumulators is the margin of the LARGEST prime at or below the level), one 59-bit P
	{LogN: 8, Q: []uint64{2305843009213616129, 2305843009213554689, 2305843009213501441, 2305843009213489153, 1073479681}, P: []uint64{576460752303419393}, NTTFlag: true},
}

// VerifSetup_Ctx builds the objects of parameter set i natively (keys are allocated, not yet generated);
// algebraic=true selects the tiny-prime variant used by the symbolic engine.
func VerifSetup_Ctx(i int, algebraic bool) *vCtx {
	lit := vNativeParamSets[i]
	if algebraic {
		lit = vParamSets[i]
	}
	params, err := NewParametersFromLiteral(lit)
	if err != nil {
		panic(err)
	}
	c := &vCtx{Params: params}
	c.Kgen = NewKeyGenerator(params)
	c.Sk = NewSecretKey(params)
	c.Sk2 = NewSecretKey(params)
	c.Pk = NewPublicKey(params)
	c.EncSk = NewEncryptor(params, c.Sk)
	c.EncPk = NewEncryptor(params, c.Pk)
	c.Dec = NewDecryptor(params, c.Sk)
	c.Dec2 = NewDecryptor(params, c.Sk2)
	c.Eval = NewEvaluator(params, nil)
	return c
}

func VerifSetup_NumParamSets() int { return len(vParamSets) }

func vLimbName(name string, k int) string { return name + "." + string(rune('0'+k)) }

// vAtomPolyQ fills limbs 0..level of p with atoms.
func vFillAtoms(r *ring.Ring, p ring.Poly, name string, class int) {
	for k, s := range r.SubRings[:r.Level()+1] {
		copy(p.Coeffs[k], vAtoms(vLimbName(name, k), class, s.Modulus, r.N()))
	}
}

func vAssertPolyEq(r *ring.Ring, a, b ring.Poly, id string) {
	for k, s := range r.SubRings[:r.Level()+1] {
		vAssertEqMod(a.Coeffs[k], b.Coeffs[k], s.Modulus, id)
	}
}

// vAssertNoiseFree: a - b consists of error/rounding terms only.  Engine: limb-wise polynomial identity after
// removing the noise atoms.  Natively: the centred difference (after INTT when in the NTT domain) is small.
func vAssertNoiseFree(r *ring.Ring, a, b ring.Poly, isNTT bool, logBound int, id string) {
	if vIsAlgebraic() {
		for k, s := range r.SubRings[:r.Level()+1] {
			vAssertNoiseFreeMod(a.Coeffs[k], b.Coeffs[k], s.Modulus, id)
		}
		return
	}
	d := r.NewPoly()
	r.Sub(a, b, d)
	if isNTT {
		r.INTT(d, d)
	}
	coeffs := make([]*big.Int, r.N())
	for i := range coeffs {
		coeffs[i] = new(big.Int)
	}
	r.PolyToBigintCentered(d, 1, coeffs)
	bound := new(big.Int).Lsh(big.NewInt(1), uint(logBound))
	ok := true
	for _, c := range coeffs {
		if c.CmpAbs(bound) >= 0 {
			ok = false
		}
	}
	vAssert(ok, id)
}

// vHasNoise: every coefficient carries a fresh error term (engine: an error-class atom occurs in every slot;
// natively: the polynomial is not identically zero).
func vHasNoise(r *ring.Ring, d ring.Poly) bool {
	if vIsAlgebraic() {
		ok := true
		for k, s := range r.SubRings[:r.Level()+1] {
			ok = ok && vEverySlotHasClass(d.Coeffs[k], s.Modulus, vError)
		}
		return ok
	}
	for k := range r.SubRings[:r.Level()+1] {
		for _, c := range d.Coeffs[k] {
			if c != 0 {
				return true
			}
		}
	}
	return false
}

// vMetaEq compares metadata field by field (the library's Equal goes through reflection).
func vMetaEq(a, b *MetaData) bool {
	return a.Scale.Cmp(b.Scale) == 0 && a.LogDimensions == b.LogDimensions && a.IsBatched == b.IsBatched &&
		a.IsBitReversed == b.IsBitReversed && a.IsNTT == b.IsNTT && a.IsMontgomery == b.IsMontgomery
}

func vItoa(n int) string {
	if n == 0 {
		return "0"
	}
	neg := n < 0
	if neg {
		n = -n
	}
	s := ""
	for n > 0 {
		s = string(rune('0'+n%10)) + s
		n /= 10
	}
	if neg {
		s = "-" + s
	}
	return s
}

func vIntP(v int) *int { return &v }

func vAtomCiphertext(c *vCtx, degree, level int, name string) *Ciphertext {
	ct := NewCiphertext(c.Params, degree, level)
	r := c.Params.RingQ().AtLevel(level)
	for i := range ct.Value {
		vFillAtoms(r, ct.Value[i], name+string(rune('0'+i)), vUniform)
	}
	ct.IsNTT = c.Params.NTTFlag()
	return ct
}

func vDecrypt(c *vCtx, d *Decryptor, ct *Ciphertext) *Plaintext {
	pt := NewPlaintext(c.Params, ct.Level())
	d.Decrypt(ct, pt)
	return pt
}

// vNoiseBound: log2 bound used by the native runs.  With an auxiliary modulus or power-of-two digits the key-switch
// noise is a few bits; with plain RNS digits and no P it is of the size of the largest prime (q_i * N * sigma).
func vNoiseBound(c *vCtx, evkp EvaluationKeyParameters) int {
	if c.Params.MaxLevelP() < 0 && (evkp.BaseTwoDecomposition == nil || *evkp.BaseTwoDecomposition == 0) {
		return 58
	}
	return 40
}

func VerifSetup_AutIndex(n int, nthRoot, galEl uint64) []uint64 {
	idx, err := ring.AutomorphismNTTIndex(n, nthRoot, galEl)
	if err != nil {
		panic(err)
	}
	return idx
}

// vApplyAut applies sigma_g to a polynomial (NTT domain: slot permutation by the index table computed natively
// from the definition; coefficient domain: X^i -> +-X^{i*g mod N}).
func vApplyAut(r *ring.Ring, p ring.Poly, galEl uint64, isNTT bool) ring.Poly {
	out := r.NewPoly()
	if isNTT {
		idx := VerifSetup_AutIndex(r.N(), r.NthRoot(), galEl)
		for k := range r.SubRings[:r.Level()+1] {
			for j := 0; j < r.N(); j++ {
				out.Coeffs[k][j] = p.Coeffs[k][idx[j]]
			}
		}
		return out
	}
	n := uint64(r.N())
	for k, s := range r.SubRings[:r.Level()+1] {
		for i := uint64(0); i < n; i++ {
			e := (i * galEl) & (2*n - 1)
			if e < n {
				out.Coeffs[k][e] = p.Coeffs[k][i]
			} else {
				out.Coeffs[k][e-n] = s.Modulus - p.Coeffs[k][i]
			}
		}
	}
	return out
}
