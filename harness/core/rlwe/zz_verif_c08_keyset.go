package rlwe

import "github.com/tuneinsight/lattigo/v6/utils/buffer"

// C08 (rlwe key containers; concrete contents, every combination of present / absent / empty parts): WriteTo writes
// exactly BinarySize() bytes, and ReadFrom of those bytes restores an equal object.

func vKeySetCase(params Parameters, evk *MemEvaluationKeySet, tag string) {
	size := evk.BinarySize()
	w := buffer.NewBufferSize(size + 64)
	n, err := evk.WriteTo(w)
	vAssert(err == nil, tag+"-WriteTo-no-error")
	vAssert(int(n) == size && w.Available() == 64, tag+"-WriteTo-writes-exactly-BinarySize-bytes")
	back := new(MemEvaluationKeySet)
	m, err := back.ReadFrom(buffer.NewBuffer(w.Bytes()[:size]))
	vAssert(err == nil, tag+"-ReadFrom-no-error")
	vAssert(m == n, tag+"-ReadFrom-consumes-what-WriteTo-wrote")
	vAssert((back.RelinearizationKey == nil) == (evk.RelinearizationKey == nil), tag+"-relinearization-key-presence-restored")
	vAssert(len(back.GaloisKeys) == len(evk.GaloisKeys), tag+"-galois-keys-restored")
	for g, k := range evk.GaloisKeys {
		b, ok := back.GaloisKeys[g]
		vAssert(ok && b.GaloisElement == k.GaloisElement && b.NthRoot == k.NthRoot && b.LevelQ() == k.LevelQ() && b.LevelP() == k.LevelP(), tag+"-galois-key-restored")
	}
	// a second object written right behind the first one is found where BinarySize says
	w2 := buffer.NewBufferSize(2*size + 64)
	evk.WriteTo(w2)
	evk.WriteTo(w2)
	vAssert(w2.Available() == 64, tag+"-two-objects-occupy-twice-BinarySize")
}

func VerifH_C08_EvaluationKeySet() {
	c := VerifSetup_Ctx(1, true)
	params := c.Params
	rlk := NewRelinearizationKey(params)
	g1, g2 := NewGaloisKey(params), NewGaloisKey(params)
	g1.GaloisElement, g1.NthRoot = 5, 32
	g2.GaloisElement, g2.NthRoot = 25, 32
	vKeySetCase(params, NewMemEvaluationKeySet(nil), "empty")
	vKeySetCase(params, NewMemEvaluationKeySet(rlk), "relin-only-empty-map")
	vKeySetCase(params, &MemEvaluationKeySet{RelinearizationKey: rlk}, "relin-only-nil-map")
	vKeySetCase(params, NewMemEvaluationKeySet(nil, g1, g2), "galois-only")
	vKeySetCase(params, NewMemEvaluationKeySet(rlk, g1, g2), "relin-and-galois")
	vKeySetCase(params, NewMemEvaluationKeySet(rlk, g2), "relin-and-one-galois")
	vCover("C08-keyset-reached")
}
