package rlwe

// C11 (word level): the Galois-element arithmetic of rlwe.Parameters for ALL 64-bit rotation indices k
// (negative, beyond the slot count, near 2^63): group law, inverse, discrete logarithm, k vs k mod (NthRoot/4).

func VerifSetup_GaloisParams(logN int) Parameters {
	q := uint64(12289) // = 1 mod 2^12
	if logN > 11 {
		q = 65537
	}
	p, err := NewParametersFromLiteral(ParametersLiteral{LogN: logN, Q: []uint64{q}, NTTFlag: true})
	if err != nil {
		panic(err)
	}
	return p
}

func VerifH_C11_GaloisAlgebra() {
	logNs := []int{4, 6}
	if vTier() > 0 {
		logNs = []int{4, 5, 6, 8, 11} // (logN = 15: the group-law and discrete-log queries are undecided after 300 s per solver)
	}
	for _, logN := range logNs {
		p := VerifSetup_GaloisParams(logN)
		nth := p.RingQ().NthRoot()
		tag := "logN" + vItoa(logN)
		a, b := vInt("a"), vInt("b")
		ga, gb, gab := p.GaloisElement(a), p.GaloisElement(b), p.GaloisElement(a+b)
		vAssert(ga*gb&(nth-1) == gab, tag+"-GaloisElement-is-a-group-homomorphism")
		vAssert(ga&1 == 1 && ga < nth, tag+"-GaloisElement-is-an-odd-residue")
		// k and k modulo the order of the generator (NthRoot/4) coincide
		k := vInt("k")
		ord := int(nth >> 2)
		vAssert(p.GaloisElement(k) == p.GaloisElement(k+ord) && p.GaloisElement(k) == p.GaloisElement(k-3*ord), tag+"-rotation-index-is-periodic-in-the-generator-order")
		// inverse
		vAssert(p.ModInvGaloisElement(ga)*ga&(nth-1) == 1, tag+"-ModInvGaloisElement-is-the-inverse")
		// discrete log
		d := p.SolveDiscreteLogGaloisElement(ga)
		vAssert(d >= 0 && d < ord && (d-a)&(ord-1) == 0, tag+"-SolveDiscreteLog-inverts-GaloisElement")
		// order-two element
		vAssert(p.GaloisElementOrderTwoOrthogonalSubgroup() == nth-1, tag+"-order-two-element-is-minus-one")
	}
	vCover("C11-galois-reached")
}
