package rlwe

import (
	"github.com/tuneinsight/lattigo/v6/ring"
	"github.com/tuneinsight/lattigo/v6/ring/ringqp"
	"github.com/tuneinsight/lattigo/v6/utils/sampling"
)

func VerifSetup_PRNGC03() *sampling.KeyedPRNG {
	p, err := sampling.NewPRNG()
	if err != nil {
		panic(err)
	}
	return p
}

// C03: decryption inverts encryption (algebraic slot model).  Real key generator, encryptor (secret-key and public-key
// paths, with and without the auxiliary modulus P, NTT and coefficient-domain parameters), decryptor.  All plaintext,
// key, mask and error coefficients are atoms.  Dec_s(Enc(pt)) - pt must consist of error/rounding terms only, must
// contain a fresh error term in every coefficient (no missing noise), the metadata must be copied, and decryption
// under an independent key must keep the uniform mask (nothing readable without the key).

func vEncDec(c *vCtx, enc *Encryptor, level int, tag string) {
	params := c.Params
	rQ := params.RingQ().AtLevel(level)
	pt := NewPlaintext(params, level)
	vFillAtoms(rQ, pt.Value, "m", vMessage)
	pt.Scale = NewScale(7)
	ct := NewCiphertext(params, 1, level)
	err := enc.Encrypt(pt, ct)
	vAssert(err == nil, tag+"-Encrypt-no-error")
	out := NewPlaintext(params, level)
	c.Dec.Decrypt(ct, out)
	vAssertNoiseFree(rQ, out.Value, pt.Value, params.NTTFlag(), 30, tag+"-Dec-of-Enc-is-plaintext-up-to-noise")
	d := rQ.NewPoly()
	rQ.Sub(out.Value, pt.Value, d)
	vAssert(vHasNoise(rQ, d), tag+"-fresh-ciphertext-carries-error-in-every-coefficient")
	vAssert(vMetaEq(out.MetaData, pt.MetaData), tag+"-metadata-copied")
	vAssert(ct.Level() == level && ct.Degree() == 1, tag+"-level-and-degree")
	// the two components carry independent error samples (no sample is used twice)
	if vIsAlgebraic() {
		shared := false
		for k, s := range rQ.SubRings[:level+1] {
			shared = shared || vSharesAtomOfClass(ct.Value[0].Coeffs[k], ct.Value[1].Coeffs[k], s.Modulus, vError)
		}
		vAssert(!shared, tag+"-components-carry-independent-error-samples")
	} else if pk, ok := enc.encKey.(*PublicKey); ok {
		// native replay: the attack that a shared error sample enables.  With e0 = e1, (c0 - c1 - m)/(pk0 - pk1) is
		// the small encryption randomness u; with independent samples it is a uniform-looking element.
		vAssert(!vQuotientIsSmall(rQ, ct, pt, pk), tag+"-components-carry-independent-error-samples")
	}
	// public-key encryption: the second component is u·pk1 plus a sample of the error distribution (not of another one)
	if pk, ok := enc.encKey.(*PublicKey); ok {
		id := tag + "-second-component-carries-a-sample-of-the-error-distribution"
		if vIsAlgebraic() {
			ok := true
			for k, s := range rQ.SubRings[:level+1] {
				ok = ok && vEverySlotHasClass(ct.Value[1].Coeffs[k], s.Modulus, vError)
			}
			vAssert(ok, id)
		} else if params.PCount() == 0 {
			vAssert(vSecondComponentErrorLooksLikeXe(params, pk, level), id)
		}
	}
	// wrong key: the uniform part must survive
	out2 := NewPlaintext(params, level)
	c.Dec2.Decrypt(ct, out2)
	if vIsAlgebraic() {
		ok := true
		for k, s := range rQ.SubRings[:level+1] {
			ok = ok && vEverySlotHasClass(out2.Value.Coeffs[k], s.Modulus, vUniform)
		}
		vAssert(ok, tag+"-decryption-under-independent-key-keeps-the-uniform-mask")
	}
}

// degree-0 target (compressed ciphertext: only c0 is kept) under the secret key: c0 = -a·s + e must carry an error term
// in every coefficient and the uniform mask, in the NTT and in the coefficient domain
func VerifSetup_KeyedPRNGC03(key string) *sampling.KeyedPRNG {
	p, err := sampling.NewKeyedPRNG([]byte(key))
	if err != nil {
		panic(err)
	}
	return p
}

func vEncZeroDegree0(c *vCtx, level int, tag string) {
	params := c.Params
	rQ := params.RingQ().AtLevel(level)
	// the mask comes from a keyed generator, so that it can be regenerated and removed: what remains is the error
	p1, p2 := VerifSetup_KeyedPRNGC03("deg0"+tag), VerifSetup_KeyedPRNGC03("deg0"+tag)
	vPRNGKey(p1, "deg0"+tag)
	vPRNGKey(p2, "deg0"+tag)
	enc := c.EncSk.WithPRNG(p1)
	ct := NewCiphertext(params, 0, level)
	vAssert(enc.EncryptZero(ct) == nil, tag+"-EncryptZero-degree0-no-error")
	a := rQ.NewPoly()
	ringqp.NewUniformSampler(p2, *params.RingQP()).AtLevel(level, -1).Read(ringqp.Poly{Q: a})
	e := *ct.Value[0].CopyNew()
	if !ct.IsNTT {
		rQ.NTT(e, e)
		rQ.NTT(a, a) // the sampled mask is a coefficient-domain polynomial in this case
	}
	rQ.MulCoeffsMontgomeryThenAdd(a, c.Sk.Value.Q, e) // c0 + a·s
	if vIsAlgebraic() {
		ok, clean := true, true
		for k, s := range rQ.SubRings[:level+1] {
			ok = ok && vEverySlotHasClass(e.Coeffs[k], s.Modulus, vError)
			clean = clean && vNoAtomOfClass(e.Coeffs[k], s.Modulus, vUniform) && vNoAtomOfClass(e.Coeffs[k], s.Modulus, vSecret)
		}
		vAssert(ok, tag+"-degree0-encryption-of-zero-carries-error-in-every-coefficient")
		vAssert(clean, tag+"-degree0-encryption-of-zero-is-mask-times-secret-plus-error")
		return
	}
	rQ.INTT(e, e)
	nonzero, small := false, true
	for k, s := range rQ.SubRings[:level+1] {
		for _, v := range e.Coeffs[k] {
			if v != 0 {
				nonzero = true
			}
			if v > 64 && v < s.Modulus-64 {
				small = false
			}
		}
	}
	vAssert(nonzero, tag+"-degree0-encryption-of-zero-carries-error-in-every-coefficient")
	vAssert(small, tag+"-degree0-encryption-of-zero-is-mask-times-secret-plus-error")
}

// the encryptor samples from the distributions the parameters declare (also when they are not the defaults)
func VerifSetup_CustomXeParams() Parameters {
	p, err := NewParametersFromLiteral(ParametersLiteral{LogN: 4, Q: []uint64{97, 193}, P: []uint64{257}, NTTFlag: true,
		Xe: ring.DiscreteGaussian{Sigma: 12.5, Bound: 75}, Xs: ring.Ternary{H: 5}})
	if err != nil {
		panic(err)
	}
	return p
}

func VerifH_C03_DeclaredDistributions() {
	params := VerifSetup_CustomXeParams()
	sk := NewSecretKey(params)
	prng := VerifSetup_PRNGC03()
	refE, err := ring.NewSampler(prng, params.RingQ(), params.Xe(), false)
	vAssert(err == nil, "reference-error-sampler")
	refS, err := ring.NewSampler(prng, params.RingQ(), params.Xs(), false)
	vAssert(err == nil, "reference-secret-sampler")
	for ei, enc := range []*Encryptor{NewEncryptor(params, sk), NewEncryptor(params, sk).ShallowCopy(), NewEncryptor(params, nil).WithKey(sk)} {
		tag := []string{"NewEncryptor", "ShallowCopy", "WithKey"}[ei]
		vAssertSameField(refE, enc.xeSampler, "xe", tag+"-error-sampler-draws-from-the-declared-Xe")
		vAssertSameField(refS, enc.xsSampler, "hw", tag+"-secret-sampler-draws-from-the-declared-Xs")
	}
	kgen := NewKeyGenerator(params)
	vAssertSameField(refE, kgen.xeSampler, "xe", "KeyGenerator-error-sampler-draws-from-the-declared-Xe")
}

func VerifH_C03_EncryptDecrypt() {
	vConfig("algebraic-samplers", "1")
	nsets := 5
	if vTier() > 0 {
		nsets = VerifSetup_NumParamSets() // longer chains, 61-bit primes, moduli of unequal sizes
	}
	for i := 0; i < nsets; i++ {
		c := VerifSetup_Ctx(i, vIsAlgebraic())
		c.Kgen.GenSecretKey(c.Sk)
		c.Kgen.GenSecretKey(c.Sk2)
		c.Kgen.GenPublicKey(c.Sk, c.Pk)
		for level := 0; level <= c.Params.MaxLevel(); level++ {
			tag := "set" + string(rune('0'+i)) + "-L" + string(rune('0'+level))
			vEncDec(c, c.EncSk, level, tag+"-sk")
			vEncDec(c, c.EncPk, level, tag+"-pk")
			vEncZeroDegree0(c, level, tag)
			vEncVariants(c, level, tag)
		}
	}
	vCover("C03-reached")
}

// Variants of the encryption call that the plain round trip does not exercise:
//   - secret-key encryption adds exactly the freshly sampled error (coefficient +-1 of a single error atom per
//     coefficient: nothing scales it), also for a plaintext in Montgomery representation;
//   - a ciphertext object allocated above the plaintext level is brought down to it;
//   - a decryptor re-keyed with WithKey decrypts under the new key (and no longer under the old one).
func vEncVariants(c *vCtx, level int, tag string) {
	params := c.Params
	rQ := params.RingQ().AtLevel(level)
	for _, mont := range []bool{false, true} {
		name := tag + "-sk"
		if mont {
			name += "-montgomery-plaintext"
		}
		pt := NewPlaintext(params, level)
		vFillAtoms(rQ, pt.Value, "m", vMessage)
		pt.IsMontgomery = mont
		ct := NewCiphertext(params, 1, level)
		vAssert(c.EncSk.Encrypt(pt, ct) == nil, name+"-Encrypt-no-error")
		out := NewPlaintext(params, level)
		c.Dec.Decrypt(ct, out)
		vAssert(out.IsMontgomery == mont && out.IsNTT == pt.IsNTT, name+"-representation-flags-kept")
		d := rQ.NewPoly()
		rQ.Sub(out.Value, pt.Value, d)
		if pt.IsNTT {
			rQ.INTT(d, d)
		}
		if mont {
			rQ.IMForm(d, d)
		}
		if vIsAlgebraic() {
			ok := true
			for k, s := range rQ.SubRings[:level+1] {
				ok = ok && vFreshNoiseOnly(d.Coeffs[k], s.Modulus)
			}
			vAssert(ok, name+"-error-of-a-fresh-encryption-is-the-sampled-error-itself")
		} else {
			z := rQ.NewPoly()
			vAssertNoiseFree(rQ, d, z, false, 30, name+"-error-of-a-fresh-encryption-is-the-sampled-error-itself")
		}
	}
	// public-key encryption of a plaintext in Montgomery representation (both components are converted)
	{
		name := tag + "-pk-montgomery-plaintext"
		pt := NewPlaintext(params, level)
		vFillAtoms(rQ, pt.Value, "m", vMessage)
		pt.IsMontgomery = true
		ct := NewCiphertext(params, 1, level)
		vAssert(c.EncPk.Encrypt(pt, ct) == nil, name+"-Encrypt-no-error")
		out := NewPlaintext(params, level)
		c.Dec.Decrypt(ct, out)
		vAssert(out.IsMontgomery && out.IsNTT == pt.IsNTT, name+"-representation-flags-kept")
		d := rQ.NewPoly()
		rQ.Sub(out.Value, pt.Value, d)
		if pt.IsNTT {
			rQ.INTT(d, d)
		}
		rQ.IMForm(d, d)
		vAssertNoiseFree(rQ, d, rQ.NewPoly(), false, 30, name+"-Dec-of-Enc-is-plaintext-up-to-noise")
	}
	// decryption of a degree-2 ciphertext (c0 - r·s^2, c1, r): the phase is c0 + c1·s + c2·s^2
	{
		name := tag + "-degree-2"
		pt := NewPlaintext(params, level)
		vFillAtoms(rQ, pt.Value, "m", vMessage)
		ct1 := NewCiphertext(params, 1, level)
		vAssert(c.EncSk.Encrypt(pt, ct1) == nil, name+"-Encrypt-no-error")
		ct := NewCiphertext(params, 2, level)
		*ct.MetaData = *ct1.MetaData
		ct.Value[1].Copy(ct1.Value[1])
		vFillAtoms(rQ, ct.Value[2], "r", vUniform)
		rs2 := *ct.Value[2].CopyNew()
		if !ct.IsNTT {
			rQ.NTT(rs2, rs2)
		}
		rQ.MulCoeffsMontgomery(rs2, c.Sk.Value.Q, rs2)
		rQ.MulCoeffsMontgomery(rs2, c.Sk.Value.Q, rs2)
		if !ct.IsNTT {
			rQ.INTT(rs2, rs2)
		}
		rQ.Sub(ct1.Value[0], rs2, ct.Value[0])
		out := NewPlaintext(params, level)
		c.Dec.Decrypt(ct, out)
		vAssertNoiseFree(rQ, out.Value, pt.Value, params.NTTFlag(), 30, name+"-ciphertext-decrypts-to-the-plaintext-up-to-noise")
	}
	// encryption into a degree-2 target that held other data before: a fresh encryption on the first two components
	for ei, enc := range []*Encryptor{c.EncSk, c.EncPk} {
		name := tag + []string{"-sk", "-pk"}[ei] + "-degree-2-target"
		pt := NewPlaintext(params, level)
		vFillAtoms(rQ, pt.Value, "m", vMessage)
		ct := NewCiphertext(params, 2, level)
		vFillAtoms(rQ, ct.Value[2], "junk", vUniform)
		vAssert(enc.Encrypt(pt, ct) == nil, name+"-Encrypt-no-error")
		out := NewPlaintext(params, level)
		c.Dec.Decrypt(ct, out)
		vAssertNoiseFree(rQ, out.Value, pt.Value, params.NTTFlag(), 30, name+"-Dec-of-Enc-is-plaintext-up-to-noise")
	}
	if level < params.MaxLevel() {
		for ei, enc := range []*Encryptor{c.EncSk, c.EncPk} {
			name := tag + []string{"-sk", "-pk"}[ei] + "-ciphertext-allocated-above-the-plaintext-level"
			pt := NewPlaintext(params, level)
			vFillAtoms(rQ, pt.Value, "m", vMessage)
			ct := NewCiphertext(params, 1, params.MaxLevel())
			vAssert(enc.Encrypt(pt, ct) == nil, name+"-Encrypt-no-error")
			vAssert(ct.Level() == level, name+"-ciphertext-takes-the-plaintext-level")
			if ct.Level() == level {
				out := NewPlaintext(params, level)
				c.Dec.Decrypt(ct, out)
				vAssertNoiseFree(rQ, out.Value, pt.Value, params.NTTFlag(), 30, name+"-Dec-of-Enc-is-plaintext-up-to-noise")
			}
		}
	}
	// re-keyed decryptor
	pt := NewPlaintext(params, level)
	vFillAtoms(rQ, pt.Value, "m", vMessage)
	enc2 := c.EncSk.WithKey(c.Sk2)
	ct := NewCiphertext(params, 1, level)
	vAssert(enc2.Encrypt(pt, ct) == nil, tag+"-rekeyed-Encrypt-no-error")
	dec2 := c.Dec.WithKey(c.Sk2)
	out := NewPlaintext(params, level)
	dec2.Decrypt(ct, out)
	vAssertNoiseFree(rQ, out.Value, pt.Value, params.NTTFlag(), 30, tag+"-decryptor-WithKey-decrypts-under-the-new-key")
	if vIsAlgebraic() {
		ct1 := NewCiphertext(params, 1, level)
		vAssert(c.EncSk.Encrypt(pt, ct1) == nil, tag+"-Encrypt-no-error")
		out1 := NewPlaintext(params, level)
		dec2.Decrypt(ct1, out1)
		ok := true
		for k, s := range rQ.SubRings[:level+1] {
			ok = ok && vEverySlotHasClass(out1.Value.Coeffs[k], s.Modulus, vUniform)
		}
		vAssert(ok, tag+"-decryptor-WithKey-no-longer-decrypts-under-the-old-key")
	}
}

// vQuotientIsSmall (native): w = (c0 - c1 - m)·(pk0 - pk1)^-1 modulo the first prime has only small coefficients.
func vQuotientIsSmall(rQ *ring.Ring, ct *Ciphertext, pt *Plaintext, pk *PublicKey) bool {
	s := rQ.SubRings[0]
	q, n := s.Modulus, rQ.N()
	t, d := make([]uint64, n), make([]uint64, n)
	s.Sub(ct.Value[0].Coeffs[0], ct.Value[1].Coeffs[0], t)
	s.Sub(t, pt.Value.Coeffs[0], t)
	if !ct.IsNTT {
		s.NTT(t, t)
	}
	s.Sub(pk.Value[0].Q.Coeffs[0], pk.Value[1].Q.Coeffs[0], d) // NTT and Montgomery form
	s.IMForm(d, d)
	for j := range d {
		if d[j] == 0 {
			return false
		}
		t[j] = ring.BRed(t[j], ring.ModExp(d[j], q-2, q), q, s.BRedConstant)
	}
	s.INTT(t, t)
	for _, w := range t {
		if w > 1<<10 && w < q-1<<10 {
			return false
		}
	}
	return true
}

// vSecondComponentErrorLooksLikeXe (native, parameters without auxiliary primes): the samplers of a copy of the encryptor
// are put on a keyed generator, a replica regenerates the encryption randomness u (the first draw), and
// e1 = c1 - u·pk1 must be within the bound of Xe and must not be a ternary polynomial.
func vSecondComponentErrorLooksLikeXe(params Parameters, pk *PublicKey, level int) bool {
	rQ := params.RingQ().AtLevel(level)
	for try := 0; try < 4; try++ {
		key := "c03-e1-" + vItoa(level) + "-" + vItoa(try)
		p1, p2 := VerifSetup_KeyedPRNGC03(key), VerifSetup_KeyedPRNGC03(key)
		enc := NewEncryptor(params, pk)
		var err error
		if enc.xsSampler, err = ring.NewSampler(p1, params.RingQ(), params.Xs(), false); err != nil {
			panic(err)
		}
		if enc.xeSampler, err = ring.NewSampler(p1, params.RingQ(), params.Xe(), false); err != nil {
			panic(err)
		}
		xs2, err := ring.NewSampler(p2, params.RingQ(), params.Xs(), false)
		if err != nil {
			panic(err)
		}
		ct := NewCiphertext(params, 1, level)
		if enc.EncryptZero(ct) != nil {
			return false
		}
		u := xs2.AtLevel(level).ReadNew()
		rQ.NTT(u, u)
		w := rQ.NewPoly()
		rQ.MulCoeffsMontgomery(u, pk.Value[1].Q, w)
		e1 := *ct.Value[1].CopyNew()
		if !ct.IsNTT {
			rQ.NTT(e1, e1)
		}
		rQ.Sub(e1, w, e1)
		rQ.INTT(e1, e1)
		bound := uint64(params.NoiseBound()) + 1
		ternary := true
		for k, s := range rQ.SubRings[:level+1] {
			for _, v := range e1.Coeffs[k] {
				if v > bound && v < s.Modulus-bound {
					return false
				}
				if v > 1 && v < s.Modulus-1 {
					ternary = false
				}
			}
		}
		if !ternary {
			return true
		}
	}
	return false
}
