package rlwe

// C03: decryption inverts encryption (algebraic slot model).  Real key generator, encryptor (secret-key and public-key
// paths, with and without the auxiliary modulus P, NTT and coefficient-domain parameters), decryptor.  All plaintext,
// key, mask and error coefficients are atoms.  Dec_s(Enc(pt)) - pt must consist of error/rounding terms only, must
// contain a fresh error term in every coefficient (no missing noise), the metadata must be copied, and decryption
// under an independent key must keep the uniform mask (nothing readable without the key).

func vEncDec(c *vCtx, enc *Encryptor, level int, tag string) {
	params := c.Params
	rQ := params.RingQ().AtLevel(level)
	pt := NewPlaintext(params, level)
	vFillAtoms(rQ, pt.Value, "m", vMessage)
	pt.Scale = NewScale(7)
	ct := NewCiphertext(params, 1, level)
	err := enc.Encrypt(pt, ct)
	vAssert(err == nil, tag+"-Encrypt-no-error")
	out := NewPlaintext(params, level)
	c.Dec.Decrypt(ct, out)
	vAssertNoiseFree(rQ, out.Value, pt.Value, params.NTTFlag(), 30, tag+"-Dec-of-Enc-is-plaintext-up-to-noise")
	d := rQ.NewPoly()
	rQ.Sub(out.Value, pt.Value, d)
	vAssert(vHasNoise(rQ, d), tag+"-fresh-ciphertext-carries-error-in-every-coefficient")
	vAssert(vMetaEq(out.MetaData, pt.MetaData), tag+"-metadata-copied")
	vAssert(ct.Level() == level && ct.Degree() == 1, tag+"-level-and-degree")
	// wrong key: the uniform part must survive
	out2 := NewPlaintext(params, level)
	c.Dec2.Decrypt(ct, out2)
	if vIsAlgebraic() {
		ok := true
		for k, s := range rQ.SubRings[:level+1] {
			ok = ok && vEverySlotHasClass(out2.Value.Coeffs[k], s.Modulus, vUniform)
		}
		vAssert(ok, tag+"-decryption-under-independent-key-keeps-the-uniform-mask")
	}
}

func VerifH_C03_EncryptDecrypt() {
	vConfig("algebraic-samplers", "1")
	for i := 0; i < 5; i++ {
		c := VerifSetup_Ctx(i, vIsAlgebraic())
		c.Kgen.GenSecretKey(c.Sk)
		c.Kgen.GenSecretKey(c.Sk2)
		c.Kgen.GenPublicKey(c.Sk, c.Pk)
		for level := 0; level <= c.Params.MaxLevel(); level++ {
			tag := "set" + string(rune('0'+i)) + "-L" + string(rune('0'+level))
			vEncDec(c, c.EncSk, level, tag+"-sk")
			vEncDec(c, c.EncPk, level, tag+"-pk")
		}
	}
	vCover("C03-reached")
}
