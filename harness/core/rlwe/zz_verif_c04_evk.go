package rlwe

// C04: evaluation keys re-encrypt faithfully (algebraic slot model).  Real genEvaluationKey, gadget products (RNS
// decomposition with one or several auxiliary primes, power-of-two digits), ModDown, ApplyEvaluationKey, Relinearize
// and automorphisms; all ciphertext, key, mask and error coefficients are atoms; RNS / power-of-two digits enter
// through their contracts (C02).  Dec_{s_out}(out) - Dec_{s_in}(in) must consist of error/rounding terms only (every
// such term multiplied by digits, secrets or constants), for every admissible key parameterisation.

func vKeySwitchCase(c *vCtx, evkp EvaluationKeyParameters, level int, tag string) {
	params := c.Params
	evk := c.Kgen.GenEvaluationKeyNew(c.Sk, c.Sk2, evkp)
	ct := vAtomCiphertext(c, 1, level, "c")
	want := vDecrypt(c, c.Dec, ct)
	out := NewCiphertext(params, 1, level)
	err := c.Eval.ApplyEvaluationKey(ct, evk, out)
	vAssert(err == nil, tag+"-ApplyEvaluationKey-no-error")
	got := vDecrypt(c, c.Dec2, out)
	r := params.RingQ().AtLevel(level)
	vAssertNoiseFree(r, got.Value, want.Value, params.NTTFlag(), vNoiseBound(c, evkp), tag+"-key-switch-preserves-the-plaintext-up-to-noise")
	vAssert(out.Level() == level && out.IsNTT == ct.IsNTT, tag+"-output-metadata")
}

func VerifH_C04_KeySwitch() {
	vConfig("algebraic-samplers", "1")
	for _, set := range []int{0, 1, 2, 4} {
		c := VerifSetup_Ctx(set, vIsAlgebraic())
		c.Kgen.GenSecretKey(c.Sk)
		c.Kgen.GenSecretKey(c.Sk2)
		maxQ, maxP := c.Params.MaxLevelQ(), c.Params.MaxLevelP()
		tag := "set" + string(rune('0'+set))
		// default key (max levels), every ciphertext level
		for level := 0; level <= maxQ; level++ {
			vKeySwitchCase(c, EvaluationKeyParameters{}, level, tag+"-default-L"+string(rune('0'+level)))
		}
		// key at lower LevelQ / LevelP
		if maxQ > 0 {
			vKeySwitchCase(c, EvaluationKeyParameters{LevelQ: vIntP(maxQ - 1), LevelP: vIntP(maxP)}, maxQ-1, tag+"-lowQ")
		}
		if maxP > 0 {
			vKeySwitchCase(c, EvaluationKeyParameters{LevelQ: vIntP(maxQ), LevelP: vIntP(0)}, maxQ, tag+"-singleP")
		}
	}
	vCover("C04-keyswitch-reached")
}

func VerifH_C04_KeySwitchBitDecomp() {
	vConfig("algebraic-samplers", "1")
	// (set 2 has two auxiliary primes: a key at LevelP 0 with power-of-two digits under parameters whose maximum LevelP
	// is 1 - the choice of the gadget product follows the key, not the parameters)
	for _, set := range []int{0, 1, 6, 2} {
		c := VerifSetup_Ctx(set, vIsAlgebraic())
		c.Kgen.GenSecretKey(c.Sk)
		c.Kgen.GenSecretKey(c.Sk2)
		maxQ, maxP := c.Params.MaxLevelQ(), c.Params.MaxLevelP()
		if maxP > 0 {
			maxP = 0
		}
		ws := []int{2, 3, 4, 7}
		if !vIsAlgebraic() {
			ws = []int{5, 11, 8, 7} // native primes are 41 and 56 bits: 5 and 11 divide 55, 8 divides 40
		}
		for wi, w := range ws {
			tag := "set" + string(rune('0'+set)) + "-digitwidth-case" + string(rune('0'+wi))
			vKeySwitchCase(c, EvaluationKeyParameters{LevelQ: vIntP(maxQ), LevelP: vIntP(maxP), BaseTwoDecomposition: vIntP(w)}, maxQ, tag)
		}
	}
	vCover("C04-bitdecomp-reached")
}

// Lazy accumulation of the gadget product (parameter set 7: 61-bit Q primes, 59-bit P primes, up to 4 RNS digits):
// the accumulators modulo Q and modulo P are reduced on their own cadences (overflow margins 8 and 32); every value
// handed to a Montgomery product, to the inverse NTT or to ModDown must be inside the range that code tolerates
// (tracked-range obligations of the algebraic model), and the key switch must still re-encrypt faithfully.
func VerifH_C04_LazyAccumulation() {
	vConfig("algebraic-samplers", "1")
	c := VerifSetup_Ctx(7, vIsAlgebraic())
	c.Kgen.GenSecretKey(c.Sk)
	c.Kgen.GenSecretKey(c.Sk2)
	maxQ := c.Params.MaxLevelQ()
	levels := []int{maxQ, maxQ - 1, maxQ - 2}
	if vTier() > 0 {
		levels = []int{maxQ, maxQ - 1, maxQ - 2, maxQ - 3, maxQ - 4, 1, 0}
	}
	for _, level := range levels {
		vKeySwitchCase(c, EvaluationKeyParameters{}, level, "set7-default-L"+vItoa(level))
	}
	g := c.Params.GaloisElement(1)
	vAutCase(c, EvaluationKeyParameters{}, g, maxQ, "set7-gal0-maxkey-maxlevel")
	vCover("C04-lazy-accumulation-reached")
}

// Moduli of unequal bit-sizes (parameter set 8: a 30-bit prime on top of four 61-bit primes) with power-of-two digits
// (20 digits): the reduction cadence of the lazy accumulators must follow the largest prime in use.
func VerifH_C04_LazyAccumulationUnequalModuli() {
	vConfig("algebraic-samplers", "1")
	c := VerifSetup_Ctx(8, vIsAlgebraic())
	c.Kgen.GenSecretKey(c.Sk)
	c.Kgen.GenSecretKey(c.Sk2)
	maxQ, maxP := c.Params.MaxLevelQ(), c.Params.MaxLevelP()
	evkp := EvaluationKeyParameters{LevelQ: vIntP(maxQ), LevelP: vIntP(maxP), BaseTwoDecomposition: vIntP(16)}
	vKeySwitchCase(c, evkp, maxQ, "set8-pow2-16-L"+vItoa(maxQ))
	if vTier() > 0 {
		vKeySwitchCase(c, evkp, maxQ-1, "set8-pow2-16-L"+vItoa(maxQ-1))
	}
	vCover("C04-lazy-accumulation-unequal-reached")
}

// Relinearisation: a degree-2 ciphertext becomes a degree-1 ciphertext with the same phase (c0 + c1 s + c2 s^2) up to
// key-switch noise - in place, into a fresh receiver, and for an input whose domain flag differs from the one a
// freshly allocated receiver carries (coefficient-domain input under NTT parameters and the other way round): the
// receiver takes the domain and the metadata of the input.
func VerifH_C04_Relinearize() {
	vConfig("algebraic-samplers", "1")
	for _, set := range []int{1, 4, 2} { // NTT parameters, coefficient-domain parameters, several auxiliary primes
		c := VerifSetup_Ctx(set, vIsAlgebraic())
		c.Kgen.GenSecretKey(c.Sk)
		params := c.Params
		rlk := c.Kgen.GenRelinearizationKeyNew(c.Sk)
		eval := c.Eval.WithKey(NewMemEvaluationKeySet(rlk))
		level := params.MaxLevelQ()
		r := params.RingQ().AtLevel(level)
		for _, flip := range []bool{false, true} {
			tag := "set" + vItoa(set)
			if flip {
				tag += "-input-in-the-other-domain"
			}
			ct := vAtomCiphertext(c, 2, level, "c")
			if flip {
				ct.IsNTT = !ct.IsNTT
			}
			ct.Scale = NewScale(7)
			want := vDecrypt(c, c.Dec, ct)
			out := NewCiphertext(params, 1, level)
			vAssert(eval.Relinearize(ct, out) == nil, tag+"-Relinearize-into-a-fresh-receiver-no-error")
			vAssert(out.Degree() == 1 && out.Level() == level && vMetaEq(out.MetaData, ct.MetaData), tag+"-receiver-has-degree-one-and-the-metadata-of-the-input")
			vAssertNoiseFree(r, vDecrypt(c, c.Dec, out).Value, want.Value, ct.IsNTT, 42, tag+"-relinearised-ciphertext-decrypts-alike")
			inpl := ct.CopyNew()
			vAssert(eval.Relinearize(inpl, inpl) == nil, tag+"-Relinearize-in-place-no-error")
			vAssert(inpl.Degree() == 1, tag+"-in-place-degree-one")
			vAssertNoiseFree(r, vDecrypt(c, c.Dec, inpl).Value, want.Value, ct.IsNTT, 42, tag+"-in-place-relinearised-ciphertext-decrypts-alike")
		}
	}
	vCover("C04-relinearize-reached")
}
