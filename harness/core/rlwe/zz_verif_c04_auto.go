package rlwe

// C04 / C11 (algebraic slot model): Galois automorphisms.  Real GenGaloisKey, Automorphism, AutomorphismHoisted,
// AutomorphismHoistedLazy (+ModDown).  Dec_s(out) must be sigma_g(Dec_s(in)) up to key-switch noise, the hoisted and
// lazy variants must agree with the plain one, for Galois keys at and below the maximum (LevelQ, LevelP), every
// ciphertext level, NTT and coefficient-domain parameters.

func vAutCase(c *vCtx, evkp EvaluationKeyParameters, galEl uint64, level int, tag string) {
	params := c.Params
	gk := c.Kgen.GenGaloisKeyNew(galEl, c.Sk, evkp)
	eval := c.Eval.WithKey(NewMemEvaluationKeySet(nil, gk))
	r := params.RingQ().AtLevel(level)
	ct := vAtomCiphertext(c, 1, level, "c")
	want := vApplyAut(r, vDecrypt(c, c.Dec, ct).Value, galEl, params.NTTFlag())
	out := NewCiphertext(params, 1, level)
	vAssert(eval.Automorphism(ct, galEl, out) == nil, tag+"-Automorphism-no-error")
	got := vDecrypt(c, c.Dec, out)
	vAssertNoiseFree(r, got.Value, want, params.NTTFlag(), vNoiseBound(c, evkp), tag+"-Automorphism-decrypts-to-sigma-of-the-plaintext")
	if gk.LevelP() < 0 {
		return
	}
	// hoisted: decompose once, then apply
	levelP := gk.LevelP()
	eval.DecomposeNTT(level, levelP, levelP+1, ct.Value[1], ct.IsNTT, eval.BuffDecompQP)
	outH := NewCiphertext(params, 1, level)
	vAssert(eval.AutomorphismHoisted(level, ct, eval.BuffDecompQP, galEl, outH) == nil, tag+"-AutomorphismHoisted-no-error")
	vAssertNoiseFree(r, vDecrypt(c, c.Dec, outH).Value, want, params.NTTFlag(), 40, tag+"-AutomorphismHoisted-decrypts-to-sigma-of-the-plaintext")
	// lazy hoisted + ModDown
	eval.DecomposeNTT(level, levelP, levelP+1, ct.Value[1], ct.IsNTT, eval.BuffDecompQP)
	ctQP := NewElementExtended(params, 1, level, levelP)
	ctQP.MetaData = ct.MetaData.CopyNew()
	vAssert(eval.AutomorphismHoistedLazy(level, ct, eval.BuffDecompQP, galEl, ctQP) == nil, tag+"-AutomorphismHoistedLazy-no-error")
	outL := NewCiphertext(params, 1, level)
	outL.IsNTT = ct.IsNTT
	eval.ModDown(level, levelP, ctQP, outL)
	vAssertNoiseFree(r, vDecrypt(c, c.Dec, outL).Value, want, params.NTTFlag(), 40, tag+"-AutomorphismHoistedLazy-then-ModDown-decrypts-to-sigma-of-the-plaintext")
}

func VerifH_C04_Automorphisms() {
	vConfig("algebraic-samplers", "1")
	for _, set := range []int{1, 2, 4, 0} {
		c := VerifSetup_Ctx(set, vIsAlgebraic())
		c.Kgen.GenSecretKey(c.Sk)
		params := c.Params
		maxQ, maxP := params.MaxLevelQ(), params.MaxLevelP()
		gals := []uint64{params.GaloisElement(1), params.GaloisElement(-3), params.GaloisElementOrderTwoOrthogonalSubgroup()}
		for gi, g := range gals {
			tag := "set" + vItoa(set) + "-gal" + vItoa(gi)
			vAutCase(c, EvaluationKeyParameters{}, g, maxQ, tag+"-maxkey-maxlevel")
			if gi == 0 {
				if maxQ > 0 {
					vAutCase(c, EvaluationKeyParameters{}, g, maxQ-1, tag+"-maxkey-lowerlevel")
				}
				if maxP > 0 {
					vAutCase(c, EvaluationKeyParameters{LevelQ: vIntP(maxQ), LevelP: vIntP(maxP - 1)}, g, maxQ, tag+"-key-at-lower-LevelP")
				}
				if maxQ > 0 {
					vAutCase(c, EvaluationKeyParameters{LevelQ: vIntP(maxQ - 1), LevelP: vIntP(maxP)}, g, maxQ-1, tag+"-key-at-lower-LevelQ")
				}
			}
		}
	}
	vCover("C04-automorphisms-reached")
}

// The batch generator of Galois keys honours the whole key parameterisation: every key of the batch has the levels
// and the power-of-two digit decomposition that were asked for - the shape of a key generated alone - and works.
func VerifH_C04_GaloisKeyBatch() {
	vConfig("algebraic-samplers", "1")
	for _, set := range []int{0, 1} {
		c := VerifSetup_Ctx(set, vIsAlgebraic())
		c.Kgen.GenSecretKey(c.Sk)
		params := c.Params
		maxQ, maxP := params.MaxLevelQ(), params.MaxLevelP()
		if maxP > 0 {
			maxP = 0
		}
		evkp := EvaluationKeyParameters{LevelQ: vIntP(maxQ), LevelP: vIntP(maxP), BaseTwoDecomposition: vIntP(3)}
		gals := []uint64{params.GaloisElement(1), params.GaloisElement(-2)}
		batch := c.Kgen.GenGaloisKeysNew(gals, c.Sk, evkp)
		vAssert(len(batch) == len(gals), "set"+vItoa(set)+"-batch-has-one-key-per-element")
		for i, gk := range batch {
			tag := "set" + vItoa(set) + "-batch-key" + vItoa(i)
			alone := c.Kgen.GenGaloisKeyNew(gals[i], c.Sk, evkp)
			vAssert(gk.GaloisElement == gals[i], tag+"-is-for-the-requested-element")
			vAssert(gk.BaseTwoDecomposition == alone.BaseTwoDecomposition && gk.LevelQ() == alone.LevelQ() && gk.LevelP() == alone.LevelP(), tag+"-has-the-requested-levels-and-digit-width")
			same := len(gk.Value) == len(alone.Value)
			if same {
				for j := range gk.Value {
					same = same && len(gk.Value[j]) == len(alone.Value[j])
				}
			}
			vAssert(same, tag+"-has-the-shape-of-a-key-generated-alone")
			eval := c.Eval.WithKey(NewMemEvaluationKeySet(nil, gk))
			r := params.RingQ().AtLevel(maxQ)
			ct := vAtomCiphertext(c, 1, maxQ, "c")
			want := vApplyAut(r, vDecrypt(c, c.Dec, ct).Value, gals[i], params.NTTFlag())
			out := NewCiphertext(params, 1, maxQ)
			vAssert(eval.Automorphism(ct, gals[i], out) == nil, tag+"-Automorphism-no-error")
			vAssertNoiseFree(r, vDecrypt(c, c.Dec, out).Value, want, params.NTTFlag(), 42, tag+"-decrypts-to-sigma-of-the-plaintext")
		}
	}
	vCover("C04-galois-batch-reached")
}
