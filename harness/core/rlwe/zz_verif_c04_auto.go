package rlwe

// C04 / C11 (algebraic slot model): Galois automorphisms.  Real GenGaloisKey, Automorphism, AutomorphismHoisted,
// AutomorphismHoistedLazy (+ModDown).  Dec_s(out) must be sigma_g(Dec_s(in)) up to key-switch noise, the hoisted and
// lazy variants must agree with the plain one, for Galois keys at and below the maximum (LevelQ, LevelP), every
// ciphertext level, NTT and coefficient-domain parameters.

func vAutCase(c *vCtx, evkp EvaluationKeyParameters, galEl uint64, level int, tag string) {
	params := c.Params
	gk := c.Kgen.GenGaloisKeyNew(galEl, c.Sk, evkp)
	eval := c.Eval.WithKey(NewMemEvaluationKeySet(nil, gk))
	r := params.RingQ().AtLevel(level)
	ct := vAtomCiphertext(c, 1, level, "c")
	want := vApplyAut(r, vDecrypt(c, c.Dec, ct).Value, galEl, params.NTTFlag())
	out := NewCiphertext(params, 1, level)
	vAssert(eval.Automorphism(ct, galEl, out) == nil, tag+"-Automorphism-no-error")
	got := vDecrypt(c, c.Dec, out)
	vAssertNoiseFree(r, got.Value, want, params.NTTFlag(), vNoiseBound(c, evkp), tag+"-Automorphism-decrypts-to-sigma-of-the-plaintext")
	if gk.LevelP() < 0 {
		return
	}
	// hoisted: decompose once, then apply
	levelP := gk.LevelP()
	eval.DecomposeNTT(level, levelP, levelP+1, ct.Value[1], ct.IsNTT, eval.BuffDecompQP)
	outH := NewCiphertext(params, 1, level)
	vAssert(eval.AutomorphismHoisted(level, ct, eval.BuffDecompQP, galEl, outH) == nil, tag+"-AutomorphismHoisted-no-error")
	vAssertNoiseFree(r, vDecrypt(c, c.Dec, outH).Value, want, params.NTTFlag(), 40, tag+"-AutomorphismHoisted-decrypts-to-sigma-of-the-plaintext")
	// lazy hoisted + ModDown
	eval.DecomposeNTT(level, levelP, levelP+1, ct.Value[1], ct.IsNTT, eval.BuffDecompQP)
	ctQP := NewElementExtended(params, 1, level, levelP)
	ctQP.MetaData = ct.MetaData.CopyNew()
	vAssert(eval.AutomorphismHoistedLazy(level, ct, eval.BuffDecompQP, galEl, ctQP) == nil, tag+"-AutomorphismHoistedLazy-no-error")
	outL := NewCiphertext(params, 1, level)
	outL.IsNTT = ct.IsNTT
	eval.ModDown(level, levelP, ctQP, outL)
	vAssertNoiseFree(r, vDecrypt(c, c.Dec, outL).Value, want, params.NTTFlag(), 40, tag+"-AutomorphismHoistedLazy-then-ModDown-decrypts-to-sigma-of-the-plaintext")
}

func VerifH_C04_Automorphisms() {
	vConfig("algebraic-samplers", "1")
	for _, set := range []int{1, 2, 4, 0} {
		c := VerifSetup_Ctx(set, vIsAlgebraic())
		c.Kgen.GenSecretKey(c.Sk)
		params := c.Params
		maxQ, maxP := params.MaxLevelQ(), params.MaxLevelP()
		gals := []uint64{params.GaloisElement(1), params.GaloisElement(-3), params.GaloisElementOrderTwoOrthogonalSubgroup()}
		for gi, g := range gals {
			tag := "set" + vItoa(set) + "-gal" + vItoa(gi)
			vAutCase(c, EvaluationKeyParameters{}, g, maxQ, tag+"-maxkey-maxlevel")
			if gi == 0 {
				if maxQ > 0 {
					vAutCase(c, EvaluationKeyParameters{}, g, maxQ-1, tag+"-maxkey-lowerlevel")
				}
				if maxP > 0 {
					vAutCase(c, EvaluationKeyParameters{LevelQ: vIntP(maxQ), LevelP: vIntP(maxP - 1)}, g, maxQ, tag+"-key-at-lower-LevelP")
				}
				if maxQ > 0 {
					vAutCase(c, EvaluationKeyParameters{LevelQ: vIntP(maxQ - 1), LevelP: vIntP(maxP)}, g, maxQ-1, tag+"-key-at-lower-LevelQ")
				}
			}
		}
	}
	vCover("C04-automorphisms-reached")
}
