package rlwe

import (
	"math/big"
)

// C04 (RLWE extraction, the bookkeeping of Extract around Split and Expand; modular).  Engine: the real `extract` from
// SSA with Split replaced by a stand-in that only allocates (the halves are produced by the ring-switching keys: C04
// key switching) and Expand replaced by its contract as established by VerifH_C04_RingPackingExpand (one output for
// every index divisible by 2^logGap).  Decided on index sets with gaps 1, 2, 4, 8, 16 and mixed gaps, for one and two
// ring splits: Extract succeeds and returns exactly the requested indexes - i.e. the gap handed to Expand is the gap of
// the index set inside the small ring (halved by every split).  Natively (replay / validation): the real Extract with
// real keys, every requested coefficient in the constant term of its output.

var vExpandGaps []int

func vStubSplit(eval RingPackingEvaluator, ctN, ctEvenNHalf, ctOddNHalf *Ciphertext) error { return nil }

func vStubExpand(eval RingPackingEvaluator, ct *Ciphertext, logGap int) (map[int]*Ciphertext, error) {
	vExpandGaps = append(vExpandGaps, logGap)
	params := eval.Parameters[ct.LogN()].GetRLWEParameters()
	cts := map[int]*Ciphertext{}
	for i := 0; i < params.N(); i += 1 << logGap {
		cts[i] = NewCiphertext(params, 1, ct.Level())
	}
	return cts, nil
}

func VerifSetup_ExtractParams(logN int, native bool) Parameters {
	lit := ParametersLiteral{LogN: logN, Q: []uint64{257, 12289}, P: []uint64{769}, NTTFlag: true}
	if native {
		lit = ParametersLiteral{LogN: logN, LogQ: []int{60}, LogP: []int{60}, NTTFlag: true}
	}
	p, err := NewParametersFromLiteral(lit)
	if err != nil {
		panic(err)
	}
	return p
}

type vExtractCase struct {
	name   string
	splits int
	idx    func(n int) []int
}

func vExtractCases() []vExtractCase {
	step := func(g int) func(int) []int {
		return func(n int) (r []int) {
			for i := 0; i < n; i += g {
				r = append(r, i)
			}
			return
		}
	}
	return []vExtractCase{
		{"gap1-one-split", 1, step(1)}, {"gap2-one-split", 1, step(2)}, {"gap4-one-split", 1, step(4)},
		{"gap2-two-splits", 2, step(2)}, {"gap4-two-splits", 2, step(4)}, {"gap8-two-splits", 2, step(8)}, {"gap16-two-splits", 2, step(16)},
		{"mixed-gaps-4-and-12-two-splits", 2, func(n int) []int { return []int{0, 4, 16, 28, 32} }},
		{"offset-indices-gap8-two-splits", 2, func(n int) []int { return []int{3, 11, 19, 35} }},
	}
}

func vExtractID(cs vExtractCase) string {
	return cs.name + "-Extract-succeeds-and-returns-exactly-the-requested-indexes"
}

func VerifH_C04_RingPackingExtractBookkeeping() {
	if !vIsAlgebraic() {
		vExtractNative()
		return
	}
	const logNMax = 6
	vStub("(github.com/tuneinsight/lattigo/v6/core/rlwe.RingPackingEvaluator).Split", "call:vStubSplit")
	vStub("(github.com/tuneinsight/lattigo/v6/core/rlwe.RingPackingEvaluator).Expand", "call:vStubExpand")
	for _, cs := range vExtractCases() {
		rpk := &RingPackingEvaluationKey{Parameters: map[int]ParameterProvider{}}
		for l := logNMax - cs.splits; l <= logNMax; l++ {
			rpk.Parameters[l] = VerifSetup_ExtractParams(l, false)
		}
		eval := NewRingPackingEvaluator(rpk)
		params := VerifSetup_ExtractParams(logNMax, false)
		ct := NewCiphertext(params, 1, params.MaxLevel())
		idx := map[int]bool{}
		for _, i := range cs.idx(params.N()) {
			idx[i] = true
		}
		vExpandGaps = nil
		cts, err := eval.Extract(ct, idx)
		ok := err == nil && len(cts) == len(idx)
		for i := range idx {
			o, has := cts[i]
			ok = ok && has && o != nil && o.LogN() == logNMax-cs.splits
		}
		vAssert(ok, vExtractID(cs))
	}
	vUnstub("(github.com/tuneinsight/lattigo/v6/core/rlwe.RingPackingEvaluator).Split")
	vUnstub("(github.com/tuneinsight/lattigo/v6/core/rlwe.RingPackingEvaluator).Expand")
	vCover("C04-extract-bookkeeping-reached")
}

func vExtractNative() {
	const logNMax = 6
	params := VerifSetup_ExtractParams(logNMax, true)
	level := params.MaxLevel()
	kgen := NewKeyGenerator(params)
	sk := kgen.GenSecretKeyNew()
	enc := NewEncryptor(params, sk)
	rQ := params.RingQ().AtLevel(level)
	p := make([]uint64, params.N())
	pt := NewPlaintext(params, level)
	for j := range p {
		p[j] = uint64(j+1) << 30
		pt.Value.Coeffs[0][j] = p[j]
	}
	rQ.NTT(pt.Value, pt.Value)
	pt.IsNTT = true
	ct, err := enc.EncryptNew(pt)
	if err != nil {
		panic(err)
	}
	for _, cs := range vExtractCases() {
		logNMin := logNMax - cs.splits
		evkp := EvaluationKeyParameters{LevelQ: vIntP(params.MaxLevelQ()), LevelP: vIntP(params.MaxLevelP())}
		rpk := RingPackingEvaluationKey{}
		ski, err := rpk.GenRingSwitchingKeys(params, sk, logNMin, evkp)
		if err != nil {
			panic(err)
		}
		rpk.GenExtractEvaluationKeys(rpk.Parameters[logNMin], ski[logNMin], evkp)
		eval := NewRingPackingEvaluator(&rpk)
		idx := map[int]bool{}
		for _, i := range cs.idx(params.N()) {
			idx[i] = true
		}
		cts, err := eval.Extract(ct, idx)
		ok := err == nil && len(cts) == len(idx)
		if ok {
			ps := rpk.Parameters[logNMin].GetRLWEParameters()
			rs := ps.RingQ().AtLevel(level)
			dec := NewDecryptor(ps, ski[logNMin])
			for i := range idx {
				o, has := cts[i]
				if !has || o == nil {
					ok = false
					continue
				}
				out := dec.DecryptNew(o)
				if out.IsNTT {
					rs.INTT(out.Value, out.Value)
				}
				coeffs := make([]*big.Int, ps.N())
				for j := range coeffs {
					coeffs[j] = new(big.Int)
				}
				rs.PolyToBigintCentered(out.Value, 1, coeffs)
				d := new(big.Int).Sub(coeffs[0], new(big.Int).SetUint64(p[i]))
				ok = ok && d.CmpAbs(new(big.Int).Lsh(big.NewInt(1), 28)) < 0
			}
		}
		vAssert(ok, vExtractID(cs))
	}
}
