package rlwe

import "math/bits"

// C02 (power-of-two gadget decomposition, digit count; word level): for every digit width w in 1..62 (symbolic) the
// number of base-2^w digits reserved for each prime of the chain covers the bit length of THAT prime and has no
// digit to spare - on chains whose first prime is the largest, the smallest, or just above a power of two.

func VerifH_C02_PowerOfTwoDigitCount() {
	for _, set := range []int{0, 2, 6, 8} {
		c := VerifSetup_Ctx(set, vIsAlgebraic())
		params := c.Params
		w := vInt("w")
		vAssume(w >= 1 && w <= 62)
		sizes := params.BaseTwoDecompositionVectorSize(params.MaxLevelQ(), 0, w)
		vAssert(len(sizes) == len(params.Q()), "set"+vItoa(set)+"-one-digit-count-per-prime")
		for i, q := range params.Q() {
			b := bits.Len64(q)
			tag := "set" + vItoa(set) + "-prime" + vItoa(i)
			vAssert(sizes[i]*w >= b, tag+"-digits-cover-the-bit-length-of-the-prime")
			vAssert((sizes[i]-1)*w < b, tag+"-no-digit-to-spare")
		}
		one := params.BaseTwoDecompositionVectorSize(params.MaxLevelQ(), 1, w)
		for i := range one {
			vAssert(one[i] == 1, "set"+vItoa(set)+"-several-auxiliary-primes-exclude-power-of-two-digits")
		}
	}
	vCover("C02-digit-count-reached")
}
