package rlwe

import (
	"math/big"

	"github.com/tuneinsight/lattigo/v6/ring"
)

// C04 (RLWE extraction, the Expand sub-routine of Extract; algebraic slot model, modular): the real Expand - the
// normalisation by N^-1, the log N rounds of automorphism / add / subtract / multiplication by X^{-2^i}, the index
// bookkeeping of the output map - is executed from SSA on a noise-free ciphertext whose coefficients are atoms, with
// Automorphism replaced by its effect on the phase (sigma on every component; C04 automorphism harness).  Decided
// for every coefficient vector, at the maximum level and at level 0: output i holds coefficient i of the input as its
// constant term and zero everywhere else, modulo every prime of the level.  (Chaining the real key-switched
// automorphisms symbolically is not tractable: every round re-decomposes the previous result.)

func vStubAutomorphismGhost(eval Evaluator, ctIn *Ciphertext, galEl uint64, opOut *Ciphertext) error {
	r := eval.GetRLWEParameters().RingQ().AtLevel(ctIn.Level())
	for i := range ctIn.Value {
		tmp := r.NewPoly()
		r.AutomorphismNTT(ctIn.Value[i], galEl, tmp)
		opOut.Value[i].CopyLvl(ctIn.Level(), tmp)
	}
	return nil
}

// vExpandNative is the native counterpart (replay / validation): the real Expand with real extraction keys on real
// encryptions; output i must decrypt to coefficient i as its constant term, up to noise.
func vExpandNative() {
	c := VerifSetup_Ctx(2, false)
	params := c.Params
	c.Kgen.GenSecretKey(c.Sk)
	rpk := &RingPackingEvaluationKey{Parameters: map[int]ParameterProvider{params.LogN(): params}}
	rpk.GenExtractEvaluationKeys(params, c.Sk, EvaluationKeyParameters{})
	eval := NewRingPackingEvaluator(rpk)
	for _, level := range []int{params.MaxLevel(), 0} {
		tag := "L" + vItoa(level)
		rQ := params.RingQ().AtLevel(level)
		pt := NewPlaintext(params, level)
		p := make([]uint64, params.N())
		for i := range p {
			p[i] = uint64(1000 + 37*i)
			for k := range rQ.SubRings[:level+1] {
				pt.Value.Coeffs[k][i] = p[i]
			}
		}
		rQ.NTT(pt.Value, pt.Value)
		pt.IsNTT = true
		ct := NewCiphertext(params, 1, level)
		if err := c.EncSk.Encrypt(pt, ct); err != nil {
			panic(err)
		}
		cts, err := eval.Expand(ct, 0)
		vAssert(err == nil, tag+"-Expand-no-error")
		if err != nil {
			continue
		}
		vAssert(len(cts) == params.N(), tag+"-Expand-returns-one-ciphertext-per-coefficient")
		for i := 0; i < params.N(); i++ {
			o, ok := cts[i]
			vAssert(ok && o != nil && o.Level() == level, tag+"-output-present-at-the-input-level")
			if !ok || o == nil {
				continue
			}
			out := NewPlaintext(params, level)
			c.Dec.Decrypt(o, out)
			want := rQ.NewPoly()
			for k := range rQ.SubRings[:level+1] {
				want.Coeffs[k][0] = p[i]
			}
			if out.IsNTT {
				rQ.NTT(want, want)
			}
			vAssertNoiseFree(rQ, out.Value, want, out.IsNTT, 30, tag+"-output-i-holds-coefficient-i-as-its-constant-term")
		}
	}
}

// vExpandGapNative: the real Expand with a gap; the constant term of output i (i divisible by the gap) is coefficient i.
func vExpandGapNative() {
	c := VerifSetup_Ctx(2, false)
	params := c.Params
	c.Kgen.GenSecretKey(c.Sk)
	rpk := &RingPackingEvaluationKey{Parameters: map[int]ParameterProvider{params.LogN(): params}}
	rpk.GenExtractEvaluationKeys(params, c.Sk, EvaluationKeyParameters{})
	eval := NewRingPackingEvaluator(rpk)
	level := params.MaxLevel()
	rQ := params.RingQ().AtLevel(level)
	for _, logGap := range []int{1, 2} {
		tag := "gap" + vItoa(1<<logGap)
		pt := NewPlaintext(params, level)
		p := make([]uint64, params.N())
		for i := range p {
			p[i] = uint64(1)<<40 + uint64(37*i)
			for k, s := range rQ.SubRings[:level+1] {
				pt.Value.Coeffs[k][i] = p[i] % s.Modulus
			}
		}
		rQ.NTT(pt.Value, pt.Value)
		pt.IsNTT = true
		ct := NewCiphertext(params, 1, level)
		if err := c.EncSk.Encrypt(pt, ct); err != nil {
			panic(err)
		}
		cts, err := eval.Expand(ct, logGap)
		vAssert(err == nil, tag+"-Expand-no-error")
		if err != nil {
			continue
		}
		for i := 0; i < params.N(); i += 1 << logGap {
			o, ok := cts[i]
			vAssert(ok && o != nil, tag+"-output-present-for-every-index-divisible-by-the-gap")
			if !ok || o == nil {
				continue
			}
			out := NewPlaintext(params, level)
			c.Dec.Decrypt(o, out)
			if out.IsNTT {
				rQ.INTT(out.Value, out.Value)
			}
			coeffs := make([]*big.Int, params.N())
			for j := range coeffs {
				coeffs[j] = new(big.Int)
			}
			rQ.PolyToBigintCentered(out.Value, 1, coeffs)
			d := new(big.Int).Sub(coeffs[0], new(big.Int).SetUint64(p[i]))
			vAssert(d.CmpAbs(new(big.Int).Lsh(big.NewInt(1), 30)) < 0, tag+"-output-i-holds-coefficient-i-as-its-constant-term")
		}
	}
}

func VerifH_C04_RingPackingExpand() {
	if !vIsAlgebraic() {
		vExpandNative()
		vExpandGapNative()
		return
	}
	c := VerifSetup_Ctx(2, true)
	params := c.Params
	logN := params.LogN()
	rpk := &RingPackingEvaluationKey{
		Parameters:  map[int]ParameterProvider{logN: params},
		ExtractKeys: map[int]EvaluationKeySet{logN: NewMemEvaluationKeySet(nil)},
	}
	eval := NewRingPackingEvaluator(rpk)
	vStub("(github.com/tuneinsight/lattigo/v6/core/rlwe.Evaluator).Automorphism", "call:vStubAutomorphismGhost")
	for _, level := range []int{params.MaxLevel(), 0} {
		tag := "L" + vItoa(level)
		rQ := params.RingQ().AtLevel(level)
		ct := NewCiphertext(params, 1, level)
		ct.IsNTT = false
		var p [][]uint64
		for k, s := range rQ.SubRings[:level+1] {
			a := vAtoms("p", vMessage, s.Modulus, params.N()) // one integer vector, the same on every limb
			copy(ct.Value[0].Coeffs[k], a)
			p = append(p, a)
		}
		cts, err := eval.Expand(ct, 0)
		vAssert(err == nil, tag+"-Expand-no-error")
		if err != nil {
			continue
		}
		vAssert(len(cts) == params.N(), tag+"-Expand-returns-one-ciphertext-per-coefficient")
		for i := 0; i < params.N(); i++ {
			o, ok := cts[i]
			vAssert(ok && o != nil && o.Level() == level, tag+"-output-present-at-the-input-level")
			if !ok || o == nil {
				continue
			}
			// (the outputs are returned in the NTT domain and flagged so)
			v0, v1 := o.Value[0], o.Value[1]
			if o.IsNTT {
				v0, v1 = rQ.NewPoly(), rQ.NewPoly()
				rQ.INTT(o.Value[0], v0)
				rQ.INTT(o.Value[1], v1)
			}
			for k, s := range rQ.SubRings[:level+1] {
				want := make([]uint64, params.N())
				want[0] = p[k][i]
				vAssertEqMod(v0.Coeffs[k], want, s.Modulus, tag+"-output-i-holds-coefficient-i-as-its-constant-term")
				vAssertEqMod(v1.Coeffs[k], make([]uint64, params.N()), s.Modulus, tag+"-second-component-stays-zero")
			}
		}
	}
	// with a gap: only the indexes divisible by 2^logGap are returned; output i still holds coefficient i as its
	// constant term (the other positions may keep coefficients of the skipped residue classes)
	for _, logGap := range []int{1, 2} {
		level := params.MaxLevel()
		tag := "gap" + vItoa(1<<logGap)
		rQ := params.RingQ().AtLevel(level)
		ct := NewCiphertext(params, 1, level)
		ct.IsNTT = false
		var p [][]uint64
		for k, s := range rQ.SubRings[:level+1] {
			a := vAtoms("g", vMessage, s.Modulus, params.N())
			copy(ct.Value[0].Coeffs[k], a)
			p = append(p, a)
		}
		cts, err := eval.Expand(ct, logGap)
		vAssert(err == nil, tag+"-Expand-no-error")
		if err != nil {
			continue
		}
		for i := 0; i < params.N(); i += 1 << logGap {
			o, ok := cts[i]
			vAssert(ok && o != nil, tag+"-output-present-for-every-index-divisible-by-the-gap")
			if !ok || o == nil {
				continue
			}
			v0, v1 := rQ.NewPoly(), rQ.NewPoly()
			rQ.INTT(o.Value[0], v0)
			rQ.INTT(o.Value[1], v1)
			for k, s := range rQ.SubRings[:level+1] {
				vAssertEqMod(v0.Coeffs[k][:1], p[k][i:i+1], s.Modulus, tag+"-output-i-holds-coefficient-i-as-its-constant-term")
				vAssertEqMod(v1.Coeffs[k], make([]uint64, params.N()), s.Modulus, tag+"-second-component-stays-zero")
			}
		}
	}
	vUnstub("(github.com/tuneinsight/lattigo/v6/core/rlwe.Evaluator).Automorphism")
	_ = ring.Standard
	vCover("C04-ring-packing-expand-reached")
}
