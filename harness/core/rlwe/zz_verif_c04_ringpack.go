package rlwe

import (
	"github.com/tuneinsight/lattigo/v6/ring"
)

// C04 (RLWE extraction, the Expand sub-routine of Extract; algebraic slot model, modular): the real Expand - the
// normalisation by N^-1, the log N rounds of automorphism / add / subtract / multiplication by X^{-2^i}, the index
// bookkeeping of the output map - is executed from SSA on a noise-free ciphertext whose coefficients are atoms, with
// Automorphism replaced by its effect on the phase (sigma on every component; C04 automorphism harness).  Decided
// for every coefficient vector, at the maximum level and at level 0: output i holds coefficient i of the input as its
// constant term and zero everywhere else, modulo every prime of the level.  (Chaining the real key-switched
// automorphisms symbolically is not tractable: every round re-decomposes the previous result.)

func vStubAutomorphismGhost(eval Evaluator, ctIn *Ciphertext, galEl uint64, opOut *Ciphertext) error {
	r := eval.GetRLWEParameters().RingQ().AtLevel(ctIn.Level())
	for i := range ctIn.Value {
		tmp := r.NewPoly()
		r.AutomorphismNTT(ctIn.Value[i], galEl, tmp)
		opOut.Value[i].CopyLvl(ctIn.Level(), tmp)
	}
	return nil
}

func VerifH_C04_RingPackingExpand() {
	if !vIsAlgebraic() {
		return // engine-only: the stand-in does not exist natively
	}
	c := VerifSetup_Ctx(2, true)
	params := c.Params
	logN := params.LogN()
	rpk := &RingPackingEvaluationKey{
		Parameters:  map[int]ParameterProvider{logN: params},
		ExtractKeys: map[int]EvaluationKeySet{logN: NewMemEvaluationKeySet(nil)},
	}
	eval := NewRingPackingEvaluator(rpk)
	vStub("(github.com/tuneinsight/lattigo/v6/core/rlwe.Evaluator).Automorphism", "call:vStubAutomorphismGhost")
	for _, level := range []int{params.MaxLevel(), 0} {
		tag := "L" + vItoa(level)
		rQ := params.RingQ().AtLevel(level)
		ct := NewCiphertext(params, 1, level)
		ct.IsNTT = false
		var p [][]uint64
		for k, s := range rQ.SubRings[:level+1] {
			a := vAtoms("p", vMessage, s.Modulus, params.N()) // one integer vector, the same on every limb
			copy(ct.Value[0].Coeffs[k], a)
			p = append(p, a)
		}
		cts, err := eval.Expand(ct, 0)
		vAssert(err == nil, tag+"-Expand-no-error")
		if err != nil {
			continue
		}
		vAssert(len(cts) == params.N(), tag+"-Expand-returns-one-ciphertext-per-coefficient")
		for i := 0; i < params.N(); i++ {
			o, ok := cts[i]
			vAssert(ok && o != nil && o.Level() == level && !o.IsNTT, tag+"-output-present-at-the-input-level-and-domain")
			if !ok || o == nil {
				continue
			}
			for k, s := range rQ.SubRings[:level+1] {
				want := make([]uint64, params.N())
				want[0] = p[k][i]
				vAssertEqMod(o.Value[0].Coeffs[k], want, s.Modulus, tag+"-output-i-holds-coefficient-i-as-its-constant-term")
				vAssertEqMod(o.Value[1].Coeffs[k], make([]uint64, params.N()), s.Modulus, tag+"-second-component-stays-zero")
			}
		}
	}
	vUnstub("(github.com/tuneinsight/lattigo/v6/core/rlwe.Evaluator).Automorphism")
	_ = ring.Standard
	vCover("C04-ring-packing-expand-reached")
}
