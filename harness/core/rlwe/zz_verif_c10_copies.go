package rlwe

import (
	"github.com/tuneinsight/lattigo/v6/ring"
	"github.com/tuneinsight/lattigo/v6/ring/ringqp"
	"github.com/tuneinsight/lattigo/v6/utils/sampling"
)

// C10 (algebraic slot model + heap model): copies are complete and independent.
//  (a) differential: the same operation on the same symbolic inputs through the original and through its
//      ShallowCopy / WithKey / WithPRNG copy gives the same result (a dropped table, flag or key shows up);
//  (b) independence: an operation on the copy leaves every object reachable from the original unchanged
//      (vSnapshot / vAssertUnchanged over the engine heap), a mutation of a deep copy leaves the original unchanged;
//  (c) separation: no object written during an operation on the copy is reachable from the original (write set of
//      the engine heap) – a sufficient condition for race freedom of "one copy per goroutine" for every data value.
// Schedules themselves are not explored (see DESIGN: outside).

func VerifSetup_PRNG() *sampling.KeyedPRNG {
	p, err := sampling.NewPRNG()
	if err != nil {
		panic(err)
	}
	return p
}

func vJunkPoly(r *ring.Ring, p ring.Poly) {
	for k := range r.SubRings[:r.Level()+1] {
		for j := range p.Coeffs[k] {
			p.Coeffs[k][j] = 1
		}
	}
}

func VerifH_C10_EvaluatorCopies() {
	vConfig("algebraic-samplers", "1")
	for _, set := range []int{1, 2} {
		c := VerifSetup_Ctx(set, vIsAlgebraic())
		c.Kgen.GenSecretKey(c.Sk)
		params := c.Params
		level := params.MaxLevelQ()
		r := params.RingQ().AtLevel(level)
		g := params.GaloisElement(1)
		gk := c.Kgen.GenGaloisKeyNew(g, c.Sk)
		rlk := c.Kgen.GenRelinearizationKeyNew(c.Sk)
		evk := NewMemEvaluationKeySet(rlk, gk)
		eval := NewEvaluator(params, evk)
		tag := "set" + vItoa(set)
		ct := vAtomCiphertext(c, 1, level, "c")
		ct2 := vAtomCiphertext(c, 2, level, "d")
		ref, ref2 := NewCiphertext(params, 1, level), NewCiphertext(params, 1, level)
		vAssert(eval.Automorphism(ct, g, ref) == nil, tag+"-original-Automorphism-no-error")
		vAssert(eval.Relinearize(ct2, ref2) == nil, tag+"-original-Relinearize-no-error")
		for ci, cpy := range []*Evaluator{eval.ShallowCopy(), eval.WithKey(evk), eval.ShallowCopy().WithKey(evk.ShallowCopy())} {
			name := tag + []string{"-ShallowCopy", "-WithKey", "-ShallowCopy-WithKey"}[ci]
			snap := vSnapshot(eval)
			out, out2 := NewCiphertext(params, 1, level), NewCiphertext(params, 1, level)
			vWritesBegin()
			vAssert(cpy.Automorphism(ct, g, out) == nil, name+"-Automorphism-works-on-the-copy")
			vAssert(cpy.Relinearize(ct2, out2) == nil, name+"-Relinearize-works-on-the-copy")
			ws := vWritesEnd()
			for i := range out.Value {
				vAssertPolyEq(r, out.Value[i], ref.Value[i], name+"-Automorphism-same-result-as-original")
				vAssertPolyEq(r, out2.Value[i], ref2.Value[i], name+"-Relinearize-same-result-as-original")
			}
			vAssert(vMetaEq(out.MetaData, ref.MetaData), name+"-same-metadata-as-original")
			if ci != 1 { // WithKey documents shared buffers ("cannot be used concurrently")
				vAssertUnchanged(snap, name+"-operation-on-copy-leaves-original-unchanged")
				vAssertNotWritten(ws, eval, name+"-writes-of-the-copy-are-unreachable-from-the-original")
			}
			// the original still computes the same afterwards
			again := NewCiphertext(params, 1, level)
			vAssert(eval.Automorphism(ct, g, again) == nil, name+"-original-still-works")
			for i := range again.Value {
				vAssertPolyEq(r, again.Value[i], ref.Value[i], name+"-original-result-unchanged-after-using-the-copy")
			}
		}
	}
	vCover("C10-evaluator-reached")
}

// A Galois key added to the (mutable, shared) key set after the evaluator was built: its index table is computed
// lazily on first use.  On a ShallowCopy, documented as concurrently usable, that write must not land in a table the
// original can reach.
func VerifH_C10_EvaluatorLazyGaloisIndex() {
	vConfig("algebraic-samplers", "1")
	c := VerifSetup_Ctx(1, vIsAlgebraic())
	c.Kgen.GenSecretKey(c.Sk)
	params := c.Params
	level := params.MaxLevelQ()
	g1, g2 := params.GaloisElement(1), params.GaloisElement(2)
	evk := NewMemEvaluationKeySet(nil, c.Kgen.GenGaloisKeyNew(g1, c.Sk))
	eval := NewEvaluator(params, evk)
	evk.GaloisKeys[g2] = c.Kgen.GenGaloisKeyNew(g2, c.Sk)
	cpy := eval.ShallowCopy()
	ct := vAtomCiphertext(c, 1, level, "c")
	out := NewCiphertext(params, 1, level)
	snap := vSnapshot(eval)
	vWritesBegin()
	vAssert(cpy.Automorphism(ct, g2, out) == nil, "lazy-index-Automorphism-works-on-the-copy")
	ws := vWritesEnd()
	vAssertUnchanged(snap, "lazy-index-operation-on-ShallowCopy-leaves-original-unchanged")
	vAssertNotWritten(ws, eval, "lazy-index-writes-of-the-ShallowCopy-are-unreachable-from-the-original")
	r := params.RingQ().AtLevel(level)
	want := vApplyAut(r, vDecrypt(c, c.Dec, ct).Value, g2, params.NTTFlag())
	vAssertNoiseFree(r, vDecrypt(c, c.Dec, out).Value, want, params.NTTFlag(), 40, "lazy-index-Automorphism-correct-on-the-copy")
}

func VerifH_C10_EncryptorDecryptorCopies() {
	vConfig("algebraic-samplers", "1")
	for _, set := range []int{1, 0, 4} {
		c := VerifSetup_Ctx(set, vIsAlgebraic())
		c.Kgen.GenSecretKey(c.Sk)
		c.Kgen.GenSecretKey(c.Sk2)
		c.Kgen.GenPublicKey(c.Sk, c.Pk)
		params := c.Params
		level := params.MaxLevelQ()
		r := params.RingQ().AtLevel(level)
		tag := "set" + vItoa(set)
		pt := NewPlaintext(params, level)
		vFillAtoms(r, pt.Value, "m", vMessage)
		pt.IsNTT = params.NTTFlag()
		for ei, enc := range []*Encryptor{c.EncSk, c.EncPk} {
			prng := VerifSetup_PRNG()
			vPRNGKey(prng, tag+"-withprng-"+vItoa(ei))
			copies := []*Encryptor{enc.ShallowCopy(), enc.WithKey(nil), enc.WithPRNG(prng)}
			if ei == 0 {
				copies = append(copies, c.EncPk.WithKey(c.Sk))
			} else {
				copies = append(copies, c.EncSk.WithKey(c.Pk))
			}
			for ci, cpy := range copies {
				name := tag + []string{"-sk", "-pk"}[ei] + []string{"-ShallowCopy", "-WithKey(nil)", "-WithPRNG", "-WithKey(other-kind)"}[ci]
				snap := vSnapshot(enc)
				ct := NewCiphertext(params, 1, level)
				vWritesBegin()
				vAssert(cpy.Encrypt(pt, ct) == nil, name+"-Encrypt-works-on-the-copy")
				ws := vWritesEnd()
				got := vDecrypt(c, c.Dec, ct)
				vAssertNoiseFree(r, got.Value, pt.Value, params.NTTFlag(), 30, name+"-copy-encrypts-under-the-same-key")
				vAssert(vMetaEq(ct.MetaData, pt.MetaData), name+"-copy-propagates-metadata")
				if ci == 0 || ci == 3 { // WithKey(nil) and WithPRNG document shared state
					vAssertUnchanged(snap, name+"-operation-on-copy-leaves-original-unchanged")
					vAssertNotWritten(ws, enc, name+"-writes-of-the-copy-are-unreachable-from-the-original")
				}
			}
		}
		ct := vAtomCiphertext(c, 1, level, "c")
		ref := vDecrypt(c, c.Dec, ct)
		for ci, d := range []*Decryptor{c.Dec.ShallowCopy(), c.Dec2.WithKey(c.Sk), c.Dec.WithKey(c.Sk2).WithKey(c.Sk)} {
			name := tag + []string{"-Decryptor-ShallowCopy", "-Decryptor-WithKey", "-Decryptor-WithKey-twice"}[ci]
			snap := vSnapshot(c.Dec)
			out := NewPlaintext(params, level)
			vWritesBegin()
			d.Decrypt(ct, out)
			ws := vWritesEnd()
			vAssertPolyEq(r, out.Value, ref.Value, name+"-same-result-as-original")
			vAssert(vMetaEq(out.MetaData, ref.MetaData), name+"-same-metadata-as-original")
			vAssertUnchanged(snap, name+"-operation-on-copy-leaves-original-unchanged")
			vAssertNotWritten(ws, c.Dec, name+"-writes-of-the-copy-are-unreachable-from-the-original")
		}
	}
	vCover("C10-encdec-reached")
}

func vBoolP(b bool) *bool { return &b }

func VerifH_C10_DeepCopies() {
	vConfig("algebraic-samplers", "1")
	for _, set := range []int{2, 0} {
		c := VerifSetup_Ctx(set, vIsAlgebraic())
		c.Kgen.GenSecretKey(c.Sk)
		c.Kgen.GenPublicKey(c.Sk, c.Pk)
		params := c.Params
		level := params.MaxLevelQ()
		rq := params.RingQ()
		tag := "set" + vItoa(set)
		// ciphertext / plaintext
		ct := vAtomCiphertext(c, 1, level, "c")
		ct.Scale = NewScale(7)
		ct.IsBatched = true
		cc := ct.CopyNew()
		vAssertDeepEqual(ct, cc, tag+"-Ciphertext-CopyNew-equals-original")
		s := vSnapshot(ct)
		vJunkPoly(rq, cc.Value[0])
		cc.Scale = NewScale(3)
		cc.IsNTT = !cc.IsNTT
		vAssertUnchanged(s, tag+"-Ciphertext-CopyNew-mutation-leaves-original-unchanged")
		pt := NewPlaintext(params, level)
		vFillAtoms(rq.AtLevel(level), pt.Value, "m", vMessage)
		pc := pt.CopyNew()
		vAssertDeepEqual(pt, pc, tag+"-Plaintext-CopyNew-equals-original")
		s = vSnapshot(pt)
		vJunkPoly(rq, pc.Value)
		pc.LogDimensions.Cols++
		vAssertUnchanged(s, tag+"-Plaintext-CopyNew-mutation-leaves-original-unchanged")
		// keys
		skc := c.Sk.CopyNew()
		vAssertDeepEqual(c.Sk, skc, tag+"-SecretKey-CopyNew-equals-original")
		s = vSnapshot(c.Sk)
		vJunkPoly(rq, skc.Value.Q)
		vAssertUnchanged(s, tag+"-SecretKey-CopyNew-mutation-leaves-original-unchanged")
		pkc := c.Pk.CopyNew()
		vAssertDeepEqual(c.Pk, pkc, tag+"-PublicKey-CopyNew-equals-original")
		s = vSnapshot(c.Pk)
		vJunkPoly(rq, pkc.Value[1].Q)
		vAssertUnchanged(s, tag+"-PublicKey-CopyNew-mutation-leaves-original-unchanged")
		for ki, evkp := range []EvaluationKeyParameters{{}, {BaseTwoDecomposition: vIntP(3), LevelP: vIntP(-1)}} {
			if ki == 1 && params.MaxLevelP() < 0 {
				evkp = EvaluationKeyParameters{BaseTwoDecomposition: vIntP(3)}
			}
			kt := tag + []string{"-rns", "-pow2"}[ki]
			g := params.GaloisElement(3)
			gk := c.Kgen.GenGaloisKeyNew(g, c.Sk, evkp)
			gkc := gk.CopyNew()
			vAssertDeepEqual(gk, gkc, kt+"-GaloisKey-CopyNew-equals-original")
			s = vSnapshot(gk)
			vJunkPoly(rq, gkc.Value[0][0][0].Q)
			gkc.GaloisElement++
			gkc.NthRoot++
			vAssertUnchanged(s, kt+"-GaloisKey-CopyNew-mutation-leaves-original-unchanged")
			rlk := c.Kgen.GenRelinearizationKeyNew(c.Sk, evkp)
			rlkc := rlk.CopyNew()
			vAssertDeepEqual(rlk, rlkc, kt+"-RelinearizationKey-CopyNew-equals-original")
			s = vSnapshot(rlk)
			vJunkPoly(rq, rlkc.Value[0][0][1].Q)
			vAssertUnchanged(s, kt+"-RelinearizationKey-CopyNew-mutation-leaves-original-unchanged")
			evk := c.Kgen.GenEvaluationKeyNew(c.Sk, c.Sk2, evkp)
			evkc := evk.CopyNew()
			vAssertDeepEqual(evk, evkc, kt+"-EvaluationKey-CopyNew-equals-original")
		}
		// compressed keys: the copy must carry the seed and expand like the original
		ck := c.Kgen.GenEvaluationKeyNew(c.Sk, c.Sk2, EvaluationKeyParameters{Compressed: true})
		ckc := ck.CopyNew()
		vAssertDeepEqual(ck, ckc, tag+"-compressed-EvaluationKey-CopyNew-equals-original")
		// the seed of the copy is its own: wiping it leaves the original (and what it expands to) unchanged
		vAssert(ck.Seed != nil && ckc.Seed != nil && ck.Seed != ckc.Seed, tag+"-compressed-EvaluationKey-CopyNew-has-its-own-seed")
		if ckc.Seed != nil && ck.Seed != nil {
			sk := vSnapshot(ck)
			ckw := ck.CopyNew()
			for i := range ckw.Seed {
				ckw.Seed[i] = 0
			}
			vAssertUnchanged(sk, tag+"-compressed-EvaluationKey-wiping-the-seed-of-a-copy-leaves-the-original-unchanged")
		}
		vAssert(ck.Expand(params, nil) == nil, tag+"-compressed-EvaluationKey-original-expands")
		vAssert(ckc.Expand(params, nil) == nil, tag+"-compressed-EvaluationKey-copy-expands")
		cg := c.Kgen.GenGaloisKeyNew(params.GaloisElement(1), c.Sk, EvaluationKeyParameters{Compressed: true})
		cgc := cg.CopyNew()
		vAssertDeepEqual(cg, cgc, tag+"-compressed-GaloisKey-CopyNew-equals-original")
		md := &MetaData{}
		md.Scale = NewScale(5)
		md.IsMontgomery = true
		mdc := md.CopyNew()
		vAssertDeepEqual(md, mdc, tag+"-MetaData-CopyNew-equals-original")
	}
	// ringqp uniform sampler re-keyed with WithPRNG: equals a fresh sampler on the new source, on Q and on P
	{
		c := VerifSetup_Ctx(2, vIsAlgebraic())
		rQP := c.Params.RingQP()
		src, key1, key2 := VerifSetup_PRNGC10("s"), VerifSetup_PRNGC10("k"), VerifSetup_PRNGC10("k")
		vPRNGKey(key1, "k")
		vPRNGKey(key2, "k")
		parent := ringqp.NewUniformSampler(src, *rQP)
		child := parent.WithPRNG(key1)
		fresh := ringqp.NewUniformSampler(key2, *rQP)
		a, b := rQP.NewPoly(), rQP.NewPoly()
		panicked := vPanics(func() {
			child.Read(a)
			fresh.Read(b)
		})
		vAssert(!panicked, "ringqp-UniformSampler-WithPRNG-reads-without-panic")
		if !panicked {
			vAssertPolyEq(rQP.RingQ, a.Q, b.Q, "ringqp-UniformSampler-WithPRNG-equals-a-fresh-sampler-on-Q")
			vAssertPolyEq(rQP.RingP, a.P, b.P, "ringqp-UniformSampler-WithPRNG-equals-a-fresh-sampler-on-P")
		}
	}
	vCover("C10-deepcopies-reached")
}

func VerifSetup_PRNGC10(key string) *sampling.KeyedPRNG {
	p, err := sampling.NewKeyedPRNG([]byte(key))
	if err != nil {
		panic(err)
	}
	return p
}
