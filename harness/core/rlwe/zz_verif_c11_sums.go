package rlwe

import "github.com/tuneinsight/lattigo/v6/ring"

// C11 (algebraic slot model): partial traces, replication and traces are the documented sums of automorphisms of
// the phase, and the advertised Galois-element lists are sufficient: the evaluator holds keys for EXACTLY
// GaloisElementsFor…(args) and must not fail.  Every (offset, n) with n·|offset| <= N/2, n incl. non powers of two.

func vSumOfAuts(r *ring.Ring, params Parameters, phase ring.Poly, ks []int) ring.Poly {
	want := r.NewPoly()
	for _, k := range ks {
		rot := phase
		if k != 0 {
			rot = vApplyAut(r, phase, params.GaloisElement(k), params.NTTFlag())
		}
		r.Add(want, rot, want)
	}
	return want
}

func VerifH_C11_PartialTraces() {
	vConfig("algebraic-samplers", "1")
	for _, set := range []int{1, 4} { // NTT and coefficient-domain parameters
		c := VerifSetup_Ctx(set, vIsAlgebraic())
		c.Kgen.GenSecretKey(c.Sk)
		params := c.Params
		level := params.MaxLevelQ()
		r := params.RingQ().AtLevel(level)
		half := params.N() >> 1
		cases := [][2]int{{1, 2}, {1, 3}, {1, 8}, {2, 4}, {2, 3}, {4, 2}, {1, 5}, {3, 2}, {1, 6}, {1, 7}}
		if set == 4 {
			cases = [][2]int{{1, 3}, {2, 4}}
		}
		for _, bn := range cases {
			batch, n := bn[0], bn[1]
			if batch*n > half {
				continue
			}
			tag := "set" + vItoa(set) + "-batch" + vItoa(batch) + "-n" + vItoa(n)
			ct := vAtomCiphertext(c, 1, level, "c")
			phase := vDecrypt(c, c.Dec, ct).Value
			// inner sum direction (positive offsets)
			gks := c.Kgen.GenGaloisKeysNew(GaloisElementsForInnerSum(params, batch, n), c.Sk)
			eval := c.Eval.WithKey(NewMemEvaluationKeySet(nil, gks...))
			out := NewCiphertext(params, 1, level)
			vAssert(eval.PartialTracesSum(ct, batch, n, out) == nil, tag+"-InnerSum-keys-for-exactly-the-advertised-elements-suffice")
			ks := make([]int, n)
			for i := range ks {
				ks[i] = i * batch
			}
			vAssertNoiseFree(r, vDecrypt(c, c.Dec, out).Value, vSumOfAuts(r, params, phase, ks), params.NTTFlag(), 42, tag+"-PartialTracesSum-is-the-sum-of-the-n-rotations")
			// replication direction (negative offsets)
			gks = c.Kgen.GenGaloisKeysNew(GaloisElementsForReplicate(params, batch, n), c.Sk)
			eval = c.Eval.WithKey(NewMemEvaluationKeySet(nil, gks...))
			out2 := NewCiphertext(params, 1, level)
			vAssert(eval.Replicate(ct, batch, n, out2) == nil, tag+"-Replicate-keys-for-exactly-the-advertised-elements-suffice")
			for i := range ks {
				ks[i] = -i * batch
			}
			vAssertNoiseFree(r, vDecrypt(c, c.Dec, out2).Value, vSumOfAuts(r, params, phase, ks), params.NTTFlag(), 42, tag+"-Replicate-is-the-sum-of-the-n-backward-rotations")
		}
		// a receiver with more moduli than the input takes the level of the input
		if level > 0 {
			tag := "set" + vItoa(set) + "-input-below-the-level-of-the-receiver"
			low := vAtomCiphertext(c, 1, 0, "l")
			r0 := params.RingQ().AtLevel(0)
			phase := vDecrypt(c, c.Dec, low).Value
			gks := c.Kgen.GenGaloisKeysNew(GaloisElementsForInnerSum(params, 1, 3), c.Sk)
			eval := c.Eval.WithKey(NewMemEvaluationKeySet(nil, gks...))
			big := vAtomCiphertext(c, 1, level, "junk")
			vAssert(eval.PartialTracesSum(low, 1, 3, big) == nil, tag+"-PartialTracesSum-no-error")
			vAssert(big.Level() == 0, tag+"-receiver-takes-the-level-of-the-input")
			if big.Level() == 0 {
				vAssertNoiseFree(r0, vDecrypt(c, c.Dec, big).Value, vSumOfAuts(r0, params, phase, []int{0, 1, 2}), params.NTTFlag(), 42, tag+"-PartialTracesSum-is-the-sum-of-the-n-rotations")
			}
		}
	}
	vCover("C11-partial-traces-reached")
}

func VerifH_C11_Trace() {
	vConfig("algebraic-samplers", "1")
	vTraceSet(1)
	vTraceSet(4) // coefficient-domain ciphertexts
	vCover("C11-trace-reached")
}

func vTraceSet(set int) {
	c := VerifSetup_Ctx(set, vIsAlgebraic())
	c.Kgen.GenSecretKey(c.Sk)
	params := c.Params
	level := params.MaxLevelQ()
	r := params.RingQ().AtLevel(level)
	logNmax := params.LogN()
	for logN := 0; logN < logNmax; logN++ {
		tag := "trace-depth" + vItoa(logN)
		if set != 1 {
			if logN == 1 || logN == 3 {
				continue
			}
			tag = "set" + vItoa(set) + "-" + tag
		}
		ct := vAtomCiphertext(c, 1, level, "t")
		phase := vDecrypt(c, c.Dec, ct).Value
		gks := c.Kgen.GenGaloisKeysNew(GaloisElementsForTrace(params, logN), c.Sk)
		eval := c.Eval.WithKey(NewMemEvaluationKeySet(nil, gks...))
		out := NewCiphertext(params, 1, level)
		vAssert(eval.Trace(ct, logN, out) == nil, tag+"-keys-for-exactly-the-advertised-elements-suffice")
		// the subgroup fixed by the trace: powers 5^(k·2^logN), and X -> X^-1 as well for the full trace
		var gals []uint64
		step := 1 << uint(logN)
		for k := 0; k < (params.N()>>1)/step; k++ {
			gals = append(gals, params.GaloisElement(k*step))
		}
		if logN == 0 {
			m1 := params.GaloisElementOrderTwoOrthogonalSubgroup()
			nth := params.RingQ().NthRoot()
			for _, g := range append([]uint64(nil), gals...) {
				gals = append(gals, g*m1&(nth-1))
			}
		}
		want := r.NewPoly()
		for _, g := range gals {
			rot := phase
			if g != 1 {
				rot = vApplyAut(r, phase, g, params.NTTFlag())
			}
			r.Add(want, rot, want)
		}
		// normalisation by the size of the subgroup
		cnt := uint64(len(gals))
		for k, s := range r.SubRings[:level+1] {
			inv := ring.ModExp(cnt%s.Modulus, s.Modulus-2, s.Modulus)
			s.MulScalarMontgomery(want.Coeffs[k], ring.MForm(inv, s.Modulus, s.BRedConstant), want.Coeffs[k])
		}
		vAssertNoiseFree(r, vDecrypt(c, c.Dec, out).Value, want, params.NTTFlag(), 42, tag+"-Trace-is-the-normalised-sum-over-the-subgroup")
	}
}

// discrete logarithm on both ring types (word level, all 64-bit k)
func VerifSetup_GaloisParamsCI(logN int) Parameters {
	p, err := NewParametersFromLiteral(ParametersLiteral{LogN: logN, Q: []uint64{65537}, NTTFlag: true, RingType: ring.ConjugateInvariant})
	if err != nil {
		panic(err)
	}
	return p
}

func VerifH_C11_GaloisAlgebraConjugateInvariant() {
	for _, logN := range []int{4, 6} {
		p := VerifSetup_GaloisParamsCI(logN)
		nth := p.RingQ().NthRoot()
		ord := int(nth >> 2)
		tag := "ci-logN" + vItoa(logN)
		a := vInt("a")
		ga := p.GaloisElement(a)
		vAssert(ga&1 == 1 && ga < nth, tag+"-GaloisElement-is-an-odd-residue")
		vAssert(p.GaloisElement(a+ord) == ga, tag+"-rotation-index-is-periodic-in-the-generator-order")
		d := p.SolveDiscreteLogGaloisElement(ga)
		vAssert(d >= 0 && d < ord && (d-a)&(ord-1) == 0, tag+"-SolveDiscreteLog-inverts-GaloisElement")
		vAssert(p.ModInvGaloisElement(ga)*ga&(nth-1) == 1, tag+"-ModInvGaloisElement-is-the-inverse")
	}
	vCover("C11-ci-reached")
}

// Rotations into a distinct receiver: the identity element (a rotation by a multiple of the slot count) still fills
// the receiver, and every variant (plain, hoisted, hoisted-lazy) hands the plaintext metadata of its input - scale,
// dimensions, batching - to the receiver, whatever the receiver held before.
func VerifH_C11_RotationReceivers() {
	vConfig("algebraic-samplers", "1")
	c := VerifSetup_Ctx(1, vIsAlgebraic())
	c.Kgen.GenSecretKey(c.Sk)
	params := c.Params
	level := params.MaxLevelQ()
	r := params.RingQ().AtLevel(level)
	g := params.GaloisElement(3)
	gks := c.Kgen.GenGaloisKeysNew([]uint64{g}, c.Sk)
	eval := c.Eval.WithKey(NewMemEvaluationKeySet(nil, gks...))
	ct := vAtomCiphertext(c, 1, level, "c")
	ct.Scale = NewScale(5)
	ct.IsBatched = true
	ct.LogDimensions.Rows, ct.LogDimensions.Cols = 1, 2
	used := func(name string) *Ciphertext {
		o := vAtomCiphertext(c, 1, level, name)
		o.Scale = NewScale(9)
		return o
	}
	// identity element: rotation index 0 and a multiple of the order of the generator
	for _, k := range []int{0, params.N() >> 1, -params.N()} {
		tag := "identity-k" + vItoa(k)
		vAssert(params.GaloisElement(k) == 1, tag+"-is-the-identity-element")
		out := used("junk")
		vAssert(eval.Automorphism(ct, params.GaloisElement(k), out) == nil, tag+"-Automorphism-no-error")
		for i := range ct.Value {
			vAssertPolyEq(r, out.Value[i], ct.Value[i], tag+"-receiver-holds-the-input")
		}
		vAssert(vMetaEq(out.MetaData, ct.MetaData), tag+"-receiver-takes-the-metadata-of-the-input")
	}
	want := vApplyAut(r, vDecrypt(c, c.Dec, ct).Value, g, params.NTTFlag())
	// plain
	out := used("junkp")
	vAssert(eval.Automorphism(ct, g, out) == nil, "plain-Automorphism-no-error")
	vAssert(vMetaEq(out.MetaData, ct.MetaData), "plain-receiver-takes-the-metadata-of-the-input")
	vAssertNoiseFree(r, vDecrypt(c, c.Dec, out).Value, want, params.NTTFlag(), 42, "plain-receiver-decrypts-to-sigma-of-the-plaintext")
	// hoisted
	levelP := gks[0].LevelP()
	eval.DecomposeNTT(level, levelP, levelP+1, ct.Value[1], ct.IsNTT, eval.BuffDecompQP)
	outH := used("junkh")
	vAssert(eval.AutomorphismHoisted(level, ct, eval.BuffDecompQP, g, outH) == nil, "hoisted-Automorphism-no-error")
	vAssert(vMetaEq(outH.MetaData, ct.MetaData), "hoisted-receiver-takes-the-metadata-of-the-input")
	vAssert(outH.MetaData != ct.MetaData, "hoisted-receiver-keeps-its-own-metadata-object")
	vAssertNoiseFree(r, vDecrypt(c, c.Dec, outH).Value, want, params.NTTFlag(), 42, "hoisted-receiver-decrypts-to-sigma-of-the-plaintext")
	vCover("C11-rotation-receivers-reached")
}
