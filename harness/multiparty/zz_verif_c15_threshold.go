package multiparty

import (
	"github.com/tuneinsight/lattigo/v6/core/rlwe"
)

// C15: t-out-of-N threshold.  Real Thresholdizer (Shamir polynomials over R_QP, evaluation at the public points,
// aggregation) and Combiner (Lagrange coefficients, additive shares).  Secrets and all Shamir coefficients are atoms,
// the public points are concrete (several sets incl. points >= a modulus).  For every set of exactly t active parties,
// in every listing order, the additive shares must sum to the ideal secret (exact polynomial identity); fewer than t
// active parties must be refused.

type vThr struct {
	Thr []Thresholdizer
	Cmb []Combiner
}

// VerifSetup_Thr builds the thresholdizers and combiners natively (concrete points).
func VerifSetup_Thr(set int, algebraic bool, points []uint64, t int) *vThr {
	c := VerifSetup_Ctx(set, algebraic)
	pts := make([]ShamirPublicPoint, len(points))
	for i, p := range points {
		pts[i] = ShamirPublicPoint(p)
	}
	r := &vThr{}
	for i := range points {
		r.Thr = append(r.Thr, NewThresholdizer(c.Params))
		r.Cmb = append(r.Cmb, NewCombiner(c.Params, pts[i], pts, t))
	}
	return r
}

func vPerms(n int) [][]int {
	if n == 1 {
		return [][]int{{0}}
	}
	var out [][]int
	for _, p := range vPerms(n - 1) {
		for pos := 0; pos <= len(p); pos++ {
			q := append(append(append([]int{}, p[:pos]...), n-1), p[pos:]...)
			out = append(out, q)
		}
	}
	return out
}

func vSubsets(n, k int) [][]int {
	var out [][]int
	var rec func(start int, cur []int)
	rec = func(start int, cur []int) {
		if len(cur) == k {
			out = append(out, append([]int{}, cur...))
			return
		}
		for i := start; i < n; i++ {
			rec(i+1, append(cur, i))
		}
	}
	rec(0, nil)
	return out
}

func vThresholdCase(set, n, t int, points []uint64, tag string) {
	c := vInit(set, n)
	th := VerifSetup_Thr(set, vIsAlgebraic(), points, t)
	params := c.Params
	rQP := params.RingQP()
	// setup: every party shares its secret
	tsk := make([]ShamirSecretShare, n)
	for j := 0; j < n; j++ {
		tsk[j] = th.Thr[j].AllocateThresholdSecretShare()
	}
	shares := make([][]ShamirSecretShare, n) // shares[j][i]: share of party i's polynomial for party j
	for j := range shares {
		shares[j] = make([]ShamirSecretShare, n)
	}
	for i := 0; i < n; i++ {
		poly, err := th.Thr[i].GenShamirPolynomial(t, c.Parties[i].Sk)
		vAssert(err == nil, tag+"-GenShamirPolynomial-no-error")
		for j := 0; j < n; j++ {
			shares[j][i] = th.Thr[i].AllocateThresholdSecretShare()
			th.Thr[i].GenShamirSecretShare(ShamirPublicPoint(points[j]), poly, &shares[j][i])
		}
	}
	// aggregation in every shape: accumulator in place (even parties), fresh outputs with the running aggregate as the
	// SECOND operand and in reverse order (odd parties)
	for j := 0; j < n; j++ {
		if j%2 == 0 || n == 1 {
			for i := 0; i < n; i++ {
				vAssert(th.Thr[j].AggregateShares(tsk[j], shares[j][i], &tsk[j]) == nil, tag+"-AggregateShares-no-error")
			}
			continue
		}
		acc := shares[j][n-1]
		for i := n - 2; i >= 0; i-- {
			out := th.Thr[j].AllocateThresholdSecretShare()
			vAssert(th.Thr[j].AggregateShares(shares[j][i], acc, &out) == nil, tag+"-AggregateShares-into-a-fresh-output-no-error")
			acc = out
		}
		tsk[j] = acc
	}
	// the running aggregate as second operand and receiver at once gives the same aggregate
	for j := 0; j < n && n >= 2; j++ {
		alt := th.Thr[j].AllocateThresholdSecretShare()
		alt.Poly.Copy(shares[j][n-1].Poly)
		for i := n - 2; i >= 0; i-- {
			vAssert(th.Thr[j].AggregateShares(shares[j][i], alt, &alt) == nil, tag+"-AggregateShares-into-the-second-operand-no-error")
		}
		vAssertPolyQPEq(rQP, alt.Poly, tsk[j].Poly, tag+"-aggregate-independent-of-operand-order-and-receiver")
	}
	// every t-subset in every order
	for _, sub := range vSubsets(n, t) {
		for _, perm := range vPerms(t) {
			active := make([]ShamirPublicPoint, t)
			for k, pi := range perm {
				active[k] = ShamirPublicPoint(points[sub[pi]])
			}
			sum := rQP.NewPoly()
			for _, j := range sub {
				add := rlwe.NewSecretKey(params)
				vAssert(th.Cmb[j].GenAdditiveShare(active, ShamirPublicPoint(points[j]), tsk[j], add) == nil, tag+"-GenAdditiveShare-no-error")
				rQP.Add(sum, add.Value, sum)
			}
			vAssertPolyQPEq(rQP, sum, c.SkSum.Value, tag+"-any-t-parties-reconstruct-the-ideal-secret")
		}
	}
	// fewer than t active parties are refused
	if t > 1 {
		few := make([]ShamirPublicPoint, t-1)
		for k := range few {
			few[k] = ShamirPublicPoint(points[k])
		}
		vAssert(th.Cmb[0].GenAdditiveShare(few, ShamirPublicPoint(points[0]), tsk[0], rlwe.NewSecretKey(params)) != nil, tag+"-fewer-than-t-active-parties-are-refused")
	}
}

func VerifH_C15_Threshold() {
	vThresholdCase(0, 3, 2, []uint64{1, 2, 3}, "N3-t2-small-points")
	vThresholdCase(0, 3, 3, []uint64{5, 1 << 32, 3}, "N3-t3-mixed-points")
	vThresholdCase(2, 3, 2, []uint64{98, 194, 1<<63 + 5}, "N3-t2-points-above-the-moduli")
	// points above every modulus of Q and P (also of the realistic primes of the native run), with auxiliary modulus
	vThresholdCase(0, 3, 2, []uint64{1<<62 + 99, 5, 1<<63 + 5}, "N3-t2-points-above-the-moduli-with-P")
	if vTier() > 0 {
		vThresholdCase(1, 4, 3, []uint64{1, 2, 3, 4}, "N4-t3")
		vThresholdCase(0, 4, 2, []uint64{7, 11, 13, 1<<64 - 1}, "N4-t2")
	}
	vCover("C15-reached")
}
