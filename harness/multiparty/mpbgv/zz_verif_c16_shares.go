package mpbgv

import (
	"github.com/tuneinsight/lattigo/v6/core/rlwe"
	"github.com/tuneinsight/lattigo/v6/multiparty"
	"github.com/tuneinsight/lattigo/v6/ring"
	"github.com/tuneinsight/lattigo/v6/schemes/bgv"
)

// C16 (integer scheme): encryption-to-shares, shares-to-encryption, collective refresh and masked transform.
// Algebraic slot model with the plaintext ring: message and mask coefficients are atoms modulo t, ciphertext masks,
// secrets and errors atoms modulo the primes of Q; RingT2Q / RingQ2T carry values between the two by integer lift
// (engine: fe_bgvt.go).  Real EncToShareProtocol, ShareToEncProtocol, RefreshProtocol, MaskedTransformProtocol, real
// encoder (EncodeRingT / DecodeRingT), encryptor and decryptor.  Decided: the additive shares sum to the message
// exactly modulo t; re-encrypting them gives a maximum-level ciphertext of the message; refresh returns the message and
// the masked transform f(message) for a linear f, for each of the four decode/encode flag settings, input levels max
// and 1, 1..3 parties.  Standing assumption of the model: noise inside the budget (the centred integer of a phase is
// the integer its limbs represent).

func VerifH_C16_EncToSharesToEnc() {
	for n := 1; n <= vMaxParties; n += 2 {
		c := vInit(n)
		params := c.Params
		t := params.PlaintextModulus()
		rT := params.RingT()
		for _, level := range vLevels(params) {
			tag := "n" + vItoa(n) + "-L" + vItoa(level)
			m := vAtoms("m", vMessage, t, params.N())
			ct := vEncryptT(c, m, level)
			// encryption to shares
			secret := make([]multiparty.AdditiveShare, n)
			public := make([]multiparty.KeySwitchShare, n)
			for i := 0; i < n; i++ {
				p := c.Parties[i]
				secret[i] = NewAdditiveShare(params)
				public[i] = p.E2S.AllocateShare(level)
				p.E2S.GenShare(p.Sk, ct, &secret[i], &public[i])
			}
			agg := public[n-1]
			for i := n - 2; i >= 0; i-- {
				vAssert(c.Parties[0].E2S.AggregateShares(public[i], agg, &agg) == nil, tag+"-e2s-aggregate-no-error")
			}
			c.Parties[0].E2S.GetShare(&secret[0], agg, ct, &secret[0])
			sum := rT.NewPoly()
			for i := 0; i < n; i++ {
				rT.Add(sum, secret[i].Value, sum)
			}
			vAssertEqMod(sum.Coeffs[0], m, t, tag+"-additive-shares-sum-to-the-message-modulo-t")
			if n > 1 && vIsAlgebraic() {
				vAssert(vEverySlotHasClass(secret[1].Value.Coeffs[0], t, vUniform), tag+"-every-share-is-masked")
			}
			// shares to encryption, at the maximum level
			maxLevel := params.MaxLevel()
			crp := c.Parties[0].S2E.SampleCRP(maxLevel, c.CRS)
			c0 := make([]multiparty.KeySwitchShare, n)
			for i := 0; i < n; i++ {
				p := c.Parties[i]
				c0[i] = p.S2E.AllocateShare(maxLevel)
				vAssert(p.S2E.GenShare(p.Sk, crp, secret[i], &c0[i]) == nil, tag+"-s2e-GenShare-no-error")
			}
			agg2 := c0[0]
			for i := 1; i < n; i++ {
				vAssert(c.Parties[0].S2E.AggregateShares(agg2, c0[i], &agg2) == nil, tag+"-s2e-aggregate-no-error")
			}
			out := bgv.NewCiphertext(params, 1, maxLevel)
			vAssert(c.Parties[0].S2E.GetEncryption(agg2, crp, out) == nil, tag+"-GetEncryption-no-error")
			vAssert(out.Level() == maxLevel && out.Degree() == 1, tag+"-re-encryption-is-at-the-maximum-level")
			vAssertEqMod(vDecryptT(c, out), m, t, tag+"-re-encrypted-shares-decrypt-to-the-message")
		}
	}
	vCover("C16-e2s-s2e-reached")
}

// vLinearF is the user transform of the masked-transform harness: y[i] = 3·x[i] + x[i+1] (indices modulo n), linear
// over Z_t so that the parties' masks cancel.
func vLinearF(params bgv.Parameters) func(coeffs []uint64) {
	s := params.RingT().SubRings[0]
	return func(coeffs []uint64) {
		n := len(coeffs)
		rot := make([]uint64, n)
		for i := range rot {
			rot[i] = coeffs[(i+1)%n]
		}
		s.MulScalarMontgomery(coeffs, ring.MForm(3, s.Modulus, s.BRedConstant), coeffs)
		s.Add(coeffs, rot, coeffs)
	}
}

// vExpected applies decode -> f -> encode directly to the plaintext polynomial m.
func vExpected(c *vCtx, m []uint64, scale rlwe.Scale, tr *MaskedTransformFunc) []uint64 {
	params := c.Params
	pT := params.RingT().NewPoly()
	copy(pT.Coeffs[0], m)
	if tr == nil {
		return pT.Coeffs[0]
	}
	coeffs := make([]uint64, params.N())
	if tr.Decode {
		if err := c.Ecd.DecodeRingT(pT, scale, coeffs); err != nil {
			panic(err)
		}
	} else {
		copy(coeffs, pT.Coeffs[0])
	}
	tr.Func(coeffs)
	out := params.RingT().NewPoly()
	if tr.Encode {
		if err := c.Ecd.EncodeRingT(coeffs, scale, out); err != nil {
			panic(err)
		}
	} else {
		copy(out.Coeffs[0], coeffs)
	}
	return out.Coeffs[0]
}

func vTransformCase(c *vCtx, n, level int, tr *MaskedTransformFunc, refresh bool, tag string) {
	vTransformCaseOut(c, n, level, c.Params.MaxLevel(), tr, refresh, tag)
}

// (maxLevel is the requested output level: the level of the common reference polynomial and of the re-encryption)
func vTransformCaseOut(c *vCtx, n, level, maxLevel int, tr *MaskedTransformFunc, refresh bool, tag string) {
	params := c.Params
	t := params.PlaintextModulus()
	m := vAtoms("m", vMessage, t, params.N())
	ct := vEncryptT(c, m, level)
	ct.Scale = params.NewScale(3)
	crp := c.Parties[0].MTP.SampleCRP(maxLevel, c.CRS)
	shares := make([]multiparty.RefreshShare, n)
	for i := 0; i < n; i++ {
		p := c.Parties[i]
		if refresh {
			shares[i] = p.RFP.AllocateShare(level, maxLevel)
			vAssert(p.RFP.GenShare(p.Sk, ct, crp, &shares[i]) == nil, tag+"-GenShare-no-error")
		} else {
			shares[i] = p.MTP.AllocateShare(level, maxLevel)
			vAssert(p.MTP.GenShare(p.Sk, p.Sk, ct, crp, tr, &shares[i]) == nil, tag+"-GenShare-no-error")
		}
	}
	agg := shares[0]
	for i := 1; i < n; i++ {
		vAssert(c.Parties[0].MTP.AggregateShares(agg, shares[i], &agg) == nil, tag+"-aggregate-no-error")
	}
	out := bgv.NewCiphertext(params, 1, maxLevel)
	out.Scale = ct.Scale
	if refresh {
		vAssert(c.Parties[0].RFP.Finalize(ct, crp, agg, out) == nil, tag+"-Finalize-no-error")
	} else {
		vAssert(c.Parties[0].MTP.Transform(ct, tr, crp, agg, out) == nil, tag+"-Transform-no-error")
	}
	vAssert(out.Level() == maxLevel && out.Degree() == 1, tag+"-output-at-the-requested-level")
	vAssert(out.Scale.Cmp(ct.Scale) == 0, tag+"-output-scale")
	want := vExpected(c, m, ct.Scale, tr)
	vAssertEqMod(vDecryptT(c, out), want, t, tag+"-output-decrypts-to-the-function-of-the-message")
}

func VerifH_C16_RefreshAndTransform() {
	for n := 1; n <= vMaxParties; n += 2 {
		c := vInit(n)
		f := vLinearF(c.Params)
		for _, level := range vLevels(c.Params) {
			tag := "n" + vItoa(n) + "-L" + vItoa(level)
			vTransformCase(c, n, level, nil, true, tag+"-refresh")
			if level == 1 && params1(c) > 1 {
				vTransformCaseOut(c, n, level, c.Params.MaxLevel()-1, nil, true, tag+"-refresh-to-a-level-below-the-maximum")
			}
			if n == vMaxParties || vTier() > 0 {
				for _, dec := range []bool{true, false} {
					for _, enc := range []bool{true, false} {
						ft := tag + "-transform"
						if dec {
							ft += "-decode"
						}
						if enc {
							ft += "-encode"
						}
						vTransformCase(c, n, level, &MaskedTransformFunc{Decode: dec, Func: f, Encode: enc}, false, ft)
					}
				}
			}
		}
	}
	vCover("C16-refresh-transform-reached")
}

func params1(c *vCtx) int { return c.Params.MaxLevel() }
