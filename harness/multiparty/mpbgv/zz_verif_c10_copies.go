package mpbgv

import (
	"github.com/tuneinsight/lattigo/v6/multiparty"
	"github.com/tuneinsight/lattigo/v6/schemes/bgv"
)

// C10 (mpbgv protocols): a shallow copy of EncToShare / ShareToEnc / MaskedTransform (Refresh) is a full replacement
// of the original (a party running on the copy produces shares the others can aggregate and the protocol still
// returns the message), an operation on the copy leaves the original unchanged and writes nothing that is reachable
// from the original (write sets, engine heap), and the original still works afterwards.

func VerifH_C10_MPBGVProtocolCopies() {
	n := 2
	c := vInit(n)
	params := c.Params
	t := params.PlaintextModulus()
	level, maxLevel := params.MaxLevel(), params.MaxLevel()
	m := vAtoms("m", vMessage, t, params.N())
	ct := vEncryptT(c, m, level)
	ct.Scale = params.NewScale(3)
	crp := c.Parties[0].MTP.SampleCRP(maxLevel, c.CRS)

	// refresh: party 0 on the original protocol object, party 1 on a shallow copy OF THE SAME object
	orig := &c.Parties[0].RFP
	cpy := orig.ShallowCopy()
	s0, s1 := orig.AllocateShare(level, maxLevel), cpy.AllocateShare(level, maxLevel)
	vAssert(orig.GenShare(c.Parties[0].Sk, ct, crp, &s0) == nil, "refresh-GenShare-on-the-original")
	snap := vSnapshot(orig)
	vWritesBegin()
	vAssert(cpy.GenShare(c.Parties[1].Sk, ct, crp, &s1) == nil, "refresh-GenShare-on-the-ShallowCopy")
	ws := vWritesEnd()
	vAssertUnchanged(snap, "refresh-operation-on-the-copy-leaves-the-original-unchanged")
	vAssertNotWritten(ws, orig, "refresh-writes-of-the-copy-are-unreachable-from-the-original")
	vAssert(orig.AggregateShares(s0, s1, &s0) == nil, "refresh-share-of-the-copy-aggregates-with-a-share-of-the-original")
	out := bgv.NewCiphertext(params, 1, maxLevel)
	out.Scale = ct.Scale
	vAssert(cpy.Finalize(ct, crp, s0, out) == nil, "refresh-Finalize-on-the-copy")
	vAssertEqMod(vDecryptT(c, out), m, t, "refresh-through-original-and-copy-returns-the-message")

	// encryption to shares / shares to encryption through copies
	e2s, s2e := &c.Parties[0].E2S, &c.Parties[0].S2E
	e2sC, s2eC := e2s.ShallowCopy(), s2e.ShallowCopy()
	sec := []multiparty.AdditiveShare{NewAdditiveShare(params), NewAdditiveShare(params)}
	pub := []multiparty.KeySwitchShare{e2s.AllocateShare(level), e2sC.AllocateShare(level)}
	e2s.GenShare(c.Parties[0].Sk, ct, &sec[0], &pub[0])
	snapE := vSnapshot(e2s)
	vWritesBegin()
	e2sC.GenShare(c.Parties[1].Sk, ct, &sec[1], &pub[1])
	wsE := vWritesEnd()
	vAssertUnchanged(snapE, "e2s-operation-on-the-copy-leaves-the-original-unchanged")
	vAssertNotWritten(wsE, e2s, "e2s-writes-of-the-copy-are-unreachable-from-the-original")
	vAssert(e2s.AggregateShares(pub[0], pub[1], &pub[0]) == nil, "e2s-aggregate")
	e2sC.GetShare(&sec[0], pub[0], ct, &sec[0])
	rT := params.RingT()
	sum := rT.NewPoly()
	rT.Add(sec[0].Value, sec[1].Value, sum)
	vAssertEqMod(sum.Coeffs[0], m, t, "e2s-through-original-and-copy-shares-sum-to-the-message")
	if vIsAlgebraic() {
		vAssert(vEverySlotHasClass(sec[1].Value.Coeffs[0], t, vUniform), "e2s-copy-draws-its-own-mask")
	}
	c0 := []multiparty.KeySwitchShare{s2e.AllocateShare(maxLevel), s2eC.AllocateShare(maxLevel)}
	vAssert(s2e.GenShare(c.Parties[0].Sk, crp, sec[0], &c0[0]) == nil, "s2e-GenShare-on-the-original")
	snapS := vSnapshot(s2e)
	vWritesBegin()
	vAssert(s2eC.GenShare(c.Parties[1].Sk, crp, sec[1], &c0[1]) == nil, "s2e-GenShare-on-the-ShallowCopy")
	wsS := vWritesEnd()
	vAssertUnchanged(snapS, "s2e-operation-on-the-copy-leaves-the-original-unchanged")
	vAssertNotWritten(wsS, s2e, "s2e-writes-of-the-copy-are-unreachable-from-the-original")
	vAssert(s2e.AggregateShares(c0[0], c0[1], &c0[0]) == nil, "s2e-aggregate")
	out2 := bgv.NewCiphertext(params, 1, maxLevel)
	vAssert(s2eC.GetEncryption(c0[0], crp, out2) == nil, "s2e-GetEncryption-on-the-copy")
	vAssertEqMod(vDecryptT(c, out2), m, t, "s2e-through-original-and-copy-re-encrypts-the-message")
	vCover("C10-mpbgv-copies-reached")
}
