package mpbgv

import (
	"github.com/tuneinsight/lattigo/v6/core/rlwe"
	"github.com/tuneinsight/lattigo/v6/ring"
	"github.com/tuneinsight/lattigo/v6/schemes/bgv"
	"github.com/tuneinsight/lattigo/v6/utils/sampling"
)

// Shared set-up of the mpbgv harnesses (algebraic slot model with the plaintext ring).

const vMaxParties = 3

type vParty struct {
	Sk  *rlwe.SecretKey
	E2S EncToShareProtocol
	S2E ShareToEncProtocol
	RFP RefreshProtocol
	MTP MaskedTransformProtocol
}

type vCtx struct {
	Params  bgv.Parameters
	Kgen    *rlwe.KeyGenerator
	Parties []*vParty
	SkSum   *rlwe.SecretKey
	Enc     *rlwe.Encryptor
	Dec     *rlwe.Decryptor
	Ecd     *bgv.Encoder
	CRS     *sampling.KeyedPRNG
}

func VerifSetup_Ctx() *vCtx {
	params, err := bgv.NewParametersFromLiteral(bgv.ParametersLiteral{LogN: 4, LogQ: []int{30, 30, 30}, LogP: []int{32}, PlaintextModulus: 97})
	if err != nil {
		panic(err)
	}
	c := &vCtx{Params: params, Kgen: rlwe.NewKeyGenerator(params), Ecd: bgv.NewEncoder(params)}
	noise := ring.DiscreteGaussian{Sigma: 8, Bound: 48}
	for p := 0; p < vMaxParties; p++ {
		e2s, err := NewEncToShareProtocol(params, noise)
		if err != nil {
			panic(err)
		}
		s2e, err := NewShareToEncProtocol(params, noise)
		if err != nil {
			panic(err)
		}
		rfp, err := NewRefreshProtocol(params, noise)
		if err != nil {
			panic(err)
		}
		mtp, err := NewMaskedTransformProtocol(params, params, noise)
		if err != nil {
			panic(err)
		}
		c.Parties = append(c.Parties, &vParty{Sk: rlwe.NewSecretKey(params), E2S: e2s, S2E: s2e, RFP: rfp, MTP: mtp})
	}
	c.SkSum = rlwe.NewSecretKey(params)
	c.Enc = rlwe.NewEncryptor(params, c.SkSum)
	c.Dec = rlwe.NewDecryptor(params, c.SkSum)
	c.CRS, _ = sampling.NewKeyedPRNG([]byte{'c', 'r', 's'})
	return c
}

func vInit(n int) *vCtx {
	vConfig("algebraic-samplers", "1")
	c := VerifSetup_Ctx()
	rQP := c.Params.RingQP()
	for i := 0; i < n; i++ {
		c.Kgen.GenSecretKey(c.Parties[i].Sk)
		rQP.Add(c.SkSum.Value, c.Parties[i].Sk.Value, c.SkSum.Value)
	}
	vPRNGKey(c.CRS, "crs")
	return c
}

// vEncryptT encrypts the RingT polynomial m (coefficients modulo t) under the ideal secret key at the given level.
func vEncryptT(c *vCtx, m []uint64, level int) *rlwe.Ciphertext {
	params := c.Params
	pT := params.RingT().NewPoly()
	copy(pT.Coeffs[0], m)
	pt := bgv.NewPlaintext(params, level)
	c.Ecd.RingT2Q(level, true, pT, pt.Value)
	params.RingQ().AtLevel(level).NTT(pt.Value, pt.Value)
	ct := bgv.NewCiphertext(params, 1, level)
	if err := c.Enc.Encrypt(pt, ct); err != nil {
		panic(err)
	}
	return ct
}

// vDecryptT decrypts under the ideal secret key and reduces modulo t (no decoding).
func vDecryptT(c *vCtx, ct *rlwe.Ciphertext) []uint64 {
	params := c.Params
	pt := bgv.NewPlaintext(params, ct.Level())
	c.Dec.Decrypt(ct, pt)
	rQ := params.RingQ().AtLevel(ct.Level())
	buf := rQ.NewPoly()
	rQ.INTT(pt.Value, buf)
	pT := params.RingT().NewPoly()
	c.Ecd.RingQ2T(ct.Level(), true, buf, pT)
	return pT.Coeffs[0]
}

func vLevels(params bgv.Parameters) []int {
	if params.MaxLevel() > 1 {
		return []int{params.MaxLevel(), 1}
	}
	return []int{params.MaxLevel()}
}

func vItoa(n int) string {
	if n == 0 {
		return "0"
	}
	s := ""
	for n > 0 {
		s = string(rune('0'+n%10)) + s
		n /= 10
	}
	return s
}
