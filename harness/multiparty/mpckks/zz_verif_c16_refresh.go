package mpckks

import (
	"math/big"

	"github.com/tuneinsight/lattigo/v6/core/rlwe"
	"github.com/tuneinsight/lattigo/v6/ring"
	"github.com/tuneinsight/lattigo/v6/schemes/ckks"
)

// C16 (approximate scheme, collective refresh / masked transform): the masks, and the masked plaintext, are brought
// from the scale of the input ciphertext to the default scale of the output parameters - the scale the refreshed
// ciphertext is labelled with - by the factor defaultScale/inputScale, for every mask value inside the protocol's
// log-bound and every input scale (equal to, below and above the default).  Word-level: the real
// applyTransformAndScale (identity transform) on symbolic big-integer masks.
// Outside: the FFT-based decode/encode around a user transform (multi-precision floating point), the big-integer
// share arithmetic modulo Q (PolyToBigintCentered / SetCoefficientsBigint over a whole ring element).

func VerifSetup_MLTP(logDefaultScale int) MaskedLinearTransformationProtocol {
	params, err := ckks.NewParametersFromLiteral(ckks.ParametersLiteral{LogN: 4, LogQ: []int{55, 45, 45}, LogP: []int{50}, LogDefaultScale: logDefaultScale})
	if err != nil {
		panic(err)
	}
	mltp, err := NewMaskedLinearTransformationProtocol(params, params, 128, ring.DiscreteGaussian{Sigma: 1 << 10, Bound: 6 * (1 << 10)})
	if err != nil {
		panic(err)
	}
	// only the scaling step is exercised: drop what the engine need not import
	return MaskedLinearTransformationProtocol{prec: mltp.prec, defaultScale: mltp.defaultScale}
}

func VerifH_C16_RefreshMaskScaling() {
	vConfig("backend", "int")
	const logDefault = 45
	mltp := VerifSetup_MLTP(logDefault)
	def := new(big.Int).Lsh(big.NewInt(1), logDefault)
	vAssert(mltp.defaultScale.Cmp(def) == 0, "protocol-default-scale-is-the-output-parameters-default-scale")
	bound := new(big.Int).Lsh(big.NewInt(1), 100)
	for _, logIn := range []int{45, 40, 50, 44} {
		tag := "in2^" + vItoa(logIn)
		in := new(big.Int).Lsh(big.NewInt(1), uint(logIn))
		md := rlwe.MetaData{}
		md.Scale = rlwe.NewScale(in)
		md.LogDimensions = ring.Dimensions{Rows: 0, Cols: 3}
		mask := []*big.Int{vBig("m0"), vBig("m1")}
		orig := make([]*big.Int, len(mask))
		for i := range mask {
			vAssume(vInRange(mask[i], new(big.Int).Neg(bound), bound))
			orig[i] = new(big.Int).Set(mask[i])
		}
		vAssert(mltp.applyTransformAndScale(nil, md, mask) == nil, tag+"-no-error")
		for i := range mask {
			// |mask·in - orig·default| < in  (truncated quotient)
			d := new(big.Int).Sub(new(big.Int).Mul(mask[i], in), new(big.Int).Mul(orig[i], def))
			vAssert(vInRange(d, new(big.Int).Neg(in), in), tag+"-mask-scaled-by-default-over-input-scale")
		}
	}
	vCover("C16-refresh-mask-scaling-reached")
}

// vInRange: lo < x < hi
func vInRange(x, lo, hi *big.Int) bool { return x.Cmp(lo) > 0 && x.Cmp(hi) < 0 }

func vItoa(n int) string {
	if n == 0 {
		return "0"
	}
	s := ""
	for n > 0 {
		s = string(rune('0'+n%10)) + s
		n /= 10
	}
	return s
}
