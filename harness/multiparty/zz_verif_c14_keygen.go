package multiparty

import (
	"github.com/tuneinsight/lattigo/v6/core/rlwe"
)

// C14: collective keys are keys of the ideal secret (the sum of the parties' secrets), whatever the order and grouping
// of the aggregation; parties reading the CRS with the same call sequence obtain identical reference polynomials.
// Real protocol code with all secrets, errors and CRS polynomials atoms.

func VerifH_C14_PublicKey() {
	for _, set := range []int{0, 1, 2} {
		for n := 1; n <= 3; n++ {
			c := vInit(set, n)
			tag := "set" + vItoa(set) + "-n" + vItoa(n)
			rQP := c.Params.RingQP()
			crp := make([]PublicKeyGenCRP, n)
			shares := make([]PublicKeyGenShare, n)
			for i := 0; i < n; i++ {
				p := c.Parties[i]
				crp[i] = p.CKG.SampleCRP(p.CRS)
				vAssertPolyQPEq(rQP, crp[i].Value, crp[0].Value, tag+"-every-party-reads-the-same-reference-polynomial")
				shares[i] = p.CKG.AllocateShare()
				p.CKG.GenShare(p.Sk, crp[i], &shares[i])
			}
			ckg := c.Parties[0].CKG
			// two aggregation orders / groupings
			agg1 := ckg.AllocateShare()
			agg1.Value.Copy(shares[0].Value)
			for i := 1; i < n; i++ {
				ckg.AggregateShares(agg1, shares[i], &agg1)
			}
			agg2 := ckg.AllocateShare()
			agg2.Value.Copy(shares[n-1].Value)
			for i := n - 2; i >= 0; i-- {
				ckg.AggregateShares(shares[i], agg2, &agg2)
			}
			vAssertPolyQPEq(rQP, agg1.Value, agg2.Value, tag+"-aggregate-independent-of-order")
			ckg.GenPublicKey(agg1, crp[0], c.Pk)
			// the collective key encrypts for the ideal secret
			level := c.Params.MaxLevel()
			rQ := c.Params.RingQ().AtLevel(level)
			pt := rlwe.NewPlaintext(c.Params, level)
			vFillAtoms(rQ, pt.Value, "m", vMessage)
			ct := rlwe.NewCiphertext(c.Params, 1, level)
			vAssert(c.EncPk.Encrypt(pt, ct) == nil, tag+"-encrypt-under-collective-key-no-error")
			vAssertNoiseFree(rQ, vDecrypt(c, c.Dec, ct), pt.Value, c.Params.NTTFlag(), 30, tag+"-collective-public-key-encrypts-for-the-sum-of-the-secrets")
			// the generated key owns its polynomials: reusing the aggregate afterwards leaves it as it was
			pk0 := c.Pk.CopyNew()
			agg1.Value.Q.Zero()
			crp[0].Value.Q.Zero()
			for k := range pk0.Value {
				vAssertPolyQPEq(rQP, c.Pk.Value[k], pk0.Value[k], tag+"-collective-public-key-independent-of-the-aggregate-and-the-reference-polynomial")
			}
		}
	}
	vCover("C14-cpk-reached")
}

func VerifH_C14_RelinearizationKey() {
	sets, ns := []int{0, 2}, []int{2}
	if vTier() > 0 {
		sets, ns = []int{0, 1, 2}, []int{1, 3}
	}
	for _, set := range sets {
		for _, n := range ns {
			c := vInit(set, n)
			tag := "set" + vItoa(set) + "-n" + vItoa(n)
			// set 2: no auxiliary modulus, primes of 7 and 14 bits, power-of-two digits of 4 bits: the RNS rows have
			// different digit counts (2 and 4)
			var evkp []rlwe.EvaluationKeyParameters
			if set == 2 {
				evkp = []rlwe.EvaluationKeyParameters{{BaseTwoDecomposition: vIntP(4)}}
			}
			eph := make([]*rlwe.SecretKey, n)
			r1 := make([]RelinearizationKeyGenShare, n)
			r2 := make([]RelinearizationKeyGenShare, n)
			crp := make([]RelinearizationKeyGenCRP, n)
			for i := 0; i < n; i++ {
				p := c.Parties[i]
				crp[i] = p.RKG.SampleCRP(p.CRS, evkp...)
				eph[i], r1[i], r2[i] = p.RKG.AllocateShare(evkp...)
				p.RKG.GenShareRoundOne(p.Sk, crp[i], eph[i], &r1[i])
			}
			rkg := c.Parties[0].RKG
			_, agg1, agg2 := rkg.AllocateShare(evkp...)
			for i := 0; i < n; i++ {
				if i == 0 {
					agg1.GadgetCiphertext = *r1[0].GadgetCiphertext.CopyNew()
				} else {
					rkg.AggregateShares(agg1, r1[i], &agg1)
				}
			}
			for i := 0; i < n; i++ {
				p := c.Parties[i]
				p.RKG.GenShareRoundTwo(eph[i], p.Sk, agg1, &r2[i])
			}
			for i := n - 1; i >= 0; i-- {
				if i == n-1 {
					agg2.GadgetCiphertext = *r2[n-1].GadgetCiphertext.CopyNew()
				} else {
					rkg.AggregateShares(r2[i], agg2, &agg2)
				}
			}
			rlk := rlwe.NewRelinearizationKey(c.Params, evkp...)
			rkg.GenRelinearizationKey(agg1, agg2, rlk)
			// functional check: relinearise a degree-2 ciphertext under the ideal secret
			eval := c.Eval.WithKey(rlwe.NewMemEvaluationKeySet(rlk))
			level := c.Params.MaxLevel()
			rQ := c.Params.RingQ().AtLevel(level)
			ct := vAtomCiphertext(c, 2, level, "c")
			want := vDecrypt(c, c.Dec, ct)
			out := rlwe.NewCiphertext(c.Params, 1, level)
			vAssert(eval.Relinearize(ct, out) == nil, tag+"-relinearize-with-collective-key-no-error")
			vAssertNoiseFree(rQ, vDecrypt(c, c.Dec, out), want, c.Params.NTTFlag(), 45, tag+"-collective-relinearization-key-relinearises-for-the-sum-of-the-secrets")
		}
	}
	vCover("C14-rkg-reached")
}

func vIntP(v int) *int { return &v }

// Collective Galois keys and generic evaluation keys: the aggregate of the shares must be a key of the ideal secret
// (checked by using it: automorphism / key switch of an arbitrary ciphertext under the ideal secret), for parameter
// sets with and without auxiliary modulus and with a power-of-two decomposition; mismatched shares are rejected.
func VerifH_C14_GaloisKey() {
	// (rotation by one; the conjugation / row swap -1, which is outside the subgroup generated by 5; their product)
	for ci, cs := range [][2]int{{0, 0}, {2, 0}, {0, 1}, {0, 2}} {
		set := cs[0]
		n := 2
		c := vInit(set, n)
		tag := "set" + vItoa(set) + "-n" + vItoa(n) + []string{"", "", "-conjugation", "-conjugation-times-rotation"}[ci]
		params := c.Params
		galEl := params.GaloisElement(1)
		switch cs[1] {
		case 1:
			galEl = params.GaloisElementOrderTwoOrthogonalSubgroup()
		case 2:
			galEl = params.GaloisElementOrderTwoOrthogonalSubgroup() * params.GaloisElement(3) & (params.RingQ().NthRoot() - 1)
		}
		var evkp []rlwe.EvaluationKeyParameters
		if params.MaxLevelP() < 0 {
			evkp = []rlwe.EvaluationKeyParameters{{BaseTwoDecomposition: vIntP(4)}}
		}
		shares := make([]GaloisKeyGenShare, n)
		crp := make([]GaloisKeyGenCRP, n)
		panicked := vPanics(func() {
			for i := 0; i < n; i++ {
				p := c.Parties[i]
				crp[i] = p.GKG.SampleCRP(p.CRS, evkp...)
				shares[i] = p.GKG.AllocateShare(evkp...)
				vAssert(p.GKG.GenShare(p.Sk, galEl, crp[i], &shares[i]) == nil, tag+"-GenShare-no-error")
			}
		})
		vAssert(!panicked, tag+"-Galois-key-share-generation-does-not-panic")
		if panicked {
			continue
		}
		gkg := c.Parties[0].GKG
		agg := gkg.AllocateShare(evkp...)
		vAssert(gkg.AggregateShares(shares[0], shares[1], &agg) == nil, tag+"-aggregate-no-error")
		agg2 := gkg.AllocateShare(evkp...)
		vAssert(gkg.AggregateShares(shares[1], shares[0], &agg2) == nil, tag+"-aggregate-no-error")
		gk := rlwe.NewGaloisKey(params, evkp...)
		vAssert(gkg.GenGaloisKey(agg, crp[0], gk) == nil, tag+"-GenGaloisKey-no-error")
		// mismatched Galois elements are rejected
		other := gkg.AllocateShare(evkp...)
		other.GaloisElement = params.GaloisElement(2)
		vAssert(gkg.AggregateShares(shares[0], other, &agg2) != nil, tag+"-shares-for-different-Galois-elements-are-rejected")
		// shares generated at different levels are rejected (an error, not a panic, not a silent combination)
		if params.MaxLevelP() >= 0 && params.MaxLevel() > 0 && ci == 0 {
			low := rlwe.EvaluationKeyParameters{LevelQ: vIntP(params.MaxLevel() - 1), LevelP: vIntP(params.MaxLevelP())}
			for oi, order := range [][2]bool{{false, true}, {true, false}} {
				a, b := gkg.AllocateShare(), gkg.AllocateShare()
				if order[0] {
					a = gkg.AllocateShare(low)
				}
				if order[1] {
					b = gkg.AllocateShare(low)
				}
				a.GaloisElement, b.GaloisElement = galEl, galEl
				dst := gkg.AllocateShare()
				if order[0] {
					dst = gkg.AllocateShare(low)
				}
				var err error
				pk := vPanics(func() { err = gkg.AggregateShares(a, b, &dst) })
				vAssert(!pk, tag+"-shares-at-different-levels-order"+vItoa(oi)+"-do-not-panic")
				vAssert(pk || err != nil, tag+"-shares-at-different-levels-order"+vItoa(oi)+"-are-rejected")
			}
		}
		// functional check
		eval := c.Eval.WithKey(rlwe.NewMemEvaluationKeySet(nil, gk))
		level := params.MaxLevel()
		rQ := params.RingQ().AtLevel(level)
		ct := vAtomCiphertext(c, 1, level, "c")
		ph := vDecrypt(c, c.Dec, ct)
		want := rQ.NewPoly()
		rQ.AutomorphismNTT(ph, galEl, want)
		out := rlwe.NewCiphertext(params, 1, level)
		vAssert(eval.Automorphism(ct, galEl, out) == nil, tag+"-automorphism-with-collective-key-no-error")
		vAssertNoiseFree(rQ, vDecrypt(c, c.Dec, out), want, true, 45, tag+"-collective-Galois-key-rotates-for-the-sum-of-the-secrets")
	}
	vCover("C14-gkg-reached")
}
