package multiparty

import (
	"github.com/tuneinsight/lattigo/v6/core/rlwe"
	"github.com/tuneinsight/lattigo/v6/ring"
)

// C10 (multiparty layer): a shallow copy of a protocol has the configuration of the original: the declared noise
// distribution AND the distribution its sampler actually draws from (fields `noise` / `xe` compared structurally
// through the engine heap; natively by reflection), and it produces shares the original can aggregate.

func VerifH_C10_ProtocolCopies() {
	vConfig("algebraic-samplers", "1")
	c := VerifSetup_Ctx(0, vIsAlgebraic())
	params := c.Params
	flood := ring.DiscreteGaussian{Sigma: 1 << 16, Bound: 6 * (1 << 16)}
	cks, err := NewKeySwitchProtocol(params, flood)
	vAssert(err == nil, "KeySwitchProtocol-created")
	cksC := cks.ShallowCopy()
	cksCC := cksC.ShallowCopy()
	vAssertSameField(&cks, &cksC, "noise", "KeySwitchProtocol-ShallowCopy-keeps-the-declared-noise")
	vAssertSameField(cks.noiseSampler, cksC.noiseSampler, "xe", "KeySwitchProtocol-ShallowCopy-samples-from-the-configured-noise-distribution")
	vAssertSameField(cks.noiseSampler, cksCC.noiseSampler, "xe", "KeySwitchProtocol-copy-of-copy-samples-from-the-configured-noise-distribution")
	pcks, err := NewPublicKeySwitchProtocol(params, flood)
	vAssert(err == nil, "PublicKeySwitchProtocol-created")
	pcksC := pcks.ShallowCopy()
	vAssertSameField(&pcks, &pcksC, "noise", "PublicKeySwitchProtocol-ShallowCopy-keeps-the-declared-noise")
	vAssertSameField(pcks.noiseSampler, pcksC.noiseSampler, "xe", "PublicKeySwitchProtocol-ShallowCopy-samples-from-the-configured-noise-distribution")
	// key-generation protocols: the copy's Gaussian sampler is the parameters' error distribution, as the original's
	ckg := NewPublicKeyGenProtocol(params)
	ckgC := ckg.ShallowCopy()
	vAssertSameField(ckg.gaussianSamplerQ, ckgC.gaussianSamplerQ, "xe", "PublicKeyGenProtocol-ShallowCopy-samples-from-the-same-distribution")
	vAssertSameField(ckg.gaussianSamplerQ, ckgC.gaussianSamplerQ, "montgomery", "PublicKeyGenProtocol-ShallowCopy-same-sampler-domain")
	// behaviour: a share generated on the copy aggregates with one of the original and switches the key
	for _, p := range c.Parties[:2] {
		c.Kgen.GenSecretKey(p.Sk)
	}
	level := params.MaxLevelQ()
	ct := rlwe.NewCiphertext(params, 1, level)
	for i := range ct.Value {
		for k, s := range params.RingQ().SubRings[:level+1] {
			copy(ct.Value[i].Coeffs[k], vAtoms("c"+vItoa(i)+"."+vItoa(k), vUniform, s.Modulus, params.N()))
		}
	}
	ct.IsNTT = true
	zero := rlwe.NewSecretKey(params)
	s0, s1, agg := cks.AllocateShare(level), cksC.AllocateShare(level), cks.AllocateShare(level)
	cks.GenShare(c.Parties[0].Sk, zero, ct, &s0)
	cksC.GenShare(c.Parties[1].Sk, zero, ct, &s1)
	vAssert(cks.AggregateShares(s0, s1, &agg) == nil, "share-of-the-copy-aggregates-with-a-share-of-the-original")
	out := rlwe.NewCiphertext(params, 1, level)
	cksC.KeySwitch(ct, agg, out)
	// out decrypts under the zero key to the phase of ct under s0+s1
	r := params.RingQ().AtLevel(level)
	want := r.NewPoly()
	tmp := r.NewPoly()
	r.MulCoeffsMontgomery(ct.Value[1], c.Parties[0].Sk.Value.Q, want)
	r.MulCoeffsMontgomery(ct.Value[1], c.Parties[1].Sk.Value.Q, tmp)
	r.Add(want, tmp, want)
	r.Add(want, ct.Value[0], want)
	vAssertNoiseFree(r, out.Value[0], want, true, 60, "key-switch-through-original-and-copy-preserves-the-phase")
	vCover("C10-protocol-copies-reached")
}
