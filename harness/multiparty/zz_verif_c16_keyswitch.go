package multiparty

import (
	"github.com/tuneinsight/lattigo/v6/core/rlwe"
	"github.com/tuneinsight/lattigo/v6/ring"
)

// C16 (collective key switching): KeySwitchProtocol (to a secret-shared key, including the zero key = decryption)
// and PublicKeySwitchProtocol turn a ciphertext under the ideal secret into one under the target key that decrypts to
// the same message, for any level and aggregation order; every share carries a fresh smudging error.
// Encryption-to-shares, refresh and masked transform are outside (big-integer masks, encoders).

func VerifH_C16_KeySwitch() {
	for _, set := range []int{0, 1} {
		for n := 1; n <= 3; n += 2 {
			c := vInit(set, n)
			params := c.Params
			rQP := params.RingQP()
			for _, zeroTarget := range []bool{false, true} {
				// target secrets: fresh keys, or the zero key (collective decryption)
				c.SkOut.Value.Q.Zero()
				if c.SkOut.Value.P.Level() >= 0 {
					c.SkOut.Value.P.Zero()
				}
				for i := 0; i < n; i++ {
					p := c.Parties[i]
					if zeroTarget {
						p.SkOut.Value.Q.Zero()
					} else {
						c.Kgen.GenSecretKey(p.SkOut)
					}
					rQP.Add(c.SkOut.Value, p.SkOut.Value, c.SkOut.Value)
				}
				for level := params.MaxLevel(); level >= 0; level -= params.MaxLevel() + 1 - 1 {
					tag := "set" + vItoa(set) + "-n" + vItoa(n) + "-L" + vItoa(level)
					if zeroTarget {
						tag += "-zero-target"
					}
					rQ := params.RingQ().AtLevel(level)
					ct := vAtomCiphertext(c, 1, level, "c")
					want := vDecrypt(c, c.Dec, ct)
					shares := make([]KeySwitchShare, n)
					for i := 0; i < n; i++ {
						p := c.Parties[i]
						shares[i] = p.CKS.AllocateShare(level)
						p.CKS.GenShare(p.Sk, p.SkOut, ct, &shares[i])
						if vIsAlgebraic() {
							ok := true
							for k, s := range rQ.SubRings[:level+1] {
								ok = ok && vEverySlotHasClass(shares[i].Value.Coeffs[k], s.Modulus, vError)
							}
							vAssert(ok, tag+"-every-share-carries-a-smudging-error")
						}
					}
					cks := c.Parties[0].CKS
					agg := cks.AllocateShare(level)
					agg.Value.Copy(shares[0].Value)
					for i := 1; i < n; i++ {
						vAssert(cks.AggregateShares(agg, shares[i], &agg) == nil, tag+"-aggregate-no-error")
					}
					agg2 := cks.AllocateShare(level)
					agg2.Value.Copy(shares[n-1].Value)
					for i := n - 2; i >= 0; i-- {
						vAssert(cks.AggregateShares(shares[i], agg2, &agg2) == nil, tag+"-aggregate-no-error")
					}
					vAssertPolyEq(rQ, agg.Value, agg2.Value, tag+"-aggregate-independent-of-order")
					// (the input carries non-default plaintext metadata: the receiver must take all of it)
					ct.Scale = rlwe.NewScale(11)
					ct.IsBatched = true
					ct.LogDimensions.Cols = 2
					out := rlwe.NewCiphertext(params, 1, level)
					cks.KeySwitch(ct, agg, out)
					vAssert(out.Scale.Cmp(ct.Scale) == 0 && out.IsBatched == ct.IsBatched && out.LogDimensions == ct.LogDimensions && out.IsNTT == ct.IsNTT, tag+"-collective-key-switch-hands-over-the-metadata")
					vAssertNoiseFree(rQ, vDecrypt(c, c.DecOut, out), want, params.NTTFlag(), 30, tag+"-collective-key-switch-preserves-the-message")
					// a receiver allocated at another level is brought to the level of the input
					if level < params.MaxLevel() {
						big := rlwe.NewCiphertext(params, 1, params.MaxLevel())
						cks.KeySwitch(ct, agg, big)
						vAssert(big.Level() == level, tag+"-receiver-takes-the-level-of-the-input")
						if big.Level() == level {
							vAssertNoiseFree(rQ, vDecrypt(c, c.DecOut, big), want, params.NTTFlag(), 30, tag+"-collective-key-switch-into-a-larger-receiver-preserves-the-message")
						}
					}
					if level == 0 {
						break
					}
				}
			}
		}
	}
	vCover("C16-cks-reached")
}

func VerifH_C16_PublicKeySwitch() {
	for _, set := range []int{0, 1} {
		n := 2
		c := vInit(set, n)
		params := c.Params
		// target: a public key of an independent secret
		c.Kgen.GenSecretKey(c.SkOut)
		c.Kgen.GenPublicKey(c.SkOut, c.Pk)
		for _, level := range []int{params.MaxLevel(), 0} {
			tag := "set" + vItoa(set) + "-L" + vItoa(level)
			rQ := params.RingQ().AtLevel(level)
			ct := vAtomCiphertext(c, 1, level, "c")
			want := vDecrypt(c, c.Dec, ct)
			shares := make([]PublicKeySwitchShare, n)
			for i := 0; i < n; i++ {
				p := c.Parties[i]
				shares[i] = p.PCKS.AllocateShare(level)
				p.PCKS.GenShare(p.Sk, c.Pk, ct, &shares[i])
			}
			pcks := c.Parties[0].PCKS
			agg := pcks.AllocateShare(level)
			vAssert(pcks.AggregateShares(shares[0], shares[1], &agg) == nil, tag+"-aggregate-no-error")
			ct.Scale = rlwe.NewScale(11)
			ct.IsBatched = true
			ct.LogDimensions.Cols = 2
			out := rlwe.NewCiphertext(params, 1, level)
			pcks.KeySwitch(ct, agg, out)
			vAssert(out.Scale.Cmp(ct.Scale) == 0 && out.IsBatched == ct.IsBatched && out.LogDimensions == ct.LogDimensions && out.IsNTT == ct.IsNTT, tag+"-public-key-switch-hands-over-the-metadata")
			vAssertNoiseFree(rQ, vDecrypt(c, c.DecOut, out), want, params.NTTFlag(), 30, tag+"-public-key-switch-preserves-the-message")
		}
	}
	vCover("C16-pcks-reached")
}

// Every share carries the requested smudging noise: the sampler of the protocol - and of its shallow copies, which
// are what concurrent parties use - draws from the distribution derived from the requested flooding parameter
// (sigma_out^2 = sigma_fresh^2 + sigma_flood^2 for the secret-key switch), never from a smaller one.
func VerifH_C16_SmudgingNoiseConfigured() {
	c := VerifSetup_Ctx(0, vIsAlgebraic())
	params := c.Params
	flood := ring.DiscreteGaussian{Sigma: 1 << 20, Bound: 6 * (1 << 20)}
	cks, err := NewKeySwitchProtocol(params, flood)
	vAssert(err == nil, "KeySwitchProtocol-created")
	g, ok := cks.noise.(ring.DiscreteGaussian)
	vAssert(ok && g.Sigma >= flood.Sigma && g.Bound >= flood.Bound, "KeySwitchProtocol-declared-noise-at-least-the-requested-flooding")
	ref := ring.NewGaussianSampler(c.Parties[0].CRS, params.RingQ(), g, false)
	cp := cks.ShallowCopy()
	cpp := cp.ShallowCopy()
	vAssertSameField(ref, cks.noiseSampler, "xe", "KeySwitchProtocol-sampler-draws-from-the-declared-noise")
	vAssertSameField(ref, cp.noiseSampler, "xe", "KeySwitchProtocol-ShallowCopy-sampler-draws-from-the-declared-noise")
	vAssertSameField(ref, cpp.noiseSampler, "xe", "KeySwitchProtocol-copy-of-copy-sampler-draws-from-the-declared-noise")
	pcks, err := NewPublicKeySwitchProtocol(params, flood)
	vAssert(err == nil, "PublicKeySwitchProtocol-created")
	refP := ring.NewGaussianSampler(c.Parties[0].CRS, params.RingQ(), flood, false)
	pcp := pcks.ShallowCopy()
	vAssertSameField(refP, pcks.noiseSampler, "xe", "PublicKeySwitchProtocol-sampler-draws-from-the-requested-noise")
	vAssertSameField(refP, pcp.noiseSampler, "xe", "PublicKeySwitchProtocol-ShallowCopy-sampler-draws-from-the-requested-noise")
}
