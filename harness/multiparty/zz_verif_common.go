package multiparty

import (
	"math/big"

	"github.com/tuneinsight/lattigo/v6/core/rlwe"
	"github.com/tuneinsight/lattigo/v6/ring"
	"github.com/tuneinsight/lattigo/v6/ring/ringqp"
	"github.com/tuneinsight/lattigo/v6/utils/sampling"
)

// Shared helpers of the multiparty harnesses (algebraic slot model).

const vMaxParties = 4

type vParty struct {
	Sk    *rlwe.SecretKey
	CRS   *sampling.KeyedPRNG
	CKG   PublicKeyGenProtocol
	RKG   RelinearizationKeyGenProtocol
	GKG   GaloisKeyGenProtocol
	EKG   EvaluationKeyGenProtocol
	CKS   KeySwitchProtocol
	PCKS  PublicKeySwitchProtocol
	SkOut *rlwe.SecretKey
}

type vCtx struct {
	Params  rlwe.Parameters
	Kgen    *rlwe.KeyGenerator
	Parties []*vParty
	SkSum   *rlwe.SecretKey
	SkOut   *rlwe.SecretKey
	Pk      *rlwe.PublicKey
	EncPk   *rlwe.Encryptor
	Dec     *rlwe.Decryptor
	DecOut  *rlwe.Decryptor
	Eval    *rlwe.Evaluator
}

var vParamSets = []rlwe.ParametersLiteral{
	{LogN: 4, Q: []uint64{97, 193}, P: []uint64{257}, NTTFlag: true},
	{LogN: 4, Q: []uint64{97, 12289, 193}, P: []uint64{257, 769}, NTTFlag: true},
	{LogN: 4, Q: []uint64{97, 12289}, NTTFlag: true}, // 7-bit and 14-bit primes: different power-of-two digit counts
}
var vNativeParamSets = []rlwe.ParametersLiteral{
	{LogN: 4, LogQ: []int{45, 35}, LogP: []int{40}, NTTFlag: true},
	{LogN: 4, LogQ: []int{45, 35, 35}, LogP: []int{40, 40}, NTTFlag: true},
	{LogN: 4, LogQ: []int{45, 35}, NTTFlag: true},
}

func VerifSetup_Ctx(i int, algebraic bool) *vCtx {
	lit := vNativeParamSets[i]
	if algebraic {
		lit = vParamSets[i]
	}
	params, err := rlwe.NewParametersFromLiteral(lit)
	if err != nil {
		panic(err)
	}
	c := &vCtx{Params: params, Kgen: rlwe.NewKeyGenerator(params)}
	for p := 0; p < vMaxParties; p++ {
		crs, _ := sampling.NewKeyedPRNG([]byte{'c', 'r', 's'})
		cks, err := NewKeySwitchProtocol(params, ring.DiscreteGaussian{Sigma: 8, Bound: 48})
		if err != nil {
			panic(err)
		}
		pcks, err := NewPublicKeySwitchProtocol(params, ring.DiscreteGaussian{Sigma: 8, Bound: 48})
		if err != nil {
			panic(err)
		}
		c.Parties = append(c.Parties, &vParty{Sk: rlwe.NewSecretKey(params), CRS: crs,
			CKG: NewPublicKeyGenProtocol(params), RKG: NewRelinearizationKeyGenProtocol(params),
			GKG: NewGaloisKeyGenProtocol(params), EKG: NewEvaluationKeyGenProtocol(params),
			CKS: cks, PCKS: pcks, SkOut: rlwe.NewSecretKey(params)})
	}
	c.SkSum = rlwe.NewSecretKey(params)
	c.SkOut = rlwe.NewSecretKey(params)
	c.Pk = rlwe.NewPublicKey(params)
	c.EncPk = rlwe.NewEncryptor(params, c.Pk)
	c.Dec = rlwe.NewDecryptor(params, c.SkSum)
	c.DecOut = rlwe.NewDecryptor(params, c.SkOut)
	c.Eval = rlwe.NewEvaluator(params, nil)
	return c
}

// vInit generates the parties' secret keys (real key generator) and the ideal secret key = their sum.
func vInit(set, n int) *vCtx {
	vConfig("algebraic-samplers", "1")
	c := VerifSetup_Ctx(set, vIsAlgebraic())
	rQP := c.Params.RingQP()
	for i := 0; i < n; i++ {
		c.Kgen.GenSecretKey(c.Parties[i].Sk)
		vPRNGKey(c.Parties[i].CRS, "crs")
		rQP.Add(c.SkSum.Value, c.Parties[i].Sk.Value, c.SkSum.Value)
	}
	return c
}

func vLimbName(name string, k int) string { return name + "." + string(rune('0'+k)) }

func vFillAtoms(r *ring.Ring, p ring.Poly, name string, class int) {
	for k, s := range r.SubRings[:r.Level()+1] {
		copy(p.Coeffs[k], vAtoms(vLimbName(name, k), class, s.Modulus, r.N()))
	}
}

func vAtomCiphertext(c *vCtx, degree, level int, name string) *rlwe.Ciphertext {
	ct := rlwe.NewCiphertext(c.Params, degree, level)
	r := c.Params.RingQ().AtLevel(level)
	for i := range ct.Value {
		vFillAtoms(r, ct.Value[i], name+string(rune('0'+i)), vUniform)
	}
	ct.IsNTT = c.Params.NTTFlag()
	return ct
}

func vDecrypt(c *vCtx, d *rlwe.Decryptor, ct *rlwe.Ciphertext) ring.Poly {
	pt := rlwe.NewPlaintext(c.Params, ct.Level())
	d.Decrypt(ct, pt)
	return pt.Value
}

func vAssertPolyEq(r *ring.Ring, a, b ring.Poly, id string) {
	for k, s := range r.SubRings[:r.Level()+1] {
		vAssertEqMod(a.Coeffs[k], b.Coeffs[k], s.Modulus, id)
	}
}

func vAssertPolyQPEq(r *ringqp.Ring, a, b ringqp.Poly, id string) {
	vAssertPolyEq(r.RingQ, a.Q, b.Q, id)
	if r.RingP != nil {
		vAssertPolyEq(r.RingP, a.P, b.P, id)
	}
}

func vAssertNoiseFree(r *ring.Ring, a, b ring.Poly, isNTT bool, logBound int, id string) {
	if vIsAlgebraic() {
		for k, s := range r.SubRings[:r.Level()+1] {
			vAssertNoiseFreeMod(a.Coeffs[k], b.Coeffs[k], s.Modulus, id)
		}
		return
	}
	d := r.NewPoly()
	r.Sub(a, b, d)
	if isNTT {
		r.INTT(d, d)
	}
	coeffs := make([]*big.Int, r.N())
	for i := range coeffs {
		coeffs[i] = new(big.Int)
	}
	r.PolyToBigintCentered(d, 1, coeffs)
	bound := new(big.Int).Lsh(big.NewInt(1), uint(logBound))
	ok := true
	for _, c := range coeffs {
		if c.CmpAbs(bound) >= 0 {
			ok = false
		}
	}
	vAssert(ok, id)
}

func vItoa(n int) string {
	if n == 0 {
		return "0"
	}
	s := ""
	for n > 0 {
		s = string(rune('0'+n%10)) + s
		n /= 10
	}
	return s
}
