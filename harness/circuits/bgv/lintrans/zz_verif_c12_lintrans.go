package lintrans

import (
	"github.com/tuneinsight/lattigo/v6/core/rlwe"
	"github.com/tuneinsight/lattigo/v6/schemes/bgv"
)

func vLinTransCase(c *vCtx, idx []int, ratio, ltLevel, ctLevel int, tag string) {
	params := c.Params
	t := params.PlaintextModulus()
	cols := params.MaxSlots() >> 1
	diags := map[int][]uint64{}
	for _, d := range idx {
		diags[d] = vDiag(d, cols, t)
	}
	ltp := Parameters{
		DiagonalsIndexList:        idx,
		LevelQ:                    ltLevel,
		LevelP:                    params.MaxLevelP(),
		Scale:                     params.NewScale(5),
		LogDimensions:             params.LogMaxDimensions(),
		LogBabyStepGiantStepRatio: ratio,
	}
	lt := NewLinearTransformation(params, ltp)
	vAssert(Encode(c.Ecd, Diagonals[uint64](diags), lt) == nil, tag+"-Encode-no-error")
	gks := c.Kgen.GenGaloisKeysNew(lt.GaloisElements(params), c.Sk)
	eval := NewEvaluator(bgv.NewEvaluator(params, rlwe.NewMemEvaluationKeySet(nil, gks...)))
	ct := vAtomCiphertext(c, ctLevel, "c", 3)
	lvl := ctLevel
	if ltLevel < lvl {
		lvl = ltLevel
	}
	// the output object held other data before: nothing of it may survive
	out := vAtomCiphertext(c, lvl, "junk", 9)
	inScale, inMeta := ct.Scale, ct.MetaData
	vAssert(eval.Evaluate(ct, lt, out) == nil, tag+"-advertised-Galois-keys-suffice-and-Evaluate-succeeds")
	vAssert(ct.Scale.Cmp(inScale) == 0 && ct.MetaData == inMeta && out.MetaData != ct.MetaData, tag+"-input-keeps-its-scale-and-the-output-has-its-own-metadata")
	r := params.RingQ().AtLevel(lvl)
	phase := vPhase(c, ct)
	phase.Resize(lvl)
	want := vExpected(c, lt, phase, lvl)
	vCheckEncodedDiagonals(c, lt, diags, tag)
	vAssertNoiseFree(r, vPhase(c, out), want, 42, tag+"-phase-is-the-sum-of-diagonal-times-rotated-input")
	vAssert(out.Level() == lvl, tag+"-output-level")
	vAssert(out.Scale.Uint64()%t == 15%t, tag+"-output-scale-is-the-product-of-scales")
	// a receiver allocated above the level of the result is brought down to it
	if lvl < params.MaxLevel() {
		big := vAtomCiphertext(c, params.MaxLevel(), "junk2", 9)
		vAssert(eval.Evaluate(ct, lt, big) == nil, tag+"-Evaluate-into-a-larger-receiver-succeeds")
		vAssert(big.Level() == lvl, tag+"-larger-receiver-takes-the-output-level")
		if big.Level() == lvl {
			vAssertNoiseFree(r, vPhase(c, big), want, 42, tag+"-larger-receiver-holds-the-sum-of-diagonal-times-rotated-input")
		}
	}
}

func VerifH_C12_LinearTransformations() {
	vConfig("algebraic-samplers", "1")
	c := VerifSetup_Ctx(vIsAlgebraic())
	c.Kgen.GenSecretKey(c.Sk)
	maxL := c.Params.MaxLevel()
	// (the last two sets have no diagonal in the first giant-step block [0, N1) of the baby-step giant-step split)
	sets := [][]int{{0}, {1}, {-1}, {-3, -1, 0, 2, 4}, {0, 1, 2, 3, 4, 5, 6, 7}, {-7, 7}, {-3, -2, -1}, {6, 7}}
	for si, idx := range sets {
		for _, ratio := range []int{-1, 0, 1, 2} {
			if vTier() == 0 && si >= 4 && ratio == 0 {
				continue
			}
			tag := "set" + vItoa(si) + "-ratio" + vItoa(ratio)
			vLinTransCase(c, idx, ratio, maxL, maxL, tag+"-maxlevel")
			if si == 3 {
				vLinTransCase(c, idx, ratio, maxL-1, maxL, tag+"-encoded-below-max-level")
				vLinTransCase(c, idx, ratio, maxL, maxL-1, tag+"-ciphertext-below-max-level")
			}
		}
	}
	vManyAndSequential(c)
	vManyMixedLevels(c)
	vLowerLevelP()
	vDenseLargePrimes()
	vCover("C12-lintrans-reached")
}

func vNewLT(c *vCtx, idx []int, ratio int) (LinearTransformation, map[int][]uint64) {
	return vNewLTAt(c, idx, ratio, c.Params.MaxLevel())
}

func vNewLTAt(c *vCtx, idx []int, ratio, levelQ int) (LinearTransformation, map[int][]uint64) {
	params := c.Params
	cols := params.MaxSlots() >> 1
	diags := map[int][]uint64{}
	for _, d := range idx {
		diags[d] = vDiag(d+len(idx), cols, params.PlaintextModulus())
	}
	lt := NewLinearTransformation(params, Parameters{
		DiagonalsIndexList:        idx,
		LevelQ:                    levelQ,
		LevelP:                    params.MaxLevelP(),
		Scale:                     params.NewScale(5),
		LogDimensions:             params.LogMaxDimensions(),
		LogBabyStepGiantStepRatio: ratio,
	})
	if err := Encode(c.Ecd, Diagonals[uint64](diags), lt); err != nil {
		panic(err)
	}
	return lt, diags
}

// many-on-one-input equals the single evaluations; sequential evaluation composes
func vManyAndSequential(c *vCtx) {
	params := c.Params
	t := params.PlaintextModulus()
	level := params.MaxLevel()
	r := params.RingQ().AtLevel(level)
	lt1, d1 := vNewLT(c, []int{0, 1, 3}, 1)
	lt2, d2 := vNewLT(c, []int{-1, 2}, -1)
	vCheckEncodedDiagonals(c, lt1, d1, "many-lt1")
	vCheckEncodedDiagonals(c, lt2, d2, "many-lt2")
	gals := append(lt1.GaloisElements(params), lt2.GaloisElements(params)...)
	gks := c.Kgen.GenGaloisKeysNew(gals, c.Sk)
	eval := NewEvaluator(bgv.NewEvaluator(params, rlwe.NewMemEvaluationKeySet(nil, gks...)))
	ct := vAtomCiphertext(c, level, "m", 3)
	phase := vPhase(c, ct)
	outs, err := eval.EvaluateManyNew(ct, []LinearTransformation{lt1, lt2})
	vAssert(err == nil && len(outs) == 2, "EvaluateMany-no-error")
	if err == nil && len(outs) == 2 {
		vAssertNoiseFree(r, vPhase(c, outs[0]), vExpected(c, lt1, phase, level), 42, "EvaluateMany-first-output-is-the-first-transformation")
		vAssertNoiseFree(r, vPhase(c, outs[1]), vExpected(c, lt2, phase, level), 42, "EvaluateMany-second-output-is-the-second-transformation")
		vAssert(outs[0].Scale.Uint64()%t == 15%t && outs[1].Scale.Uint64()%t == 15%t, "EvaluateMany-output-scales")
	}
	// two baby-step giant-step transformations with different diagonal sets on one input (the second needs baby-step
	// rotations the first did not produce)
	lt3, d3 := vNewLT(c, []int{3, 5, 6}, 1) // baby steps 1, 2, 3 (N1 = 4) after lt1 (baby steps 0, 1, giant step 2)
	vCheckEncodedDiagonals(c, lt3, d3, "many-lt3")
	gks3 := c.Kgen.GenGaloisKeysNew(append(lt1.GaloisElements(params), lt3.GaloisElements(params)...), c.Sk)
	eval3 := NewEvaluator(bgv.NewEvaluator(params, rlwe.NewMemEvaluationKeySet(nil, gks3...)))
	outs3, err := eval3.EvaluateManyNew(ct, []LinearTransformation{lt1, lt3})
	vAssert(err == nil && len(outs3) == 2, "EvaluateMany-two-BSGS-no-error")
	if err == nil && len(outs3) == 2 {
		vAssertNoiseFree(r, vPhase(c, outs3[0]), vExpected(c, lt1, phase, level), 42, "EvaluateMany-two-BSGS-first-output-is-the-first-transformation")
		vAssertNoiseFree(r, vPhase(c, outs3[1]), vExpected(c, lt3, phase, level), 42, "EvaluateMany-two-BSGS-second-output-is-the-second-transformation")
	}
	// sequential = evaluate, rescale, evaluate, rescale (the documented circuit), word for word
	seq := bgv.NewCiphertext(params, 1, level)
	vAssert(eval.EvaluateSequential(ct, []LinearTransformation{lt1, lt2}, seq) == nil, "EvaluateSequential-no-error")
	a := bgv.NewCiphertext(params, 1, level)
	vAssert(eval.Evaluate(ct, lt1, a) == nil, "EvaluateSequential-reference-step-1")
	vAssert(eval.Rescale(a, a) == nil, "EvaluateSequential-reference-rescale-1")
	b := bgv.NewCiphertext(params, 1, a.Level())
	vAssert(eval.Evaluate(a, lt2, b) == nil, "EvaluateSequential-reference-step-2")
	vAssert(eval.Rescale(b, b) == nil, "EvaluateSequential-reference-rescale-2")
	vAssert(seq.Level() == b.Level() && seq.Scale.Cmp(b.Scale) == 0, "EvaluateSequential-level-and-scale-of-the-composition")
	rs := params.RingQ().AtLevel(b.Level())
	if seq.Level() == b.Level() {
		vAssertNoiseFree(rs, vPhase(c, seq), vPhase(c, b), 44, "EvaluateSequential-is-the-composition")
	}
}

// many-on-one-input with transformations encoded at different levels (the first one lower than a later one, and the
// other way round): every output is its own transformation of the input, at the level of that transformation
func vManyMixedLevels(c *vCtx) {
	params := c.Params
	maxL := params.MaxLevel()
	for oi, order := range [][2]int{{maxL - 1, maxL}, {maxL, maxL - 1}} {
		for _, ratio := range []int{-1, 1} {
			tag := "EvaluateMany-mixed-levels-order" + vItoa(oi) + "-ratio" + vItoa(ratio)
			lt1, _ := vNewLTAt(c, []int{0, 1, 3}, ratio, order[0])
			lt2, _ := vNewLTAt(c, []int{-1, 2}, ratio, order[1])
			gals := append(lt1.GaloisElements(params), lt2.GaloisElements(params)...)
			gks := c.Kgen.GenGaloisKeysNew(gals, c.Sk)
			eval := NewEvaluator(bgv.NewEvaluator(params, rlwe.NewMemEvaluationKeySet(nil, gks...)))
			ct := vAtomCiphertext(c, maxL, "x", 3)
			outs, err := eval.EvaluateManyNew(ct, []LinearTransformation{lt1, lt2})
			vAssert(err == nil && len(outs) == 2, tag+"-no-error")
			if err != nil || len(outs) != 2 {
				continue
			}
			for k, lt := range []LinearTransformation{lt1, lt2} {
				lvl := order[k]
				vAssert(outs[k].Level() == lvl, tag+"-output-level-is-the-level-of-its-transformation")
				if outs[k].Level() != lvl {
					continue
				}
				phase := vPhase(c, ct)
				phase.Resize(lvl)
				vAssertNoiseFree(params.RingQ().AtLevel(lvl), vPhase(c, outs[k]), vExpected(c, lt, phase, lvl), 42, tag+"-output-"+vItoa(k)+"-is-its-transformation")
			}
		}
	}
}

// Two auxiliary primes, transformation and Galois keys at LevelP = 0: the baby-step rotations (hoisted, lazy) and the
// giant steps work at the level of the key, with and without the baby-step giant-step algorithm.
func vLowerLevelP() {
	c := VerifSetup_CtxKind(vIsAlgebraic(), 1)
	c.Kgen.GenSecretKey(c.Sk)
	params := c.Params
	t := params.PlaintextModulus()
	level := params.MaxLevel()
	r := params.RingQ().AtLevel(level)
	cols := params.MaxSlots() >> 1
	zero := 0
	for _, ratio := range []int{1, -1} {
		tag := "two-P-levelP0-ratio" + vItoa(ratio)
		idx := []int{-3, 0, 1, 2, 4}
		diags := map[int][]uint64{}
		for _, d := range idx {
			diags[d] = vDiag(d, cols, t)
		}
		lt := NewLinearTransformation(params, Parameters{DiagonalsIndexList: idx, LevelQ: level, LevelP: 0, Scale: params.NewScale(5),
			LogDimensions: params.LogMaxDimensions(), LogBabyStepGiantStepRatio: ratio})
		vAssert(Encode(c.Ecd, Diagonals[uint64](diags), lt) == nil, tag+"-Encode-no-error")
		gks := c.Kgen.GenGaloisKeysNew(lt.GaloisElements(params), c.Sk, rlwe.EvaluationKeyParameters{LevelP: &zero})
		eval := NewEvaluator(bgv.NewEvaluator(params, rlwe.NewMemEvaluationKeySet(nil, gks...)))
		ct := vAtomCiphertext(c, level, "c", 3)
		out := bgv.NewCiphertext(params, 1, level)
		vAssert(eval.Evaluate(ct, lt, out) == nil, tag+"-Evaluate-no-error")
		phase := vPhase(c, ct)
		vCheckEncodedDiagonals(c, lt, diags, tag)
		vAssertNoiseFree(r, vPhase(c, out), vExpected(c, lt, phase, level), 42, tag+"-phase-is-the-sum-of-diagonal-times-rotated-input")
	}
}

// 61-bit primes (overflow margin 8) and a dense matrix (every diagonal) with one large giant-step group: the lazily
// accumulated baby-step products must be reduced often enough (tracked-range obligations of the model; natively the
// same harness runs with 64 columns, 16 diagonals per group).
func vDenseLargePrimes() {
	c := VerifSetup_CtxKind(vIsAlgebraic(), 2)
	c.Kgen.GenSecretKey(c.Sk)
	params := c.Params
	t := params.PlaintextModulus()
	level := params.MaxLevel()
	r := params.RingQ().AtLevel(level)
	cols := params.MaxSlots() >> 1
	idx := make([]int, cols)
	diags := map[int][]uint64{}
	for d := range idx {
		idx[d] = d
		diags[d] = vDiag(d, cols, t)
	}
	tag := "dense-61-bit-primes"
	lt := NewLinearTransformation(params, Parameters{DiagonalsIndexList: idx, LevelQ: level, LevelP: params.MaxLevelP(), Scale: params.NewScale(5),
		LogDimensions: params.LogMaxDimensions(), LogBabyStepGiantStepRatio: 3})
	vAssert(Encode(c.Ecd, Diagonals[uint64](diags), lt) == nil, tag+"-Encode-no-error")
	gks := c.Kgen.GenGaloisKeysNew(lt.GaloisElements(params), c.Sk)
	eval := NewEvaluator(bgv.NewEvaluator(params, rlwe.NewMemEvaluationKeySet(nil, gks...)))
	ct := vAtomCiphertext(c, level, "c", 3)
	out := bgv.NewCiphertext(params, 1, level)
	vAssert(eval.Evaluate(ct, lt, out) == nil, tag+"-Evaluate-no-error")
	phase := vPhase(c, ct)
	vAssertNoiseFree(r, vPhase(c, out), vExpected(c, lt, phase, level), 62, tag+"-phase-is-the-sum-of-diagonal-times-rotated-input")
}
