package lintrans

import (
	"math/big"

	"github.com/tuneinsight/lattigo/v6/circuits/common/lintrans"
	"github.com/tuneinsight/lattigo/v6/core/rlwe"
	"github.com/tuneinsight/lattigo/v6/ring"
	"github.com/tuneinsight/lattigo/v6/schemes/bgv"
)

// C12 (integer scheme, algebraic slot model at ring level).  The ciphertext and every key coefficient are free field
// elements; the matrix diagonals are concrete.  Decided for every ciphertext / key / noise value:
//   phase(out) = Σ_j σ_{5^j}( Σ_i P_{j+i} ⊙ σ_{5^i}(phase(in)) )   (up to key-switch noise terms), P_k the stored plaintext
//   of diagonal k, and (concrete, slot level) σ_{5^j}(P_{j+i}) decodes to the matrix diagonal j+i,
// for plain and baby-step giant-step evaluation (every ratio), single, many-on-one-input and sequential evaluation,
// encoding level below the maximum; the Galois keys generated for exactly LinearTransformation.GaloisElements suffice;
// output level and scale are the documented ones.  (Plaintext polynomials are only equivariant modulo t: the lift of a
// negated coefficient differs by a multiple of t, hence the two-part statement.)  That the two parts give the slot-wise
// matrix-vector product is the ring homomorphism property of the encoder (C07 / C11).  Dimensions up to 2 x 8 slots.

type vCtx struct {
	Params bgv.Parameters
	Kgen   *rlwe.KeyGenerator
	Sk     *rlwe.SecretKey
	Dec    *rlwe.Decryptor
	Ecd    *bgv.Encoder
}

func VerifSetup_Ctx(algebraic bool) *vCtx {
	lit := bgv.ParametersLiteral{LogN: 4, LogQ: []int{45, 35, 35}, LogP: []int{40}, PlaintextModulus: 65537}
	if algebraic {
		lit = bgv.ParametersLiteral{LogN: 4, Q: []uint64{193, 257, 12289}, P: []uint64{769}, PlaintextModulus: 97}
	}
	params, err := bgv.NewParametersFromLiteral(lit)
	if err != nil {
		panic(err)
	}
	c := &vCtx{Params: params}
	c.Kgen = rlwe.NewKeyGenerator(params)
	c.Sk = rlwe.NewSecretKey(params)
	c.Dec = rlwe.NewDecryptor(params, c.Sk)
	c.Ecd = bgv.NewEncoder(params)
	return c
}

func VerifSetup_AutIndex(n int, nthRoot, galEl uint64) []uint64 {
	idx, err := ring.AutomorphismNTTIndex(n, nthRoot, galEl)
	if err != nil {
		panic(err)
	}
	return idx
}

func vItoa(n int) string {
	if n == 0 {
		return "0"
	}
	neg := n < 0
	if neg {
		n = -n
	}
	s := ""
	for n > 0 {
		s = string(rune('0'+n%10)) + s
		n /= 10
	}
	if neg {
		s = "-" + s
	}
	return s
}

func vAtomCiphertext(c *vCtx, level int, name string, scale uint64) *rlwe.Ciphertext {
	ct := bgv.NewCiphertext(c.Params, 1, level)
	r := c.Params.RingQ().AtLevel(level)
	for i := range ct.Value {
		for k, s := range r.SubRings[:level+1] {
			copy(ct.Value[i].Coeffs[k], vAtoms(name+vItoa(i)+"."+vItoa(k), vUniform, s.Modulus, r.N()))
		}
	}
	ct.Scale = c.Params.NewScale(scale)
	return ct
}

func vPhase(c *vCtx, ct *rlwe.Ciphertext) ring.Poly {
	pt := bgv.NewPlaintext(c.Params, ct.Level())
	c.Dec.Decrypt(ct, pt)
	return pt.Value
}

func vApplyAutNTT(r *ring.Ring, p ring.Poly, galEl uint64) ring.Poly {
	out := r.NewPoly()
	idx := VerifSetup_AutIndex(r.N(), r.NthRoot(), galEl)
	for k := range r.SubRings[:r.Level()+1] {
		for j := 0; j < r.N(); j++ {
			out.Coeffs[k][j] = p.Coeffs[k][idx[j]]
		}
	}
	return out
}

func vAssertNoiseFree(r *ring.Ring, a, b ring.Poly, logBound int, id string) {
	if vIsAlgebraic() {
		for k, s := range r.SubRings[:r.Level()+1] {
			vAssertNoiseFreeMod(a.Coeffs[k], b.Coeffs[k], s.Modulus, id)
		}
		return
	}
	d := r.NewPoly()
	r.Sub(a, b, d)
	r.INTT(d, d)
	coeffs := make([]*big.Int, r.N())
	for i := range coeffs {
		coeffs[i] = new(big.Int)
	}
	r.PolyToBigintCentered(d, 1, coeffs)
	bound := new(big.Int).Lsh(big.NewInt(1), uint(logBound))
	ok := true
	for _, cf := range coeffs {
		if cf.CmpAbs(bound) >= 0 {
			ok = false
		}
	}
	vAssert(ok, id)
}

// vDiag builds a concrete diagonal (2 x cols values) depending on its index.
func vDiag(d, cols int, t uint64) []uint64 {
	v := make([]uint64, 2*cols)
	for i := range v {
		v[i] = uint64((d*d+7)*(i+1)+3*i*i+1) % t
	}
	return v
}

// vExpected = Σ_j σ_{5^j}( Σ_i Vec[j+i] ⊙ σ_{5^i}(phase) ) over the stored (pre-rotated) plaintext diagonals, at the given
// level; j ranges over the giant steps, i over the baby steps (j = 0 only without BSGS).
func vExpected(c *vCtx, lt LinearTransformation, phase ring.Poly, level int) ring.Poly {
	params := c.Params
	r := params.RingQ().AtLevel(level)
	want := r.NewPoly()
	groups := map[int][]int{}
	if lt.N1 == 0 {
		for k := range lt.Vec {
			groups[0] = append(groups[0], k)
		}
	} else {
		index, _, _ := lintrans.LinearTransformation(lt).BSGSIndex()
		for j, is := range index {
			groups[j] = append(groups[j], is...)
		}
	}
	for j, is := range groups {
		inner := r.NewPoly()
		for _, i := range is {
			pd := lt.Vec[i+j].Q
			rot := phase
			if i != 0 {
				rot = vApplyAutNTT(r, phase, params.GaloisElement(i))
			}
			r.MulCoeffsMontgomeryThenAdd(pd, rot, inner)
		}
		if j != 0 {
			inner = vApplyAutNTT(r, inner, params.GaloisElement(j))
		}
		r.Add(want, inner, want)
	}
	return want
}

// vCheckEncodedDiagonals: rotating the stored plaintext of diagonal k back by its giant step j decodes to diag_k
// (concrete slot-level check of Encode's pre-rotation and index bookkeeping).
func vCheckEncodedDiagonals(c *vCtx, lt LinearTransformation, diags map[int][]uint64, tag string) {
	params := c.Params
	cols := params.MaxSlots() >> 1
	r := params.RingQ().AtLevel(lt.LevelQ)
	giant := map[int]int{}
	if lt.N1 != 0 {
		index, _, _ := lintrans.LinearTransformation(lt).BSGSIndex()
		for j, is := range index {
			for _, i := range is {
				giant[i+j] = j
			}
		}
	}
	ok := len(lt.Vec) == len(diags)
	for d, v := range diags {
		k := d & (cols - 1)
		vec, has := lt.Vec[k]
		if !has {
			ok = false
			continue
		}
		p := *vec.Q.CopyNew()
		if j := giant[k]; j != 0 {
			p = vApplyAutNTT(r, p, params.GaloisElement(j))
		}
		r.IMForm(p, p)
		r.INTT(p, p)
		pT := params.RingT().NewPoly()
		c.Ecd.RingQ2T(lt.LevelQ, false, p, pT) // Embed does not scale by t^-1
		got := make([]uint64, 2*cols)
		if err := c.Ecd.DecodeRingT(pT, lt.Scale, got); err != nil {
			ok = false
		}
		for i := range got {
			ok = ok && got[i] == v[i]
		}
	}
	vAssert(ok, tag+"-stored-diagonals-decode-to-the-matrix-diagonals")
}

func vLinTransCase(c *vCtx, idx []int, ratio, ltLevel, ctLevel int, tag string) {
	params := c.Params
	t := params.PlaintextModulus()
	cols := params.MaxSlots() >> 1
	diags := map[int][]uint64{}
	for _, d := range idx {
		diags[d] = vDiag(d, cols, t)
	}
	ltp := Parameters{
		DiagonalsIndexList:        idx,
		LevelQ:                    ltLevel,
		LevelP:                    params.MaxLevelP(),
		Scale:                     params.NewScale(5),
		LogDimensions:             params.LogMaxDimensions(),
		LogBabyStepGiantStepRatio: ratio,
	}
	lt := NewLinearTransformation(params, ltp)
	vAssert(Encode(c.Ecd, Diagonals[uint64](diags), lt) == nil, tag+"-Encode-no-error")
	gks := c.Kgen.GenGaloisKeysNew(lt.GaloisElements(params), c.Sk)
	eval := NewEvaluator(bgv.NewEvaluator(params, rlwe.NewMemEvaluationKeySet(nil, gks...)))
	ct := vAtomCiphertext(c, ctLevel, "c", 3)
	lvl := ctLevel
	if ltLevel < lvl {
		lvl = ltLevel
	}
	// the output object held other data before: nothing of it may survive
	out := vAtomCiphertext(c, lvl, "junk", 9)
	vAssert(eval.Evaluate(ct, lt, out) == nil, tag+"-advertised-Galois-keys-suffice-and-Evaluate-succeeds")
	r := params.RingQ().AtLevel(lvl)
	phase := vPhase(c, ct)
	phase.Resize(lvl)
	want := vExpected(c, lt, phase, lvl)
	vCheckEncodedDiagonals(c, lt, diags, tag)
	vAssertNoiseFree(r, vPhase(c, out), want, 42, tag+"-phase-is-the-sum-of-diagonal-times-rotated-input")
	vAssert(out.Level() == lvl, tag+"-output-level")
	vAssert(out.Scale.Uint64()%t == 15%t, tag+"-output-scale-is-the-product-of-scales")
}

func VerifH_C12_LinearTransformations() {
	vConfig("algebraic-samplers", "1")
	c := VerifSetup_Ctx(vIsAlgebraic())
	c.Kgen.GenSecretKey(c.Sk)
	maxL := c.Params.MaxLevel()
	// (the last two sets have no diagonal in the first giant-step block [0, N1) of the baby-step giant-step split)
	sets := [][]int{{0}, {1}, {-1}, {-3, -1, 0, 2, 4}, {0, 1, 2, 3, 4, 5, 6, 7}, {-7, 7}, {-3, -2, -1}, {6, 7}}
	for si, idx := range sets {
		for _, ratio := range []int{-1, 0, 1, 2} {
			if vTier() == 0 && si >= 4 && ratio == 0 {
				continue
			}
			tag := "set" + vItoa(si) + "-ratio" + vItoa(ratio)
			vLinTransCase(c, idx, ratio, maxL, maxL, tag+"-maxlevel")
			if si == 3 {
				vLinTransCase(c, idx, ratio, maxL-1, maxL, tag+"-encoded-below-max-level")
				vLinTransCase(c, idx, ratio, maxL, maxL-1, tag+"-ciphertext-below-max-level")
			}
		}
	}
	vManyAndSequential(c)
	vManyMixedLevels(c)
	vCover("C12-lintrans-reached")
}

func vNewLT(c *vCtx, idx []int, ratio int) (LinearTransformation, map[int][]uint64) {
	return vNewLTAt(c, idx, ratio, c.Params.MaxLevel())
}

func vNewLTAt(c *vCtx, idx []int, ratio, levelQ int) (LinearTransformation, map[int][]uint64) {
	params := c.Params
	cols := params.MaxSlots() >> 1
	diags := map[int][]uint64{}
	for _, d := range idx {
		diags[d] = vDiag(d+len(idx), cols, params.PlaintextModulus())
	}
	lt := NewLinearTransformation(params, Parameters{
		DiagonalsIndexList:        idx,
		LevelQ:                    levelQ,
		LevelP:                    params.MaxLevelP(),
		Scale:                     params.NewScale(5),
		LogDimensions:             params.LogMaxDimensions(),
		LogBabyStepGiantStepRatio: ratio,
	})
	if err := Encode(c.Ecd, Diagonals[uint64](diags), lt); err != nil {
		panic(err)
	}
	return lt, diags
}

// many-on-one-input equals the single evaluations; sequential evaluation composes
func vManyAndSequential(c *vCtx) {
	params := c.Params
	t := params.PlaintextModulus()
	level := params.MaxLevel()
	r := params.RingQ().AtLevel(level)
	lt1, d1 := vNewLT(c, []int{0, 1, 3}, 1)
	lt2, d2 := vNewLT(c, []int{-1, 2}, -1)
	vCheckEncodedDiagonals(c, lt1, d1, "many-lt1")
	vCheckEncodedDiagonals(c, lt2, d2, "many-lt2")
	gals := append(lt1.GaloisElements(params), lt2.GaloisElements(params)...)
	gks := c.Kgen.GenGaloisKeysNew(gals, c.Sk)
	eval := NewEvaluator(bgv.NewEvaluator(params, rlwe.NewMemEvaluationKeySet(nil, gks...)))
	ct := vAtomCiphertext(c, level, "m", 3)
	phase := vPhase(c, ct)
	outs, err := eval.EvaluateManyNew(ct, []LinearTransformation{lt1, lt2})
	vAssert(err == nil && len(outs) == 2, "EvaluateMany-no-error")
	if err == nil && len(outs) == 2 {
		vAssertNoiseFree(r, vPhase(c, outs[0]), vExpected(c, lt1, phase, level), 42, "EvaluateMany-first-output-is-the-first-transformation")
		vAssertNoiseFree(r, vPhase(c, outs[1]), vExpected(c, lt2, phase, level), 42, "EvaluateMany-second-output-is-the-second-transformation")
		vAssert(outs[0].Scale.Uint64()%t == 15%t && outs[1].Scale.Uint64()%t == 15%t, "EvaluateMany-output-scales")
	}
	// sequential = evaluate, rescale, evaluate, rescale (the documented circuit), word for word
	seq := bgv.NewCiphertext(params, 1, level)
	vAssert(eval.EvaluateSequential(ct, []LinearTransformation{lt1, lt2}, seq) == nil, "EvaluateSequential-no-error")
	a := bgv.NewCiphertext(params, 1, level)
	vAssert(eval.Evaluate(ct, lt1, a) == nil, "EvaluateSequential-reference-step-1")
	vAssert(eval.Rescale(a, a) == nil, "EvaluateSequential-reference-rescale-1")
	b := bgv.NewCiphertext(params, 1, a.Level())
	vAssert(eval.Evaluate(a, lt2, b) == nil, "EvaluateSequential-reference-step-2")
	vAssert(eval.Rescale(b, b) == nil, "EvaluateSequential-reference-rescale-2")
	vAssert(seq.Level() == b.Level() && seq.Scale.Cmp(b.Scale) == 0, "EvaluateSequential-level-and-scale-of-the-composition")
	rs := params.RingQ().AtLevel(b.Level())
	if seq.Level() == b.Level() {
		vAssertNoiseFree(rs, vPhase(c, seq), vPhase(c, b), 44, "EvaluateSequential-is-the-composition")
	}
}

// many-on-one-input with transformations encoded at different levels (the first one lower than a later one, and the
// other way round): every output is its own transformation of the input, at the level of that transformation
func vManyMixedLevels(c *vCtx) {
	params := c.Params
	maxL := params.MaxLevel()
	for oi, order := range [][2]int{{maxL - 1, maxL}, {maxL, maxL - 1}} {
		for _, ratio := range []int{-1, 1} {
			tag := "EvaluateMany-mixed-levels-order" + vItoa(oi) + "-ratio" + vItoa(ratio)
			lt1, _ := vNewLTAt(c, []int{0, 1, 3}, ratio, order[0])
			lt2, _ := vNewLTAt(c, []int{-1, 2}, ratio, order[1])
			gals := append(lt1.GaloisElements(params), lt2.GaloisElements(params)...)
			gks := c.Kgen.GenGaloisKeysNew(gals, c.Sk)
			eval := NewEvaluator(bgv.NewEvaluator(params, rlwe.NewMemEvaluationKeySet(nil, gks...)))
			ct := vAtomCiphertext(c, maxL, "x", 3)
			outs, err := eval.EvaluateManyNew(ct, []LinearTransformation{lt1, lt2})
			vAssert(err == nil && len(outs) == 2, tag+"-no-error")
			if err != nil || len(outs) != 2 {
				continue
			}
			for k, lt := range []LinearTransformation{lt1, lt2} {
				lvl := order[k]
				vAssert(outs[k].Level() == lvl, tag+"-output-level-is-the-level-of-its-transformation")
				if outs[k].Level() != lvl {
					continue
				}
				phase := vPhase(c, ct)
				phase.Resize(lvl)
				vAssertNoiseFree(params.RingQ().AtLevel(lvl), vPhase(c, outs[k]), vExpected(c, lt, phase, lvl), 42, tag+"-output-"+vItoa(k)+"-is-its-transformation")
			}
		}
	}
}
