package lintrans

import (
	"github.com/tuneinsight/lattigo/v6/core/rlwe"
	"github.com/tuneinsight/lattigo/v6/schemes/bgv"
)

// C09 (linear transformations): Evaluate leaves its input ciphertext intact (data and metadata), with and without the
// baby-step giant-step algorithm, and evaluating in place gives the result of evaluating into a distinct output.

func VerifH_C09_LinearTransformationInputIntact() {
	vConfig("algebraic-samplers", "1")
	c := VerifSetup_Ctx(vIsAlgebraic())
	c.Kgen.GenSecretKey(c.Sk)
	params := c.Params
	level := params.MaxLevel()
	r := params.RingQ().AtLevel(level)
	t := params.PlaintextModulus()
	cols := params.MaxSlots() >> 1
	for _, ratio := range []int{-1, 1} {
		tag := "ratio" + vItoa(ratio)
		idx := []int{-3, -1, 0, 2, 4}
		diags := map[int][]uint64{}
		for _, d := range idx {
			diags[d] = vDiag(d, cols, t)
		}
		lt := NewLinearTransformation(params, Parameters{DiagonalsIndexList: idx, LevelQ: level, LevelP: params.MaxLevelP(),
			Scale: params.NewScale(5), LogDimensions: params.LogMaxDimensions(), LogBabyStepGiantStepRatio: ratio})
		vAssert(Encode(c.Ecd, Diagonals[uint64](diags), lt) == nil, tag+"-Encode-no-error")
		gks := c.Kgen.GenGaloisKeysNew(lt.GaloisElements(params), c.Sk)
		eval := NewEvaluator(bgv.NewEvaluator(params, rlwe.NewMemEvaluationKeySet(nil, gks...)))
		ct := vAtomCiphertext(c, level, "c", 3)
		keep := ct.CopyNew()
		out := bgv.NewCiphertext(params, 1, level)
		vAssert(eval.Evaluate(ct, lt, out) == nil, tag+"-Evaluate-into-a-distinct-output-no-error")
		for i := range ct.Value {
			for k, s := range r.SubRings[:level+1] {
				vAssertEqMod(ct.Value[i].Coeffs[k], keep.Value[i].Coeffs[k], s.Modulus, tag+"-Evaluate-leaves-its-input-unchanged")
			}
		}
		vAssert(ct.Level() == level && ct.Degree() == 1 && ct.Scale.Cmp(keep.Scale) == 0 && ct.IsNTT == keep.IsNTT && ct.IsBatched == keep.IsBatched,
			tag+"-Evaluate-leaves-the-metadata-of-its-input-unchanged")
		// in place
		inpl := keep.CopyNew()
		vAssert(eval.Evaluate(inpl, lt, inpl) == nil, tag+"-Evaluate-in-place-no-error")
		vAssertNoiseFree(r, vPhase(c, inpl), vPhase(c, out), 42, tag+"-in-place-evaluation-gives-the-result-of-the-out-of-place-one")
		vAssert(inpl.Scale.Cmp(out.Scale) == 0 && inpl.Level() == out.Level(), tag+"-in-place-evaluation-same-scale-and-level")
		// a transformation with the main diagonal only, on the evaluator that just ran the one above: what its scratch
		// buffers hold must not enter the result
		lt0 := NewLinearTransformation(params, Parameters{DiagonalsIndexList: []int{0}, LevelQ: level, LevelP: params.MaxLevelP(),
			Scale: params.NewScale(5), LogDimensions: params.LogMaxDimensions(), LogBabyStepGiantStepRatio: -1})
		vAssert(Encode(c.Ecd, Diagonals[uint64](map[int][]uint64{0: vDiag(0, cols, t)}), lt0) == nil, tag+"-main-diagonal-Encode-no-error")
		out0 := vAtomCiphertext(c, level, "junk", 9)
		vAssert(eval.Evaluate(ct, lt0, out0) == nil, tag+"-main-diagonal-only-on-a-used-evaluator-no-error")
		vAssertNoiseFree(r, vPhase(c, out0), vExpected(c, lt0, vPhase(c, ct), level), 42, tag+"-main-diagonal-only-on-a-used-evaluator-is-the-diagonal-times-the-input")
	}
	vCover("C09-lintrans-reached")
}
