package lintrans

import (
	"math/big"

	"github.com/tuneinsight/lattigo/v6/circuits/common/lintrans"
	"github.com/tuneinsight/lattigo/v6/core/rlwe"
	"github.com/tuneinsight/lattigo/v6/ring"
	"github.com/tuneinsight/lattigo/v6/schemes/bgv"
)

// Shared helpers of the lintrans harnesses (moved out of the C12 file).

// C12 (integer scheme, algebraic slot model at ring level).  The ciphertext and every key coefficient are free field
// elements; the matrix diagonals are concrete.  Decided for every ciphertext / key / noise value:
//   phase(out) = Σ_j σ_{5^j}( Σ_i P_{j+i} ⊙ σ_{5^i}(phase(in)) )   (up to key-switch noise terms), P_k the stored plaintext
//   of diagonal k, and (concrete, slot level) σ_{5^j}(P_{j+i}) decodes to the matrix diagonal j+i,
// for plain and baby-step giant-step evaluation (every ratio), single, many-on-one-input and sequential evaluation,
// encoding level below the maximum; the Galois keys generated for exactly LinearTransformation.GaloisElements suffice;
// output level and scale are the documented ones.  (Plaintext polynomials are only equivariant modulo t: the lift of a
// negated coefficient differs by a multiple of t, hence the two-part statement.)  That the two parts give the slot-wise
// matrix-vector product is the ring homomorphism property of the encoder (C07 / C11).  Dimensions up to 2 x 8 slots.

type vCtx struct {
	Params bgv.Parameters
	Kgen   *rlwe.KeyGenerator
	Sk     *rlwe.SecretKey
	Dec    *rlwe.Decryptor
	Ecd    *bgv.Encoder
}

func VerifSetup_Ctx(algebraic bool) *vCtx { return VerifSetup_CtxKind(algebraic, 0) }

// VerifSetup_CtxKind: 0 = one auxiliary prime; 1 = two auxiliary primes (transformations and keys at a lower LevelP);
// 2 = 61-bit Q primes (overflow margin 8: the lazy accumulators of the baby steps must be reduced every 4 terms),
// natively with 64 columns so that a giant-step group really holds 16 and more diagonals.
func VerifSetup_CtxKind(algebraic bool, kind int) *vCtx {
	lit := bgv.ParametersLiteral{LogN: 4, LogQ: []int{45, 35, 35}, LogP: []int{40}, PlaintextModulus: 65537}
	if algebraic {
		lit = bgv.ParametersLiteral{LogN: 4, Q: []uint64{193, 257, 12289}, P: []uint64{769}, PlaintextModulus: 97}
	}
	switch kind {
	case 1:
		lit = bgv.ParametersLiteral{LogN: 4, LogQ: []int{45, 35, 35}, LogP: []int{40, 40}, PlaintextModulus: 65537}
		if algebraic {
			lit = bgv.ParametersLiteral{LogN: 4, Q: []uint64{193, 257, 12289}, P: []uint64{769, 1153}, PlaintextModulus: 97}
		}
	case 2:
		lit = bgv.ParametersLiteral{LogN: 7, Q: []uint64{2305843009213616129, 2305843009213554689}, P: []uint64{2305843009213501441}, PlaintextModulus: 65537}
		if algebraic {
			lit = bgv.ParametersLiteral{LogN: 4, Q: []uint64{2305843009213616129, 2305843009213554689}, P: []uint64{2305843009213501441}, PlaintextModulus: 97}
		}
	}
	params, err := bgv.NewParametersFromLiteral(lit)
	if err != nil {
		panic(err)
	}
	c := &vCtx{Params: params}
	c.Kgen = rlwe.NewKeyGenerator(params)
	c.Sk = rlwe.NewSecretKey(params)
	c.Dec = rlwe.NewDecryptor(params, c.Sk)
	c.Ecd = bgv.NewEncoder(params)
	return c
}

func VerifSetup_AutIndex(n int, nthRoot, galEl uint64) []uint64 {
	idx, err := ring.AutomorphismNTTIndex(n, nthRoot, galEl)
	if err != nil {
		panic(err)
	}
	return idx
}

func vItoa(n int) string {
	if n == 0 {
		return "0"
	}
	neg := n < 0
	if neg {
		n = -n
	}
	s := ""
	for n > 0 {
		s = string(rune('0'+n%10)) + s
		n /= 10
	}
	if neg {
		s = "-" + s
	}
	return s
}

func vAtomCiphertext(c *vCtx, level int, name string, scale uint64) *rlwe.Ciphertext {
	ct := bgv.NewCiphertext(c.Params, 1, level)
	r := c.Params.RingQ().AtLevel(level)
	for i := range ct.Value {
		for k, s := range r.SubRings[:level+1] {
			copy(ct.Value[i].Coeffs[k], vAtoms(name+vItoa(i)+"."+vItoa(k), vUniform, s.Modulus, r.N()))
		}
	}
	ct.Scale = c.Params.NewScale(scale)
	return ct
}

func vPhase(c *vCtx, ct *rlwe.Ciphertext) ring.Poly {
	pt := bgv.NewPlaintext(c.Params, ct.Level())
	c.Dec.Decrypt(ct, pt)
	return pt.Value
}

func vApplyAutNTT(r *ring.Ring, p ring.Poly, galEl uint64) ring.Poly {
	out := r.NewPoly()
	idx := VerifSetup_AutIndex(r.N(), r.NthRoot(), galEl)
	for k := range r.SubRings[:r.Level()+1] {
		for j := 0; j < r.N(); j++ {
			out.Coeffs[k][j] = p.Coeffs[k][idx[j]]
		}
	}
	return out
}

func vAssertNoiseFree(r *ring.Ring, a, b ring.Poly, logBound int, id string) {
	if vIsAlgebraic() {
		for k, s := range r.SubRings[:r.Level()+1] {
			vAssertNoiseFreeMod(a.Coeffs[k], b.Coeffs[k], s.Modulus, id)
		}
		return
	}
	d := r.NewPoly()
	r.Sub(a, b, d)
	r.INTT(d, d)
	coeffs := make([]*big.Int, r.N())
	for i := range coeffs {
		coeffs[i] = new(big.Int)
	}
	r.PolyToBigintCentered(d, 1, coeffs)
	bound := new(big.Int).Lsh(big.NewInt(1), uint(logBound))
	ok := true
	for _, cf := range coeffs {
		if cf.CmpAbs(bound) >= 0 {
			ok = false
		}
	}
	vAssert(ok, id)
}

// vDiag builds a concrete diagonal (2 x cols values) depending on its index.
func vDiag(d, cols int, t uint64) []uint64 {
	v := make([]uint64, 2*cols)
	for i := range v {
		v[i] = uint64((d*d+7)*(i+1)+3*i*i+1) % t
	}
	return v
}

// vExpected = Σ_j σ_{5^j}( Σ_i Vec[j+i] ⊙ σ_{5^i}(phase) ) over the stored (pre-rotated) plaintext diagonals, at the given
// level; j ranges over the giant steps, i over the baby steps (j = 0 only without BSGS).
func vExpected(c *vCtx, lt LinearTransformation, phase ring.Poly, level int) ring.Poly {
	params := c.Params
	r := params.RingQ().AtLevel(level)
	want := r.NewPoly()
	groups := map[int][]int{}
	if lt.N1 == 0 {
		for k := range lt.Vec {
			groups[0] = append(groups[0], k)
		}
	} else {
		index, _, _ := lintrans.LinearTransformation(lt).BSGSIndex()
		for j, is := range index {
			groups[j] = append(groups[j], is...)
		}
	}
	for j, is := range groups {
		inner := r.NewPoly()
		for _, i := range is {
			pd := lt.Vec[i+j].Q
			rot := phase
			if i != 0 {
				rot = vApplyAutNTT(r, phase, params.GaloisElement(i))
			}
			r.MulCoeffsMontgomeryThenAdd(pd, rot, inner)
		}
		if j != 0 {
			inner = vApplyAutNTT(r, inner, params.GaloisElement(j))
		}
		r.Add(want, inner, want)
	}
	return want
}

// vCheckEncodedDiagonals: rotating the stored plaintext of diagonal k back by its giant step j decodes to diag_k
// (concrete slot-level check of Encode's pre-rotation and index bookkeeping).
func vCheckEncodedDiagonals(c *vCtx, lt LinearTransformation, diags map[int][]uint64, tag string) {
	params := c.Params
	cols := params.MaxSlots() >> 1
	r := params.RingQ().AtLevel(lt.LevelQ)
	giant := map[int]int{}
	if lt.N1 != 0 {
		index, _, _ := lintrans.LinearTransformation(lt).BSGSIndex()
		for j, is := range index {
			for _, i := range is {
				giant[i+j] = j
			}
		}
	}
	ok := len(lt.Vec) == len(diags)
	for d, v := range diags {
		k := d & (cols - 1)
		vec, has := lt.Vec[k]
		if !has {
			ok = false
			continue
		}
		p := *vec.Q.CopyNew()
		if j := giant[k]; j != 0 {
			p = vApplyAutNTT(r, p, params.GaloisElement(j))
		}
		r.IMForm(p, p)
		r.INTT(p, p)
		pT := params.RingT().NewPoly()
		c.Ecd.RingQ2T(lt.LevelQ, false, p, pT) // Embed does not scale by t^-1
		got := make([]uint64, 2*cols)
		if err := c.Ecd.DecodeRingT(pT, lt.Scale, got); err != nil {
			ok = false
		}
		for i := range got {
			ok = ok && got[i] == v[i]
		}
	}
	vAssert(ok, tag+"-stored-diagonals-decode-to-the-matrix-diagonals")
}

