package polynomial

import (
	cpoly "github.com/tuneinsight/lattigo/v6/circuits/common/polynomial"
	"github.com/tuneinsight/lattigo/v6/utils/bignum"
	"math/big"
	"math/bits"

	"github.com/tuneinsight/lattigo/v6/core/rlwe"
	"github.com/tuneinsight/lattigo/v6/schemes/bgv"
)

// C13 (integer scheme).  The real polynomial evaluator (Paterson-Stockmeyer, power basis, scale management of the
// simulator) runs in the algebraic slot model on a ciphertext (x, 0): every slot of x is a free field element, so
// the output is, slot by slot, a univariate polynomial in x with concrete coefficients γ_k modulo every q_i.  Decided:
//   * phase(out) = Σ_k γ_k x^k (up to noise terms) with δ_k := γ_k·D·T^(1-k) (mod Q, centred; D the product of the consumed primes)
//     satisfying δ_k·s^k ≡ S·D·a_k (mod t) for the input
//     scale s, the requested target scale S and the coefficients a_k - i.e. T·phase(out) = S·p(m) + T·(...) whenever
//     T·phase(in) = s·m + T·(...): p applied slot-wise at the target scale;
//   * polynomial vectors: level, scale and error behaviour (their values, incl. unmapped slots = 0, natively only:
//     per-slot coefficients are encoded plaintexts, not constants of the ring's NTT slots);
//   * levels consumed = ceil(log2(deg+1)), none in the scale-invariant mode is outside (see C10/C05: the invariant
//     tensoring is outside the algebraic model); too few levels => error; output scale = target scale.
// Natively the same harness decodes and compares with p(m) mod t.  CKKS (Chebyshev basis, composite circuits) is
// outside: floating-point coefficients and noise-implied precision.

type vCtx struct {
	Params bgv.Parameters
	Kgen   *rlwe.KeyGenerator
	Sk     *rlwe.SecretKey
	Ecd    *bgv.Encoder
	Enc    *rlwe.Encryptor
	Dec    *rlwe.Decryptor
}

func VerifSetup_Ctx(algebraic bool) *vCtx {
	lit := bgv.ParametersLiteral{LogN: 4, LogQ: []int{50, 45, 45, 45, 45}, LogP: []int{50}, PlaintextModulus: 65537}
	if algebraic {
		// 30-bit primes: the integers δ_k·(product of scale-matching constants) must not wrap modulo Q
		lit = bgv.ParametersLiteral{LogN: 4, LogQ: []int{30, 30, 30, 30, 30}, LogP: []int{31}, PlaintextModulus: 97}
	}
	params, err := bgv.NewParametersFromLiteral(lit)
	if err != nil {
		panic(err)
	}
	c := &vCtx{Params: params}
	c.Kgen = rlwe.NewKeyGenerator(params)
	c.Sk = rlwe.NewSecretKey(params)
	c.Ecd = bgv.NewEncoder(params)
	c.Enc = rlwe.NewEncryptor(params, c.Sk)
	c.Dec = rlwe.NewDecryptor(params, c.Sk)
	return c
}

func vItoa(n int) string {
	if n == 0 {
		return "0"
	}
	neg := n < 0
	if neg {
		n = -n
	}
	s := ""
	for n > 0 {
		s = string(rune('0'+n%10)) + s
		n /= 10
	}
	if neg {
		s = "-" + s
	}
	return s
}

func vPowMod(b, e, m uint64) uint64 {
	r := uint64(1)
	b %= m
	for ; e > 0; e >>= 1 {
		if e&1 == 1 {
			r = r * b % m
		}
		b = b * b % m
	}
	return r
}

// vInput: algebraic: the ciphertext (x, 0) with x atoms; natively a fresh encryption of m (returned).
func vInput(c *vCtx, level int, scale uint64, name string) (*rlwe.Ciphertext, []uint64) {
	params := c.Params
	ct := bgv.NewCiphertext(params, 1, level)
	ct.Scale = params.NewScale(scale)
	if vIsAlgebraic() {
		r := params.RingQ().AtLevel(level)
		for k, s := range r.SubRings[:level+1] {
			copy(ct.Value[0].Coeffs[k], vAtoms(name+"."+vItoa(k), vUniform, s.Modulus, r.N()))
		}
		return ct, nil
	}
	m := make([]uint64, params.MaxSlots())
	for i := range m {
		m[i] = uint64(3*i+2) % params.PlaintextModulus()
	}
	pt := bgv.NewPlaintext(params, level)
	pt.Scale = ct.Scale
	if err := c.Ecd.Encode(m, pt); err != nil {
		panic(err)
	}
	if err := c.Enc.Encrypt(pt, ct); err != nil {
		panic(err)
	}
	return ct, m
}

// vCheckOutput: coefs[slot] are the polynomial coefficients expected on that slot (nil = zero polynomial).
func vCheckOutput(c *vCtx, out, in *rlwe.Ciphertext, inLevel int, m []uint64, coefs [][]uint64, s, S uint64, tag string) {
	params := c.Params
	t := params.PlaintextModulus()
	if !vIsAlgebraic() {
		pt := c.Dec.DecryptNew(out)
		got := make([]uint64, params.MaxSlots())
		if err := c.Ecd.Decode(pt, got); err != nil {
			panic(err)
		}
		ok := true
		for i := range got {
			var want uint64
			for k := len(coefs[i]) - 1; k >= 0; k-- {
				want = (want*m[i] + coefs[i][k]) % t
			}
			ok = ok && got[i] == want
		}
		vAssert(ok, tag+"-decrypts-to-p-of-the-slots")
		return
	}
	level := out.Level()
	r := params.RingQ().AtLevel(level)
	Q := r.ModulusAtLevel[level]
	bT := new(big.Int).SetUint64(t)
	TinvQ := new(big.Int).ModInverse(bT, Q)
	// D = product of the primes consumed by the rescalings: every term has been divided by D exactly, so γ_k·D is the
	// small integer to be compared modulo t (and the scale bookkeeping divides by D modulo t as well)
	var consumed []*big.Int
	for i := level + 1; i <= inLevel; i++ {
		consumed = append(consumed, new(big.Int).SetUint64(params.RingQ().SubRings[i].Modulus))
	}
	dk := make([]*big.Int, 16)
	n := r.N()
	maxDeg := 0
	for _, cf := range coefs {
		if len(cf)-1 > maxDeg {
			maxDeg = len(cf) - 1
		}
	}
	// the phase c0 + c1·s: relinearisation of (noise-only) higher components leaves key-switch terms in c1 that only
	// cancel in the phase
	ph := bgv.NewPlaintext(params, level)
	c.Dec.Decrypt(out, ph)
	phase := ph.Value
	// slot order of the NTT domain vs slot order of the encoder: the coefficient check is made for every ring slot j
	// against the encoder slot it carries (index permutation of the encoder, concrete)
	slotOf := vSlotOfNTTIndex(c)
	// the extracted slot polynomials, re-assembled, are the phase (solver-decided identity, noise terms removed)
	for li, sr := range r.SubRings[:level+1] {
		acc := make([]uint64, n)
		pw := make([]uint64, n)
		for j := range pw {
			pw[j] = 1
		}
		shape := true
		for k := 0; k <= maxDeg+1; k++ {
			ck := make([]uint64, n)
			for j := 0; j < n; j++ {
				cs := vUniCoeffs(phase.Coeffs[li][j], maxDeg+2)
				if cs == nil {
					shape = false
				} else {
					ck[j] = cs[k]
				}
			}
			tmp := make([]uint64, n)
			sr.MulCoeffsBarrett(ck, pw, tmp)
			sr.Add(acc, tmp, acc)
			sr.MulCoeffsBarrett(pw, in.Value[0].Coeffs[li], pw)
		}
		if shape {
			vAssertNoiseFreeMod(phase.Coeffs[li], acc, sr.Modulus, tag+"-phase-is-the-extracted-polynomial-in-the-input-slot")
		}
	}
	for j := 0; j < n; j++ {
		want := coefs[slotOf[j]]
		// γ_k per limb, recombined by CRT
		gam := make([]*big.Int, maxDeg+2)
		for k := range gam {
			gam[k] = new(big.Int)
		}
		okShape := true
		for li, sr := range r.SubRings[:level+1] {
			cs := vUniCoeffs(phase.Coeffs[li][j], maxDeg+2)
			if cs == nil {
				okShape = false
				break
			}
			qi := new(big.Int).SetUint64(sr.Modulus)
			Qi := new(big.Int).Div(Q, qi)
			inv := new(big.Int).ModInverse(Qi, qi)
			for k := range gam {
				term := new(big.Int).Mul(new(big.Int).SetUint64(cs[k]), inv)
				term.Mod(term, qi)
				term.Mul(term, Qi)
				gam[k].Add(gam[k], term)
			}
		}
		vAssert(okShape, tag+"-output-slot-is-a-polynomial-in-the-input-slot")
		if !okShape {
			continue
		}
		good := true
		for k := range gam {
			// γ_k·T^(1-k) = β_k / D_k  (mod Q) with β_k a small integer and D_k a product of consumed primes (the number
			// of exact divisions differs from term to term).  Any D_k that makes β_k small is as good as another (an
			// extra prime factor multiplies both sides of the congruence); it is searched on slot 0 and reused.
			g := new(big.Int).Mod(gam[k], Q)
			g.Mul(g, bT)
			for e := 0; e < k; e++ {
				g.Mul(g, TinvQ)
			}
			g.Mod(g, Q)
			centred := func(D *big.Int) *big.Int {
				v := new(big.Int).Mul(g, D)
				v.Mod(v, Q)
				if v.Cmp(new(big.Int).Rsh(Q, 1)) > 0 {
					v.Sub(v, Q)
				}
				return v
			}
			if dk[k] == nil || centred(dk[k]).BitLen()+16 >= Q.BitLen() {
				dk[k] = vFindDenominator(g, Q, consumed) // (slots of a polynomial vector can have different structures)
			}
			if dk[k] == nil {
				good = false
				continue
			}
			d := centred(dk[k])
			good = good && d.BitLen()+16 < Q.BitLen()
			var a uint64
			if k < len(want) {
				a = want[k] % t
			}
			Dt := new(big.Int).Mod(dk[k], bT).Uint64()
			lhs := new(big.Int).Mul(d, new(big.Int).SetUint64(vPowMod(s, uint64(k), t)))
			lhs.Sub(lhs, new(big.Int).SetUint64(S%t*Dt%t*a))
			good = good && new(big.Int).Mod(lhs, bT).Sign() == 0
		}
		vAssert(good, tag+"-coefficients-are-those-of-p-at-the-target-scale")
	}
}

// vSlotOfNTTIndex: for every NTT-domain position j of the ciphertext ring, the encoder slot whose value it carries
// (obtained concretely by encoding unit vectors).
func vSlotOfNTTIndex(c *vCtx) []int {
	params := c.Params
	n := params.N()
	res := make([]int, n)
	for i := 0; i < params.MaxSlots(); i++ {
		v := make([]uint64, params.MaxSlots())
		v[i] = 1
		pt := bgv.NewPlaintext(params, 0)
		pt.Scale = params.NewScale(1)
		if err := c.Ecd.Encode(v, pt); err != nil {
			panic(err)
		}
		// pt = T^-1 * lift(e_i) in the NTT domain: non-zero exactly at the position carrying slot i
		for j := 0; j < n; j++ {
			if pt.Value.Coeffs[0][j] != 0 {
				res[j] = i
			}
		}
	}
	return res
}

func vEvalCase(c *vCtx, eval *Evaluator, coeffs []uint64, level int, s, S uint64, tag string) {
	params := c.Params
	ct, m := vInput(c, level, s, "x")
	var out *rlwe.Ciphertext
	var err error
	panicked := vPanics(func() { out, err = eval.Evaluate(ct, NewPolynomial(coeffs), params.NewScale(S)) })
	vAssert(!panicked, tag+"-Evaluate-does-not-panic")
	if panicked {
		return
	}
	deg := len(coeffs) - 1
	depth := 0
	for (1 << uint(depth)) < deg+1 {
		depth++
	}
	if level < depth {
		vAssert(err != nil, tag+"-too-few-levels-is-refused")
		return
	}
	vAssert(err == nil, tag+"-Evaluate-no-error")
	if err != nil {
		return
	}
	vAssert(out.Level() == level-depth, tag+"-consumes-ceil-log2-degree-plus-one-levels")
	vAssert(out.Scale.Uint64()%params.PlaintextModulus() == S%params.PlaintextModulus(), tag+"-output-scale-is-the-target-scale")
	all := make([][]uint64, params.MaxSlots())
	for i := range all {
		all[i] = coeffs
	}
	vCheckOutput(c, out, ct, level, m, all, s, S, tag)
}

func VerifH_C13_PolynomialEvaluation() {
	vConfig("algebraic-samplers", "1")
	c := VerifSetup_Ctx(vIsAlgebraic())
	c.Kgen.GenSecretKey(c.Sk)
	params := c.Params
	rlk := c.Kgen.GenRelinearizationKeyNew(c.Sk)
	eval := NewEvaluator(params, bgv.NewEvaluator(params, rlwe.NewMemEvaluationKeySet(rlk)))
	maxL := params.MaxLevel()
	polys := [][]uint64{
		{5},
		{1, 2},
		{3, 0, 7},
		{0, 1, 0, 4},
		{2, 3, 5, 7, 11},
		{1, 0, 0, 0, 0, 6},
		{9, 8, 7, 6, 5, 4, 3, 2},
		{0, 0, 0, 0, 0, 0, 0, 1},
	}
	for pi, p := range polys {
		tag := "poly" + vItoa(pi)
		vEvalCase(c, eval, p, maxL, 3, 7, tag+"-maxlevel")
		if pi == 2 || pi == 4 {
			vEvalCase(c, eval, p, maxL-1, 1, 1, tag+"-lower-level-unit-scales")
			vEvalCase(c, eval, p, 1, 3, 7, tag+"-level1")
		}
	}
	// polynomial vector: two polynomials on two slot subsets, every other slot evaluates to zero
	{
		p1, p2 := []uint64{1, 2, 3}, []uint64{4, 0, 5}
		mapping := map[int][]int{0: {0, 1, 2, 8}, 1: {5, 9}}
		pv, err := NewPolynomialVector([][]uint64{p1, p2}, mapping)
		vAssert(err == nil, "vector-NewPolynomialVector-no-error")
		ct, m := vInput(c, maxL, 3, "v")
		out, err := eval.Evaluate(ct, pv, params.NewScale(7))
		vAssert(err == nil, "vector-Evaluate-no-error")
		if err == nil {
			vAssert(out.Level() == maxL-2, "vector-consumes-ceil-log2-degree-plus-one-levels")
			per := make([][]uint64, params.MaxSlots())
			for _, i := range mapping[0] {
				per[i] = p1
			}
			for _, i := range mapping[1] {
				per[i] = p2
			}
			vAssert(out.Scale.Uint64()%params.PlaintextModulus() == 7, "vector-output-scale-is-the-target-scale")
			// the per-slot coefficients enter as encoded plaintext polynomials (not slot-wise constants of the ring's
			// NTT domain): the value check of the vector case is made natively only (decode and compare)
			if !vIsAlgebraic() {
				vCheckOutput(c, out, ct, maxL, m, per, 3, 7, "vector")
			}
		}
		// a second vector on the SAME evaluator, covering fewer and other slots: nothing of the first mapping survives
		mapping2 := map[int][]int{0: {3}, 1: {6, 10}}
		pv2, err := NewPolynomialVector([][]uint64{{7, 1, 2}, {0, 3, 9}}, mapping2)
		vAssert(err == nil, "second-vector-NewPolynomialVector-no-error")
		ct2, m2 := vInput(c, maxL, 3, "w")
		out2, err := eval.Evaluate(ct2, pv2, params.NewScale(7))
		vAssert(err == nil, "second-vector-Evaluate-no-error")
		if err == nil {
			per2 := make([][]uint64, params.MaxSlots())
			per2[3] = []uint64{7, 1, 2}
			per2[6], per2[10] = []uint64{0, 3, 9}, []uint64{0, 3, 9}
			if !vIsAlgebraic() {
				vCheckOutput(c, out2, ct2, maxL, m2, per2, 3, 7, "second-vector")
			}
		}
	}
	vCover("C13-reached")
}

// vFindDenominator returns a product D of powers (0..4) of the consumed primes such that g·D mod Q, centred, is small
// (at least 16 bits below Q); nil if there is none.
func vFindDenominator(g, Q *big.Int, primes []*big.Int) *big.Int {
	half := new(big.Int).Rsh(Q, 1)
	var best *big.Int
	bestLen := Q.BitLen()
	var rec func(i int, D *big.Int)
	rec = func(i int, D *big.Int) {
		if i == len(primes) {
			v := new(big.Int).Mul(g, D)
			v.Mod(v, Q)
			if v.Cmp(half) > 0 {
				v.Sub(v, Q)
			}
			if v.BitLen() < bestLen {
				bestLen = v.BitLen()
				best = new(big.Int).Set(D)
			}
			return
		}
		d := new(big.Int).Set(D)
		for e := 0; e <= 4; e++ {
			rec(i+1, d)
			d = new(big.Int).Mul(d, primes[i])
		}
	}
	rec(0, big.NewInt(1))
	if bestLen+16 >= Q.BitLen() {
		return nil
	}
	return best
}

// Scale-invariant (BFV-style) evaluator: scale and level bookkeeping of the polynomial evaluator.  The data path of the
// scale-invariant product is outside the algebraic model (C05), so the operands are zero-valued ciphertexts; decided:
// the evaluation neither fails nor panics on valid inputs below the maximum level, the output carries the requested
// target scale (the scale simulation of the evaluator and the evaluator's recorded scales agree at every level) and
// the level is unchanged (no rescaling in this mode).
func VerifH_C13_ScaleInvariantBookkeeping() {
	c := VerifSetup_Ctx(vIsAlgebraic())
	params := c.Params
	t := params.PlaintextModulus()
	rlk := rlwe.NewRelinearizationKey(params) // an all-zero key: only the bookkeeping is under test
	eval := NewEvaluator(params, bgv.NewEvaluator(params, rlwe.NewMemEvaluationKeySet(rlk), true))
	polys := [][]uint64{{3, 0, 7}, {0, 1, 0, 4}, {9, 8, 7, 6, 5, 4, 3, 2}}
	levels := []int{params.MaxLevel() - 1, 2}
	if vTier() > 0 {
		levels = []int{params.MaxLevel(), params.MaxLevel() - 1, 2}
	}
	for pi, p := range polys {
		for _, level := range levels {
			if depth := bits.Len(uint(len(p) - 1)); level < depth {
				continue // the evaluator asks for ceil(log2(degree+1)) levels in both modes
			}
			tag := "scale-invariant-poly" + vItoa(pi) + "-L" + vItoa(level)
			ct := bgv.NewCiphertext(params, 1, level)
			ct.Scale = params.NewScale(3)
			var out *rlwe.Ciphertext
			var err error
			panicked := vPanics(func() { out, err = eval.Evaluate(ct, NewPolynomial(p), params.NewScale(7)) })
			vAssert(!panicked, tag+"-Evaluate-does-not-panic")
			if panicked {
				continue
			}
			vAssert(err == nil, tag+"-Evaluate-no-error")
			if err != nil {
				continue
			}
			vAssert(out.Scale.Uint64()%t == 7%t, tag+"-output-scale-is-the-target-scale")
			vAssert(out.Level() == level, tag+"-level-unchanged")
			// the same evaluation from a pre-computed power basis (here: X^1 only) behaves alike
			ctb := bgv.NewCiphertext(params, 1, level)
			ctb.Scale = params.NewScale(3)
			pb := cpoly.NewPowerBasis(ctb, bignum.Monomial)
			var outb *rlwe.Ciphertext
			panicked = vPanics(func() { outb, err = eval.EvaluateFromPowerBasis(pb, NewPolynomial(p), params.NewScale(7)) })
			vAssert(!panicked && err == nil, tag+"-from-a-power-basis-Evaluate-neither-fails-nor-panics")
			if !panicked && err == nil {
				vAssert(outb.Scale.Uint64()%t == 7%t && outb.Level() == level, tag+"-from-a-power-basis-output-scale-and-level")
			}
		}
	}
	vCover("C13-scale-invariant-reached")
}
