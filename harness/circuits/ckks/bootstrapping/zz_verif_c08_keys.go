package bootstrapping

import (
	"github.com/tuneinsight/lattigo/v6/core/rlwe"
	"github.com/tuneinsight/lattigo/v6/utils/buffer"
)

// C08 (bootstrapping key bundle; concrete, distinguishable contents): every switching key of the bundle is allocated
// with its own (LevelQ, power-of-two digit) shape and a marker coefficient, in every present/absent combination that
// the generator produces; WriteTo writes exactly BinarySize() bytes and ReadFrom restores every key in ITS field.

func VerifSetup_BundleParams() rlwe.Parameters {
	p, err := rlwe.NewParametersFromLiteral(rlwe.ParametersLiteral{LogN: 4, Q: []uint64{97, 193, 257}, P: []uint64{769}, NTTFlag: true})
	if err != nil {
		panic(err)
	}
	return p
}

func vMarkedKey(params rlwe.Parameters, levelQ int, mark uint64) *rlwe.EvaluationKey {
	lq, lp := levelQ, 0
	k := rlwe.NewEvaluationKey(params, rlwe.EvaluationKeyParameters{LevelQ: &lq, LevelP: &lp})
	k.Value[0][0][0].Q.Coeffs[0][0] = mark
	return k
}

func vKeyIs(k *rlwe.EvaluationKey, levelQ int, mark uint64) bool {
	return k != nil && k.LevelQ() == levelQ && k.Value[0][0][0].Q.Coeffs[0][0] == mark
}

func vBundleCase(b *EvaluationKeys, tag string) *EvaluationKeys {
	size := b.BinarySize()
	w := buffer.NewBufferSize(size + 32)
	n, err := b.WriteTo(w)
	vAssert(err == nil, tag+"-WriteTo-no-error")
	vAssert(int(n) == size && w.Available() == 32, tag+"-WriteTo-writes-exactly-BinarySize-bytes")
	back := new(EvaluationKeys)
	m, err := back.ReadFrom(buffer.NewBuffer(w.Bytes()[:size]))
	vAssert(err == nil, tag+"-ReadFrom-no-error")
	vAssert(m == n, tag+"-ReadFrom-consumes-what-WriteTo-wrote")
	return back
}

func VerifH_C08_BootstrappingKeyBundle() {
	params := VerifSetup_BundleParams()
	set := rlwe.NewMemEvaluationKeySet(rlwe.NewRelinearizationKey(params))
	// all six switching keys present
	full := &EvaluationKeys{
		EvkN1ToN2: vMarkedKey(params, 0, 11), EvkN2ToN1: vMarkedKey(params, 1, 12),
		EvkRealToCmplx: vMarkedKey(params, 2, 13), EvkCmplxToReal: vMarkedKey(params, 1, 14),
		EvkDenseToSparse: vMarkedKey(params, 0, 15), EvkSparseToDense: vMarkedKey(params, 2, 16),
		MemEvaluationKeySet: set,
	}
	back := vBundleCase(full, "all-keys")
	vAssert(vKeyIs(back.EvkN1ToN2, 0, 11) && vKeyIs(back.EvkN2ToN1, 1, 12), "all-keys-ring-degree-switching-keys-restored-in-their-fields")
	vAssert(vKeyIs(back.EvkRealToCmplx, 2, 13) && vKeyIs(back.EvkCmplxToReal, 1, 14), "all-keys-ring-type-switching-keys-restored-in-their-fields")
	vAssert(vKeyIs(back.EvkDenseToSparse, 0, 15) && vKeyIs(back.EvkSparseToDense, 2, 16), "all-keys-sparse-dense-switching-keys-restored-in-their-fields")
	vAssert(back.MemEvaluationKeySet != nil && back.MemEvaluationKeySet.RelinearizationKey != nil, "all-keys-key-set-restored")
	// ring-type swap only (conjugate-invariant residual parameters)
	ci := &EvaluationKeys{EvkRealToCmplx: vMarkedKey(params, 2, 23), EvkCmplxToReal: vMarkedKey(params, 1, 24), MemEvaluationKeySet: set}
	back = vBundleCase(ci, "ring-swap-only")
	vAssert(vKeyIs(back.EvkRealToCmplx, 2, 23) && vKeyIs(back.EvkCmplxToReal, 1, 24), "ring-swap-only-keys-restored-in-their-fields")
	vAssert(back.EvkN1ToN2 == nil && back.EvkN2ToN1 == nil && back.EvkDenseToSparse == nil && back.EvkSparseToDense == nil, "ring-swap-only-absent-keys-stay-absent")
	// ring-degree switch + sparse/dense only
	rd := &EvaluationKeys{EvkN1ToN2: vMarkedKey(params, 2, 31), EvkN2ToN1: vMarkedKey(params, 0, 32), EvkDenseToSparse: vMarkedKey(params, 1, 35), EvkSparseToDense: vMarkedKey(params, 0, 36), MemEvaluationKeySet: set}
	back = vBundleCase(rd, "degree-switch-and-sparse")
	vAssert(vKeyIs(back.EvkN1ToN2, 2, 31) && vKeyIs(back.EvkN2ToN1, 0, 32) && vKeyIs(back.EvkDenseToSparse, 1, 35) && vKeyIs(back.EvkSparseToDense, 0, 36), "degree-switch-and-sparse-keys-restored-in-their-fields")
	vAssert(back.EvkRealToCmplx == nil && back.EvkCmplxToReal == nil, "degree-switch-and-sparse-absent-keys-stay-absent")
	vCover("C08-bootstrapping-bundle-reached")
}
