package polynomial

import (
	"github.com/tuneinsight/lattigo/v6/circuits/common/polynomial"
	"github.com/tuneinsight/lattigo/v6/utils/bignum"
)

// C13 (CKKS, the part of polynomial evaluation that is not floating point):
//   - the coefficient getter of a polynomial vector hands slot j the k-th coefficient of the polynomial the mapping
//     assigns to slot j (pointer identity), and nothing to unmapped slots, for every k;
// The floating-point data path (encoding of coefficients, precision) is outside: DESIGN 12.9.

func VerifH_C13_CKKSCoefficientGetter() {
	const slots = 8
	p0 := bignum.NewPolynomial(bignum.Monomial, []complex128{1, 2, 3, 4, 5, 6}, nil)
	p1 := bignum.NewPolynomial(bignum.Monomial, []complex128{7, 8, 9, 10, 11, 12}, nil)
	p2 := bignum.NewPolynomial(bignum.Monomial, []complex128{13, 14, 15, 16, 17, 18}, nil)
	mapping := map[int][]int{0: {0, 2}, 1: {1, 5, 7}, 2: {4}}
	pv, err := NewPolynomialVector([]bignum.Polynomial{p0, p1, p2}, mapping)
	vAssert(err == nil, "polynomial-vector-created")
	if err != nil {
		return
	}
	owner := map[int]int{}
	for i, js := range mapping {
		for _, j := range js {
			owner[j] = i
		}
	}
	cg := CoefficientGetter{values: make([]*bignum.Complex, slots)}
	for k := 0; k < 6; k++ {
		vals := cg.GetVectorCoefficient(polynomial.PolynomialVector(pv), k)
		ok := len(vals) == slots
		for j := 0; j < slots && ok; j++ {
			if i, has := owner[j]; has {
				ok = ok && vals[j] == pv.Value[i].Coeffs[k]
			} else {
				ok = ok && vals[j] == nil
			}
		}
		vAssert(ok, "coefficient-"+string(rune('0'+k))+"-of-every-slot-comes-from-the-polynomial-mapped-to-that-slot")
	}
	vCover("C13-ckks-coefficient-getter-reached")
}
