package ckks

import (
	"github.com/tuneinsight/lattigo/v6/ring"
)

// C07 (CKKS, the integer side of the encoder): SingleFloat64ToFixedPointCRT writes, on every limb, the residue of the
// rounded scaled value.  The value is ±x for a symbolic integer x below 2^52 (exactly representable, scale 1: every
// floating-point step of the function is exact in the engine's float64 model - sums of values on a common binary grid,
// products with ±1 - and the rounded value is x itself); decided for every such x, in particular for values between
// two moduli of different sizes, that limb j holds x, respectively -x, modulo q_j.  (The floating-point embedding in
// front of this function is outside: DESIGN 12.9.)

func VerifSetup_FixedPointRing() *ring.Ring {
	r, err := ring.NewRing(16, []uint64{0x80000000080001, 0x200000440001, 0x7fff80001})
	if err != nil {
		panic(err)
	}
	return r
}

func VerifH_C07_FixedPointCRT() {
	vConfig("backend", "int")
	r := VerifSetup_FixedPointRing()
	moduli := r.ModuliChain()
	x := vU64("x")
	vAssume(x >= 1 && x < 1<<52)
	for _, neg := range []bool{false, true} {
		coeffs := make([][]uint64, len(moduli))
		for j := range coeffs {
			coeffs[j] = make([]uint64, r.N())
		}
		v := float64(x)
		tag := "positive"
		if neg {
			v = -v
			tag = "negative"
		}
		SingleFloat64ToFixedPointCRT(r, 3, v, 1.0, coeffs)
		for j, q := range moduli {
			got := coeffs[j][3] % q
			want := x % q
			if neg {
				want = (q - want) % q
			}
			vAssert(got == want, tag+"-value-limb"+string(rune('0'+j))+"-holds-the-residue-of-the-rounded-scaled-value")
		}
	}
	vCover("C07-fixed-point-reached")
}
