package ckks

// C19 (exported example parameter set; concrete): the set the package ships under the name
// ExampleParameters128BitLogN14LogQP438 has the ring degree and stays within the total modulus size its name states
// (the 438-bit budget is what makes it a 128-bit set for LogN=14), is accepted by the constructor, and its primes are
// of the supported size.  The security tables themselves are outside (no source inside the repository).

func VerifSetup_ExampleSetFacts() [4]int {
	lit := ExampleParameters128BitLogN14LogQP438
	p, err := NewParametersFromLiteral(lit)
	if err != nil {
		return [4]int{-1, 0, 0, 0}
	}
	maxBits := 0
	for _, q := range append(append([]uint64{}, p.Q()...), p.P()...) {
		b := 0
		for x := q; x > 0; x >>= 1 {
			b++
		}
		if b > maxBits {
			maxBits = b
		}
	}
	// LogQP in thousandths of a bit
	return [4]int{p.LogN(), int(p.LogQP() * 1000), maxBits, len(p.Q()) + len(p.P())}
}

func VerifH_C19_ExampleParameterSet() {
	f := VerifSetup_ExampleSetFacts()
	vAssert(f[0] == 14, "example-set-is-accepted-and-has-the-ring-degree-of-its-name")
	vAssert(f[1] < 438500, "example-set-total-modulus-is-the-size-of-its-name-to-the-nearest-bit")
	vAssert(f[2] <= 61, "example-set-primes-of-supported-size")
	vCover("C19-example-set-reached")
}
