package ckks

import (
	"github.com/tuneinsight/lattigo/v6/core/rlwe"
	"github.com/tuneinsight/lattigo/v6/ring"
)

// C04 (standard <-> conjugate-invariant ring swap, bookkeeping only; concrete): with allocated (all-zero) switching
// keys and zero-valued ciphertexts the real ComplexToReal / RealToComplex are run for every pair of input and receiver
// levels: the receiver is brought to the common level (no stale upper limbs), has degree 1, carries the metadata of the
// input with the documented scale (doubled by the fold).  The data path of the swap (key switch between rings of
// different degree, fold / unfold) is outside: the algebraic model has no conjugate-invariant transform.

type vSwapCtx struct {
	Std, CI Parameters
	Sw      DomainSwitcher
	Eval    *Evaluator
}

func VerifSetup_RingSwap() *vSwapCtx {
	std, err := NewParametersFromLiteral(ParametersLiteral{LogN: 5, Q: []uint64{12289, 40961, 65537}, P: []uint64{114689}, LogDefaultScale: 8})
	if err != nil {
		panic(err)
	}
	ci, err := NewParametersFromLiteral(ParametersLiteral{LogN: 4, Q: []uint64{12289, 40961, 65537}, P: []uint64{114689}, LogDefaultScale: 8, RingType: ring.ConjugateInvariant})
	if err != nil {
		panic(err)
	}
	sw, err := NewDomainSwitcher(std, rlwe.NewEvaluationKey(std), rlwe.NewEvaluationKey(std))
	if err != nil {
		panic(err)
	}
	return &vSwapCtx{Std: std, CI: ci, Sw: sw, Eval: NewEvaluator(std, nil)}
}

func VerifH_C04_RingSwapBookkeeping() {
	c := VerifSetup_RingSwap()
	std, ci, sw, eval := c.Std, c.CI, c.Sw, c.Eval
	maxL := std.MaxLevel()
	for inL := 0; inL <= maxL; inL++ {
		for outL := 0; outL <= maxL; outL++ {
			tag := "in" + vItoa(inL) + "-out" + vItoa(outL)
			want := inL
			if outL < want {
				want = outL
			}
			ctStd := NewCiphertext(std, 1, inL)
			ctStd.Scale = rlwe.NewScale(256)
			outCI := NewCiphertext(ci, 1, outL)
			outCI.Scale = rlwe.NewScale(3)
			vAssert(sw.ComplexToReal(eval, ctStd, outCI) == nil, tag+"-ComplexToReal-no-error")
			vAssert(outCI.Level() == want && outCI.Degree() == 1, tag+"-ComplexToReal-receiver-at-the-common-level")
			vAssert(outCI.Scale.Cmp(rlwe.NewScale(512)) == 0 && outCI.IsNTT == ctStd.IsNTT, tag+"-ComplexToReal-metadata-and-doubled-scale")
			ctCI := NewCiphertext(ci, 1, inL)
			ctCI.Scale = rlwe.NewScale(256)
			outStd := NewCiphertext(std, 1, outL)
			outStd.Scale = rlwe.NewScale(3)
			vAssert(sw.RealToComplex(eval, ctCI, outStd) == nil, tag+"-RealToComplex-no-error")
			vAssert(outStd.Level() == want && outStd.Degree() == 1, tag+"-RealToComplex-receiver-at-the-common-level")
			vAssert(outStd.Scale.Cmp(rlwe.NewScale(256)) == 0 && outStd.IsNTT == ctCI.IsNTT, tag+"-RealToComplex-metadata-and-scale")
		}
	}
	vCover("C04-ring-swap-reached")
}
