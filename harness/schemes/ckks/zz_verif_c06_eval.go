package ckks

import (
	"math/big"

	"github.com/tuneinsight/lattigo/v6/core/rlwe"
)

// C06 (ring level + exact scale/level bookkeeping): on the phase phi = c0 + c1 s + c2 s^2 the approximate evaluator
// computes   Add/Sub: phi_0 +- phi_1 ;  Mul/MulRelin: phi_0*phi_1 (up to key-switch noise), scale = s0*s1 ;
// Rescale: q_L*phi_out = phi_in - delta, scale/q_L ;  with all ciphertext/key coefficients atoms.
// Numeric precision of the decoded values is outside (floating-point encoder).

func vScaleEq(s rlwe.Scale, num, den int64) bool {
	// s == num/den: exactly in the engine (scales are exact reals there), up to 2^-100 relative natively
	// (big.Float scales have a finite mantissa)
	lhs := new(big.Float).SetPrec(256).Mul(&s.Value, new(big.Float).SetPrec(256).SetInt64(den))
	rhs := new(big.Float).SetPrec(256).SetInt64(num)
	if vIsAlgebraic() {
		return lhs.Cmp(rhs) == 0
	}
	d := new(big.Float).SetPrec(256).Sub(lhs, rhs)
	d.Abs(d)
	d.Mul(d, new(big.Float).SetPrec(256).SetMantExp(big.NewFloat(1), 100))
	return d.Cmp(rhs) < 0
}

func VerifH_C06_Arithmetic() {
	c, eval := vSetup()
	params := c.Params
	for level := 1; level <= params.MaxLevel(); level++ {
		r := params.RingQ().AtLevel(level)
		tag := "L" + vItoa(level)
		a := vAtomCiphertext(c, 1, level, "a", 256)
		b := vAtomCiphertext(c, 1, level, "b", 256)
		pa, pb := vPhase(c, a), vPhase(c, b)
		out := NewCiphertext(params, 1, level)
		want := r.NewPoly()
		vAssert(eval.Add(a, b, out) == nil, tag+"-Add-no-error")
		r.Add(pa, pb, want)
		vAssertPolyEq(r, vPhase(c, out), want, tag+"-Add-phase-is-sum")
		vAssert(vScaleEq(out.Scale, 256, 1) && out.Level() == level, tag+"-Add-scale-level")
		vAssert(eval.Sub(a, b, out) == nil, tag+"-Sub-no-error")
		r.Sub(pa, pb, want)
		vAssertPolyEq(r, vPhase(c, out), want, tag+"-Sub-phase-is-difference")
		// product
		r.MulCoeffsBarrett(pa, pb, want)
		out2 := NewCiphertext(params, 2, level)
		vAssert(eval.Mul(a, b, out2) == nil, tag+"-Mul-no-error")
		vAssert(out2.Degree() == 2, tag+"-Mul-degree")
		vAssertPolyEq(r, vPhase(c, out2), want, tag+"-Mul-phase-is-product")
		vAssert(vScaleEq(out2.Scale, 65536, 1), tag+"-Mul-scale-is-product-of-scales")
		vAssert(eval.MulRelin(a, b, out) == nil, tag+"-MulRelin-no-error")
		vAssert(out.Degree() == 1, tag+"-MulRelin-degree")
		vAssertNoiseFree(r, vPhase(c, out), want, true, 45, tag+"-MulRelin-phase-is-product-up-to-noise")
		vAssert(vScaleEq(out.Scale, 65536, 1), tag+"-MulRelin-scale")
		// rescale
		rs := NewCiphertext(params, 1, level-1)
		vAssert(eval.Rescale(out, rs) == nil, tag+"-Rescale-no-error")
		vAssert(rs.Level() == level-1, tag+"-Rescale-consumes-one-level")
		rl := params.RingQ().AtLevel(level - 1)
		qL := r.SubRings[level].Modulus
		lhs := rl.NewPoly()
		rl.MulScalar(vPhase(c, rs), qL, lhs)
		vAssertNoiseFree(rl, lhs, vPhase(c, out), true, 60, tag+"-Rescale-divides-the-phase-by-the-last-prime")
		vAssert(vScaleEq(rs.Scale, 65536, int64(qL)), tag+"-Rescale-scale-divided-by-the-consumed-prime")
	}
	a0 := vAtomCiphertext(c, 1, 0, "z", 256)
	vAssert(eval.Rescale(a0, NewCiphertext(params, 1, 0)) != nil, "Rescale-at-level-0-is-an-error")
	vCover("C06-reached")
}

// Operand shapes: operands of different degrees (a non-relinearised product as first or second operand, a plaintext),
// operands of unequal scales (integer ratio) with every output aliasing, level drop.
func VerifH_C06_OperandShapes() {
	c, eval := vSetup()
	params := c.Params
	level := params.MaxLevel()
	r := params.RingQ().AtLevel(level)
	a := vAtomCiphertext(c, 1, level, "a", 256)
	b := vAtomCiphertext(c, 1, level, "b", 256)
	d := vAtomCiphertext(c, 1, level, "d", 65536)
	pa, pb, pd := vPhase(c, a), vPhase(c, b), vPhase(c, d)
	ab := NewCiphertext(params, 2, level)
	vAssert(eval.Mul(a, b, ab) == nil, "shapes-Mul-no-error")
	pab := r.NewPoly()
	r.MulCoeffsBarrett(pa, pb, pab)
	want := r.NewPoly()
	// degree 1 minus degree 2, degree 2 minus degree 1, and the sums
	out := NewCiphertext(params, 2, level)
	vAssert(eval.Sub(d, ab, out) == nil, "shapes-Sub-degree1-minus-degree2-no-error")
	r.Sub(pd, pab, want)
	vAssertPolyEq(r, vPhase(c, out), want, "shapes-Sub-degree1-minus-degree2-phase-is-difference")
	out = NewCiphertext(params, 2, level)
	vAssert(eval.Sub(ab, d, out) == nil, "shapes-Sub-degree2-minus-degree1-no-error")
	r.Sub(pab, pd, want)
	vAssertPolyEq(r, vPhase(c, out), want, "shapes-Sub-degree2-minus-degree1-phase-is-difference")
	out = NewCiphertext(params, 2, level)
	vAssert(eval.Add(d, ab, out) == nil, "shapes-Add-degree1-plus-degree2-no-error")
	r.Add(pd, pab, want)
	vAssertPolyEq(r, vPhase(c, out), want, "shapes-Add-degree1-plus-degree2-phase-is-sum")
	// plaintext operand (degree 0)
	pt := NewPlaintext(params, level)
	vFillAtoms(r, pt.Value, "p", vMessage)
	pt.Scale = rlwe.NewScale(256)
	out1 := NewCiphertext(params, 1, level)
	vAssert(eval.Sub(a, pt, out1) == nil, "shapes-Sub-plaintext-no-error")
	r.Sub(pa, pt.Value, want)
	vAssertPolyEq(r, vPhase(c, out1), want, "shapes-Sub-plaintext-phase-is-difference")
	// unequal scales with an integer ratio: the smaller-scale operand is multiplied by the ratio, the output carries
	// the larger scale - whatever the output aliases
	e := vAtomCiphertext(c, 1, level, "e", 768) // 3 * 256
	pe := vPhase(c, e)
	three := r.NewPoly()
	r.MulScalar(pa, 3, three)
	for _, mode := range []string{"fresh", "out-is-op0", "out-is-op1"} {
		for _, swap := range []bool{false, true} {
			x, y := a.CopyNew(), e.CopyNew()
			px, py := three, pe
			if swap {
				x, y = e.CopyNew(), a.CopyNew()
				px, py = pe, three
			}
			var o *rlwe.Ciphertext
			switch mode {
			case "fresh":
				o = NewCiphertext(params, 1, level)
			case "out-is-op0":
				o = x
			default:
				o = y
			}
			tag := "unequal-scales-" + mode
			if swap {
				tag += "-larger-first"
			}
			vAssert(eval.Add(x, y, o) == nil, tag+"-Add-no-error")
			r.Add(px, py, want)
			vAssertPolyEq(r, vPhase(c, o), want, tag+"-Add-phase-is-the-sum-at-the-larger-scale")
			vAssert(vScaleEq(o.Scale, 768, 1), tag+"-Add-output-carries-the-larger-scale")
			x, y = a.CopyNew(), e.CopyNew()
			if swap {
				x, y = e.CopyNew(), a.CopyNew()
			}
			switch mode {
			case "fresh":
				o = NewCiphertext(params, 1, level)
			case "out-is-op0":
				o = x
			default:
				o = y
			}
			vAssert(eval.Sub(x, y, o) == nil, tag+"-Sub-no-error")
			r.Sub(px, py, want)
			vAssertPolyEq(r, vPhase(c, o), want, tag+"-Sub-phase-is-the-difference-at-the-larger-scale")
			vAssert(vScaleEq(o.Scale, 768, 1), tag+"-Sub-output-carries-the-larger-scale")
		}
	}
	// level drop
	dl := a.CopyNew()
	eval.DropLevel(dl, 1)
	vAssert(dl.Level() == level-1 && vScaleEq(dl.Scale, 256, 1), "DropLevel-level-and-scale")
	rl := params.RingQ().AtLevel(level - 1)
	pdl := vPhase(c, dl)
	trunc := *pa.CopyNew()
	trunc.Resize(level - 1)
	vAssertPolyEq(rl, pdl, trunc, "DropLevel-keeps-the-lower-limbs")
	// out-of-place rescale into a ciphertext allocated at the lower level and at the same level
	prod := NewCiphertext(params, 1, level)
	vAssert(eval.MulRelin(a, b, prod) == nil, "shapes-MulRelin-no-error")
	qL := r.SubRings[level].Modulus
	for oi, o := range []*rlwe.Ciphertext{NewCiphertext(params, 1, level-1), NewCiphertext(params, 1, level)} {
		tag := "Rescale-out-of-place-" + vItoa(oi)
		vAssert(eval.Rescale(prod, o) == nil, tag+"-no-error")
		vAssert(o.Level() == level-1, tag+"-level")
		vAssert(vScaleEq(o.Scale, 65536, int64(qL)), tag+"-scale-divided-by-the-consumed-prime")
		vAssert(vScaleEq(prod.Scale, 65536, 1) && prod.Level() == level, tag+"-input-unchanged")
	}
	vCover("C06-shapes-reached")
}
