package ckks

import (
	"math/big"

	"github.com/tuneinsight/lattigo/v6/core/rlwe"
)

// C06 (ring level + exact scale/level bookkeeping): on the phase phi = c0 + c1 s + c2 s^2 the approximate evaluator
// computes   Add/Sub: phi_0 +- phi_1 ;  Mul/MulRelin: phi_0*phi_1 (up to key-switch noise), scale = s0*s1 ;
// Rescale: q_L*phi_out = phi_in - delta, scale/q_L ;  with all ciphertext/key coefficients atoms.
// Numeric precision of the decoded values is outside (floating-point encoder).

func vSetup() (*vCtx, *Evaluator) {
	vConfig("algebraic-samplers", "1")
	c := VerifSetup_Ctx(vIsAlgebraic())
	c.Kgen.GenSecretKey(c.Sk)
	rlk := c.Kgen.GenRelinearizationKeyNew(c.Sk)
	eval := c.Eval.WithKey(rlwe.NewMemEvaluationKeySet(rlk))
	return c, eval
}

func vScaleEq(s rlwe.Scale, num, den int64) bool {
	// s == num/den: exactly in the engine (scales are exact reals there), up to 2^-100 relative natively
	// (big.Float scales have a finite mantissa)
	lhs := new(big.Float).SetPrec(256).Mul(&s.Value, new(big.Float).SetPrec(256).SetInt64(den))
	rhs := new(big.Float).SetPrec(256).SetInt64(num)
	if vIsAlgebraic() {
		return lhs.Cmp(rhs) == 0
	}
	d := new(big.Float).SetPrec(256).Sub(lhs, rhs)
	d.Abs(d)
	d.Mul(d, new(big.Float).SetPrec(256).SetMantExp(big.NewFloat(1), 100))
	return d.Cmp(rhs) < 0
}

func VerifH_C06_Arithmetic() {
	c, eval := vSetup()
	params := c.Params
	for level := 1; level <= params.MaxLevel(); level++ {
		r := params.RingQ().AtLevel(level)
		tag := "L" + vItoa(level)
		a := vAtomCiphertext(c, 1, level, "a", 256)
		b := vAtomCiphertext(c, 1, level, "b", 256)
		pa, pb := vPhase(c, a), vPhase(c, b)
		out := NewCiphertext(params, 1, level)
		want := r.NewPoly()
		vAssert(eval.Add(a, b, out) == nil, tag+"-Add-no-error")
		r.Add(pa, pb, want)
		vAssertPolyEq(r, vPhase(c, out), want, tag+"-Add-phase-is-sum")
		vAssert(vScaleEq(out.Scale, 256, 1) && out.Level() == level, tag+"-Add-scale-level")
		vAssert(eval.Sub(a, b, out) == nil, tag+"-Sub-no-error")
		r.Sub(pa, pb, want)
		vAssertPolyEq(r, vPhase(c, out), want, tag+"-Sub-phase-is-difference")
		// product
		r.MulCoeffsBarrett(pa, pb, want)
		out2 := NewCiphertext(params, 2, level)
		vAssert(eval.Mul(a, b, out2) == nil, tag+"-Mul-no-error")
		vAssert(out2.Degree() == 2, tag+"-Mul-degree")
		vAssertPolyEq(r, vPhase(c, out2), want, tag+"-Mul-phase-is-product")
		vAssert(vScaleEq(out2.Scale, 65536, 1), tag+"-Mul-scale-is-product-of-scales")
		vAssert(eval.MulRelin(a, b, out) == nil, tag+"-MulRelin-no-error")
		vAssert(out.Degree() == 1, tag+"-MulRelin-degree")
		vAssertNoiseFree(r, vPhase(c, out), want, true, 45, tag+"-MulRelin-phase-is-product-up-to-noise")
		vAssert(vScaleEq(out.Scale, 65536, 1), tag+"-MulRelin-scale")
		// rescale
		rs := NewCiphertext(params, 1, level-1)
		vAssert(eval.Rescale(out, rs) == nil, tag+"-Rescale-no-error")
		vAssert(rs.Level() == level-1, tag+"-Rescale-consumes-one-level")
		rl := params.RingQ().AtLevel(level - 1)
		qL := r.SubRings[level].Modulus
		lhs := rl.NewPoly()
		rl.MulScalar(vPhase(c, rs), qL, lhs)
		vAssertNoiseFree(rl, lhs, vPhase(c, out), true, 60, tag+"-Rescale-divides-the-phase-by-the-last-prime")
		vAssert(vScaleEq(rs.Scale, 65536, int64(qL)), tag+"-Rescale-scale-divided-by-the-consumed-prime")
	}
	a0 := vAtomCiphertext(c, 1, 0, "z", 256)
	vAssert(eval.Rescale(a0, NewCiphertext(params, 1, 0)) != nil, "Rescale-at-level-0-is-an-error")
	vCover("C06-reached")
}
