package ckks

import (
	"github.com/tuneinsight/lattigo/v6/core/rlwe"
	"github.com/tuneinsight/lattigo/v6/ring"
)

// C09 (ckks evaluator, ring level): operations leave their inputs intact, the result does not depend on whether the
// output is a fresh object or one of the operands, and nothing leaks from the previous content of the output.
// Every ciphertext coefficient is an atom; "unchanged" and "same result" are exact polynomial identities.

func vCtEq(r *ring.Ring, a, b *rlwe.Ciphertext, id string) {
	vAssert(a.Degree() == b.Degree() && a.Level() == b.Level(), id+"-shape")
	if a.Degree() != b.Degree() || a.Level() != b.Level() {
		return
	}
	rr := r.AtLevel(a.Level())
	for i := range a.Value {
		vAssertPolyEq(rr, a.Value[i], b.Value[i], id)
	}
	vAssert(a.Scale.Cmp(b.Scale) == 0 && a.IsNTT == b.IsNTT && a.IsBatched == b.IsBatched && a.LogDimensions == b.LogDimensions, id+"-metadata")
}

type vBinOp struct {
	name string
	deg  int
	run  func(eval *Evaluator, a *rlwe.Ciphertext, b rlwe.Operand, out *rlwe.Ciphertext) error
}

func vBinOps() []vBinOp {
	return []vBinOp{
		{"Add", 1, func(e *Evaluator, a *rlwe.Ciphertext, b rlwe.Operand, o *rlwe.Ciphertext) error {
			return e.Add(a, b, o)
		}},
		{"Sub", 1, func(e *Evaluator, a *rlwe.Ciphertext, b rlwe.Operand, o *rlwe.Ciphertext) error {
			return e.Sub(a, b, o)
		}},
		{"MulRelin", 1, func(e *Evaluator, a *rlwe.Ciphertext, b rlwe.Operand, o *rlwe.Ciphertext) error {
			return e.MulRelin(a, b, o)
		}},
		{"Mul", 2, func(e *Evaluator, a *rlwe.Ciphertext, b rlwe.Operand, o *rlwe.Ciphertext) error {
			return e.Mul(a, b, o)
		}},
	}
}

func VerifH_C09_CKKSBinaryOpsAliasing() {
	c, eval := vSetup()
	params := c.Params
	r := params.RingQ()
	type cse struct {
		level  int
		sa, sb float64
		tag    string
	}
	cases := []cse{{params.MaxLevel(), 256, 256, ""}, {1, 256, 256, ""}, {params.MaxLevel(), 65536, 256, "-scales-65536-256"}, {params.MaxLevel(), 256, 65536, "-scales-256-65536"}}
	for _, cs := range cases {
		level := cs.level
		for _, op := range vBinOps() {
			if cs.tag != "" && op.name != "Add" && op.name != "Sub" {
				continue
			}
			lname := "Lmax"
			if level != params.MaxLevel() {
				lname = "L" + vItoa(level)
			}
			tag := op.name + "-" + lname + cs.tag
			a := vAtomCiphertext(c, 1, level, "a", cs.sa)
			b := vAtomCiphertext(c, 1, level, "b", cs.sb)
			a0, b0 := a.CopyNew(), b.CopyNew()
			ref := NewCiphertext(params, op.deg, level)
			vAssert(op.run(eval, a, b, ref) == nil, tag+"-no-error")
			vCtEq(r, a, a0, tag+"-first-operand-unchanged")
			vCtEq(r, b, b0, tag+"-second-operand-unchanged")
			// an output that previously held a larger ciphertext with other content (degree 2, maximum level)
			// (equal-scale cases only: the unequal-scale ones run into the same recorded defect F38)
			used := vAtomCiphertext(c, 2, params.MaxLevel(), "junk", 7)
			if cs.tag == "" && op.run(eval, a, b, used) == nil {
				vAssert(used.Level() == level, tag+"-used-output-takes-the-operand-level")
				if used.Level() == level {
					vAssertPolyEq(r.AtLevel(level), vPhase(c, used), vPhase(c, ref), tag+"-result-independent-of-previous-output-content")
					vAssert(used.Scale.Cmp(ref.Scale) == 0, tag+"-scale-independent-of-previous-output-content")
				}
			}
			// output aliased to the first / second operand
			a1 := a0.CopyNew()
			if op.deg == 2 {
				a1.Resize(2, level)
			}
			if op.run(eval, a1, b, a1) == nil {
				vCtEq(r, a1, ref, tag+"-output-aliased-to-first-operand-same-result")
			}
			b1 := b0.CopyNew()
			if op.deg == 2 {
				b1.Resize(2, level)
			}
			if op.run(eval, a, b1, b1) == nil {
				vCtEq(r, b1, ref, tag+"-output-aliased-to-second-operand-same-result")
			}
			// both operands the same object
			sq := NewCiphertext(params, op.deg, level)
			if op.run(eval, a, a, sq) == nil {
				vCtEq(r, a, a0, tag+"-same-object-twice-operand-unchanged")
			}
		}
	}
	// operands of unequal degree and unequal scales (integer ratio, either way round): a fresh output and the output
	// aliased to the degree-2 operand hold the same result
	for _, op := range vBinOps()[:2] {
		for si, sc := range [][2]float64{{256, 65536}, {65536, 256}} {
			level := params.MaxLevel()
			tag := op.name + "-degree2-and-degree1-operands-scales-" + vItoa(si)
			a2 := vAtomCiphertext(c, 2, level, "p", sc[0])
			b := vAtomCiphertext(c, 1, level, "q", sc[1])
			ref := NewCiphertext(params, 2, level)
			vAssert(op.run(eval, a2, b, ref) == nil, tag+"-no-error")
			inpl := a2.CopyNew()
			if op.run(eval, inpl, b, inpl) == nil {
				vCtEq(r, inpl, ref, tag+"-output-aliased-to-first-operand-same-result")
			}
			ref2 := NewCiphertext(params, 2, level)
			vAssert(op.run(eval, b, a2, ref2) == nil, tag+"-swapped-no-error")
			inpl2 := a2.CopyNew()
			if op.run(eval, b, inpl2, inpl2) == nil {
				vCtEq(r, inpl2, ref2, tag+"-output-aliased-to-second-operand-same-result")
			}
		}
	}
	vCover("C09-ckks-binary-reached")
}

func VerifH_C09_CKKSUnaryAndScalarOps() {
	c, eval := vSetup()
	params := c.Params
	level := params.MaxLevel()
	r := params.RingQ()
	a := vAtomCiphertext(c, 1, level, "a", 65536)
	keep := a.CopyNew()
	fresh := NewCiphertext(params, 1, level-1)
	vAssert(eval.Rescale(a, fresh) == nil, "Rescale-into-fresh-output-no-error")
	vCtEq(r, a, keep, "Rescale-leaves-its-input-unchanged")
	dirty := vAtomCiphertext(c, 1, level, "junk", 9)
	vAssert(eval.Rescale(a, dirty) == nil, "Rescale-into-used-output-no-error")
	vCtEq(r, a, keep, "Rescale-into-used-output-leaves-its-input-unchanged")
	vCtEq(r, dirty, fresh, "Rescale-result-independent-of-previous-output-content")
	vAssert(a.MetaData != fresh.MetaData && a.MetaData != dirty.MetaData, "Rescale-output-has-its-own-metadata")
	fresh.Scale = rlwe.NewScale(11)
	fresh.IsBatched = !fresh.IsBatched
	vCtEq(r, a, keep, "changing-the-metadata-of-the-Rescale-output-does-not-reach-the-input")
	// in-place rescale equals out-of-place
	inpl := keep.CopyNew()
	vAssert(eval.Rescale(inpl, inpl) == nil, "Rescale-in-place-no-error")
	ref := NewCiphertext(params, 1, level-1)
	vAssert(eval.Rescale(keep, ref) == nil, "Rescale-reference-no-error")
	vCtEq(r, inpl, ref, "Rescale-in-place-same-result")
	// integer scalar operations into a larger, used output
	low := vAtomCiphertext(c, 1, level-1, "l", 256)
	keepLow := low.CopyNew()
	for _, op := range []string{"Mul", "Add", "Sub"} {
		run := func(o *rlwe.Ciphertext) error {
			switch op {
			case "Mul":
				return eval.Mul(low, 5, o)
			case "Add":
				return eval.Add(low, 5, o)
			}
			return eval.Sub(low, 5, o)
		}
		f := NewCiphertext(params, 1, level-1)
		vAssert(run(f) == nil, op+"-scalar-into-fresh-output-no-error")
		d := vAtomCiphertext(c, 1, level, "junk"+op, 9)
		vAssert(run(d) == nil, op+"-scalar-into-larger-used-output-no-error")
		vCtEq(r, d, f, op+"-scalar-result-independent-of-previous-output-content-and-size")
		vCtEq(r, low, keepLow, op+"-scalar-leaves-its-input-unchanged")
	}
	vCover("C09-ckks-unary-reached")
}
