package ckks

import (
	"math/big"

	"github.com/tuneinsight/lattigo/v6/core/rlwe"
)

// C06 (ring level, further operations): MulThenAdd with a non-integer constant in the two-primes-per-rescaling
// precision mode (the accumulator must be lifted by the same factor as the constant), RescaleTo into a distinct
// receiver when there is nothing to divide out, SetScale by an integer ratio (no prime is consumed and the phase is
// multiplied by the ratio).

func VerifSetup_Ctx128(algebraic bool) *vCtx {
	lit := ParametersLiteral{LogN: 4, LogQ: []int{60, 45, 45, 45, 45}, LogP: []int{61}, LogDefaultScale: 90}
	if algebraic {
		lit = ParametersLiteral{LogN: 4, Q: []uint64{12289, 257, 193, 97, 769}, P: []uint64{1153}, LogDefaultScale: 90}
	}
	params, err := NewParametersFromLiteral(lit)
	if err != nil {
		panic(err)
	}
	c := &vCtx{Params: params}
	c.Kgen = NewKeyGenerator(params)
	c.Sk = rlwe.NewSecretKey(params)
	c.Dec = NewDecryptor(params, c.Sk)
	c.Eval = NewEvaluator(params, nil)
	return c
}

func VerifH_C06_MulThenAddConstant() {
	vConfig("algebraic-samplers", "1")
	for mi, c := range []*vCtx{VerifSetup_Ctx(vIsAlgebraic()), VerifSetup_Ctx128(vIsAlgebraic())} {
		c.Kgen.GenSecretKey(c.Sk)
		params := c.Params
		eval := c.Eval
		level := params.MaxLevel()
		r := params.RingQ().AtLevel(level)
		tag := []string{"one-prime-per-rescaling", "two-primes-per-rescaling"}[mi]
		// the factor by which the constant is lifted: the product of the primes one rescaling consumes
		lift := big.NewInt(1)
		for i := 0; i < params.LevelsConsumedPerRescaling(); i++ {
			lift.Mul(lift, new(big.Int).SetUint64(r.SubRings[level-i].Modulus))
		}
		a := vAtomCiphertext(c, 1, level, "a", 256)
		for ci, cst := range []interface{}{complex(0.3, -0.7), 0.25} {
			ctag := tag + "-constant" + vItoa(ci)
			acc1 := vAtomCiphertext(c, 1, level, "x", 256)
			acc2 := vAtomCiphertext(c, 1, level, "y", 256)
			p1, p2 := vPhase(c, acc1), vPhase(c, acc2)
			vAssert(eval.MulThenAdd(a, cst, acc1) == nil, ctag+"-MulThenAdd-no-error")
			vAssert(eval.MulThenAdd(a, cst, acc2) == nil, ctag+"-MulThenAdd-no-error")
			// linear in the accumulator: out1 - out2 = (acc1 - acc2)·lift ; recorded scale = scale·lift
			d, want := r.NewPoly(), r.NewPoly()
			r.Sub(vPhase(c, acc1), vPhase(c, acc2), d)
			r.Sub(p1, p2, want)
			r.MulScalarBigint(want, lift, want)
			vAssertPolyEq(r, d, want, ctag+"-accumulator-lifted-by-the-factor-of-the-constant")
			ws := new(big.Float).SetPrec(256).Mul(new(big.Float).SetInt64(256), new(big.Float).SetInt(lift))
			vAssert(acc1.Scale.Value.Cmp(ws) == 0 || !vIsAlgebraic(), ctag+"-recorded-scale-multiplied-by-the-same-factor")
		}
	}
	vCover("C06-multhenadd-constant-reached")
}

func VerifH_C06_RescaleToAndSetScale() {
	vConfig("algebraic-samplers", "1")
	c := VerifSetup_Ctx(vIsAlgebraic())
	c.Kgen.GenSecretKey(c.Sk)
	params := c.Params
	eval := c.Eval
	level := params.MaxLevel()
	r := params.RingQ().AtLevel(level)
	// RescaleTo with nothing to divide out, into a receiver that held other data
	a := vAtomCiphertext(c, 1, level, "a", 256)
	out := vAtomCiphertext(c, 1, level, "junk", 7)
	vAssert(eval.RescaleTo(a, rlwe.NewScale(256), out) == nil, "RescaleTo-at-the-requested-scale-no-error")
	vAssert(out.Level() == level && out.Scale.Cmp(a.Scale) == 0, "RescaleTo-at-the-requested-scale-level-and-scale-kept")
	if out.Level() == level {
		for i := range a.Value {
			vAssertPolyEq(r, out.Value[i], a.Value[i], "RescaleTo-at-the-requested-scale-receiver-holds-the-input")
		}
	}
	// SetScale by an integer ratio: same level, phase multiplied by the ratio
	for _, ratio := range []int64{1, 2, 3} {
		tag := "SetScale-ratio" + vItoa(int(ratio))
		b := vAtomCiphertext(c, 1, level, "b", 256)
		pb := vPhase(c, b)
		vAssert(eval.SetScale(b, rlwe.NewScale(256*ratio)) == nil, tag+"-no-error")
		vAssert(b.Level() == level, tag+"-consumes-no-level")
		vAssert(b.Scale.Cmp(rlwe.NewScale(256*ratio)) == 0, tag+"-records-the-requested-scale")
		if b.Level() == level {
			want := r.NewPoly()
			r.MulScalar(pb, uint64(ratio), want)
			vAssertPolyEq(r, vPhase(c, b), want, tag+"-phase-multiplied-by-the-ratio")
		}
	}
	vCover("C06-rescaleto-setscale-reached")
}

// Further receivers and constants: MulThenAdd without relinearisation accumulates all three components on a receiver
// that already holds a degree-2 ciphertext; Rescale into a receiver of lower degree keeps every component of its
// input; a constant with an integer real part and a fractional imaginary part is not a Gaussian integer (the product
// is lifted by the top prime and the scale records it), a Gaussian integer leaves the scale alone.
func VerifH_C06_ReceiversAndConstants() {
	c, eval := vSetup()
	params := c.Params
	level := params.MaxLevel()
	r := params.RingQ().AtLevel(level)
	a := vAtomCiphertext(c, 1, level, "a", 256)
	b := vAtomCiphertext(c, 1, level, "b", 256)
	acc := vAtomCiphertext(c, 2, level, "acc", 65536)
	pacc := vPhase(c, acc)
	want := r.NewPoly()
	r.MulCoeffsBarrett(vPhase(c, a), vPhase(c, b), want)
	r.Add(want, pacc, want)
	vAssert(eval.MulThenAdd(a, b, acc) == nil, "MulThenAdd-on-a-degree-2-receiver-no-error")
	vAssert(acc.Degree() == 2, "MulThenAdd-on-a-degree-2-receiver-keeps-degree-2")
	vAssertPolyEq(r, vPhase(c, acc), want, "MulThenAdd-accumulates-every-component-of-the-product")
	// Rescale of a degree-2 product into a degree-1 receiver
	prod := NewCiphertext(params, 2, level)
	vAssert(eval.Mul(a, b, prod) == nil, "Mul-no-error")
	out := NewCiphertext(params, 1, level)
	vAssert(eval.Rescale(prod, out) == nil, "Rescale-into-a-receiver-of-lower-degree-no-error")
	vAssert(out.Degree() == 2 && out.Level() == level-1, "Rescale-receiver-takes-the-degree-of-its-input")
	if out.Degree() == 2 && out.Level() == level-1 {
		rl := params.RingQ().AtLevel(level - 1)
		lhs := rl.NewPoly()
		rl.MulScalar(vPhase(c, out), r.SubRings[level].Modulus, lhs)
		pp := vPhase(c, prod)
		pp.Resize(level - 1)
		vAssertNoiseFree(rl, lhs, pp, true, 60, "Rescale-receiver-holds-every-component-divided-by-the-last-prime")
	}
	// constants
	for ci, cs := range []struct {
		v    complex128
		gint bool
	}{{complex(2, 0.25), false}, {complex(0, -0.75), false}, {complex(-3, 2), true}, {complex(4, 0), true}} {
		tag := "constant" + vItoa(ci)
		o := NewCiphertext(params, 1, level)
		vAssert(eval.Mul(a, cs.v, o) == nil, tag+"-Mul-no-error")
		ratio := new(big.Float).SetPrec(256).Quo(&o.Scale.Value, &a.Scale.Value)
		if cs.gint {
			vAssert(ratio.Cmp(new(big.Float).SetInt64(1)) == 0, tag+"-Gaussian-integer-constant-leaves-the-scale-unchanged")
		} else {
			vAssert(ratio.Cmp(new(big.Float).SetUint64(r.SubRings[level].Modulus)) == 0 || !vIsAlgebraic(), tag+"-fractional-constant-is-lifted-by-the-top-prime")
			vAssert(ratio.Cmp(new(big.Float).SetInt64(1)) != 0, tag+"-fractional-constant-changes-the-recorded-scale")
		}
	}
	vCover("C06-receivers-constants-reached")
}
