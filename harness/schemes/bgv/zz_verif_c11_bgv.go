package bgv

import (
	"github.com/tuneinsight/lattigo/v6/core/rlwe"
	"github.com/tuneinsight/lattigo/v6/ring"
)

// C11 (integer scheme layer): the Galois elements the bgv parameters advertise for rotations, inner sums and
// replication are sufficient (keys for exactly that list, no missing-key error) and the operations are the documented
// sums of column rotations / the row swap on the phase.

func VerifSetup_AutIndexBGV(n int, nthRoot, galEl uint64) []uint64 {
	idx, err := ring.AutomorphismNTTIndex(n, nthRoot, galEl)
	if err != nil {
		panic(err)
	}
	return idx
}

func vApplyAutNTT(r *ring.Ring, p ring.Poly, galEl uint64) ring.Poly {
	out := r.NewPoly()
	idx := VerifSetup_AutIndexBGV(r.N(), r.NthRoot(), galEl)
	for k := range r.SubRings[:r.Level()+1] {
		for j := 0; j < r.N(); j++ {
			out.Coeffs[k][j] = p.Coeffs[k][idx[j]]
		}
	}
	return out
}

func VerifH_C11_BGVRotationsAndSums() {
	vConfig("algebraic-samplers", "1")
	c := VerifSetup_Ctx(vIsAlgebraic())
	c.Kgen.GenSecretKey(c.Sk)
	params := c.Params
	level := params.MaxLevel()
	r := params.RingQ().AtLevel(level)
	cols := params.MaxSlots() >> 1
	newEval := func(gals []uint64) *Evaluator {
		return NewEvaluator(params, rlwe.NewMemEvaluationKeySet(nil, c.Kgen.GenGaloisKeysNew(gals, c.Sk)...))
	}
	ct := vAtomCiphertext(c, 1, level, "r", 3)
	phase := vPhase(c, ct)
	// column rotations by k, -k, k >= cols; row swap
	for _, k := range []int{1, -1, 3, cols + 2, -cols - 3} {
		tag := "RotateColumns" + vItoa(k)
		eval := newEval([]uint64{params.GaloisElementForColRotation(k)})
		out := NewCiphertext(params, 1, level)
		vAssert(eval.RotateColumns(ct, k, out) == nil, tag+"-advertised-element-suffices")
		want := vApplyAutNTT(r, phase, params.GaloisElement(k))
		vAssertNoiseFree(r, vPhase(c, out), want, true, 40, tag+"-is-the-automorphism-of-the-generator-power")
		vAssert(params.GaloisElementForColRotation(k) == params.GaloisElementForColRotation(k+cols), tag+"-index-is-periodic-in-the-column-count")
	}
	{
		eval := newEval([]uint64{params.GaloisElementForRowRotation()})
		out := NewCiphertext(params, 1, level)
		vAssert(eval.RotateRows(ct, out) == nil, "RotateRows-advertised-element-suffices")
		want := vApplyAutNTT(r, phase, params.GaloisElementOrderTwoOrthogonalSubgroup())
		vAssertNoiseFree(r, vPhase(c, out), want, true, 40, "RotateRows-is-the-order-two-automorphism")
	}
	// inner sums / rotate-and-add / replicate with exactly the advertised keys
	for _, bn := range [][2]int{{1, 2}, {1, 4}, {2, 2}, {1, 8}, {2, 4}, {4, 2}, {1, 16}, {2, 8}} {
		batch, n := bn[0], bn[1]
		tag := "batch" + vItoa(batch) + "-n" + vItoa(n)
		if batch*n <= 2*cols {
			eval := newEval(params.GaloisElementsForInnerSum(batch, n))
			out := NewCiphertext(params, 1, level)
			vAssert(eval.InnerSum(ct, batch, n, out) == nil, tag+"-InnerSum-advertised-elements-suffice")
			want := r.NewPoly()
			m := n
			if batch*n == 2*cols {
				m = n / 2
			}
			for i := 0; i < m; i++ {
				rot := phase
				if i != 0 {
					rot = vApplyAutNTT(r, phase, params.GaloisElement(i*batch))
				}
				r.Add(want, rot, want)
			}
			if batch*n == 2*cols && n > 1 {
				sw := vApplyAutNTT(r, want, params.GaloisElementOrderTwoOrthogonalSubgroup())
				r.Add(want, sw, want)
			}
			vAssertNoiseFree(r, vPhase(c, out), want, true, 42, tag+"-InnerSum-is-the-sum-of-the-rotated-batches")
		}
		if batch*n <= cols {
			eval := newEval(params.GaloisElementsForReplicate(batch, n))
			out := NewCiphertext(params, 1, level)
			vAssert(eval.Replicate(ct, batch, n, out) == nil, tag+"-Replicate-advertised-elements-suffice")
			want := r.NewPoly()
			for i := 0; i < n; i++ {
				rot := phase
				if i != 0 {
					rot = vApplyAutNTT(r, phase, params.GaloisElement(-i*batch))
				}
				r.Add(want, rot, want)
			}
			vAssertNoiseFree(r, vPhase(c, out), want, true, 42, tag+"-Replicate-is-the-sum-of-the-backward-rotations")
		}
	}
	vCover("C11-bgv-reached")
}
