package bgv

import "github.com/tuneinsight/lattigo/v6/core/rlwe"

// C10 (bgv layer): ShallowCopy / WithKey of the integer evaluator, in standard and scale-invariant (BFV) mode, compute
// what the original computes; an operation on a ShallowCopy leaves the original untouched and writes nothing the
// original can reach.

func VerifH_C10_BGVEvaluatorCopies() {
	vConfig("algebraic-samplers", "1")
	c := VerifSetup_Ctx(vIsAlgebraic())
	c.Kgen.GenSecretKey(c.Sk)
	params := c.Params
	rlk := c.Kgen.GenRelinearizationKeyNew(c.Sk)
	g := params.GaloisElementForColRotation(1)
	gk := c.Kgen.GenGaloisKeyNew(g, c.Sk)
	evk := rlwe.NewMemEvaluationKeySet(rlk, gk)
	level := params.MaxLevel()
	r := params.RingQ().AtLevel(level)
	for mi, si := range []bool{false, true} {
		mode := []string{"bgv", "bfv"}[mi]
		eval := NewEvaluator(params, evk, si)
		a := vAtomCiphertext(c, 1, level, "a", 3)
		b := vAtomCiphertext(c, 1, level, "b", 5)
		// the scale-invariant tensoring (basis extension to the auxiliary modulus on ciphertext values) is outside the
		// algebraic model: in BFV mode the multiplication is compared in the native validation run only
		mul := !(si && vIsAlgebraic())
		ref := NewCiphertext(params, 1, level)
		if mul {
			vAssert(eval.MulRelin(a, b, ref) == nil, mode+"-original-MulRelin-no-error")
		}
		refRot := NewCiphertext(params, 1, level)
		vAssert(eval.RotateColumns(a, 1, refRot) == nil, mode+"-original-RotateColumns-no-error")
		refAdd := NewCiphertext(params, 1, level)
		vAssert(eval.Add(a, b, refAdd) == nil, mode+"-original-Add-no-error")
		for ci, cpy := range []*Evaluator{eval.ShallowCopy(), eval.WithKey(evk), eval.ShallowCopy().WithKey(evk)} {
			name := mode + []string{"-ShallowCopy", "-WithKey", "-ShallowCopy-WithKey"}[ci]
			vAssert(cpy.ScaleInvariant == eval.ScaleInvariant, name+"-keeps-the-scale-invariant-mode")
			snap := vSnapshot(eval)
			out, outRot, outAdd := NewCiphertext(params, 1, level), NewCiphertext(params, 1, level), NewCiphertext(params, 1, level)
			vWritesBegin()
			if mul {
				vAssert(cpy.MulRelin(a, b, out) == nil, name+"-MulRelin-works-on-the-copy")
			}
			vAssert(cpy.RotateColumns(a, 1, outRot) == nil, name+"-RotateColumns-works-on-the-copy")
			vAssert(cpy.Add(a, b, outAdd) == nil, name+"-Add-works-on-the-copy")
			ws := vWritesEnd()
			for i := range out.Value {
				if mul {
					vAssertPolyEq(r, out.Value[i], ref.Value[i], name+"-MulRelin-same-result-as-original")
				}
				vAssertPolyEq(r, outRot.Value[i], refRot.Value[i], name+"-RotateColumns-same-result-as-original")
				vAssertPolyEq(r, outAdd.Value[i], refAdd.Value[i], name+"-Add-same-result-as-original")
			}
			vAssert((!mul || out.Scale.Cmp(ref.Scale) == 0) && outAdd.Scale.Cmp(refAdd.Scale) == 0, name+"-same-output-scale-as-original")
			if ci != 1 {
				vAssertUnchanged(snap, name+"-operation-on-copy-leaves-original-unchanged")
				vAssertNotWritten(ws, eval, name+"-writes-of-the-copy-are-unreachable-from-the-original")
			}
		}
	}
	vCover("C10-bgv-reached")
}
