package bgv

import "github.com/tuneinsight/lattigo/v6/core/rlwe"

// C10 (bgv layer): ShallowCopy / WithKey of the integer evaluator, in standard and scale-invariant (BFV) mode, compute
// what the original computes; an operation on a ShallowCopy leaves the original untouched and writes nothing the
// original can reach.

func VerifH_C10_BGVEvaluatorCopies() {
	vConfig("algebraic-samplers", "1")
	c := VerifSetup_Ctx(vIsAlgebraic())
	c.Kgen.GenSecretKey(c.Sk)
	params := c.Params
	rlk := c.Kgen.GenRelinearizationKeyNew(c.Sk)
	g := params.GaloisElementForColRotation(1)
	gk := c.Kgen.GenGaloisKeyNew(g, c.Sk)
	evk := rlwe.NewMemEvaluationKeySet(rlk, gk)
	level := params.MaxLevel()
	r := params.RingQ().AtLevel(level)
	for mi, si := range []bool{false, true} {
		mode := []string{"bgv", "bfv"}[mi]
		eval := NewEvaluator(params, evk, si)
		a := vAtomCiphertext(c, 1, level, "a", 3)
		b := vAtomCiphertext(c, 1, level, "b", 5)
		// the scale-invariant tensoring (basis extension to the auxiliary modulus on ciphertext values) is outside the
		// algebraic model: in BFV mode the multiplication is compared in the native validation run only
		mul := !(si && vIsAlgebraic())
		ref := NewCiphertext(params, 1, level)
		if mul {
			vAssert(eval.MulRelin(a, b, ref) == nil, mode+"-original-MulRelin-no-error")
		}
		refRot := NewCiphertext(params, 1, level)
		vAssert(eval.RotateColumns(a, 1, refRot) == nil, mode+"-original-RotateColumns-no-error")
		refAdd := NewCiphertext(params, 1, level)
		vAssert(eval.Add(a, b, refAdd) == nil, mode+"-original-Add-no-error")
		for ci, cpy := range []*Evaluator{eval.ShallowCopy(), eval.WithKey(evk), eval.ShallowCopy().WithKey(evk)} {
			name := mode + []string{"-ShallowCopy", "-WithKey", "-ShallowCopy-WithKey"}[ci]
			vAssert(cpy.ScaleInvariant == eval.ScaleInvariant, name+"-keeps-the-scale-invariant-mode")
			snap := vSnapshot(eval)
			out, outRot, outAdd := NewCiphertext(params, 1, level), NewCiphertext(params, 1, level), NewCiphertext(params, 1, level)
			vWritesBegin()
			if mul {
				vAssert(cpy.MulRelin(a, b, out) == nil, name+"-MulRelin-works-on-the-copy")
			}
			vAssert(cpy.RotateColumns(a, 1, outRot) == nil, name+"-RotateColumns-works-on-the-copy")
			vAssert(cpy.Add(a, b, outAdd) == nil, name+"-Add-works-on-the-copy")
			ws := vWritesEnd()
			for i := range out.Value {
				if mul {
					vAssertPolyEq(r, out.Value[i], ref.Value[i], name+"-MulRelin-same-result-as-original")
				}
				vAssertPolyEq(r, outRot.Value[i], refRot.Value[i], name+"-RotateColumns-same-result-as-original")
				vAssertPolyEq(r, outAdd.Value[i], refAdd.Value[i], name+"-Add-same-result-as-original")
			}
			vAssert((!mul || out.Scale.Cmp(ref.Scale) == 0) && outAdd.Scale.Cmp(refAdd.Scale) == 0, name+"-same-output-scale-as-original")
			if ci != 1 {
				vAssertUnchanged(snap, name+"-operation-on-copy-leaves-original-unchanged")
				vAssertNotWritten(ws, eval, name+"-writes-of-the-copy-are-unreachable-from-the-original")
			}
		}
	}
	vCover("C10-bgv-reached")
}

// Encoder.ShallowCopy for every ratio between the ciphertext ring degree and the plaintext ring degree (gap 1, 2, 4:
// the scratch buffers the decoder needs depend on it): the copy encodes and decodes like the original, at every
// level, and using the copy leaves the original's results unchanged.
func VerifSetup_EncoderParams(t uint64) Parameters {
	params, err := NewParametersFromLiteral(ParametersLiteral{LogN: 5, LogQ: []int{45, 35}, PlaintextModulus: t})
	if err != nil {
		panic(err)
	}
	return params
}

func VerifH_C10_BGVEncoderCopies() {
	for _, t := range []uint64{193, 97, 17} { // N_T = 32, 16, 8 for N = 32
		params := VerifSetup_EncoderParams(t)
		ecd := NewEncoder(params)
		cpy := ecd.ShallowCopy()
		n := params.MaxSlots()
		tag := "t" + vItoa(int(t))
		vals := make([]uint64, n)
		for i := range vals {
			vals[i] = uint64(3*i+1) % t
		}
		for level := 0; level <= params.MaxLevel(); level++ {
			lt := tag + "-L" + vItoa(level)
			pt, ptc := NewPlaintext(params, level), NewPlaintext(params, level)
			vAssert(ecd.Encode(vals, pt) == nil, lt+"-original-encodes")
			vAssert(!vPanics(func() { vAssert(cpy.Encode(vals, ptc) == nil, lt+"-copy-encodes") }), lt+"-copy-Encode-does-not-panic")
			same := true
			for k := 0; k <= level; k++ {
				for j := range pt.Value.Coeffs[k] {
					same = same && pt.Value.Coeffs[k][j] == ptc.Value.Coeffs[k][j]
				}
			}
			vAssert(same, lt+"-copy-encodes-like-the-original")
			got, gotc := make([]uint64, n), make([]uint64, n)
			vAssert(ecd.Decode(pt, got) == nil, lt+"-original-decodes")
			vAssert(!vPanics(func() { vAssert(cpy.Decode(pt, gotc) == nil, lt+"-copy-decodes") }), lt+"-copy-Decode-does-not-panic")
			ok := true
			for i := range vals {
				ok = ok && got[i] == vals[i] && gotc[i] == vals[i]
			}
			vAssert(ok, lt+"-original-and-copy-decode-to-the-input")
		}
	}
	vCover("C10-bgv-encoder-reached")
}
