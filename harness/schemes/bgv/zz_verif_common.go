package bgv

import (
	"math/big"

	"github.com/tuneinsight/lattigo/v6/core/rlwe"
	"github.com/tuneinsight/lattigo/v6/ring"
)

// Shared helpers of the bgv harnesses (algebraic slot model).

type vCtx struct {
	Params Parameters
	Kgen   *rlwe.KeyGenerator
	Sk     *rlwe.SecretKey
	Dec    *rlwe.Decryptor
	Eval   *Evaluator
	EvalSI *Evaluator
	Ecd    *Encoder
}

// tiny primes for the engine, realistic ones natively (same shape: 3 Q primes, 1 P prime, t = 97 / 65537)
func VerifSetup_Ctx(algebraic bool) *vCtx { return VerifSetup_CtxTier(algebraic, 0) }

// VerifSetup_CtxTier: the thorough tier runs the same harnesses on a longer chain (5 Q primes) with two auxiliary
// primes (the several-P gadget product path of the relinearisation).
func VerifSetup_CtxTier(algebraic bool, tier int) *vCtx {
	lit := ParametersLiteral{LogN: 4, LogQ: []int{45, 35, 35}, LogP: []int{40}, PlaintextModulus: 65537}
	if algebraic {
		lit = ParametersLiteral{LogN: 4, Q: []uint64{193, 257, 12289}, P: []uint64{769}, PlaintextModulus: 97}
	}
	if tier > 0 {
		lit = ParametersLiteral{LogN: 4, LogQ: []int{45, 35, 35, 35, 35}, LogP: []int{40, 40}, PlaintextModulus: 65537}
		if algebraic {
			lit = ParametersLiteral{LogN: 4, Q: []uint64{193, 257, 12289, 1153, 3137}, P: []uint64{769, 7681}, PlaintextModulus: 97}
		}
	}
	params, err := NewParametersFromLiteral(lit)
	if err != nil {
		panic(err)
	}
	c := &vCtx{Params: params}
	c.Kgen = NewKeyGenerator(params)
	c.Sk = rlwe.NewSecretKey(params)
	c.Dec = NewDecryptor(params, c.Sk)
	c.Eval = NewEvaluator(params, nil)
	c.EvalSI = NewEvaluator(params, nil, true)
	c.Ecd = NewEncoder(params)
	return c
}

func vLimbName(name string, k int) string { return name + "." + string(rune('0'+k)) }

func vFillAtoms(r *ring.Ring, p ring.Poly, name string, class int) {
	for k, s := range r.SubRings[:r.Level()+1] {
		copy(p.Coeffs[k], vAtoms(vLimbName(name, k), class, s.Modulus, r.N()))
	}
}

func vAtomCiphertext(c *vCtx, degree, level int, name string, scale uint64) *rlwe.Ciphertext {
	ct := NewCiphertext(c.Params, degree, level)
	r := c.Params.RingQ().AtLevel(level)
	for i := range ct.Value {
		vFillAtoms(r, ct.Value[i], name+string(rune('0'+i)), vUniform)
	}
	ct.Scale = c.Params.NewScale(scale)
	return ct
}

// vPhase decrypts (c0 + c1 s + c2 s^2) without decoding.
func vPhase(c *vCtx, ct *rlwe.Ciphertext) ring.Poly {
	pt := NewPlaintext(c.Params, ct.Level())
	c.Dec.Decrypt(ct, pt)
	return pt.Value
}

func vAssertPolyEq(r *ring.Ring, a, b ring.Poly, id string) {
	for k, s := range r.SubRings[:r.Level()+1] {
		vAssertEqMod(a.Coeffs[k], b.Coeffs[k], s.Modulus, id)
	}
}

func vAssertNoiseFree(r *ring.Ring, a, b ring.Poly, isNTT bool, logBound int, id string) {
	if vIsAlgebraic() {
		for k, s := range r.SubRings[:r.Level()+1] {
			vAssertNoiseFreeMod(a.Coeffs[k], b.Coeffs[k], s.Modulus, id)
		}
		return
	}
	d := r.NewPoly()
	r.Sub(a, b, d)
	if isNTT {
		r.INTT(d, d)
	}
	coeffs := make([]*big.Int, r.N())
	for i := range coeffs {
		coeffs[i] = new(big.Int)
	}
	r.PolyToBigintCentered(d, 1, coeffs)
	bound := new(big.Int).Lsh(big.NewInt(1), uint(logBound))
	ok := true
	for _, c := range coeffs {
		if c.CmpAbs(bound) >= 0 {
			ok = false
		}
	}
	vAssert(ok, id)
}

func vItoa(n int) string {
	if n == 0 {
		return "0"
	}
	neg := n < 0
	if neg {
		n = -n
	}
	s := ""
	for n > 0 {
		s = string(rune('0'+n%10)) + s
		n /= 10
	}
	if neg {
		s = "-" + s
	}
	return s
}

func vSetup() (*vCtx, *Evaluator) {
	vConfig("algebraic-samplers", "1")
	c := VerifSetup_CtxTier(vIsAlgebraic(), vTier())
	c.Kgen.GenSecretKey(c.Sk)
	rlk := c.Kgen.GenRelinearizationKeyNew(c.Sk)
	eval := c.Eval.WithKey(rlwe.NewMemEvaluationKeySet(rlk))
	return c, eval
}

