package bgv

import (
	"math/big"

	"github.com/tuneinsight/lattigo/v6/core/rlwe"
	"github.com/tuneinsight/lattigo/v6/ring"
)

// C09 (bgv evaluator): operations leave their inputs intact, the result does not depend on whether the output is a
// fresh object or one of the operands, and nothing leaks from the previous content of the output.
// Every ciphertext coefficient is an atom; "unchanged" and "same result" are exact polynomial identities.

func vCopyCt(ct *rlwe.Ciphertext) *rlwe.Ciphertext { return ct.CopyNew() }

func vCtEq(r *ring.Ring, a, b *rlwe.Ciphertext, id string) {
	vAssert(a.Degree() == b.Degree() && a.Level() == b.Level(), id+"-shape")
	if a.Degree() != b.Degree() || a.Level() != b.Level() {
		return
	}
	rr := r.AtLevel(a.Level())
	for i := range a.Value {
		vAssertPolyEq(rr, a.Value[i], b.Value[i], id)
	}
	vAssert(a.Scale.Cmp(b.Scale) == 0 && a.IsNTT == b.IsNTT && a.IsBatched == b.IsBatched, id+"-metadata")
}

type vBinOp struct {
	name string
	deg  int
	run  func(eval *Evaluator, a *rlwe.Ciphertext, b rlwe.Operand, out *rlwe.Ciphertext) error
}

func vBinOps() []vBinOp {
	return []vBinOp{
		{"Add", 1, func(e *Evaluator, a *rlwe.Ciphertext, b rlwe.Operand, o *rlwe.Ciphertext) error { return e.Add(a, b, o) }},
		{"Sub", 1, func(e *Evaluator, a *rlwe.Ciphertext, b rlwe.Operand, o *rlwe.Ciphertext) error { return e.Sub(a, b, o) }},
		{"MulRelin", 1, func(e *Evaluator, a *rlwe.Ciphertext, b rlwe.Operand, o *rlwe.Ciphertext) error { return e.MulRelin(a, b, o) }},
		{"Mul", 2, func(e *Evaluator, a *rlwe.Ciphertext, b rlwe.Operand, o *rlwe.Ciphertext) error { return e.Mul(a, b, o) }},
		{"MulRelinThenAdd", 1, func(e *Evaluator, a *rlwe.Ciphertext, b rlwe.Operand, o *rlwe.Ciphertext) error {
			return e.MulRelinThenAdd(a, b, o)
		}},
	}
}

func VerifH_C09_BinaryOpsAliasing() {
	c, eval := vSetup()
	params := c.Params
	level := params.MaxLevel()
	r := params.RingQ()
	for _, scales := range [][2]uint64{{3, 3}, {3, 5}} {
		for _, op := range vBinOps() {
			tag := op.name + "-scales" + vItoa(int(scales[0])) + "-" + vItoa(int(scales[1]))
			a := vAtomCiphertext(c, 1, level, "a", scales[0])
			b := vAtomCiphertext(c, 1, level, "b", scales[1])
			a0, b0 := vCopyCt(a), vCopyCt(b)
			// reference: freshly allocated output
			ref := NewCiphertext(params, op.deg, level)
			acc := vAtomCiphertext(c, 1, level, "acc", scales[0]*scales[1]%params.PlaintextModulus())
			if op.name == "MulRelinThenAdd" {
				ref = vCopyCt(acc)
			}
			err := op.run(eval, a, b, ref)
			vAssert(err == nil, tag+"-no-error")
			vCtEq(r, a, a0, tag+"-first-operand-unchanged")
			vCtEq(r, b, b0, tag+"-second-operand-unchanged")
			// an output object that previously held a larger-degree ciphertext with other content must decrypt alike
			if op.name != "MulRelinThenAdd" {
				used := vAtomCiphertext(c, 2, level, "junk", 1)
				if op.run(eval, a, b, used) == nil {
					rr := r.AtLevel(level)
					vAssertPolyEq(rr, vPhase(c, used), vPhase(c, ref), tag+"-result-independent-of-previous-output-content")
				}
			}
			if op.name == "MulRelinThenAdd" {
				continue
			}
			// output aliased to the first operand
			a1 := vCopyCt(a0)
			if op.deg == 2 {
				a1.Resize(2, level)
			}
			if op.run(eval, a1, b, a1) == nil {
				vCtEq(r, a1, ref, tag+"-output-aliased-to-first-operand-same-result")
			}
			// output aliased to the second operand
			b1 := vCopyCt(b0)
			if op.deg == 2 {
				b1.Resize(2, level)
			}
			if op.run(eval, a, b1, b1) == nil {
				vCtEq(r, b1, ref, tag+"-output-aliased-to-second-operand-same-result")
			}
		}
	}
	vCover("C09-binary-reached")
}

func VerifH_C09_ScalarOperandIntact() {
	c, eval := vSetup()
	params := c.Params
	level := params.MaxLevel()
	a := vAtomCiphertext(c, 1, level, "a", 3)
	out := NewCiphertext(params, 1, level)
	for _, v := range []int64{5, -7, 1 << 20} {
		s := big.NewInt(v)
		vAssert(eval.Add(a, s, out) == nil, "Add-bigint-no-error")
		vAssert(s.Cmp(big.NewInt(v)) == 0, "Add-leaves-the-big.Int-operand-unchanged")
		s2 := big.NewInt(v)
		vAssert(eval.Mul(a, s2, out) == nil, "Mul-bigint-no-error")
		vAssert(s2.Cmp(big.NewInt(v)) == 0, "Mul-leaves-the-big.Int-operand-unchanged")
	}
}

// Unary operations and scalar operations into a distinct output: the input (data, level, scale, every metadata field)
// is unchanged afterwards, the output's metadata is its own (changing it does not reach the input), and an output
// that was allocated larger or held other data carries no residue: same result as into a fresh output.
func VerifH_C09_UnaryAndScalarOps() {
	c, eval := vSetup()
	params := c.Params
	level := params.MaxLevel()
	r := params.RingQ().AtLevel(level)
	a := vAtomCiphertext(c, 1, level, "a", 3)
	keep := vCopyCt(a)
	// Rescale into distinct outputs (fresh at the lower level; previously larger and holding other data)
	fresh := NewCiphertext(params, 1, level-1)
	vAssert(eval.Rescale(a, fresh) == nil, "Rescale-into-fresh-output-no-error")
	vCtEq(r, a, keep, "Rescale-leaves-its-input-unchanged")
	dirty := vAtomCiphertext(c, 1, level, "junk", 9)
	vAssert(eval.Rescale(a, dirty) == nil, "Rescale-into-used-output-no-error")
	vCtEq(r, a, keep, "Rescale-into-used-output-leaves-its-input-unchanged")
	vCtEq(r, dirty, fresh, "Rescale-result-independent-of-previous-output-content")
	vAssert(a.MetaData != fresh.MetaData && a.MetaData != dirty.MetaData, "Rescale-output-has-its-own-metadata")
	fresh.Scale = params.NewScale(11)
	fresh.IsBatched = !fresh.IsBatched
	vCtEq(r, a, keep, "changing-the-metadata-of-the-Rescale-output-does-not-reach-the-input")
	// scalar operations into a larger, used output
	low := vAtomCiphertext(c, 1, level-1, "l", 3)
	keepLow := vCopyCt(low)
	for _, op := range []string{"Mul", "Add", "Sub"} {
		run := func(o *rlwe.Ciphertext) error {
			switch op {
			case "Mul":
				return eval.Mul(low, uint64(5), o)
			case "Add":
				return eval.Add(low, uint64(5), o)
			}
			return eval.Sub(low, uint64(5), o)
		}
		f := NewCiphertext(params, 1, level-1)
		vAssert(run(f) == nil, op+"-scalar-into-fresh-output-no-error")
		d := vAtomCiphertext(c, 1, level, "junk"+op, 9)
		vAssert(run(d) == nil, op+"-scalar-into-larger-used-output-no-error")
		vCtEq(r, d, f, op+"-scalar-result-independent-of-previous-output-content-and-size")
		vCtEq(r, low, keepLow, op+"-scalar-leaves-its-input-unchanged")
	}
	// scalar operations on a degree-2 (not relinearised) ciphertext into a distinct output: every component arrives
	deg2 := vAtomCiphertext(c, 2, level, "d", 3)
	keep2 := vCopyCt(deg2)
	for _, op := range []string{"Mul", "Add", "Sub"} {
		run := func(in, o *rlwe.Ciphertext) error {
			switch op {
			case "Mul":
				return eval.Mul(in, uint64(5), o)
			case "Add":
				return eval.Add(in, uint64(5), o)
			}
			return eval.Sub(in, uint64(5), o)
		}
		ref := vCopyCt(keep2)
		vAssert(run(ref, ref) == nil, op+"-scalar-degree2-in-place-no-error")
		f := NewCiphertext(params, 2, level)
		vAssert(run(deg2, f) == nil, op+"-scalar-degree2-into-fresh-output-no-error")
		vCtEq(r, f, ref, op+"-scalar-degree2-distinct-output-same-result-as-in-place")
		u := vAtomCiphertext(c, 2, level, "junk2"+op, 9)
		vAssert(run(deg2, u) == nil, op+"-scalar-degree2-into-used-output-no-error")
		vCtEq(r, u, ref, op+"-scalar-degree2-result-independent-of-previous-output-content")
		vCtEq(r, deg2, keep2, op+"-scalar-degree2-leaves-its-input-unchanged")
	}
	vCover("C09-unary-reached")
}
