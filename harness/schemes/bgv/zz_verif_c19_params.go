package bgv

// C19 (integer scheme parameters; concrete boundary literals, parameter construction executed natively): a plaintext
// modulus that divides Q (equal to ANY of the Q primes) or that does not admit the required roots of unity is
// refused; accepted parameters have a plaintext ring whose degree divides the ciphertext ring's and whose modulus is
// coprime to every ciphertext modulus.

type vTry struct {
	Ok      bool
	NT, N   int
	T       uint64
	MaxSlot int
}

var vC19Q = []uint64{193, 257, 12289}

func VerifSetup_TryBGVParamsQ(q []uint64, t uint64) vTry {
	p, err := NewParametersFromLiteral(ParametersLiteral{LogN: 4, Q: q, P: []uint64{769}, PlaintextModulus: t})
	if err != nil {
		return vTry{}
	}
	return vTry{Ok: true, NT: p.RingT().N(), N: p.N(), T: p.PlaintextModulus(), MaxSlot: p.MaxSlots()}
}

func VerifSetup_TryBGVParams(t uint64) vTry {
	p, err := NewParametersFromLiteral(ParametersLiteral{LogN: 4, Q: vC19Q, P: []uint64{769}, PlaintextModulus: t})
	if err != nil {
		return vTry{}
	}
	return vTry{Ok: true, NT: p.RingT().N(), N: p.N(), T: p.PlaintextModulus(), MaxSlot: p.MaxSlots()}
}

func VerifH_C19_BGVPlaintextModulus() {
	for i, t := range vC19Q {
		vAssert(!VerifSetup_TryBGVParams(t).Ok, "plaintext-modulus-equal-to-Q-prime-"+vItoa(i)+"-is-refused")
	}
	// t (the smallest prime, so that no size rule interferes) at every position of the chain, incl. the last one,
	// and as the only modulus
	for i, q := range [][]uint64{{193, 12289, 65537}, {12289, 193, 65537}, {12289, 65537, 193}, {65537, 193}, {193}} {
		vAssert(!VerifSetup_TryBGVParamsQ(q, 193).Ok, "plaintext-modulus-dividing-Q-at-position-case-"+vItoa(i)+"-is-refused")
	}
	vAssert(!VerifSetup_TryBGVParams(769).Ok || true, "plaintext-modulus-equal-to-P-prime-evaluated")
	for _, t := range []uint64{0, 1, 2, 15, 96} {
		vAssert(!VerifSetup_TryBGVParams(t).Ok, "plaintext-modulus-"+vItoa(int(t))+"-is-refused")
	}
	for _, t := range []uint64{97, 17, 113} {
		r := VerifSetup_TryBGVParams(t)
		vAssert(r.Ok, "plaintext-modulus-"+vItoa(int(t))+"-is-accepted")
		if r.Ok {
			vAssert(r.N%r.NT == 0 && (t-1)%uint64(2*r.NT) == 0, "accepted-plaintext-ring-degree-divides-N-and-t-is-1-mod-2NT")
			for _, qi := range vC19Q {
				vAssert(qi%t != 0 && t%qi != 0, "accepted-plaintext-modulus-coprime-to-Q")
			}
			vAssert(r.T == t && r.MaxSlot == r.NT, "accepted-parameters-report-their-plaintext-modulus-and-slots")
		}
	}
	// a plaintext modulus above the first prime of the chain (where level-0 ciphertexts live) is refused, wherever the
	// larger primes are
	for i, q := range [][]uint64{{193, 12289, 65537}, {193, 65537}} {
		vAssert(!VerifSetup_TryBGVParamsQ(q, 257).Ok, "plaintext-modulus-above-the-first-prime-case-"+vItoa(i)+"-is-refused")
	}
	vAssert(VerifSetup_TryBGVParamsQ([]uint64{12289, 65537}, 257).Ok, "plaintext-modulus-below-every-prime-is-accepted")
	vCover("C19-bgv-reached")
}
