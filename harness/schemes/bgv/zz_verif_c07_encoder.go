package bgv

import (
	"math/big"

	"github.com/tuneinsight/lattigo/v6/core/rlwe"
	"github.com/tuneinsight/lattigo/v6/ring"
)

// C07 (integer encoder).
//  * plaintext-ring level, algebraic slot model: DecodeRingT(EncodeRingT(v)) = v for every vector length 0..n and
//    scale, unspecified slots decode to zero, and encodings multiply slot-wise (every slot value a free element of Z_t,
//    the real index permutation and the real NTT over t as its definition matrix);
//  * vector-length handling of Encode/Decode for batched and coefficient encodings, uint64 and int64 (concrete).
// The scalar pipeline t -> Q -> t (lifting, scaling by t^-1, basis extension back) is checked at word level in
// VerifH_C07_ScalarPipeline.

func VerifH_C07_RingTRoundTrip() {
	c := VerifSetup_Ctx(vIsAlgebraic())
	params := c.Params
	ecd := c.Ecd
	ringT := params.RingT()
	T := params.PlaintextModulus()
	n := ringT.N()
	for _, ln := range []int{0, 1, 5, n - 1, n} {
		for _, sc := range []uint64{1, 3, T - 1} {
			tag := "len" + vItoa(ln) + "-scale" + vItoa(int(sc))
			vals := vAtoms("v"+vItoa(ln), vMessage, T, ln)
			pT := ringT.NewPoly()
			// dirty buffer: unspecified slots must still decode to zero
			copy(pT.Coeffs[0], vAtoms("junk", vJunk, T, n))
			vAssert(ecd.EncodeRingT(vals, rlwe.NewScale(sc), pT) == nil, tag+"-EncodeRingT-no-error")
			out := make([]uint64, n)
			vAssert(ecd.DecodeRingT(pT, rlwe.NewScale(sc), out) == nil, tag+"-DecodeRingT-no-error")
			vAssertEqMod(out[:ln], vals, T, tag+"-ringT-roundtrip")
			vAssertEqMod(out[ln:], make([]uint64, n-ln), T, tag+"-unspecified-slots-decode-to-zero")
		}
	}
	// too long a vector is refused
	vAssert(ecd.EncodeRingT(make([]uint64, n+1), rlwe.NewScale(1), ringT.NewPoly()) != nil, "EncodeRingT-refuses-too-long-vector")
	// slot-wise product
	a, b := vAtoms("a", vMessage, T, n), vAtoms("b", vMessage, T, n)
	pa, pb, pc := ringT.NewPoly(), ringT.NewPoly(), ringT.NewPoly()
	vAssert(ecd.EncodeRingT(a, rlwe.NewScale(3), pa) == nil && ecd.EncodeRingT(b, rlwe.NewScale(5), pb) == nil, "product-encode-no-error")
	ringT.NTT(pa, pa)
	ringT.NTT(pb, pb)
	ringT.MulCoeffsBarrett(pa, pb, pc)
	ringT.INTT(pc, pc)
	out := make([]uint64, n)
	vAssert(ecd.DecodeRingT(pc, rlwe.NewScale(15%T), out) == nil, "product-decode-no-error")
	want := make([]uint64, n)
	ringT.SubRings[0].MulCoeffsBarrett(a, b, want)
	vAssertEqMod(out, want, T, "product-of-encodings-decodes-to-slotwise-product")
	vCover("C07-ringT-reached")
}

// Vector-length handling through the public Encode/Decode, both domains, both integer types (concrete values incl.
// the boundary integers).
func VerifH_C07_VectorLengths() {
	c := VerifSetup_Ctx(false)
	params := c.Params
	ecd := c.Ecd
	T := params.PlaintextModulus()
	n := params.MaxSlots()
	half := int64(T >> 1)
	bound := int64((T + 1) / 2)
	u := []uint64{0, 1, T - 1, T, T + 1, 1 << 63, ^uint64(0), (T - 1) / 2, (T + 1) / 2, 12345678901234567}
	s := []int64{0, 1, -1, half, -half, half + 1, -half - 1, int64(T), -int64(T), -1 << 63, 1<<63 - 1, 42}
	for _, batched := range []bool{true, false} {
		for _, level := range []int{0, params.MaxLevel(), -1} {
			// (level -1: the maximum level again, with a plaintext kept out of the NTT domain)
			ntt := level >= 0
			if !ntt {
				level = params.MaxLevel()
			}
			for _, ln := range []int{0, 1, 3, len(u), n} {
				tag := "batched" + vItoa(vB2I(batched)) + "-L" + vItoa(level) + "-len" + vItoa(ln)
				if !ntt {
					tag += "-plaintext-outside-the-NTT-domain"
				}
				pt := NewPlaintext(params, level)
				pt.IsBatched = batched
				pt.IsNTT = ntt
				pt.Scale = rlwe.NewScale(7)
				in := make([]uint64, ln)
				for i := range in {
					in[i] = u[i%len(u)]
				}
				vAssert(ecd.Encode(in, pt) == nil, tag+"-Encode-uint64-no-error")
				out := make([]uint64, ln)
				vAssert(!vPanics(func() { vAssert(ecd.Decode(pt, out) == nil, tag+"-Decode-uint64-no-error") }), tag+"-Decode-uint64-into-short-vector-does-not-panic")
				ok := true
				for i := range in {
					ok = ok && out[i] == in[i]%T
				}
				vAssert(ok, tag+"-uint64-roundtrip-mod-t")
				full := make([]uint64, n)
				vAssert(ecd.Decode(pt, full) == nil, tag+"-Decode-full-no-error")
				ok = true
				for i := ln; i < n; i++ {
					ok = ok && full[i] == 0
				}
				vAssert(ok, tag+"-unspecified-slots-decode-to-zero")
				ins := make([]int64, ln)
				for i := range ins {
					ins[i] = s[i%len(s)]
				}
				vAssert(ecd.Encode(ins, pt) == nil, tag+"-Encode-int64-no-error")
				outs := make([]int64, ln)
				vAssert(!vPanics(func() { vAssert(ecd.Decode(pt, outs) == nil, tag+"-Decode-int64-no-error") }), tag+"-Decode-int64-into-short-vector-does-not-panic")
				ok = true
				for i := range ins {
					d := (outs[i] - ins[i]%int64(T)) % int64(T)
					ok = ok && d == 0 && outs[i] <= bound && outs[i] >= -bound
				}
				vAssert(ok, tag+"-int64-roundtrip-congruent-and-centred")
			}
		}
	}
	vCover("C07-lengths-reached")
}

func vB2I(b bool) int {
	if b {
		return 1
	}
	return 0
}

// ---- word level: the scalar pipeline of Encode followed by Decode on one coefficient / slot carrying an arbitrary
// 64-bit (resp. signed) input, everything else concrete.  NTT/INTT (over t and over the q_i) are replaced by the
// identity stand-ins of the ring harnesses; MRed, BRedAdd and multSum enter through their exact contracts (discharged
// on the real kernels in C01/C02 and re-discharged here for the moduli used); the float64 correction of the basis
// extension back to t runs under the rounding-error model; CRT enters through vCRTLift.

type vWCase struct {
	Params Parameters
	Ecd    *Encoder
}

func VerifSetup_CtxW(i int) *vWCase {
	lits := []ParametersLiteral{
		{LogN: 4, LogQ: []int{55, 45, 45}, PlaintextModulus: 65537},
		{LogN: 4, LogQ: []int{60, 60}, PlaintextModulus: 1099511627873}, // 40-bit t = 1 mod 32
		{LogN: 4, Q: []uint64{193, 257, 12289}, PlaintextModulus: 97},
	}
	params, err := NewParametersFromLiteral(lits[i])
	if err != nil {
		panic(err)
	}
	return &vWCase{Params: params, Ecd: NewEncoder(params)}
}

func vStubScalarKernels() {
	const pfx = "(*github.com/tuneinsight/lattigo/v6/ring.SubRing)."
	vStub("MRed", "contract:mred")
	vStub("BRedAdd", "contract:bredadd")
	vStub("multSum", "call:vStubMultSum")
	vStub(pfx+"NTT", "call:vStubNTT")
	vStub(pfx+"INTT", "call:vStubNTT")
	vStub(pfx+"NTTLazy", "call:vStubNTTLazy")
	vStub(pfx+"INTTLazy", "call:vStubINTTLazy")
}

// vPipelineGhost adds the CRT fact for the basis extension Q -> t performed by Decode at level > 0: bufQ holds the
// residues of xs = x + floor(Q/2), x the (small) integer the scaled plaintext represents.
func vPipelineGhost(w *vWCase, level int, x *big.Int, id string) {
	if level == 0 {
		return
	}
	ecd := w.Ecd
	rq := w.Params.RingQ().AtLevel(level)
	sum, mods := ring.VerifGhostSum(rq, ecd.bufQ, ecd.paramsQP[level])
	xs := new(big.Int).Add(x, ecd.qHalf[level])
	vCRTLift(new(big.Int).Sub(sum, xs), mods, []uint64{w.Params.PlaintextModulus()}, id)
}

func VerifH_C07_ScalarPipeline() {
	vConfig("backend", "int")
	vStubScalarKernels()
	nsets := 2
	if vTier() > 0 {
		nsets = 3
	}
	for set := 0; set < nsets; set++ {
		w := VerifSetup_CtxW(set)
		params, ecd := w.Params, w.Ecd
		T := params.PlaintextModulus()
		n := params.MaxSlots()
		for level := 0; level <= params.MaxLevel(); level++ {
			for _, batched := range []bool{true, false} {
				for _, sc := range []uint64{1, 7} {
					tag := "set" + vItoa(set) + "-L" + vItoa(level) + "-batched" + vItoa(vB2I(batched)) + "-scale" + vItoa(int(sc))
					pt := NewPlaintext(params, level)
					pt.IsBatched = batched
					pt.Scale = rlwe.NewScale(sc)
					// unsigned
					in := make([]uint64, n)
					in[0] = vU64("u")
					vAssert(ecd.Encode(in, pt) == nil, tag+"-Encode-uint64-no-error")
					out := make([]uint64, n)
					vAssert(ecd.Decode(pt, out) == nil, tag+"-Decode-uint64-no-error")
					bT, bS := new(big.Int).SetUint64(T), new(big.Int).SetUint64(sc)
					mu := new(big.Int).Mod(new(big.Int).SetUint64(in[0]), bT)
					vPipelineGhost(w, level, new(big.Int).Mod(new(big.Int).Mul(mu, bS), bT), tag+"-CRT-reconstruction")
					vAssert(out[0] == mu.Uint64(), tag+"-uint64-decodes-to-input-mod-t")
					// a plaintext kept outside the NTT domain (IsNTT = false) goes through the same pipeline without the
					// transforms
					if sc == 1 && (level == 0 || level == params.MaxLevel()) {
						ptc := NewPlaintext(params, level)
						ptc.IsBatched = batched
						ptc.IsNTT = false
						ptc.Scale = rlwe.NewScale(sc)
						inc := make([]uint64, n)
						inc[0] = vU64("v")
						vAssert(ecd.Encode(inc, ptc) == nil, tag+"-coefficient-domain-plaintext-Encode-no-error")
						outc := make([]uint64, n)
						outc[1] = 12345 // what the output held before must not matter
						vAssert(ecd.Decode(ptc, outc) == nil, tag+"-coefficient-domain-plaintext-Decode-no-error")
						mc := new(big.Int).Mod(new(big.Int).SetUint64(inc[0]), bT)
						vPipelineGhost(w, level, new(big.Int).Mod(new(big.Int).Mul(mc, bS), bT), tag+"-CRT-reconstruction")
						vAssert(outc[0] == mc.Uint64(), tag+"-coefficient-domain-plaintext-decodes-to-input-mod-t")
					}
					// signed, non-negative and negative separately (the sign bit selects the branch-free formula)
					// (quick tier: the signed path at unit scale on the lowest and highest level; the scaled signed queries
					// need minutes each and run in the thorough tier)
					if vTier() == 0 && (sc != 1 || (level != 0 && level != params.MaxLevel())) {
						continue
					}
					for _, neg := range []bool{false, true} {
						ins := make([]int64, n)
						ins[0] = vI64("s")
						vAssume((ins[0] < 0) == neg)
						vAssert(ecd.Encode(ins, pt) == nil, tag+"-Encode-int64-no-error")
						outs := make([]int64, n)
						vAssert(ecd.Decode(pt, outs) == nil, tag+"-Decode-int64-no-error")
						m := new(big.Int).Mod(big.NewInt(0).SetInt64(ins[0]), bT)
						vPipelineGhost(w, level, new(big.Int).Mod(new(big.Int).Mul(m, bS), bT), tag+"-CRT-reconstruction")
						half := int64((T + 1) / 2)
						vAssert(outs[0] <= half && outs[0] >= -half, tag+"-int64-decoded-value-centred")
						vAssert(vCong(big.NewInt(0).SetInt64(outs[0]), big.NewInt(0).SetInt64(ins[0]), T), tag+"-int64-decodes-to-congruent-value")
					}
				}
			}
		}
	}
	vCover("C07-pipeline-reached")
}
