package bgv

import (
	"math/big"

	"github.com/tuneinsight/lattigo/v6/core/rlwe"
)

// C05: the integer evaluator is a ring homomorphism on the phase.  With phi(ct) = c0 + c1 s + c2 s^2 the lattigo
// BGV convention is T*phi = scale*m + T*e, so the documented operations are the ring identities
//   Add/Sub (equal scales):   phi_out = phi_0 +- phi_1,                      scale_out = scale
//   Add (different scales):   phi_out = r0*phi_0 + r1*phi_1 with r0*s0 = r1*s1 = scale_out (mod t)
//   Mul / MulRelin:           phi_out = T * phi_0 * phi_1  (up to key-switch noise), scale_out = s0*s1 (mod t)
//   Rescale:                  q_L * phi_out = phi_in - delta,                scale_out = s_in / q_L (mod t)
// checked on the real evaluator with every ciphertext/key coefficient an atom; scales are concrete residues mod t.

func VerifH_C05_AddSub() {
	c, eval := vSetup()
	params := c.Params
	t := params.PlaintextModulus()
	for level := 0; level <= params.MaxLevel(); level++ {
		r := params.RingQ().AtLevel(level)
		tag := "L" + vItoa(level)
		a := vAtomCiphertext(c, 1, level, "a", 3)
		b := vAtomCiphertext(c, 1, level, "b", 3)
		pa, pb := vPhase(c, a), vPhase(c, b)
		out := NewCiphertext(params, 1, level)
		vAssert(eval.Add(a, b, out) == nil, tag+"-Add-no-error")
		want := r.NewPoly()
		r.Add(pa, pb, want)
		vAssertPolyEq(r, vPhase(c, out), want, tag+"-Add-phase-is-sum")
		vAssert(out.Scale.Uint64() == 3 && out.Level() == level && out.Degree() == 1, tag+"-Add-scale-level-degree")
		vAssert(eval.Sub(a, b, out) == nil, tag+"-Sub-no-error")
		r.Sub(pa, pb, want)
		vAssertPolyEq(r, vPhase(c, out), want, tag+"-Sub-phase-is-difference")
		// different scales: phase_out * (scale_out)^-1 must equal phi_a/s_a + phi_b/s_b  <=>  with r0 = scale_out/s_a, r1 = scale_out/s_b
		b2 := vAtomCiphertext(c, 1, level, "b", 5)
		vAssert(eval.Add(a, b2, out) == nil, tag+"-Add-mismatched-scales-no-error")
		so := out.Scale.Uint64() % t
		vAssert(so != 0, tag+"-Add-mismatched-scales-output-scale-invertible")
		r0 := so * vInvMod(3, t) % t
		r1 := so * vInvMod(5, t) % t
		ta, tb := r.NewPoly(), r.NewPoly()
		r.MulScalar(pa, vCenter(r0, t), ta)
		r.MulScalar(pb, vCenter(r1, t), tb)
		_ = ta
		_ = tb
		// r0, r1 are only determined modulo t: the identity is checked on the message level (mod t) through the
		// scale relation r0*s_a = r1*s_b = scale_out (mod t), and on the ring level with the evaluator's own r0, r1
		g0, g1, _ := eval.matchScalesBinary(3, 5)
		vAssert(g0*3%t == g1*5%t && g0*3%t == so, tag+"-Add-mismatched-scales-relation-mod-t")
		r.MulScalar(pa, g0, ta)
		r.MulScalar(pb, g1, tb)
		r.Add(ta, tb, want)
		vAssertPolyEq(r, vPhase(c, out), want, tag+"-Add-mismatched-scales-phase")
		// operands of unequal degree and scale into a degree-2 receiver that held other data before
		d2 := vAtomCiphertext(c, 2, level, "d", 5)
		pd := vPhase(c, d2)
		for oi, ops := range [][2]*rlwe.Ciphertext{{a, d2}, {d2, a}} {
			name := tag + []string{"-Add-degree1-plus-degree2", "-Add-degree2-plus-degree1"}[oi] + "-mismatched-scales-into-a-used-receiver"
			used := vAtomCiphertext(c, 2, level, "junk", 9)
			vAssert(eval.Add(ops[0], ops[1], used) == nil, name+"-no-error")
			sa, sb := ops[0].Scale.Uint64(), ops[1].Scale.Uint64()
			h0, h1, _ := eval.matchScalesBinary(sa, sb)
			vAssert(h0*sa%t == h1*sb%t && h0*sa%t == used.Scale.Uint64()%t, name+"-scale-relation-mod-t")
			p0, p1 := pa, pd
			if oi == 1 {
				p0, p1 = pd, pa
			}
			r.MulScalar(p0, h0, ta)
			r.MulScalar(p1, h1, tb)
			r.Add(ta, tb, want)
			vAssert(used.Degree() == 2, name+"-degree")
			if used.Degree() == 2 {
				vAssertPolyEq(r, vPhase(c, used), want, name+"-phase")
			}
		}
	}
	vCover("C05-addsub-reached")
}

func vInvMod(a, t uint64) uint64 {
	// t prime
	r, e, b := uint64(1), t-2, a%t
	for ; e > 0; e >>= 1 {
		if e&1 == 1 {
			r = r * b % t
		}
		b = b * b % t
	}
	return r
}

func vCenter(x, t uint64) uint64 { return x }

func VerifH_C05_MulRescale() {
	c, eval := vSetup()
	params := c.Params
	t := params.PlaintextModulus()
	for level := 1; level <= params.MaxLevel(); level++ {
		r := params.RingQ().AtLevel(level)
		tag := "L" + vItoa(level)
		a := vAtomCiphertext(c, 1, level, "a", 3)
		b := vAtomCiphertext(c, 1, level, "b", 5)
		pa, pb := vPhase(c, a), vPhase(c, b)
		want := r.NewPoly()
		r.MulCoeffsBarrett(pa, pb, want)
		r.MulScalar(want, t, want)
		// degree-2 product
		out2 := NewCiphertext(params, 2, level)
		vAssert(eval.Mul(a, b, out2) == nil, tag+"-Mul-no-error")
		vAssert(out2.Degree() == 2 && out2.Level() == level, tag+"-Mul-degree-level")
		vAssertPolyEq(r, vPhase(c, out2), want, tag+"-Mul-phase-is-T-times-product")
		vAssert(out2.Scale.Uint64() == 15%t, tag+"-Mul-scale-is-product")
		// relinearised product
		out := NewCiphertext(params, 1, level)
		vAssert(eval.MulRelin(a, b, out) == nil, tag+"-MulRelin-no-error")
		vAssert(out.Degree() == 1, tag+"-MulRelin-degree")
		vAssertNoiseFree(r, vPhase(c, out), want, true, 40, tag+"-MulRelin-phase-is-T-times-product-up-to-noise")
		// explicit relinearisation of the degree-2 result
		out3 := NewCiphertext(params, 1, level)
		vAssert(eval.Relinearize(out2, out3) == nil, tag+"-Relinearize-no-error")
		vAssertNoiseFree(r, vPhase(c, out3), want, true, 40, tag+"-Relinearize-preserves-phase-up-to-noise")
		// rescale: q_L * phi_out = phi_in - delta ; scale_out = scale_in / q_L mod t
		rs := NewCiphertext(params, 1, level-1)
		vAssert(eval.Rescale(out, rs) == nil, tag+"-Rescale-no-error")
		vAssert(rs.Level() == level-1, tag+"-Rescale-level")
		rl := params.RingQ().AtLevel(level - 1)
		qL := r.SubRings[level].Modulus
		lhs := rl.NewPoly()
		rl.MulScalar(vPhase(c, rs), qL, lhs)
		vAssertNoiseFree(rl, lhs, vPhase(c, out), true, 60, tag+"-Rescale-divides-the-phase-by-the-last-prime")
		vAssert(rs.Scale.Uint64()*(qL%t)%t == out.Scale.Uint64()%t, tag+"-Rescale-scale-divided-by-last-prime-mod-t")
	}
	// documented failure: rescale at level 0
	a0 := vAtomCiphertext(c, 1, 0, "z", 1)
	o0 := NewCiphertext(params, 1, 0)
	vAssert(eval.Rescale(a0, o0) != nil, "Rescale-at-level-0-is-an-error")
	// documented failure: relinearise without key
	d2 := vAtomCiphertext(c, 2, 1, "w", 1)
	vAssert(c.Eval.Relinearize(d2, NewCiphertext(params, 1, 1)) != nil, "Relinearize-without-key-is-an-error")
	vCover("C05-mul-reached")
}

// Scalar and vector operands: every integer kind (uint64, int64 incl. negative, int, *big.Int incl. > t) multiplies /
// adds the centred residue modulo t; a vector operand is encoded at the first operand's scale and level whatever the
// output held before; the output takes the level of the operands even if it was allocated higher.
func VerifH_C05_ScalarAndVectorOperands() {
	c, eval := vSetup()
	params := c.Params
	t := params.PlaintextModulus()
	bt := new(big.Int).SetUint64(t)
	level := 1
	r := params.RingQ().AtLevel(level)
	a := vAtomCiphertext(c, 1, level, "a", 3)
	pa := vPhase(c, a)
	centred := func(v *big.Int) *big.Int {
		x := new(big.Int).Mod(v, bt)
		if x.Cmp(new(big.Int).Rsh(bt, 1)) == 1 {
			x.Sub(x, bt)
		}
		return x
	}
	type sc struct {
		name string
		op   interface{}
		val  *big.Int
	}
	huge, _ := new(big.Int).SetString("123456789012345678901234567890", 10)
	scalars := []sc{
		{"uint64-5", uint64(5), big.NewInt(5)},
		{"uint64-t-plus-2", t + 2, new(big.Int).SetUint64(t + 2)},
		{"int64-minus-3", int64(-3), big.NewInt(-3)},
		{"int64-min", int64(-1 << 63), big.NewInt(-1 << 63)},
		{"int-minus-7", -7, big.NewInt(-7)},
		{"bigint-huge", huge, huge},
		{"bigint-negative", big.NewInt(-11), big.NewInt(-11)},
	}
	for _, s := range scalars {
		k := centred(s.val)
		want := r.NewPoly()
		r.MulScalarBigint(pa, k, want)
		// output allocated at a higher level and with another scale: it must take the operand's level
		out := NewCiphertext(params, 1, params.MaxLevel())
		out.Scale = params.NewScale(9)
		vAssert(eval.Mul(a, s.op, out) == nil, "Mul-"+s.name+"-no-error")
		vAssert(out.Level() == level, "Mul-"+s.name+"-output-takes-the-operand-level")
		if out.Level() == level {
			vAssertPolyEq(r, vPhase(c, out), want, "Mul-"+s.name+"-phase-is-the-centred-scalar-times-phase")
		}
		vAssert(out.Scale.Uint64()%t == 3, "Mul-"+s.name+"-scale-unchanged")
		// addition of a scalar: the constant scale*k (mod t), lifted with t^-1, is added to the phase
		out2 := NewCiphertext(params, 1, params.MaxLevel())
		out2.Scale = params.NewScale(9)
		vAssert(eval.Add(a, s.op, out2) == nil, "Add-"+s.name+"-no-error")
		vAssert(out2.Level() == level && out2.Scale.Uint64()%t == 3, "Add-"+s.name+"-level-and-scale")
		// the constant added to every NTT slot: centred(k·scale mod t)·t^-1 (the centred representative: the lift of a
		// residue is only defined up to a multiple of t, i.e. up to noise)
		kc := centred(new(big.Int).Mul(s.val, new(big.Int).SetUint64(a.Scale.Uint64())))
		kc.Mul(kc, eval.tInvModQ[level])
		r.AddScalarBigint(pa, kc, want)
		if out2.Level() == level {
			vAssertPolyEq(r, vPhase(c, out2), want, "Add-"+s.name+"-phase-is-phase-plus-the-encoded-constant")
		}
	}
	// vector operands
	vec := make([]uint64, params.MaxSlots())
	for i := range vec {
		vec[i] = uint64(5*i+2) % t
	}
	ref := NewPlaintext(params, level)
	ref.Scale = a.Scale
	if err := c.Ecd.Encode(vec, ref); err != nil {
		panic(err)
	}
	want := r.NewPoly()
	for oi, out := range []*rlwe.Ciphertext{NewCiphertext(params, 1, level), NewCiphertext(params, 1, params.MaxLevel())} {
		out.Scale = params.NewScale(9) // what the output held before must not matter
		tag := "vector-operand-out" + vItoa(oi)
		vAssert(eval.Add(a, vec, out) == nil, tag+"-Add-no-error")
		r.Add(pa, ref.Value, want)
		if out.Level() == level {
			vAssertPolyEq(r, vPhase(c, out), want, tag+"-Add-adds-the-vector-encoded-at-the-operand-scale")
		}
		vAssert(out.Level() == level && out.Scale.Uint64()%t == 3, tag+"-Add-level-and-scale")
		out.Scale = params.NewScale(9)
		vAssert(eval.Sub(a, vec, out) == nil, tag+"-Sub-no-error")
		r.Sub(pa, ref.Value, want)
		if out.Level() == level {
			vAssertPolyEq(r, vPhase(c, out), want, tag+"-Sub-subtracts-the-vector-encoded-at-the-operand-scale")
		}
	}
	// a vector shorter than the number of slots stands for the vector padded with zeros (whatever the encoder's buffers
	// held before)
	{
		short := 5
		padded := make([]uint64, params.MaxSlots())
		copy(padded, vec[:short])
		refP := NewPlaintext(params, level)
		refP.Scale = a.Scale
		if err := c.Ecd.Encode(padded, refP); err != nil {
			panic(err)
		}
		out := NewCiphertext(params, 1, level)
		vAssert(eval.Add(a, vec[:short], out) == nil, "short-vector-operand-Add-no-error")
		r.Add(pa, refP.Value, want)
		vAssertPolyEq(r, vPhase(c, out), want, "short-vector-operand-Add-adds-the-zero-padded-vector")
		refP.Scale = params.NewScale(1)
		if err := c.Ecd.Encode(padded, refP); err != nil {
			panic(err)
		}
		vAssert(eval.Mul(a, vec[:short], out) == nil, "short-vector-operand-Mul-no-error")
		r.MulCoeffsBarrett(pa, refP.Value, want)
		r.MulScalar(want, t, want)
		vAssertPolyEq(r, vPhase(c, out), want, "short-vector-operand-Mul-multiplies-by-the-zero-padded-vector")
		ptS := NewPlaintext(params, level)
		ptS.Scale = params.NewScale(1)
		vAssert(c.Ecd.Encode(vec[:short], ptS) == nil, "short-vector-Encode-no-error")
		vAssertPolyEq(r, ptS.Value, refP.Value, "short-vector-Encode-is-the-encoding-of-the-zero-padded-vector")
	}
	// product with a vector operand: phase_out = T·phase·pt1 with the vector encoded at scale 1 (so that the scale of
	// the result is the scale of the ciphertext), the input ciphertext - data and metadata - is left as it was
	{
		a0 := a.CopyNew()
		ref1 := NewPlaintext(params, level)
		ref1.Scale = params.NewScale(1)
		if err := c.Ecd.Encode(vec, ref1); err != nil {
			panic(err)
		}
		out := NewCiphertext(params, 1, params.MaxLevel())
		out.Scale = params.NewScale(9)
		vAssert(eval.Mul(a, vec, out) == nil, "vector-operand-Mul-no-error")
		vAssert(a.Scale.Uint64() == 3 && a.Level() == level, "vector-operand-Mul-leaves-the-scale-and-level-of-its-input")
		for i := range a.Value {
			vAssertPolyEq(r, a.Value[i], a0.Value[i], "vector-operand-Mul-leaves-its-input-unchanged")
		}
		vAssert(out.Level() == level && out.Scale.Uint64()%t == 3, "vector-operand-Mul-level-and-scale")
		r.MulCoeffsBarrett(pa, ref1.Value, want)
		r.MulScalar(want, t, want)
		if out.Level() == level {
			vAssertPolyEq(r, vPhase(c, out), want, "vector-operand-Mul-multiplies-by-the-vector-encoded-at-unit-scale")
		}
		// signed vector entries far outside [-t, t): reduced modulo t like the residues they represent
		svec := make([]int64, params.MaxSlots())
		uvec := make([]uint64, params.MaxSlots())
		for i := range svec {
			svec[i] = []int64{-3*int64(t) - 1, 5*int64(t) + 2, -1 << 62, 1<<62 + 7}[i%4]
			uvec[i] = uint64(((svec[i] % int64(t)) + int64(t)) % int64(t))
		}
		refS := NewPlaintext(params, level)
		refS.Scale = a.Scale
		if err := c.Ecd.Encode(uvec, refS); err != nil {
			panic(err)
		}
		outS := NewCiphertext(params, 1, level)
		vAssert(eval.Add(a, svec, outS) == nil, "signed-vector-operand-Add-no-error")
		r.Add(pa, refS.Value, want)
		vAssertPolyEq(r, vPhase(c, outS), want, "signed-vector-operand-Add-adds-the-residues-modulo-t")
	}
	// explicit scale matching: afterwards both operands carry the same scale, each phase was multiplied by the factor
	// its recorded scale was multiplied by, and the operands then add up
	{
		x := vAtomCiphertext(c, 1, level, "x", 3)
		y := vAtomCiphertext(c, 1, level, "y", 7)
		px, py := vPhase(c, x), vPhase(c, y)
		eval.MatchScalesAndLevel(x, y)
		vAssert(x.Scale.Uint64()%t == y.Scale.Uint64()%t, "MatchScalesAndLevel-scales-match-afterwards")
		fx := x.Scale.Uint64() % t * vInvMod(3, t) % t
		fy := y.Scale.Uint64() % t * vInvMod(7, t) % t
		wx, wy := r.NewPoly(), r.NewPoly()
		r.MulScalarBigint(px, centred(new(big.Int).SetUint64(fx)), wx)
		r.MulScalarBigint(py, centred(new(big.Int).SetUint64(fy)), wy)
		vAssertPolyEq(r, vPhase(c, x), wx, "MatchScalesAndLevel-first-phase-multiplied-by-the-factor-of-its-recorded-scale")
		vAssertPolyEq(r, vPhase(c, y), wy, "MatchScalesAndLevel-second-phase-multiplied-by-the-factor-of-its-recorded-scale")
	}
	vCover("C05-scalar-vector-reached")
}

// Scale recorded by the scale-invariant (BFV-style) product: documented as s0·s1·(-Q_level)^-1 mod t, with Q_level the
// modulus at the level the product is carried out.  The helper is decided for a symbolic level (every level of the
// chain); the evaluator methods are run at every level on zero-valued operands (bookkeeping only: the scale-invariant
// data path - exact lift to the extended basis, integer tensor, division by Q - is not a polynomial identity modulo
// the primes and is outside the algebraic model).
func VerifH_C05_ScaleInvariantRecordedScale() {
	vConfig("algebraic-samplers", "1")
	c := VerifSetup_Ctx(vIsAlgebraic())
	params := c.Params
	t := params.PlaintextModulus()
	bt := new(big.Int).SetUint64(t)
	want := func(s0, s1 uint64, level int) uint64 {
		q := new(big.Int).Mod(params.RingQ().AtLevel(level).Modulus(), bt).Uint64()
		return s0 % t * (s1 % t) % t * vInvMod(t-q, t) % t
	}
	c.Kgen.GenSecretKey(c.Sk)
	rlk := c.Kgen.GenRelinearizationKeyNew(c.Sk)
	eval := c.EvalSI.WithKey(rlwe.NewMemEvaluationKeySet(rlk))
	for lvl := 0; lvl <= params.MaxLevel(); lvl++ {
		tag := "L" + vItoa(lvl)
		a, b := NewCiphertext(params, 1, lvl), NewCiphertext(params, 1, lvl)
		a.Scale, b.Scale = params.NewScale(3), params.NewScale(5)
		out := NewCiphertext(params, 2, lvl)
		vAssert(eval.Mul(a, b, out) == nil, tag+"-scale-invariant-Mul-no-error")
		vAssert(out.Degree() == 2 && out.Level() == lvl, tag+"-scale-invariant-Mul-degree-level")
		vAssert(out.Scale.Uint64() == want(3, 5, lvl), tag+"-scale-invariant-Mul-records-the-documented-scale")
		out1 := NewCiphertext(params, 1, lvl)
		vAssert(eval.MulRelin(a, b, out1) == nil, tag+"-scale-invariant-MulRelin-no-error")
		vAssert(out1.Degree() == 1 && out1.Level() == lvl, tag+"-scale-invariant-MulRelin-degree-level")
		vAssert(out1.Scale.Uint64() == want(3, 5, lvl), tag+"-scale-invariant-MulRelin-records-the-documented-scale")
	}
	level := vInt("level")
	vAssume(level >= 0 && level <= params.MaxLevel())
	for l := 0; l <= params.MaxLevel(); l++ {
		if level != l { // case split of the symbolic level (the modulus table is indexed by it)
			continue
		}
		for _, sc := range [][2]uint64{{1, 1}, {3, 5}, {t - 1, 2}} {
			got := MulScaleInvariant(params, params.NewScale(sc[0]), params.NewScale(sc[1]), l)
			vAssert(got.Uint64() == want(sc[0], sc[1], l), "MulScaleInvariant-is-s0-s1-over-minus-Q-at-the-level")
		}
	}
	vCover("C05-scale-invariant-scale-reached")
}
